(* Model of chython/algorithms/fingerprints/{linear,morgan,__init__}.py (C17).
   Python sets are lists here (compared as sets: `set_z` / `set_paths` give the sorted duplicate-free form);
   dicts are association lists in insertion order.  The hash function is a parameter `h : list Z -> Z`
   (hash of a tuple of ints) wherever the theorems are meant for ANY hash; the executable instance is
   Model.PyHash.hash_ztuple. *)
From Coq Require Import ZArith List Bool.
From Model Require Import PyBase Graph PyHash.
Import ListNotations.
Open Scope Z_scope.

Definition path := list Z.
Definition len_z {A} (l : list A) : Z := Z.of_nat (length l).

(* ---------------------------------------------------------------------------------------------------- *)
(* Python tuple comparison  a > b  on tuples of ints *)
Fixpoint tuple_gtb (a b : list Z) : bool :=
  match a, b with
  | x :: r, y :: s => if x =? y then tuple_gtb r s else y <? x
  | _ :: _, [] => true
  | [], _ => false
  end.

(* frag if frag > rev else rev, with rev = frag[::-1] *)
Definition canon (p : path) : path := let r := rev p in if tuple_gtb p r then p else r.

(* ---------------------------------------------------------------------------------------------------- *)
(* LinearFingerprint._chains *)

(* var = [now + (x,) for x in bonds[now[-1]] if x not in now] *)
Definition extend (g : mol) (now : path) : list path :=
  map (fun x => now ++ [x]) (filter (fun x => negb (zmem x now)) (nbr_ids g (last now 0))).

(* the `while queue:` loop with the deque as a list; arr is the sequence of arr.add(...) arguments in order
   (duplicates kept: every chain of two or more atoms is added once from each end).  fuel = number of
   popleft() calls allowed + 1; None = fuel exhausted (never for the fuel computed by chains_fuel) *)
Fixpoint chains_loop (fuel : nat) (g : mol) (lo hi : Z) (queue : list path) (arr : list path) : option (list path) :=
  match fuel with
  | O => None
  | S f =>
      match queue with
      | [] => Some arr
      | now :: q =>
          let var := extend g now in
          match var with
          | [] => chains_loop f g lo hi q arr                                   (* if var: *)
          | v0 :: _ =>
              let q' := if len_z v0 <? hi then q ++ var else q in               (* queue.extend(var) *)
              let arr' := if lo <=? len_z v0 then arr ++ map canon var else arr in
              chains_loop f g lo hi q' arr'
          end
      end
  end.

Definition singles (g : mol) : list path := map (fun x => [x]) (ids g).

(* the whole function, as the sequence of additions to arr *)
Definition chains_seq_loop (fuel : nat) (g : mol) (lo hi : Z) : option (list path) :=
  if lo =? 1 then
    if hi =? 1 then Some (singles g)
    else chains_loop fuel g lo hi (singles g) (singles g)
  else chains_loop fuel g lo hi (singles g) [].

(* The same enumeration generation by generation (a FIFO queue processes all paths of k atoms before those of
   k+1 atoms): what one element of the queue pushes and what it adds to arr. *)
Definition pushes (g : mol) (hi : Z) (now : path) : list path :=
  if len_z now + 1 <? hi then extend g now else [].
Definition emits (g : mol) (lo : Z) (now : path) : list path :=
  if lo <=? len_z now + 1 then map canon (extend g now) else [].
Fixpoint bfs_rounds (g : mol) (lo hi : Z) (n : nat) (q : list path) : list path :=
  match n with
  | O => []
  | S n' => flat_map (emits g lo) q ++ bfs_rounds g lo hi n' (flat_map (pushes g hi) q)
  end.
(* fuel that lets chains_loop run to the end: 1 + total number of queue elements over n generations *)
Fixpoint fuel_needed (g : mol) (hi : Z) (n : nat) (q : list path) : nat :=
  match n with
  | O => 1
  | S n' => (length q + fuel_needed g hi n' (flat_map (pushes g hi) q))%nat
  end.
Definition chains_fuel (g : mol) (hi : Z) : nat := fuel_needed g hi (length (ids g)) (singles g).

(* a simple path has at most |atoms| atoms, so |atoms| generations exhaust the queue *)
Definition chains_seq (g : mol) (lo hi : Z) : list path :=
  let s := singles g in
  if lo =? 1 then
    if hi =? 1 then s else s ++ bfs_rounds g lo hi (length (ids g)) s
  else bfs_rounds g lo hi (length (ids g)) s.

Definition path_eqb (a b : path) : bool := list_eqb Z.eqb a b.
Fixpoint pmem (p : path) (l : list path) : bool :=
  match l with [] => false | q :: r => path_eqb p q || pmem p r end.
(* set(...) as a list: first occurrences, in order *)
Fixpoint dedup_paths_acc (seen : list path) (l : list path) : list path :=
  match l with
  | [] => []
  | p :: r => if pmem p seen then dedup_paths_acc seen r else p :: dedup_paths_acc (p :: seen) r
  end.
Definition dedup_paths (l : list path) : list path := dedup_paths_acc [] l.

(* _chains(min_radius, max_radius) as a duplicate-free list (Python: a set) *)
Definition chains (g : mol) (lo hi : Z) : list path := dedup_paths (chains_seq g lo hi).

(* ---------------------------------------------------------------------------------------------------- *)
(* Fingerprints._atom_identifiers: hash((atom.isotope or 0, atom.atomic_number, atom.charge, atom.is_radical)) *)
Definition atom_identifier (a : atom) : Z :=
  tuple_hash_lanes [hash_int (match a_iso a with Some i => i | None => 0 end); hash_int (a_num a);
                    hash_int (a_chg a); hash_bool (a_rad a)].
Definition atom_identifiers (g : mol) : list (Z * Z) := map (fun na => (fst na, atom_identifier (snd na))) (m_atoms g).

(* dict lookup d[n]; a missing key (KeyError) cannot happen for the atoms of a well-formed molecule: 0 *)
Definition ident (d : list (Z * Z)) (n : Z) : Z := match zget d n with Some v => v | None => 0 end.
(* int(bonds[x][y]) *)
Definition bond_order (g : mol) (x y : Z) : Z := match bond_of g x y with Some b => b_ord b | None => 0 end.

(* ---------------------------------------------------------------------------------------------------- *)
(* LinearFingerprint._fragments, over an atom-identifier function idf and a bond-order function ord *)
Section Fragments.
  Variable idf : Z -> Z.
  Variable ord : Z -> Z -> Z.

  (* var = [atoms[frag[0]]]; for x, y in zip(frag, frag[1:]): var.append(int(bonds[x][y])); var.append(atoms[y]) *)
  Fixpoint frag_tail (x : Z) (r : list Z) : list Z :=
    match r with
    | [] => []
    | y :: r' => ord x y :: idf y :: frag_tail y r'
    end.
  Definition frag_var (frag : path) : list Z :=
    match frag with [] => [] | x :: r => idf x :: frag_tail x r end.

  (* (key, stored chain): if var > rev_var: out[var].append(frag) else: out[rev_var].append(frag[::-1]) *)
  Definition frag_entry (frag : path) : list Z * path :=
    let var := frag_var frag in
    let rv := rev var in
    if tuple_gtb var rv then (var, frag) else (rv, rev frag).
  Definition frag_key (frag : path) : list Z := fst (frag_entry frag).

  (* defaultdict(list): out[k].append(v) *)
  Fixpoint dict_append (d : list (list Z * list path)) (k : list Z) (v : path) : list (list Z * list path) :=
    match d with
    | [] => [(k, [v])]
    | (k', vs) :: r => if list_eqb Z.eqb k k' then (k', vs ++ [v]) :: r else (k', vs) :: dict_append r k v
    end.
  Definition fragments_of (chs : list path) : list (list Z * list path) :=
    fold_left (fun d frag => dict_append d (fst (frag_entry frag)) (snd (frag_entry frag))) chs [].
End Fragments.

(* _fragments over a given identifier dictionary (atoms = self._atom_identifiers is read once, before the loop).
   The correspondence check feeds the identifiers observed on the implementation here (after comparing them with
   atom_identifiers g), so that the 4-lane hash of every atom is not recomputed for every case. *)
Definition fragments_with (idd : list (Z * Z)) (g : mol) (lo hi : Z) : list (list Z * list path) :=
  fragments_of (ident idd) (bond_order g) (chains g lo hi).
Definition fragments (g : mol) (lo hi : Z) : list (list Z * list path) :=
  fragments_with (atom_identifiers g) g lo hi.

(* ---------------------------------------------------------------------------------------------------- *)
(* linear_hash_set:
     if not number_bit_pairs: number_bit_pairs = 999_999_999
     {hash(( *tpl, cnt)) for tpl, count in fragments.items() for cnt in range(min(len(count), number_bit_pairs))} *)
Definition cap (nbp : Z) : Z := if nbp =? 0 then 999999999 else nbp.
Definition fragment_hashes (h : list Z -> Z) (nbp : Z) (e : list Z * list path) : list Z :=
  map (fun cnt => h (fst e ++ [cnt])) (zrange 0 (Z.min (len_z (snd e)) (cap nbp))).
Definition linear_hashes (h : list Z -> Z) (nbp : Z) (frs : list (list Z * list path)) : list Z :=
  flat_map (fragment_hashes h nbp) frs.
Definition linear_hash_list (h : list Z -> Z) (g : mol) (lo hi nbp : Z) : list Z :=
  linear_hashes h nbp (fragments g lo hi).

(* ---------------------------------------------------------------------------------------------------- *)
(* linear_bit_set / morgan_bit_set: folding of one hash value into bit indices
     mask = length - 1; log = int(log2(length))
     active_bits.add(tpl & mask)
     if number_active_bits == 2: active_bits.add((tpl >> log) & mask)
     elif number_active_bits > 2:
         for _ in range(1, number_active_bits): tpl >>= log; active_bits.add(tpl & mask)
   Z.land / Z.shiftr are the two's-complement operations on unbounded integers, as Python's & and >> are.
   int(log2(length)) = Z.log2 length for 0 < length < 2^49-1 (the float rounds up at 2^49-1). *)
Fixpoint shift_loop (n : nat) (log mask tpl : Z) : list Z :=
  match n with
  | O => []
  | S n' => let tpl' := Z.shiftr tpl log in Z.land tpl' mask :: shift_loop n' log mask tpl'
  end.
Definition fold_bits (length nab : Z) (tpl : Z) : list Z :=
  let mask := length - 1 in
  let log := Z.log2 length in
  Z.land tpl mask ::
  (if nab =? 2 then [Z.land (Z.shiftr tpl log) mask]
   else if 2 <? nab then shift_loop (Z.to_nat (nab - 1)) log mask tpl
   else []).
(* math.log2 raises ValueError (math domain error) for length <= 0, before anything else is computed *)
Definition bit_list (length nab : Z) (hashes : list Z) : pyres (list Z) :=
  if length <=? 0 then Err ValueError else Ok (flat_map (fold_bits length nab) hashes).

(* morgan_bit_set: log2(length) is evaluated before morgan_hash_set is called (whose asserts may fail) *)
Definition bit_list_of (length nab : Z) (hs : pyres (list Z)) : pyres (list Z) :=
  if length <=? 0 then Err ValueError
  else match hs with
       | Ok l => bit_list length nab l
       | Err e => Err e
       end.

Definition linear_bit_list (h : list Z -> Z) (g : mol) (lo hi length nab nbp : Z) : pyres (list Z) :=
  bit_list length nab (linear_hash_list h g lo hi nbp).

(* ---------------------------------------------------------------------------------------------------- *)
(* MorganFingerprint._morgan_hash_dict *)
Definition pair_leb (p q : Z * Z) : bool :=
  if fst p =? fst q then snd p <=? snd q else fst p <? fst q.
Fixpoint insert_pair (p : Z * Z) (l : list (Z * Z)) : list (Z * Z) :=
  match l with
  | [] => [p]
  | q :: r => if pair_leb p q then p :: l else q :: insert_pair p r
  end.
(* sorted(...) of (int, int) tuples *)
Definition sort_pairs (l : list (Z * Z)) : list (Z * Z) := fold_right insert_pair [] l.
Definition flatten_pairs (l : list (Z * Z)) : list Z := flat_map (fun p => [fst p; snd p]) l.

Section Morgan.
  Variable h : list Z -> Z.

  (* hash((tpl, *(x for x in sorted((int(b), identifiers[ngb]) for ngb, b in bonds[idx].items()) for x in x))) *)
  Definition morgan_atom (g : mol) (d : list (Z * Z)) (idx tpl : Z) : Z :=
    h (tpl :: flatten_pairs (sort_pairs (map (fun nb => (b_ord (snd nb), ident d (fst nb))) (nbrs g idx)))).
  Definition morgan_step (g : mol) (d : list (Z * Z)) : list (Z * Z) :=
    map (fun it => (fst it, morgan_atom g d (fst it) (snd it))) d.
  (* out = [identifiers]; for _ in range(1, max_radius): identifiers = ...; out.append(identifiers) *)
  Fixpoint morgan_iter (g : mol) (n : nat) (d : list (Z * Z)) : list (list (Z * Z)) :=
    d :: match n with O => [] | S n' => morgan_iter g n' (morgan_step g d) end.

  (* asserts (AssertionError is reported as OtherError); out[-(max_radius - min_radius + 1):] *)
  Definition morgan_hash_dict_with (idd : list (Z * Z)) (g : mol) (lo hi : Z) : pyres (list (list (Z * Z))) :=
    if lo <? 1 then Err OtherError
    else if hi <? lo then Err OtherError
    else
      let out := morgan_iter g (Z.to_nat (hi - 1)) idd in
      Ok (skipn (length out - Z.to_nat (hi - lo + 1)) out).
  (* identifiers = self._atom_identifiers is read after the two asserts *)
  Definition morgan_hash_dict (g : mol) (lo hi : Z) : pyres (list (list (Z * Z))) :=
    morgan_hash_dict_with (atom_identifiers g) g lo hi.

  (* {x for x in self._morgan_hash_dict(...) for x in x.values()} *)
  Definition morgan_hash_list (g : mol) (lo hi : Z) : pyres (list Z) :=
    match morgan_hash_dict g lo hi with
    | Ok ds => Ok (flat_map (map snd) ds)
    | Err e => Err e
    end.
  Definition morgan_bit_list (g : mol) (lo hi length nab : Z) : pyres (list Z) :=
    bit_list_of length nab (morgan_hash_list g lo hi).
End Morgan.

(* ---------------------------------------------------------------------------------------------------- *)
(* A faster evaluation of Model.PyHash.hash_ztuple for vm_compute: `mod 2^64` as a bit mask instead of a division
   (FingerprintProofs.hash_ztuple_fast_eq: equal on every argument).  The correspondence check instantiates the hash
   parameter h of the model with it; nothing else uses it. *)
Definition MASK64 : Z := 18446744073709551615.          (* 2^64 - 1 *)
Definition m64 (x : Z) : Z := Z.land x MASK64.
Definition rotl31_fast (x : Z) : Z := Z.lor (m64 (Z.shiftl x 31)) (Z.shiftr x 33).
Definition tuple_round_fast (acc lane : Z) : Z :=
  let acc1 := m64 (acc + m64 lane * XXPRIME_2) in m64 (rotl31_fast acc1 * XXPRIME_1).
Definition tuple_hash_lanes_fast (lanes : list Z) : Z :=
  let acc := fold_left tuple_round_fast lanes XXPRIME_5 in
  let acc' := m64 (acc + Z.lxor (Z.of_nat (length lanes)) (Z.lxor XXPRIME_5 3527539)) in
  if acc' =? M64 - 1 then 1546275796 else to_s64 acc'.
Definition hash_ztuple_fast (l : list Z) : Z := tuple_hash_lanes_fast (map hash_int l).

(* ---------------------------------------------------------------------------------------------------- *)
(* Specification vocabulary (used by the theorems) *)

(* adjacency as a relation, and simple paths: non-empty, atoms of the molecule, consecutive atoms bonded, no
   repetition *)
Definition edge (g : mol) (x y : Z) : Prop := In y (nbr_ids g x).
Fixpoint linked (g : mol) (p : path) : Prop :=
  match p with
  | x :: ((y :: _) as r) => edge g x y /\ linked g r
  | _ => True
  end.
Definition simple_path (g : mol) (p : path) : Prop :=
  p <> [] /\ (forall x, In x p -> In x (ids g)) /\ linked g p /\ NoDup p.
(* the orientation _chains keeps: first atom number greater than the last one (single atoms trivially) *)
Definition canonical_dir (p : path) : Prop := length p = 1%nat \/ hd 0 p > last p 0.
(* which chain lengths (number of atoms) _chains(lo, hi) yields, for ANY integers lo, hi; for 1 <= lo <= hi this
   is lo <= L <= hi *)
Definition yields (lo hi L : Z) : Prop :=
  (L = 1 /\ lo = 1) \/
  (2 <= L /\ lo <= L /\ (L <= hi \/ L = 2) /\ ~ (lo = 1 /\ hi = 1)).

(* renumbering of the atoms: Graph.remap *)
Definition rename_mol (s : Z -> Z) (g : mol) : mol :=
  mkMol (map (fun na => (s (fst na), snd na)) (m_atoms g))
        (map (fun nl => (s (fst nl), map (fun mb => (s (fst mb), snd mb)) (snd nl))) (m_adj g)).

(* ---------------------------------------------------------------------------------------------------- *)
(* canonical list form of a Python set for the comparison with the implementation: sorted, no duplicates *)
Section Sort.
  Variable A : Type.
  Variable leb : A -> A -> bool.
  Fixpoint merge (l1 : list A) : list A -> list A :=
    fix merge_aux (l2 : list A) : list A :=
      match l1, l2 with
      | [], _ => l2
      | _, [] => l1
      | a1 :: r1, a2 :: r2 => if leb a1 a2 then a1 :: merge r1 l2 else a2 :: merge_aux r2
      end.
  Fixpoint merge_pairs (ls : list (list A)) : list (list A) :=
    match ls with
    | a :: b :: r => merge a b :: merge_pairs r
    | _ => ls
    end.
  Fixpoint merge_all (fuel : nat) (ls : list (list A)) : list A :=
    match ls with
    | [] => []
    | [a] => a
    | _ => match fuel with O => concat ls | S f => merge_all f (merge_pairs ls) end
    end.
  Definition msort (l : list A) : list A := merge_all (length l) (map (fun x => [x]) l).
  Fixpoint uniq_adjacent (l : list A) : list A :=
    match l with
    | a :: ((b :: _) as r) => if leb b a then uniq_adjacent r else a :: uniq_adjacent r
    | _ => l
    end.
End Sort.
Fixpoint tuple_leb (a b : list Z) : bool :=
  match a, b with
  | [], _ => true
  | _ :: _, [] => false
  | x :: r, y :: s => if x =? y then tuple_leb r s else x <? y
  end.
Definition set_z (l : list Z) : list Z := uniq_adjacent Z Z.leb (msort Z Z.leb l).
Definition set_paths (l : list path) : list path := uniq_adjacent path tuple_leb (msort path tuple_leb l).
