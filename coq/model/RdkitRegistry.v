(* C20 -- model of the stereo registry the bridge translates labels against: MoleculeStereo.tetrahedrons and
   MoleculeStereo.stereogenic_tetrahedrons (chython/algorithms/stereo.py), over the shared molecule type Model.Graph.mol
   (atoms and adjacency as insertion-ordered association lists, exactly _atoms / _bonds).

     tetrahedrons:  for n, atom in self.atoms():
                        if atom == C and not atom.charge and not atom.is_radical:          (C = 6)
                            env = self._bonds[n]
                            if all(b == 1 for b in env.values()):
                                if sum(int(b) for b in env.values()) > 4: continue
                                tetra.append(n)
     stereogenic_tetrahedrons:  for n in self.tetrahedrons:
                        if any(not atoms[x].is_forming_single_bonds for x in bonds[n]): continue
                        env = tuple(x for x in bonds[n] if atoms[x] != H)                   (H = 1)
                        if len(env) in (3, 4): tetrahedrons[n] = env

   is_forming_single_bonds is the generated column e_single of Gen.Elements. *)
From Coq Require Import ZArith List Bool.
From Model Require Import PyBase Graph PeriodicTable.
From Gen Require Import Elements.
Import ListNotations.
Open Scope Z_scope.

Definition is_tetrahedron (g : mol) (n : Z) : bool :=
  match atom_of g n with
  | Some a => (a_num a =? 6) && (a_chg a =? 0) && negb (a_rad a) &&
              forallb (fun mb => b_ord (snd mb) =? 1) (nbrs g n) &&
              negb (4 <? Z.of_nat (List.length (nbrs g n)))          (* all orders are 1: the sum is the count *)
  | None => false
  end.

Definition single_former (g : mol) (x : Z) : bool :=
  match atom_of g x with
  | Some a => match from_number (a_num a) with Some e => e_single e | None => false end
  | None => false
  end.

Definition is_hydrogen (g : mol) (x : Z) : bool :=
  match atom_of g x with Some a => a_num a =? 1 | None => false end.

Definition stereogenic_entry (g : mol) (n : Z) : option (list Z) :=
  if is_tetrahedron g n then
    if forallb (single_former g) (nbr_ids g n) then
      let env := filter (fun x => negb (is_hydrogen g x)) (nbr_ids g n) in
      if (Z.of_nat (List.length env) =? 3) || (Z.of_nat (List.length env) =? 4) then Some env else None
    else None
  else None.

(* the dictionary, in the order of self.atoms() *)
Definition stereogenic_tetrahedrons_of (g : mol) : list (Z * list Z) :=
  flat_map (fun n => match stereogenic_entry g n with Some e => [(n, e)] | None => [] end) (ids g).

(* ------------------------------------------------------------------------------------------------ *)
(* the adjacency from_rdkit_molecule builds: atoms first (empty neighbour dictionaries, in order), then for every RDKit bond
   mol.add_bond(n, m, order):  self._bonds[n][m] = self._bonds[m][n] = bond   -- appended at the end of both inner dictionaries *)
Definition add_nbr (adj : list (Z * list (Z * bond))) (n m : Z) (b : bond) : list (Z * list (Z * bond)) :=
  map (fun nl => if fst nl =? n then (fst nl, snd nl ++ [(m, b)]) else nl) adj.
Definition add_bond_adj (adj : list (Z * list (Z * bond))) (x : Z * Z * Z) : list (Z * list (Z * bond)) :=
  let '(n, m, o) := x in add_nbr (add_nbr adj n m (mkBond o None)) m n (mkBond o None).
Definition build_adj (nums : list Z) (bonds : list (Z * Z * Z)) : list (Z * list (Z * bond)) :=
  fold_left add_bond_adj bonds (map (fun n => (n, [])) nums).

(* the neighbours (with bond orders) a bond list gives an atom, in the order of the list *)
Definition incident (n : Z) (bonds : list (Z * Z * Z)) : list (Z * Z) :=
  flat_map (fun x => let '(a, b, o) := x in if a =? n then [(b, o)] else if b =? n then [(a, o)] else []) bonds.
