(* C05 -- Thiele.thiele(fix_tautomers=False), algorithm level (chython/algorithms/aromatics/thiele.py), statement by statement:
   ring eligibility from the SSSR (sizes 4..7, elements C N O S B P with at most 3 non-special neighbours, all-sp2 rings,
   rings with one pyrrole-type atom, 5-rings with 3 sp2 atoms = "freaks"), removal of quinoid atoms (double bond leaving the
   skeleton), pruning of dangling atoms, the ring count of the remaining skeleton, writing of the aromatic bonds.
   INPUTS of the model (not modelled here): the SSSR of the molecule (C06), the rings `_sssr` finds again in the pruned
   skeleton, and which freak rings match a freak_rules query (SMARTS engine).  fix_tautomers=True (the default) additionally
   moves a hydrogen between ring nitrogens before the quinone stage; that search is NOT modelled: the correspondence runs
   the real code with fix_tautomers=False.  fix_stereo() at the end is outside (bond orders and atoms are compared).
   dict n -> set = association list in insertion order, the sets as lists without duplicates. *)
From Coq Require Import ZArith List Bool Lia.
From Model Require Import PyBase Graph Kekule.
Import ListNotations.
Open Scope Z_scope.

(* atom.hybridization as calc_labels sets it: 4 aromatic, 3 sp, 2 sp2, 1 sp3 (order 8 does not count) *)
Definition hybridization (l : nbl) : Z :=
  let l' := filter (fun mb => negb (ord_is 8 mb)) l in
  if existsb (ord_is 4) l' then 4
  else if existsb (ord_is 3) l' || (2 <=? countb (ord_is 2) l') then 3
  else if existsb (ord_is 2) l' then 2 else 1.
Definition hyb (g : mol) (n : Z) : Z := hybridization (nbrs g n).
Definition nsc_deg (g : mol) (n : Z) : Z := neighbors (nbrs g n).                  (* len(not_special_connectivity[n]) *)
Definition deg_all (g : mol) (n : Z) : Z := Z.of_nat (List.length (nbrs g n)).       (* len(bonds[n]) *)
Definition num_of (g : mol) (n : Z) : Z := match atom_of g n with Some a => a_num a | None => 0 end.
Definition chg_of (g : mol) (n : Z) : Z := match atom_of g n with Some a => a_chg a | None => 0 end.

(* defaultdict(set): rings[n].add(m) *)
Fixpoint ds_add (d : adjl) (n m : Z) : adjl :=
  match d with
  | [] => [(n, [m])]
  | (k, l) :: r => if k =? n then (k, if zmem m l then l else l ++ [m]) :: r else (k, l) :: ds_add r n m
  end.
Definition ds_add2 (d : adjl) (n m : Z) : adjl := ds_add (ds_add d n m) m n.
(* n, *_, m = ring; add(n, m); for n, m in zip(ring, ring[1:]): add(n, m) *)
Definition ring_pairs (r : list Z) : list (Z * Z) :=
  match r with [] => [] | n :: _ => (n, last r n) :: zip_next r end.
Definition add_ring (d : adjl) (r : list Z) : adjl := fold_left (fun d nm => ds_add2 d (fst nm) (snd nm)) (ring_pairs r) d.

Record th1 := mkTh1 { t_rings : adjl; t_tetra : list (list Z); t_pyr : list Z; t_freaks : list (list Z) }.

(* the body of `for ring in self.sssr` *)
Definition allowed_elt (z : Z) : bool := (z =? 6) || (z =? 7) || (z =? 8) || (z =? 16) || (z =? 5) || (z =? 15).
Definition ring_step (g : mol) (s : th1) (ring : list Z) : th1 :=
  let lr := Z.of_nat (List.length ring) in
  if negb ((3 <? lr) && (lr <? 8)) then s
  else if existsb (fun n => negb (allowed_elt (num_of g n)) || (3 <? nsc_deg g n)) ring then s
  else
    let sp2 := countb (fun n => hyb g n =? 2) ring in
    if sp2 =? lr then
      if lr =? 4 then mkTh1 (t_rings s) (t_tetra s ++ [ring]) (t_pyr s) (t_freaks s)
      else mkTh1 (add_ring (t_rings s) ring) (t_tetra s) (t_pyr s) (t_freaks s)
    else if (4 <? lr) && (lr =? sp2 + 1) then
      match filter (fun n => hyb g n =? 1) ring with
      | [] => s                                                      (* exotic, just skip *)
      | n :: _ =>
          let z := num_of g n in
          let c := chg_of g n in
          let accept := mkTh1 (add_ring (t_rings s) ring) (t_tetra s) (if zmem n (t_pyr s) then t_pyr s else t_pyr s ++ [n]) (t_freaks s) in
          if c =? -1 then (if negb (z =? 6) || negb (lr =? 5) then s else accept)
          else if negb (c =? 0) then s
          else if lr =? 7 then (if negb (z =? 5) then s else accept)
          else if (z =? 8) || (z =? 16) || (z =? 34) then (if negb (deg_all g n =? 2) then s else accept)
          else if z =? 7 then (if 3 <? deg_all g n then s else accept)
          else if (z =? 5) || (z =? 15) then (if 3 <? deg_all g n then s else accept)
          else s
      end
    else if (lr =? 5) && (sp2 =? 3) then mkTh1 (t_rings s) (t_tetra s) (t_pyr s) (t_freaks s ++ [ring])
    else s.

(* set operations on the skeleton *)
Definition ds_discard (d : adjl) (m n : Z) : adjl := al_upd d m (remove_first n).     (* rings[m].discard(n), key present *)
Fixpoint ds_del (d : adjl) (n : Z) : adjl :=
  match d with [] => [] | (k, l) :: r => if k =? n then r else (k, l) :: ds_del r n end.
(* for m in rings.pop(n): rings[m].discard(n) ; a key the defaultdict would re-create stays absent: empty sets are deleted next *)
Definition drop_atom (d : adjl) (n : Z) : adjl := fold_left (fun d m => ds_discard d m n) (al_get d n) (ds_del d n).

(* while True: n = next(n for n, ms in rings.items() if len(ms) == 1) ... *)
Fixpoint prune (fuel : nat) (pyr : list Z) (d : adjl) : pyres adjl :=
  match fuel with
  | O => Err OtherError
  | S f =>
      match filter (fun nl => Z.of_nat (List.length (snd nl)) =? 1) d with
      | [] => Ok d
      | (n, ms) :: _ =>
          let m := hd 0 ms in
          let d1 := ds_del d n in
          if zmem n pyr then prune f pyr (if al_has d1 m then ds_discard d1 m n else d1 ++ [(m, [])])    (* rings[m] of a defaultdict *)
          else if negb (al_has d1 m) then Err KeyError                                                (* rings.pop(m) *)
          else let pm := remove_first n (al_get d1 m) in
               prune f pyr (fold_left (fun d x => if al_has d x then ds_discard d x m else d ++ [(x, [])]) pm (ds_del d1 m))
      end
  end.

(* number of connected components of the skeleton *)
Fixpoint components (fuel : nat) (d : adjl) (todo : list Z) (seen : list Z) (k : Z) : Z :=
  match fuel, todo with
  | S f, n :: r => if zmem n seen then components f d r seen k
                   else components f d r (reach d (List.length d) (seen ++ [n])) (k + 1)
  | _, _ => k
  end.

Definition set_bonds (g : mol) (ring : list Z) (o : Z) : mol := fold_left (fun g nm => set_order g (fst nm) (snd nm) o) (ring_pairs ring) g.

Record th_out := mkOut { o_result : bool; o_mol : mol; o_skeleton : adjl; o_nsssr : Z; o_pyr : list Z; o_freaks : list (list Z) }.

(* rings2 : what _sssr finds in the pruned skeleton; freak_ok : per freak ring, whether a freak_rules query matches *)
Definition thiele_model (g : mol) (sssr : list (list Z)) (rings2 : list (list Z)) (freak_ok : list bool) : pyres th_out :=
  let s := fold_left (ring_step g) sssr (mkTh1 [] [] [] []) in
  let no := fun (d : adjl) (k : Z) => (Ok (mkOut false g d k (t_pyr s) (t_freaks s)) : pyres th_out) in
  match t_rings s with
  | [] => no [] 0
  | rings0 =>
      (* out-of-ring double bonds *)
      let dbl := filter (fun n => existsb (fun mb => ord_is 2 mb && negb (zmem (fst mb) (al_get rings0 n))) (nbrs g n)) (keys rings0) in
      let stage2 :=
        match dbl with
        | [] => Ok (Some rings0)
        | _ => let d1 := fold_left drop_atom dbl rings0 in
               let d2 := filter (fun nl => nonempty (snd nl)) d1 in
               match d2 with
               | [] => Ok None
               | _ => match prune (S (List.length d2)) (t_pyr s) d2 with
                      | Err e => Err e
                      | Ok [] => Ok None
                      | Ok d3 => Ok (Some d3)
                      end
               end
        end in
      match stage2 with
      | Err e => Err e
      | Ok None => no [] 0
      | Ok (Some d) =>
          let n_sssr := Z.of_nat (fold_right (fun nl a => (List.length (snd nl) + a)%nat) O d) / 2 - Z.of_nat (List.length d)
                        + components (List.length d) d (keys d) [] 0 in
          if n_sssr =? 0 then no d 0
          else
            let seen := concat rings2 in
            let g1 := fold_left (fun g r => if forallb (fun n => zmem n seen) r then set_bonds g r 1 else g) (t_tetra s) g in
            let g2 := fold_left (fun g r => set_bonds g r 4) rings2 g1 in
            let g3 := fold_left (fun (g : mol) (rb : list Z * bool) => if snd rb then set_bonds g (fst rb) 4 else g) (combine (t_freaks s) freak_ok) g2 in
            Ok (mkOut true g3 d n_sssr (t_pyr s) (t_freaks s))
      end
  end.

(* ------------------------------------------------------------------------------------------------
   thiele(fix_tautomers=True): the hydrogen-moving search between the ring loop and the quinone stage.
   acceptors: neutral N of odd all-sp2 rings; donors: two-bonded pyrrole-type N of six-membered rings (a list, appended
   per ring).  For every donor a depth-first search over the skeleton looks for an alternating path 2,1,2,..,1 that ends on
   an acceptor with a single bond; the orders along the path are then swapped, the acceptor becomes the pyrrole-type atom and
   gets the hydrogen.  The skeleton is a dict of SETS: the order in which a set is iterated is an INPUT of the model (`ords`:
   what the real run iterated).  double_bonded is computed BEFORE the search and not updated (as in the code).
   ------------------------------------------------------------------------------------------------ *)
Record th1t := mkTh1t { tt_base : th1; tt_acc : list Z; tt_don : list Z }.

Definition ring_step_t (g : mol) (s : th1t) (ring : list Z) : th1t :=
  let b := ring_step g (tt_base s) ring in
  let lr := Z.of_nat (List.length ring) in
  if negb ((3 <? lr) && (lr <? 8)) then s
  else if existsb (fun n => negb (allowed_elt (num_of g n)) || (3 <? nsc_deg g n)) ring then s
  else
    let sp2 := countb (fun n => hyb g n =? 2) ring in
    if sp2 =? lr then
      if lr =? 4 then mkTh1t b (tt_acc s) (tt_don s)
      else mkTh1t b (if Z.odd lr then fold_left (fun acc n => if (num_of g n =? 7) && (chg_of g n =? 0) && negb (zmem n acc) then acc ++ [n] else acc) ring (tt_acc s)
                     else tt_acc s) (tt_don s)
    else if (4 <? lr) && (lr =? sp2 + 1) then
      match filter (fun n => hyb g n =? 1) ring with
      | [] => s
      | n :: _ =>
          (* the donor is appended exactly when the N branch is reached with lr = 6 and two bonds (then the ring is accepted) *)
          let z := num_of g n in
          let c := chg_of g n in
          if (c =? 0) && negb (lr =? 7) && negb ((z =? 8) || (z =? 16) || (z =? 34)) && (z =? 7) && (lr =? 6) && (deg_all g n =? 2)
          then mkTh1t b (tt_acc s) (tt_don s ++ [n]) else mkTh1t b (tt_acc s) (tt_don s)
      end
    else mkTh1t b (tt_acc s) (tt_don s).

Definition titem := (Z * Z * Z * Z)%type.                (* (last, current, depth, order) *)
Definition order_of (g : mol) (n m : Z) : Z := match bond_of g n m with Some b => b_ord b | None => 0 end.

(* while stack: ... ; result: Some path when an acceptor was reached with a single bond *)
Fixpoint taut_dfs (fuel : nat) (g : mol) (ords : adjl) (dbl acc : list Z) (stack : list titem) (path : list (Z * Z * Z)) (seen : list Z)
  : option (list (Z * Z * Z) * Z) :=
  match fuel with
  | O => None
  | S f =>
      match pop_last stack with
      | None => None
      | Some ((last, current, depth, order), stack') =>
          let d := Z.to_nat depth in
          let '(path1, seen1) :=
            if (d <? List.length path)%nat
            then (firstn d path, filter (fun x => negb (zmem x (map (fun e => snd (fst e)) (skipn d path)))) seen)
            else (path, seen) in
          let path2 := path1 ++ [(last, current, order)] in
          if zmem current acc then
            (if order =? 1 then Some (path2, current) else taut_dfs f g ords dbl acc stack' path2 seen1)
          else
            let seen2 := seen1 ++ [current] in
            let new_order := if order =? 2 then 1 else 2 in
            let nxt := filter (fun n => negb (zmem n seen2) && negb (zmem n dbl) && (order_of g current n =? order)) (al_get ords current) in
            taut_dfs f g ords dbl acc (stack' ++ map (fun n => (current, n, depth + 1, new_order)) nxt) path2 seen2
      end
  end.

Definition set_h_atom (g : mol) (n h : Z) : mol :=
  mkMol (map (fun na => if fst na =? n
                        then (fst na, mkAtom (a_num (snd na)) (a_iso (snd na)) (a_chg (snd na)) (a_rad (snd na)) (Some h) (a_stereo (snd na)))
                        else na) (m_atoms g)) (m_adj g).

(* for start in donors: ... *)
Fixpoint taut_donors (fuel : nat) (ords : adjl) (dbl : list Z) (donors : list Z) (g : mol) (acc pyr : list Z) : mol * list Z * list Z :=
  match donors with
  | [] => (g, acc, pyr)
  | start :: rest =>
      let stack := map (fun n => ((start, n, 0, 2) : titem)) (filter (fun n => negb (zmem n dbl)) (al_get ords start)) in
      match taut_dfs fuel g ords dbl acc stack [] [start] with
      | None => taut_donors fuel ords dbl rest g acc pyr
      | Some (path, current) =>
          let acc' := filter (fun x => negb (x =? current)) acc in
          let pyr' := filter (fun x => negb (x =? start)) pyr in
          let pyr'' := if zmem current pyr' then pyr' else pyr' ++ [current] in
          let g1 := set_h_atom (set_h_atom g current 1) start 0 in
          let g2 := fold_left (fun g e => let '(n, m, o) := e in set_order g n m o) path g1 in
          match acc' with
          | [] => (g2, acc', pyr'')
          | _ => taut_donors fuel ords dbl rest g2 acc' pyr''
          end
      end
  end.

(* the whole of thiele(fix_tautomers=True) *)
Definition thiele_model_t (g : mol) (sssr : list (list Z)) (ords : adjl) (rings2 : list (list Z)) (freak_ok : list bool) : pyres th_out :=
  let st := fold_left (ring_step_t g) sssr (mkTh1t (mkTh1 [] [] [] []) [] []) in
  let s := tt_base st in
  match t_rings s with
  | [] => Ok (mkOut false g [] 0 (t_pyr s) (t_freaks s))
  | rings0 =>
      let dbl := filter (fun n => existsb (fun mb => ord_is 2 mb && negb (zmem (fst mb) (al_get rings0 n))) (nbrs g n)) (keys rings0) in
      let '(gt, _, pyr) :=
        match tt_acc st, tt_don st with
        | _ :: _, _ :: _ => taut_donors (List.length (m_atoms g) * List.length (m_atoms g) + 10)%nat ords dbl (tt_don st) g (tt_acc st) (t_pyr s)
        | _, _ => (g, tt_acc st, t_pyr s)
        end in
      let no := fun (d : adjl) (k : Z) => (Ok (mkOut false gt d k pyr (t_freaks s)) : pyres th_out) in
      let stage2 :=
        match dbl with
        | [] => Ok (Some rings0)
        | _ => let d1 := fold_left drop_atom dbl rings0 in
               let d2 := filter (fun nl => nonempty (snd nl)) d1 in
               match d2 with
               | [] => Ok None
               | _ => match prune (S (List.length d2)) pyr d2 with
                      | Err e => Err e
                      | Ok [] => Ok None
                      | Ok d3 => Ok (Some d3)
                      end
               end
        end in
      match stage2 with
      | Err e => Err e
      | Ok None => no [] 0
      | Ok (Some d) =>
          let n_sssr := Z.of_nat (fold_right (fun nl a => (List.length (snd nl) + a)%nat) O d) / 2 - Z.of_nat (List.length d)
                        + components (List.length d) d (keys d) [] 0 in
          if n_sssr =? 0 then no d 0
          else
            let seen := concat rings2 in
            let g1 := fold_left (fun g r => if forallb (fun n => zmem n seen) r then set_bonds g r 1 else g) (t_tetra s) gt in
            let g2 := fold_left (fun g r => set_bonds g r 4) rings2 g1 in
            let g3 := fold_left (fun (g : mol) (rb : list Z * bool) => if snd rb then set_bonds g (fst rb) 4 else g) (combine (t_freaks s) freak_ok) g2 in
            Ok (mkOut true g3 d n_sssr pyr (t_freaks s))
      end
  end.
