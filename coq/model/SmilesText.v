(* C03: the character level of read_spell_denote.  The text of every token, of an atom (organic-subset symbol, aromatic
   lower-case symbol, or a bracket atom written from its fields), and of a whole syntax tree. *)
From Coq Require Import ZArith List String Ascii Bool.
From Model Require Import PyBase Tokenize Parser SmilesAst.
Import ListNotations.
Open Scope Z_scope.

Definition chars (s : string) : list ascii := list_ascii_of_string s.

(* ---- atoms *)
Definition organic_symbols : list string := ["B"; "C"; "N"; "O"; "P"; "S"; "F"; "I"; "Cl"; "Br"]%string.
Definition aromatic_symbols : list string := ["C"; "N"; "O"; "P"; "S"; "B"]%string.
Definition is_simple (a : atomtok) : bool :=
  match at_iso a, at_map a, at_h a, at_stereo a with None, None, None, None => at_chg a =? 0 | _, _, _, _ => false end.
Definition lower_str (s : string) : string := string_of_list_ascii (map lower (chars s)).

(* the inside of a bracket atom: [isotope]Element[@|@@][H[n]][charge][:map]; aromatic atoms (type 8) in lower case *)
Definition body_text (ty : Z) (a : atomtok) : string :=
  (match at_iso a with Some i => show_z i | None => "" end ++
   (if Z.eqb ty 8 then lower_str (at_el a) else at_el a) ++
   match at_stereo a with Some true => "@" | Some false => "@@" | None => "" end ++
   match at_h a with Some 0 | None => "" | Some 1 => "H" | Some h => "H" ++ show_z h end ++
   (if Z.eqb (at_chg a) 0 then "" else if Z.ltb 0 (at_chg a) then "+" ++ show_z (at_chg a) else "-" ++ show_z (Z.opp (at_chg a))) ++
   match at_map a with Some m => ":" ++ show_z m | None => "" end)%string.

Definition atom_chars (ty : Z) (a : atomtok) : list ascii :=
  if is_simple a then chars (if ty =? 8 then lower_str (at_el a) else at_el a)
  else "["%char :: chars (body_text ty a) ++ ["]"%char].

(* characters that may not occur inside the brackets (they would end the bracket, the text, or start a reaction) *)
Definition body_char_ok (c : ascii) : bool :=
  negb (Ascii.eqb c "[") && negb (Ascii.eqb c "]") && negb (Ascii.eqb c ">") && negb (zmem (code c) [9; 10; 11; 12; 13; 28; 29; 30; 31; 32; 133; 160]).

(* an atom token the formatter can write: an organic / aromatic symbol, or a bracket atom that _atom_parse reads back *)
Definition writable (ty : Z) (a : atomtok) : Prop :=
  if is_simple a then
    a = simple_atom (at_el a) /\ ((ty = 0 /\ smem (at_el a) organic_symbols = true) \/ (ty = 8 /\ smem (at_el a) aromatic_symbols = true))
  else
    chars (body_text ty a) <> [] /\ forallb body_char_ok (chars (body_text ty a)) = true /\
    atom_parse (body_text ty a) = Ok (ty, PAtom a).

(* ---- the other tokens *)
Definition bond_chars_of (o : Z) : list ascii :=
  if o =? 1 then ["-"%char] else if o =? 2 then ["="%char] else if o =? 3 then ["#"%char] else if o =? 4 then [":"%char] else ["~"%char].
Definition digit_char (d : Z) : ascii := ascii_of_N (Z.to_N (48 + d)).
Definition ring_chars (k : Z) : list ascii :=
  if k <? 10 then [digit_char k] else ["%"%char; digit_char (k / 10); digit_char (k mod 10)].

Definition tok_chars (t : token) : list ascii :=
  match t with
  | (ty, PAtom a) => atom_chars ty a
  | (1, PInt o) => bond_chars_of o
  | (9, PBool up) => if up then ["/"%char] else ["\"%char]
  | (2, _) => ["("%char]
  | (3, _) => [")"%char]
  | (4, _) => ["."%char]
  | (6, PInt k) => ring_chars k
  | _ => []
  end.

Definition toks_chars (ts : list token) : list ascii := flat_map tok_chars ts.
Definition spell_text (t : tree) : string := string_of_list_ascii (toks_chars (spell t)).

(* a tree whose tokens can all be written: writable atoms, bond symbols - = # : ~, direction marks, dots, ring numbers 1..99 *)
Definition tok_writable (t : token) : Prop :=
  match t with
  | (ty, PAtom a) => writable ty a
  | (1, PInt o) => zmem o [1; 2; 3; 4; 8] = true
  | (9, PBool _) => True
  | (2, PNone) | (3, PNone) | (4, PNone) => True
  | (6, PInt k) => 1 <= k <= 99
  | _ => False
  end.
Definition tree_writable (t : tree) : Prop := Forall tok_writable (spell t).

(* ---- text form (correspondence) *)
Definition b_text (inputs : list tree) := batch spell_text inputs.
