(* Model of the array forms linear_fingerprint / morgan_fingerprint (linear.py, morgan.py) (C17, second extension round):

     bits = self.linear_bit_set(...)            # resp. morgan_bit_set
     fingerprints = zeros(length, dtype=uint8)
     fingerprints[list(bits)] = 1
     return fingerprints

   numpy semantics modelled by np_set_ones: an index b with -length <= b < length addresses position b mod length
   (negative indices count from the end), any other index raises IndexError before anything is returned; the array is a
   list of 0/1 of `length` entries.  (zeros(length) of a negative length is never reached: log2 raises first.) *)
From Coq Require Import ZArith List Bool.
From Model Require Import PyBase Graph PyHash Fingerprint FingerprintCGR.
Import ListNotations.
Open Scope Z_scope.

Definition np_set_ones (length : Z) (idx : list Z) : pyres (list Z) :=
  if existsb (fun b => (b <? - length) || (length <=? b)) idx then Err IndexError
  else Ok (map (fun i => if existsb (fun b => b mod length =? i) idx then 1 else 0) (zrange 0 length)).

Definition vec_of (length : Z) (bits : pyres (list Z)) : pyres (list Z) :=
  match bits with
  | Ok l => np_set_ones length l
  | Err e => Err e
  end.

Definition linear_fingerprint (h : list Z -> Z) (g : mol) (lo hi length nab nbp : Z) : pyres (list Z) :=
  vec_of length (linear_bit_list h g lo hi length nab nbp).
Definition morgan_fingerprint (h : list Z -> Z) (g : mol) (lo hi length nab : Z) : pyres (list Z) :=
  vec_of length (morgan_bit_list h g lo hi length nab).
Definition cgr_linear_fingerprint (h : list Z -> Z) (c : cgr) (lo hi length nab nbp : Z) : pyres (list Z) :=
  vec_of length (cgr_linear_bit_list h c lo hi length nab nbp).
Definition cgr_morgan_fingerprint (h : list Z -> Z) (c : cgr) (lo hi length nab : Z) : pyres (list Z) :=
  vec_of length (cgr_morgan_bit_list h c lo hi length nab).

(* the characteristic vector of a set of positions *)
Definition char_vector (length : Z) (bits : list Z) : list Z :=
  map (fun i => if zmem i bits then 1 else 0) (zrange 0 length).
