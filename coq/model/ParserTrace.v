(* C03: the local variables of parser() after every token (atom_num, last_num, stack, cycles, previous, number of bonds), for the
   correspondence on intermediate states. *)
From Coq Require Import ZArith List String Ascii Bool.
From Model Require Import PyBase Tokenize Parser.
Import ListNotations.
Open Scope Z_scope.
Open Scope string_scope.

Definition show_pstate (s : pstate) : string :=
  show_z (ps_n s) ++ "|" ++ show_z (ps_last s) ++ "|" ++ String.concat "," (map show_z (ps_stack s)) ++ "|" ++
  String.concat "," (map (fun kc : Z * cyc => let '(k, (a, ob, ind)) := kc in
                             show_z k ++ ":" ++ show_z a ++ ":" ++ show_opt show_token ob ++ ":" ++ show_z ind) (ps_cycles s)) ++ "|" ++
  show_opt show_token (ps_prev s) ++ "|" ++ show_z (Z.of_nat (List.length (ps_bonds s))).

Fixpoint trace_loop (strong : bool) (s : pstate) (ts : list token) : list string :=
  match ts with
  | [] => []
  | t :: r => match step strong s t with
              | Ok s' => show_pstate s' :: trace_loop strong s' r
              | Err e => [show_exn e]
              end
  end.
Definition b_trace (strong : bool) (inputs : list (list token)) :=
  batch (fun ts => String.concat ";" (trace_loop strong p_init ts)) inputs.
