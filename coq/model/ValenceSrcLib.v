(* C04 -- the small run-time library the bodies translated by tools/gen_valence_bodies.py are written in (Gen.ValenceBodies):
   exception monad over PyBase.pyres, monadic fold for `for` loops and generator sums, the Python operations the translated
   statements use (list index, slice, dict lookup with KeyError).  Definitions only. *)
From Coq Require Import ZArith List String Bool.
From Model Require Import PyBase Graph PeriodicTable Valence.
From Gen Require Import Elements.
Import ListNotations.
Open Scope Z_scope.

Definition pbind {A B : Type} (x : pyres A) (f : A -> pyres B) : pyres B :=
  match x with Ok a => f a | Err e => Err e end.

(* for x in l: s = body(s, x)    (an exception leaves the loop) *)
Fixpoint pfold {S X : Type} (f : S -> X -> pyres S) (l : list X) (s : S) : pyres S :=
  match l with
  | [] => Ok s
  | x :: r => pbind (f s x) (pfold f r)
  end.

(* l[i] for a literal i >= 0 *)
Definition py_index {A : Type} (l : list A) (i : Z) : pyres A :=
  match nth_error l (Z.to_nat i) with Some x => Ok x | None => Err IndexError end.
(* l[i:] for a literal i >= 0 *)
Definition py_slice_from {A : Type} (l : list A) (i : Z) : list A := skipn (Z.to_nat i) l.
(* d[k], d a dict with string keys built by a comprehension (last duplicate wins) *)
Definition py_sdict_get (d : list (string * Z)) (k : string) : pyres Z :=
  match sget_last d k with Some v => Ok v | None => Err KeyError end.
(* d[k], d a dict with int keys and float values; a float is the exact decimal of its literal scaled by 10^12 *)
Definition py_decdict_get (d : list (Z * dec)) (k : Z) : pyres Z :=
  match zget d k with Some v => Ok (dec_scale v 12) | None => Err KeyError end.
(* d.items() of such a dict *)
Definition py_decdict_items (d : list (Z * dec)) : list (Z * Z) := map (fun kv => (fst kv, dec_scale (snd kv) 12)) d.
(* try: return t[k]  except KeyError: raise ValenceError *)
Definition py_rtable_get (t : rtable) (k : rkey) : pyres (list rule) :=
  match rt_get t k with Some l => Ok l | None => Err KeyError end.
Definition py_except {A : Type} (x : pyres A) (caught raised : pyexn) : pyres A :=
  match x with
  | Ok a => Ok a
  | Err e => if pyexn_eqb e caught then Err raised else Err e
  end.
Definition is_none {A : Type} (x : option A) : bool := match x with None => true | Some _ => false end.
(* the value of an Optional[int] known not to be None (guarded by the `is None` test before) *)
Definition py_some (x : option Z) : pyres Z := match x with Some v => Ok v | None => Err TypeError end.
(* a.atomic_symbol: the class name of the atom; a number that is no element is outside the model *)
Definition py_symbol (a : atom) : pyres string :=
  match symbol_of (a_num a) with Some s => Ok s | None => Err OtherError end.
