(* Model of MoleculeStereo.__chiral_centers (chython/algorithms/stereo.py) with the ring registries it reads
   (ring_tetrahedrons, rings_linker_tetrahedrons, ring_cumulenes_terminals, rings_linker_cumulenes_terminals,
   ring_attached_cumulenes): which unlabelled centres are chiral NOW, as a function of
     - the molecule g and its registries r (Model.StereoRegistry),
     - atoms_rings  ar : atom -> the SSSR rings through it (C06 territory: an input),
     - the weights  w  : the classes of _chiral_morgan (C01 territory, Model.ChiralMorgan there: an input; morgan.get(None, 0) = 0).
   Python sets are lists without duplicates, compared as sets; the only order that matters is the insertion order of the dict
   `graph` (the pruning loop takes the first removable node), which is modelled. *)
From Coq Require Import ZArith List Bool.
From Model Require Import PyBase Graph Stereo StereoRegistry StereoFix.
Import ListNotations.
Open Scope Z_scope.

Definition sadd (x : Z) (l : list Z) : list Z := if zmem x l then l else l ++ [x].
Definition sdiscard (x : Z) (l : list Z) : list Z := filter (fun y => negb (y =? x)) l.

Section Chiral.
  Variable g : mol.
  Variable r : registries.
  Variable ar : list (Z * list (list Z)).          (* atoms_rings, in dict order *)
  Variable w : Z -> Z.

  Definition wo (o : option Z) : Z := match o with Some y => w y | None => 0 end.
  Definition in_ring (n : Z) : bool := zmem n (keys ar).
  Definition rings_of (n : Z) : list (list Z) := match zget ar n with Some l => l | None => [] end.

  (* len({morgan[x] for x in env}) == len(env) *)
  Fixpoint distinct_classes (env : list Z) : bool :=
    match env with [] => true | x :: l => negb (existsb (fun y => w y =? w x) l) && distinct_classes l end.

  (* ---- rings_linker_tetrahedrons ---- *)
  Definition cyc_prev (ring : list Z) (n : Z) : Z :=
    match index_of ring n with Some 0 => last ring 0 | Some i => znth ring (i - 1) 0 | None => 0 end.
  Definition cyc_next (ring : list Z) (n : Z) : Z :=
    match index_of ring n with
    | Some i => if i + 1 =? Z.of_nat (List.length ring) then hd 0 ring else znth ring (i + 1) 0
    | None => 0 end.
  Definition common (a b : list Z) : Z := Z.of_nat (List.length (filter (fun x => zmem x b) (nodup Z.eq_dec a))).
  (* combinations(rings, 2) in order *)
  Fixpoint pairs2 {A} (l : list A) : list (A * A) :=
    match l with [] => [] | x :: t => map (fun y => (x, y)) t ++ pairs2 t end.
  Definition linker_entry (n : Z) : list (Z * (Z * Z * Z * Z)) :=
    if zmem n (keys (r_sg_th r)) then
      match find (fun p => common (fst p) (snd p) =? 1) (pairs2 (rings_of n)) with
      | Some (nr, mr) => [(n, (cyc_prev nr n, cyc_next nr n, cyc_prev mr n, cyc_next mr n))]
      | None => []
      end
    else [].
  Definition rl_th : list (Z * (Z * Z * Z * Z)) := flat_map (fun nr => linker_entry (fst nr)) ar.

  (* ---- ring_tetrahedrons: ring tetrahedrons that are not linkers -> their non-ring neighbours ---- *)
  Definition nonring_nbrs (n : Z) : list Z :=
    filter (fun x => negb (in_ring x)) (map fst (filter (fun mb => negb (b_ord (snd mb) =? 8)) (nbrs g n))).
  Definition ring_th : list (Z * list Z) :=
    flat_map (fun nr => let n := fst nr in
                        if zmem n (keys (r_sg_th r)) && negb (zmem n (keys rl_th)) then [(n, nonring_nbrs n)] else []) ar.

  (* ---- cumulene ring registries ---- *)
  Definition share_ring (n m : Z) : bool := existsb (fun x => existsb (list_eqb Z.eqb x) (rings_of m)) (rings_of n).
  Definition ends (p : list Z) : Z * Z := (first_z p, last_z p).
  Definition ring_cum_terms : list (Z * Z) :=
    flat_map (fun pe => let '(n, m) := ends (fst pe) in
                        if in_ring n && in_ring m && share_ring n m then [(n, m)] else []) (r_sg_cum r).
  Definition pair_mem (p : Z * Z) (l : list (Z * Z)) : bool := existsb (zz_eqb p) l.
  Definition rl_cum_terms : list (Z * Z) :=
    flat_map (fun pe => let '(n, m) := ends (fst pe) in
                        if in_ring n && in_ring m && negb (pair_mem (n, m) ring_cum_terms) then [(n, m)] else []) (r_sg_cum r).
  (* ring_attached_cumulenes: ((n, m), out-of-ring substituents of the other end) *)
  Definition opt2 (a : Z) (b : option Z) : list Z := match b with Some y => [a; y] | None => [a] end.
  Definition ring_attached : list (Z * Z * list Z) :=
    flat_map (fun pe => let '(n, m) := ends (fst pe) in let '(n1, m1, n2, m2) := snd pe in
                        if in_ring n then (if in_ring m then [] else [((n, m), opt2 m1 m2)])
                        else if in_ring m then [((n, m), opt2 n1 n2)] else []) (r_sg_cum r).

  Definition al_center (n : Z) : option Z := zget (r_al_centers r) n.

  (* ---- state: chiral_t, chiral_c (terminal atoms), chiral_a, stereogenic, graph, pseudo ---- *)
  Record cstate := mkCs { c_t : list Z; c_c : list Z; c_a : list Z; c_sg : list Z; c_graph : list (Z * list Z); c_pseudo : list (Z * Z) }.

  Definition step_tetra : cstate :=
    let t0 := map fst (filter (fun ne => distinct_classes (snd ne)) (r_sg_th r)) in
    let t1 := fold_left (fun t e => let '(n, (n1, n2, m1, m2)) := e in
                            if negb (w n1 =? w n2) && negb (w m1 =? w m2) then sadd n t else t) rl_th t0 in
    mkCs t1 [] [] [] [] [].

  Definition step_cum (s : cstate) : cstate :=
    fold_left (fun s pe => let p := fst pe in let '(n1, m1, n2, m2) := snd pe in
                 if negb (w n1 =? wo n2) && negb (w m1 =? wo m2) then
                   let '(n, m) := ends p in
                   let s1 := if odd_len p then mkCs (c_t s) (c_c s) (sadd (centre_of p) (c_a s)) (c_sg s) (c_graph s) (c_pseudo s)
                             else mkCs (c_t s) (sadd n (c_c s)) (c_a s) (c_sg s) (c_graph s) (c_pseudo s) in
                   mkCs (c_t s1) (c_c s1) (c_a s1) (sadd m (sadd n (c_sg s1))) (c_graph s1) (c_pseudo s1)
                 else s) (r_sg_cum r) s.

  Definition step_ring_cum (s : cstate) : cstate :=
    fold_left (fun s nm => let '(n, m) := nm in
                 if existsb (fun x => Z.of_nat (List.length x) <? 8) (rings_of n) then
                   let c1 := sdiscard n (c_c s) in
                   if zmem m c1 then mkCs (c_t s) (sdiscard m c1) (c_a s) (c_sg s) (c_graph s) (c_pseudo s)
                   else match al_center n with
                        | Some c => mkCs (c_t s) c1 (if zmem c (c_a s) then sdiscard c (c_a s) else c_a s) (c_sg s) (c_graph s) (c_pseudo s)
                        | None => mkCs (c_t s) c1 (c_a s) (c_sg s) (c_graph s) (c_pseudo s)
                        end
                 else
                   let s1 := if pair_mem (n, m) (keys (r_sg_ct r)) then mkCs (c_t s) (sadd n (c_c s)) (c_a s) (c_sg s) (c_graph s) (c_pseudo s)
                             else match al_center n with
                                  | Some c => mkCs (c_t s) (c_c s) (sadd c (c_a s)) (c_sg s) (c_graph s) (c_pseudo s)
                                  | None => s end in
                   mkCs (c_t s1) (c_c s1) (c_a s1) (sadd n (c_sg s1)) (dset (c_graph s1) n []) (dset (c_pseudo s1) m n))
              ring_cum_terms s.

  Definition node (s : cstate) (n : Z) (sg : bool) : cstate :=
    mkCs (c_t s) (c_c s) (c_a s) (if sg then sadd n (c_sg s) else c_sg s) (dset (c_graph s) n []) (c_pseudo s).
  Definition same2 (env : list Z) : bool := match env with [a; b] => w a =? w b | _ => false end.

  Definition step_axes (s : cstate) : cstate :=
    let s1 := fold_left (fun s ne => if same2 (snd ne) then s else node s (fst ne) true) ring_th s in
    let s2 := fold_left (fun s e => let '(n, (n1, n2, m1, m2)) := e in
                           node s n (negb (w n1 =? w n2) || negb (w m1 =? w m2))) rl_th s1 in
    let s3 := fold_left (fun s nm => let '(n, m) := nm in
                           mkCs (c_t s) (c_c s) (c_a s) (c_sg s) (dset (dset (c_graph s) n [m]) m [n]) (c_pseudo s)) rl_cum_terms s2 in
    fold_left (fun s e => let '((n, m), env) := e in
                 if same2 env then s else if in_ring n then node s n true else node s m true) ring_attached s3.

  (* add bonds: atoms of the same rings; pseudo atoms stand for their counterpart *)
  Definition connect (gr : list (Z * list Z)) (pseudo : list (Z * Z)) : list (Z * list Z) :=
    map (fun nm => let n := fst nm in
           (n, fold_left (fun ms m => if n =? m then ms
                                      else if zmem m (keys gr) then sadd m ms
                                      else match zget pseudo m with
                                           | Some m' => if m' =? n then ms else sadd m' ms
                                           | None => ms end)
                         (concat (rings_of n)) (snd nm))) gr.

  (* for m in graph.pop(n): graph[m].discard(n)   -- KeyError when a neighbour was removed before (asymmetric adjacency) *)
  Definition drop_node (gr : list (Z * list Z)) (n : Z) (ms : list Z) : pyres (list (Z * list Z)) :=
    let gr' := filter (fun nm => negb (fst nm =? n)) gr in
    if forallb (fun m => zmem m (keys gr')) ms
    then Ok (map (fun nm => (fst nm, if zmem (fst nm) ms then sdiscard n (snd nm) else snd nm)) gr')
    else Err KeyError.
  Fixpoint prune (fuel : nat) (sg : list Z) (gr : list (Z * list Z)) : pyres (list (Z * list Z)) :=
    match fuel with
    | O => Ok gr
    | S k =>
        match find (fun nm => match snd nm with [] => true | [_] => negb (zmem (fst nm) sg) | _ => false end) gr with
        | None => Ok gr
        | Some (n, ms) => match drop_node gr n ms with Ok gr' => prune k sg gr' | Err e => Err e end
        end
    end.

  Definition step_graph (s : cstate) : pyres cstate :=
    if 1 <? Z.of_nat (List.length (c_graph s)) then
      match prune (S (List.length (c_graph s))) (c_sg s) (connect (c_graph s) (c_pseudo s)) with
      | Err e => Err e
      | Ok gr =>
          Ok (fold_left (fun s n => if zmem n (keys (r_sg_th r)) then mkCs (sadd n (c_t s)) (c_c s) (c_a s) (c_sg s) (c_graph s) (c_pseudo s)
                            else match al_center n with
                                 | Some c => mkCs (c_t s) (c_c s) (sadd c (c_a s)) (c_sg s) (c_graph s) (c_pseudo s)
                                 | None => mkCs (c_t s) (sadd n (c_c s)) (c_a s) (c_sg s) (c_graph s) (c_pseudo s)
                                 end) (keys gr)
                (mkCs (c_t s) (c_c s) (c_a s) (c_sg s) gr (c_pseudo s)))
      end
    else Ok s.

  Definition pre_graph_state : cstate := step_axes (step_ring_cum (step_cum step_tetra)).
  Definition final_state : pyres cstate := step_graph pre_graph_state.

  (* skip already marked *)
  Definition labelled (n : Z) : bool := match atom_of g n with Some a => match a_stereo a with Some _ => true | None => false end | None => false end.
  Definition bond_labelled (ij : Z * Z) : bool :=
    match bond_of g (fst ij) (snd ij) with Some b => match b_stereo b with Some _ => true | None => false end | None => false end.
  Definition centres_of_state (s : cstate) : pyres (list centre) :=
    let ts := map CT (filter (fun n => negb (labelled n)) (c_t s)) in
    let als := map CA (filter (fun n => negb (labelled n)) (c_a s)) in
    let cs := fold_left (fun acc n =>
                match acc with
                | Err e => Err e
                | Ok l => match zget (r_ct_centers r) n, zget (r_ct_terminals r) n with
                          | Some ij, Some ab => Ok (if bond_labelled ij then l else
                                                    if existsb (centre_eqb (CC (fst ab) (snd ab))) l then l else l ++ [CC (fst ab) (snd ab)])
                          | _, _ => Err KeyError
                          end
                end) (c_c s) (Ok []) in
    match cs with Ok l => Ok (ts ++ l ++ als) | Err e => Err e end.
  Definition chiral_centres : pyres (list centre) :=
    match final_state with Ok s => centres_of_state s | Err e => Err e end.
End Chiral.

Definition centres_same (a b : list centre) : bool :=
  forallb (fun x => existsb (centre_eqb x) b) a && forallb (fun x => existsb (centre_eqb x) a) b.
Definition zset_same (a b : list Z) : bool := forallb (fun x => zmem x b) a && forallb (fun x => zmem x a) b.
(* the dict `graph` is compared as a set of (node, neighbour set): ring_cumulenes_terminals is a Python set of tuples, its iteration
   order (and with it the insertion order of graph) is not modelled *)
Definition graph_same (a b : list (Z * list Z)) : bool :=
  let sub x y := forallb (fun nm => match zget y (fst nm) with Some ms => zset_same (snd nm) ms | None => false end) x in
  sub a b && sub b a.
