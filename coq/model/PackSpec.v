(* C10: specification side of the pack format: the format limits (pack_ok) and what unpack has to return.
   Definitions only; used by the statements in props/C10.v and by the proofs in proofs/PackRoundtrip*.v. *)
From Coq Require Import ZArith List Bool.
From Model Require Import PyBase Pack.
From Gen Require Import Elements.
Import ListNotations.
Open Scope Z_scope.

(* ================================================================================================ *)
(* one atom *)

Definition iso_ok (an : Z) (iso : option Z) : bool :=
  match iso with
  | None => true
  | Some i => let k := i - znth pack_common_isotopes an 0 in (1 <=? k) && (k <=? 31)
  end.
Definition h_ok (h : option Z) : bool := match h with None => true | Some v => (0 <=? v) && (v <=? 6) end.
Definition byte_ok (x : Z) : bool := (0 <=? x) && (x <? 256).

(* the format limits of one atom *)
Definition atom_ok (a : patom) : bool :=
  (0 <=? pa_n a) && (pa_n a <? 4096) && (length (pa_nbrs a) <=? 15)%nat &&
  (0 <=? pa_an a) && (pa_an a <? 128) && iso_ok (pa_an a) (pa_iso a) && h_ok (pa_h a) &&
  (-4 <=? pa_chg a) && (pa_chg a <=? 4) && (length (pa_xy a) =? 4)%nat && forallb byte_ok (pa_xy a).

(* what unpack must return for the atom *)
Definition uatom_of (a : patom) : uatom :=
  mkUAtom (pa_n a) (Z.of_nat (length (pa_nbrs a))) (pa_an a) (pa_iso a) (pa_stereo a) (pa_h a) (pa_chg a) (pa_rad a)
          (pa_xy a).

(* ================================================================================================ *)
(* neighbours, forward bonds *)

Definition nbr := (Z * (Z * option bool))%type.
Definition nb_m (x : nbr) : Z := fst x.
Definition nb_ord (x : nbr) : Z := fst (snd x).
Definition nb_st (x : nbr) : option bool := snd (snd x).

(* the neighbours of an atom that have not been visited: their bond is met for the first time *)
Definition fwd_nbrs (seen : list Z) (nb : list nbr) : list nbr := filter (fun x => negb (zmem (nb_m x) seen)) nb.

(* (atom, neighbour entry) of every bond in first-encounter order *)
Fixpoint mol_fwd (seen : list Z) (atoms : list patom) : list (Z * nbr) :=
  match atoms with
  | [] => []
  | a :: r => map (pair (pa_n a)) (fwd_nbrs (pa_n a :: seen) (pa_nbrs a)) ++ mol_fwd (pa_n a :: seen) r
  end.

Definition is_labelled (x : nbr) : bool := match nb_st x with Some _ => true | None => false end.
Definition fwd_orders (f : list (Z * nbr)) : list Z := map (fun nx => nb_ord (snd nx) - 1) f.
Definition fwd_ct (terminals : list (Z * (Z * Z))) (f : list (Z * nbr)) : list (Z * Z * bool) :=
  flat_map (fun nx => match nb_st (snd nx), zget terminals (fst nx) with
                      | Some v, Some (tn, tm) => [(tn, tm, v)]
                      | _, _ => []
                      end) f.
Definition fwd_labelled (f : list (Z * nbr)) : list (Z * nbr) := filter (fun nx => is_labelled (snd nx)) f.

Definition mol_conns (atoms : list patom) : list Z := flat_map (fun a => map nb_m (pa_nbrs a)) atoms.

(* what unpack must rebuild *)
Definition adj_entry (a : patom) : Z * list (Z * Z) := (pa_n a, map (fun x => (nb_m x, nb_ord x)) (pa_nbrs a)).

(* the result unpack must produce for molecule m when the pack is [size] bytes long: the atoms in order with all
   fields, every atom's neighbours in order with the bond orders, the cis/trans records of the labelled bonds in
   first-encounter order, the consumed length *)
Definition unpacked_of (m : pmol) (size : Z) : unpacked :=
  mkUnpacked (map uatom_of (pm_atoms m)) (map adj_entry (pm_atoms m))
             (fwd_ct (pm_terminals m) (mol_fwd [] (pm_atoms m))) size.

(* ================================================================================================ *)
(* well-formedness *)

Definition order_ok (o : Z) : bool := (o =? 1) || (o =? 2) || (o =? 3) || (o =? 4) || (o =? 8).
Definition find_atom (atoms : list patom) (n : Z) : option patom := find (fun b => pa_n b =? n) atoms.

(* neighbour entry x of atom a: no loop, order in {1,2,3,4,8}, the neighbour is an atom whose own table lists a with the
   same order *)
Definition nbr_ok (atoms : list patom) (a : patom) (x : nbr) : bool :=
  negb (nb_m x =? pa_n a) && order_ok (nb_ord x) &&
  match find_atom atoms (nb_m x) with
  | Some b => match zget (pa_nbrs b) (pa_n a) with Some (o', _) => o' =? nb_ord x | None => false end
  | None => false
  end.

Definition adj_ok (atoms : list patom) (a : patom) : bool :=
  nodup_z (map nb_m (pa_nbrs a)) && forallb (nbr_ok atoms a) (pa_nbrs a).

(* an atom with a labelled bond is a key of the terminals table, terminal numbers in range *)
Definition term_ok (terminals : list (Z * (Z * Z))) (a : patom) : bool :=
  if existsb is_labelled (pa_nbrs a) then
    match zget terminals (pa_n a) with
    | Some (tn, tm) => (0 <=? tn) && (tn <? 4096) && (0 <=? tm) && (tm <? 4096)
    | None => false
    end
  else true.

Definition pack_ok (m : pmol) : bool :=
  let atoms := pm_atoms m in
  forallb atom_ok atoms && forallb (fun a => 1 <=? pa_n a) atoms && nodup_z (map pa_n atoms) &&
  forallb (adj_ok atoms) atoms && forallb (term_ok (pm_terminals m)) atoms &&
  (pm_ct_count m =? Z.of_nat (length (fwd_labelled (mol_fwd [] atoms)))) && (pm_ct_count m <? 4096).

(* ================================================================================================ *)
(* the published version 2 layout, written from the docstring of _pack_v2.pyx / MoleculeContainer.pack as ONE bit
   stream (most significant bit first) *)

Definition b2z (b : bool) : Z := if b then 1 else 0.

(* the three bits of an order 0..7 *)
Definition bits3 (o : Z) : list bool := [Z.testbit o 2; Z.testbit o 1; Z.testbit o 0].

(* value of at most 8 bits, first bit has weight w; missing bits are zero *)
Fixpoint bits_val (w : Z) (l : list bool) : Z :=
  match l with [] => 0 | b :: r => b2z b * w + bits_val (w / 2) r end.
Definition byte_of_bits (l : list bool) : Z := bits_val 128 l.

(* bytes of a bit stream, the last byte zero padded *)
Fixpoint bytes_of_bits (l : list bool) : list Z :=
  match l with
  | [] => []
  | b0 :: b1 :: b2 :: b3 :: b4 :: b5 :: b6 :: b7 :: r => byte_of_bits [b0; b1; b2; b3; b4; b5; b6; b7] :: bytes_of_bits r
  | _ => [byte_of_bits l]
  end.

(* n as w bits, most significant first *)
Fixpoint bits_of (w : nat) (n : Z) : list bool :=
  match w with O => [] | S k => Z.testbit n (Z.of_nat k) :: bits_of k n end.

(* zero padding to a whole byte *)
Definition pad8 (l : list bool) : list bool := l ++ repeat false ((8 - length l mod 8) mod 8)%nat.

(* 2 bit tetrahedron sign (00 - not stereo, 10 or 11 - has stereo), 2 bit allene sign; an atom with 2 neighbours is an
   allene centre *)
Definition tetra_bits (st : option bool) (ngb : Z) : list bool :=
  match st with Some s => if ngb =? 2 then [false; false] else [true; s] | None => [false; false] end.
Definition allene_bits (st : option bool) (ngb : Z) : list bool :=
  match st with Some s => if ngb =? 2 then [true; s] else [false; false] | None => [false; false] end.

(* Atom block, 9 bytes: 12 bit atom number, 4 bit number of neighbours, 2 bit tetrahedron sign, 2 bit allene sign,
   5 bit isotope (00000 - not specified, else isotope - common_isotope[element]), 7 bit atomic number, 32 bit XY float16
   coordinates, 3 bit hydrogens (7 = None), 4 bit charge + 4, 1 bit radical state *)
Definition atom_bits (a : patom) : list bool :=
  let ngb := Z.of_nat (length (pa_nbrs a)) in
  bits_of 12 (pa_n a) ++ bits_of 4 ngb ++ tetra_bits (pa_stereo a) ngb ++ allene_bits (pa_stereo a) ngb ++
  bits_of 5 (match pa_iso a with None => 0 | Some i => i - znth pack_common_isotopes (pa_an a) 0 end) ++
  bits_of 7 (pa_an a) ++ flat_map (bits_of 8) (pa_xy a) ++
  bits_of 3 (match pa_h a with None => 7 | Some v => v end) ++ bits_of 4 (pa_chg a + 4) ++ [pa_rad a].

(* Cis/trans data block: 24 bit atoms pair, 7 bit zero padding, 1 bit sign *)
Definition ct_bits (t : Z * Z * bool) : list bool :=
  let '(tn, tm, v) := t in bits_of 12 tn ++ bits_of 12 tm ++ bits_of 7 0 ++ [v].

(* 8 bit 0x02, 12 bit number of atoms, 12 bit cis/trans block size; atom blocks; connection table: flattened list of
   neighbours as 12 bit numbers; bond orders (order - 1) 3 bit per bond in first-encounter order, zero padded to a full
   byte; cis/trans blocks *)
Definition layout_v2 (m : pmol) : list bool :=
  let atoms := pm_atoms m in
  let f := mol_fwd [] atoms in
  bits_of 8 2 ++ bits_of 12 (Z.of_nat (length atoms)) ++ bits_of 12 (pm_ct_count m) ++
  flat_map atom_bits atoms ++
  flat_map (bits_of 12) (mol_conns atoms) ++
  pad8 (flat_map (bits_of 3) (fwd_orders f)) ++
  flat_map ct_bits (fwd_ct (pm_terminals m) f).

(* ================================================================================================ *)
(* an instance at the format limits (non-vacuity of pack_ok): atom number 4095 (U, isotope 238 = offset 16, charge -4,
   radical, unknown hydrogens, stereo label) with 15 neighbours 1..15; a labelled double bond 1=2, an aromatic bond 3:4,
   a special bond 5~6, a triple bond 7#8 *)
Definition ex_extra (n : Z) : list nbr :=
  if n =? 1 then [(2, (2, Some true))] else if n =? 2 then [(1, (2, Some true))]
  else if n =? 3 then [(4, (4, None))] else if n =? 4 then [(3, (4, None))]
  else if n =? 5 then [(6, (8, None))] else if n =? 6 then [(5, (8, None))]
  else if n =? 7 then [(8, (3, None))] else if n =? 8 then [(7, (3, None))] else [].

Definition pack_example : pmol :=
  mkPMol
    (mkPAtom 4095 92 (Some 238) (Some true) None (-4) true [60; 0; 188; 0] (map (fun n => (n, (1, None))) (zrange 1 16))
     :: map (fun n => mkPAtom n 9 None None (Some (n mod 7)) (n mod 9 - 4) false [0; 0; 0; 0]
                              ((4095, (1, None)) :: ex_extra n)) (zrange 1 16))
    1 [(1, (3, 4)); (2, (3, 4))].
