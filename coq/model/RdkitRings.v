(* C20 -- model of the common-ring test of MoleculeStereo.ring_cumulenes_terminals (chython/algorithms/stereo.py):
     for n, *_, m in self.stereogenic_cumulenes:
         if n in ar and m in ar and not set(ar[n]).isdisjoint(ar[m]): out.add((n, m))
   ar = atoms_rings: atom -> the rings (tuples of atoms) through it.  Only the double bonds / cumulenes selected here are subject to the
   small-ring rule of __chiral_centers (ring_bond_chiral of Model.Rdkit): a double bond whose ends lie in two DIFFERENT rings keeps its
   E/Z label whatever the ring sizes. *)
From Coq Require Import ZArith List Bool.
From Model Require Import PyBase.
Import ListNotations.
Open Scope Z_scope.

Definition ar_get (ar : list (Z * list (list Z))) (k : Z) : list (list Z) := match zget ar k with Some l => l | None => [] end.
(* set(a).isdisjoint(b) over tuples of atoms *)
Definition rings_disjoint (a b : list (list Z)) : bool := negb (existsb (fun r => existsb (list_eqb Z.eqb r) b) a).
Definition ring_terminal (ar : list (Z * list (list Z))) (n m : Z) : bool :=
  zmem n (keys ar) && zmem m (keys ar) && negb (rings_disjoint (ar_get ar n) (ar_get ar m)).
