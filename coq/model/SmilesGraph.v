(* C03: what a SMILES syntax tree MEANS, defined without the parser machine (no `step`, no pstate).

   The tree is laid out in preorder as a list of events by plain tree recursion (`flat`): every atom knows the index of its
   PARENT IN THE TREE, every ring digit knows the atom it is written after.  The graph is then read off the events:

     atoms      the atoms in preorder (chirality mark taken off, as the parser stores it apart)
     bonds      every atom but the first is bonded to its parent unless the dot is written; every ring digit that finds an open
                partner (separate matching function `opener`: the digit's occurrences pair up 1st-2nd, 3rd-4th, ...) closes a bond
                to it.  The bond value: the written symbol, else aromatic (4) if both atoms are aromatic tokens, else single (1)
                (`choice`); for ring bonds the symbols of both ends are reconciled by `ring_val` (None: they clash / strict mode
                forbids a one-sided symbol).
     neighbours for every atom the list of its partners in the order the text introduces them: parent, ring digits (an
                unmatched digit holds the place with None), children
   GraphProofs.denote_is_graph: the record `denote` returns is exactly this graph. *)
From Coq Require Import ZArith List String Ascii Bool.
From Model Require Import PyBase Tokenize Parser SmilesAst.
Import ListNotations.
Open Scope Z_scope.

Inductive ev :=
| EA (par : Z) (b : option token) (ty : Z) (a : atomtok)        (* an atom, its parent's index, the bond token in front *)
| ER (at_ : Z) (b : option token) (k : Z).                      (* ring digit k written after atom at_, bond token in front *)

Fixpoint tsize (t : tree) : nat :=
  match t with
  | Node _ _ _ kids => S ((fix go (ks : list (option token * tree)) : nat := match ks with [] => O | (_, c) :: r => (tsize c + go r)%nat end) kids)
  end.

(* preorder layout: the node gets index idx, its children the following indices *)
Fixpoint flat (t : tree) (par : Z) (b : option token) (idx : Z) : list ev :=
  match t with
  | Node ty a rings kids =>
      EA par b ty a :: map (fun r : option token * Z => ER idx (fst r) (snd r)) rings ++
      (fix go (ks : list (option token * tree)) (i : Z) : list ev :=
         match ks with [] => [] | (b', c) :: r => flat c idx b' i ++ go r (i + Z.of_nat (tsize c)) end) kids (idx + 1)
  end.

(* ---- reading the graph off the events.  `hist` = the events before the one looked at *)
Definition is_dot (b : option token) : bool := match b with Some (4, _) => true | _ => false end.
Definition n_atoms (hist : list ev) : Z := Z.of_nat (List.length (filter (fun e => match e with EA _ _ _ _ => true | _ => false end) hist)).
Definition ev_types (hist : list ev) : list Z := flat_map (fun e => match e with EA _ _ ty _ => [ty] | _ => [] end) hist.
Definition clear_stereo (a : atomtok) : atomtok := mkAt (at_el a) (at_iso a) (at_map a) (at_chg a) (at_h a) None.
Definition ev_atoms (hist : list ev) : list atomtok := flat_map (fun e => match e with EA _ _ _ a => [clear_stereo a] | _ => [] end) hist.
Definition type_of (hist : list ev) (i : Z) : Z := nth (Z.to_nat i) (ev_types hist) 0.

(* the written symbol, else aromatic between two aromatic atom tokens, else single *)
Definition choice (b : option token) (t1 t2 : Z) : payload :=
  match b with Some (1, v) => v | _ => arom_or_single t1 t2 end.

(* the open partner of ring digit k: its occurrences in hist pair up 1st-2nd, 3rd-4th, ...; Some (atom, bond token) of the
   last occurrence when their number is odd *)
Fixpoint opener_from (cur : option (Z * option token)) (hist : list ev) (k : Z) : option (Z * option token) :=
  match hist with
  | [] => cur
  | ER x ob k' :: r => if k' =? k then opener_from (match cur with None => Some (x, ob) | Some _ => None end) r k else opener_from cur r k
  | _ :: r => opener_from cur r k
  end.
Definition opener (hist : list ev) (k : Z) : option (Z * option token) := opener_from None hist k.

(* reconciling the bond tokens written at the two ends of a ring bond (ob at the opening digit, cb at the closing one) *)
Definition ring_val (strong : bool) (topen tclose : Z) (ob cb : option token) : option payload :=
  match ob, cb with
  | Some (1, o), Some (1, c) => if py_eq c o then Some c else None
  | Some (1, o), Some (9, _) => if py_eq o (PInt 1) then Some (PInt 1) else None
  | Some (9, _), Some (1, c) => if py_eq c (PInt 1) then Some c else None
  | Some (1, o), None => if strong then None else Some o
  | None, Some (1, c) => if strong then None else Some c
  | _, _ => Some (arom_or_single tclose topen)
  end.

(* what one event adds to the bond list *)
Definition ev_bond (strong : bool) (hist : list ev) (e : ev) : option (list (Z * Z * payload)) :=
  match e with
  | EA par b ty a =>
      let idx := n_atoms hist in
      if (idx =? 0) || is_dot b then Some [] else Some [(idx, par, choice b ty (type_of hist par))]
  | ER y cb k =>
      if is_dot cb then None else
      match opener hist k with
      | None => Some []
      | Some (x, ob) => match ring_val strong (type_of hist x) (type_of hist y) ob cb with
                        | Some v => Some [(y, x, v)]
                        | None => None
                        end
      end
  end.
Fixpoint ev_bonds_from (strong : bool) (hist rest : list ev) : option (list (Z * Z * payload)) :=
  match rest with
  | [] => Some []
  | e :: r => match ev_bond strong hist e, ev_bonds_from strong (hist ++ [e]) r with
              | Some a, Some b => Some (a ++ b)
              | _, _ => None
              end
  end.
Definition ev_bonds (strong : bool) (E : list ev) : option (list (Z * Z * payload)) := ev_bonds_from strong [] E.

(* every ring digit is closed *)
Definition all_closed (E : list ev) : bool :=
  forallb (fun e => match e with ER _ _ k => match opener E k with None => true | Some _ => false end | _ => true end) E.

Record dgraph := mkDG { dg_atoms : list atomtok; dg_bonds : list (Z * Z * payload) }.

Definition denote_graph (strong : bool) (t : tree) : option dgraph :=
  let E := flat t 0 None 0 in
  match ev_bonds strong E with
  | Some bs => if all_closed E then Some (mkDG (ev_atoms E) bs) else None
  | None => None
  end.

(* ---- text form (correspondence) *)
Open Scope string_scope.
Definition show_dgraph (g : option dgraph) : string :=
  match g with
  | None => "-"
  | Some g => show_list show_atom (dg_atoms g) ++ ";" ++
              show_list (fun t : Z * Z * payload => let '(a, b, c) := t in "(" ++ show_z a ++ "." ++ show_z b ++ "." ++ show_payload c ++ ")") (dg_bonds g)
  end.
Definition b_dgraph (strong : bool) (inputs : list tree) := batch (fun t => show_dgraph (denote_graph strong t)) inputs.
Close Scope string_scope.
