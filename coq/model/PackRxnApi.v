(* C10: ReactionContainer.pack(compressed=False, check=...) at API level:
     data = b''.join((bytearray((1, len(self.reactants), len(self.reagents), len(self.products))),
                      *(m.pack(compressed=False, check=check) for m in self.molecules())))
   The header bytearray is built FIRST (ValueError when a count exceeds 255, before any molecule is packed), then the
   molecules are packed in the order reactants, reagents, products; the first failing molecule raises. *)
From Coq Require Import ZArith List Bool.
From Model Require Import PyBase Pack PackApi.
Import ListNotations.
Open Scope Z_scope.

Fixpoint pack_all (check : bool) (ms : list pmol) : pyres (list (list Z)) :=
  match ms with
  | [] => Ok []
  | m :: r => match mol_pack check m with
              | Err e => Err e
              | Ok p => match pack_all check r with Err e => Err e | Ok ps => Ok (p :: ps) end
              end
  end.

Definition rxn_api_pack (check : bool) (rs ags ps : list pmol) : pyres (list Z) :=
  let r := Z.of_nat (length rs) in let a := Z.of_nat (length ags) in let p := Z.of_nat (length ps) in
  if (255 <? r) || (255 <? a) || (255 <? p) then Err ValueError
  else match pack_all check (rs ++ ags ++ ps) with
       | Err e => Err e
       | Ok packs => Ok ([1; r; a; p] ++ concat packs)
       end.

(* ---------- molecules that MoleculeContainer.pack(check=True) accepts although the format cannot carry them ---------- *)
Definition one_atom (n : Z) (iso : option Z) (h : option Z) (chg : Z) : pmol :=
  mkPMol [mkPAtom n 6 iso None h chg false [0; 0; 0; 0] []] 0 [].
Definition unrep_negative : pmol := one_atom (-1) None (Some 4) 0.     (* reachable: add_atom('C', -1) / remap *)
Definition unrep_zero : pmol := one_atom 0 None (Some 4) 0.            (* reachable; round trips, outside the documented 1-4095 *)
Definition unrep_h7 : pmol := one_atom 1 None (Some 7) 0.              (* private attribute only *)
Definition unrep_h8 : pmol := one_atom 1 None (Some 8) 0.
Definition unrep_charge12 : pmol := one_atom 1 None (Some 0) 12.
Definition unrep_charge_m5 : pmol := one_atom 1 None (Some 0) (-5).
Definition unrep_isotope : pmol := one_atom 1 (Some 28) (Some 4) 0.    (* offset 28 - (-4) = 32 *)
