(* C09 extension 4 -- how much fuel the explicit-stack searches need.  Definitions only.
   The Gallina loops (dfs of Model.IsoBits, pyx_dfs of Model.IsoBitsPyx) count loop iterations with `fuel` and return None when
   it is used up; the Python / C loops have no such counter.  tree_weight D k = number of nodes of the complete D-ary tree of
   height k = the most iterations one stack entry that is k levels above the last query atom can cause, when no atom has more
   than D neighbour records. *)
From Coq Require Import ZArith List Bool.
From Model Require Import PyBase PeriodicTable IsoBits IsoBitsExt.
Import ListNotations.

Fixpoint tree_weight (D k : nat) : nat :=
  match k with O => 1 | S k' => 1 + D * tree_weight D k' end.

(* N first-level entries, each a tree of height `last`, + the final iteration that finds the stack empty *)
Definition dfs_fuel_bound (N D last : nat) : nat := S (N * tree_weight D last).

(* the compiled side: any buffers *)
Definition mask_fuel (qu : query_t) (mo : molecule_t) : nat :=
  dfs_fuel_bound (List.length (mo_atoms mo)) (max_degree mo) (Nat.pred (List.length (qu_atoms qu))).

(* the reference side: largest neighbour dict *)
Definition ref_degree (rm : list ratom) : nat := fold_right Nat.max O (map (fun a => List.length (ra_nbrs a)) rm).
Definition ref_fuel (rq : list rqent) (rm : list ratom) : nat :=
  dfs_fuel_bound (List.length rm) (ref_degree rm) (Nat.pred (List.length rq)).

(* one component call under either flag, and a whole public call *)
Definition component_fuel (rq : list rqent) (rm : list ratom) : nat :=
  Nat.max (mask_fuel (enc_query rq) (enc_mol rm)) (ref_fuel rq rm).
Definition public_fuel (comps : list (list rqent)) (rm : list ratom) : nat :=
  fold_right Nat.max O (map (fun rq => component_fuel rq rm) comps).
