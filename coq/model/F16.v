(* Model of double_to_float16 (_pack_v2.pyx) and double_from_bytes (_unpack_v0v2.pyx) on exact dyadic numbers.
   A finite non-zero double is sign * M * 2^E with M > 0; every floating point operation the two functions perform
   (frexp, *2, -1, ldexp, *1024, /1024, +1) is exact in binary64 on the values that reach it, so integer arithmetic on
   (M, E) is a faithful model; the only inexact step is the truncating cast <unsigned short> f. *)
From Coq Require Import ZArith List Bool.
From Model Require Import PyBase.
Import ListNotations.
Open Scope Z_scope.

(* number of binary digits of M > 0 *)
Definition bitlen (m : Z) : Z := Z.log2 m + 1.

(* floor (M * 2^k) for any integer k *)
Definition scale (m k : Z) : Z := if 0 <=? k then Z.shiftl m k else Z.shiftr m (- k).

(* x = (neg ? -1 : 1) * M * 2^E, M >= 0 (M = 0 is zero); returns the two bytes p[0], p[1] *)
Definition f16_encode (neg : bool) (M E : Z) : Z * Z :=
  if M =? 0 then (0, 0)
  else
    let bl := bitlen M in
    (* frexp: x = f * 2^e0 with 0.5 <= f < 1, f = M / 2^bl, e0 = bl + E ; then e = e0 - 1 *)
    let e := bl + E - 1 in
    if (16 <=? e) || (e <? -25) then (0, 0)
    else
      (* f*2 = M / 2^(bl-1) in [1, 2) *)
      let '(ef, frac) :=
        if e <? -14 then
          (* subnormal: f = ldexp(2f, 14 + e); bits = trunc(f * 1024) = floor (M * 2^(1 - bl + 14 + e + 10)) *)
          (0, scale M (1 - bl + 14 + e + 10))
        else
          (* normal: bits = trunc((2f - 1) * 1024) = floor (M * 2^(11 - bl)) - 1024 *)
          (e + 15, scale M (11 - bl) - 1024) in
      let bits := (Z.lor (Z.lor (frac mod 65536) (Z.shiftl ef 10)) (Z.shiftl (if neg then 1 else 0) 15)) mod 65536 in
      ((Z.shiftr bits 8) mod 256, bits mod 256).

(* double_from_bytes a b = (neg, M, E) with value M * 2^E *)
Definition f16_decode (a b : Z) : bool * Z * Z :=
  let neg := negb (Z.shiftr a 7 =? 0) in
  let e := Z.land (Z.shiftr a 2) 31 in
  let f := Z.lor (Z.shiftl (Z.land a 3) 8) b in
  if e =? 0 then (neg, f, -24) else (neg, f + 1024, e - 15 - 10).

(* comparison of dyadics: M1 * 2^E1 <= M2 * 2^E2 *)
Definition dy_le (m1 e1 m2 e2 : Z) : bool :=
  let k := Z.min e1 e2 in Z.shiftl m1 (e1 - k) <=? Z.shiftl m2 (e2 - k).
Definition dy_eq (m1 e1 m2 e2 : Z) : bool := dy_le m1 e1 m2 e2 && dy_le m2 e2 m1 e1.
