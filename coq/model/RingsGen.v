(* C06 -- second extension round: algorithm-level model of the candidate generation of chython/algorithms/rings.py:
   _bfs, _make_pid, _c_set, and the whole perception  sssr_model = _rings_filter (_c_set (_make_pid (_bfs (_skin_graph g)))).
   CPython's set order is an INPUT: every [atoms.pop()] and every iteration over a set of atoms consumes the next entry of an
   oracle (a list of atom lists, in the order of the calls); an entry that is not an arrangement of the set at hand is an
   error of the model (OtherError).  Dictionaries are association lists in insertion order; reading a missing key of a
   defaultdict INSERTS it (this decides later iteration orders and is modelled); the distance tables are only looked up,
   never iterated, and are modelled as lookups with the default 10^9.  Definitions only. *)
From Coq Require Import ZArith List Bool Lia.
From Model Require Import PyBase Graph Rings RingsFilter.
Import ListNotations.
Open Scope Z_scope.

(* ---------------------------------------------------------------------------------------------------- *)
(* generic insertion-ordered dictionaries                                                                *)
Section Dict.
Context {K V : Type}.
Variable keqb : K -> K -> bool.
Fixpoint dget (d : list (K * V)) (k : K) : option V :=
  match d with [] => None | (k', v) :: t => if keqb k k' then Some v else dget t k end.
Fixpoint dput (d : list (K * V)) (k : K) (v : V) : list (K * V) :=
  match d with [] => [(k, v)] | (k', w) :: t => if keqb k k' then (k', v) :: t else (k', w) :: dput t k v end.
Fixpoint ddel (d : list (K * V)) (k : K) : list (K * V) :=
  match d with [] => [] | (k', w) :: t => if keqb k k' then t else (k', w) :: ddel t k end.
Definition dhas (d : list (K * V)) (k : K) : bool := match dget d k with Some _ => true | None => false end.
(* defaultdict read: the value, and the dictionary with the key inserted when it was missing *)
Definition dviv (d : list (K * V)) (k : K) (dflt : V) : V * list (K * V) :=
  match dget d k with Some v => (v, d) | None => (dflt, d ++ [(k, dflt)]) end.
End Dict.

Definition pkey := (Z * Z)%type.
Definition pkeqb (a b : pkey) : bool := (fst a =? fst b) && (snd a =? snd b).
Definition path := list Z.
Definition d3 := list (pkey * path).             (* {(first inner atom, last inner atom): path} *)
Definition d2 := list (Z * d3).
Definition d1 := list (Z * d2).                  (* pid1 / pid2 *)
Definition dist := list (Z * list (Z * Z)).
Definition INF : Z := 1000000000.

(* ---------------------------------------------------------------------------------------------------- *)
(* _bfs                                                                                                   *)
Definition oracle := list (list Z).
Definition perm_ok (a b : list Z) : bool := list_eqb Z.eqb (sort_z a) (sort_z b).
(* take the next oracle entry; it must be an arrangement of [s] *)
Definition ask (o : oracle) (s : list Z) : pyres (list Z * oracle) :=
  match o with
  | e :: o' => if perm_ok e s then Ok (e, o') else Err OtherError
  | [] => Err OtherError
  end.

Record bst := mkBst { b_term : list path; b_next : list (Z * path); b_odd : list Z }.

Definition len1 (p : path) : bool := Nat.eqb (length p) 1.

(* "elif n in next_stack: terminated.append(path); if len(next_stack[n]) != 1: terminated.append(next_stack[n]); next_stack[n] = [n]
    else: next_stack[n] = path"   (the branch taken when n is not in stack) *)
Definition meet_next (s : bst) (n : Z) (p : path) : bst :=
  match dget Z.eqb (b_next s) n with
  | Some q =>
      if len1 q then mkBst (b_term s ++ [p]) (b_next s) (b_odd s)
      else mkBst (b_term s ++ [p; q]) (dput Z.eqb (b_next s) n [n]) (b_odd s)
  | None => mkBst (b_term s) (dput Z.eqb (b_next s) n p) (b_odd s)
  end.

(* one neighbour n of a branching atom tail *)
Definition bfs_branch (stack_keys : list Z) (tail : Z) (s : bst) (n : Z) : bst :=
  if zmem n (b_odd s) then
    if zmem n stack_keys then
      (if dhas Z.eqb (b_next s) n then mkBst (b_term s) (ddel Z.eqb (b_next s) n) (b_odd s) else s)
    else mkBst (b_term s) (dput Z.eqb (b_next s) n [n]) (b_odd s)
  else
    let p := [tail; n] in
    if zmem n stack_keys then mkBst (b_term s ++ [p]) (b_next s) (b_odd s ++ [tail])
    else meet_next s n p.

(* one entry (tail, path) of the current front *)
Definition bfs_entry (g : graph) (atoms stack_keys : list Z) (so : bst * oracle) (e : Z * path) : pyres (bst * oracle) :=
  let '(s, o) := so in
  let '(tail, p) := e in
  let neighbors := filter (fun x => zmem x atoms) (set_of_z (gnbrs g tail)) in
  match neighbors with
  | [] => Ok (s, o)
  | [n] =>
      if zmem n (b_odd s) then
        Ok (mkBst (if len1 p then b_term s else b_term s ++ [p]) (dput Z.eqb (b_next s) n [n]) (b_odd s), o)
      else
        let p' := p ++ [n] in
        if zmem n stack_keys then Ok (mkBst (b_term s ++ [p']) (b_next s) (b_odd s ++ [tail]), o)
        else Ok (meet_next s n p', o)
  | _ =>
      match ask o neighbors with
      | Err x => Err x
      | Ok (order, o') =>
          let s0 := mkBst (if len1 p then b_term s else b_term s ++ [p]) (b_next s) (b_odd s) in
          Ok (fold_left (bfs_branch stack_keys tail) order s0, o')
      end
  end.

Fixpoint bfs_entries (g : graph) (atoms stack_keys : list Z) (so : bst * oracle) (es : list (Z * path)) : pyres (bst * oracle) :=
  match es with
  | [] => Ok so
  | e :: t => match bfs_entry g atoms stack_keys so e with Err x => Err x | Ok so' => bfs_entries g atoms stack_keys so' t end
  end.

Definition minus (a b : list Z) : list Z := filter (fun x => negb (zmem x b)) a.

(* tail = atoms.pop(); next_stack = {x: [tail, x] for x in bonds[tail] & atoms} *)
Definition bfs_start (g : graph) (atoms : list Z) (o : oracle) : pyres (list Z * list (Z * path) * oracle) :=
  match atoms with
  | [] => Err KeyError
  | _ =>
      match o with
      | [tail] :: o1 =>
          if zmem tail atoms then
            let atoms' := minus atoms [tail] in
            let nb := filter (fun x => zmem x atoms') (set_of_z (gnbrs g tail)) in
            match nb with
            | [] => Ok (atoms', [], o1)          (* an empty comprehension iterates nothing *)
            | _ => match ask o1 nb with
                   | Err x => Err x
                   | Ok (order, o2) => Ok (atoms', map (fun x => (x, [tail; x])) order, o2)
                   end
            end
          else Err OtherError
      | _ => Err OtherError
      end
  end.

Fixpoint bfs_levels (fuel : nat) (g : graph) (atoms : list Z) (term : list path) (stack : list (Z * path)) (o : oracle)
  : pyres (list path) :=
  match fuel with
  | O => Err OtherError
  | S f =>
      match bfs_entries g atoms (keys stack) (mkBst term [] [], o) stack with
      | Err x => Err x
      | Ok (s, o1) =>
          let atoms' := minus atoms (keys stack) in
          match atoms' with
          | [] => Ok (b_term s)
          | _ =>
              match b_next s with
              | [] => match bfs_start g atoms' o1 with
                      | Err x => Err x
                      | Ok (atoms'', st, o2) => bfs_levels f g atoms'' (b_term s) st o2
                      end
              | st => bfs_levels f g atoms' (b_term s) st o1
              end
          end
      end
  end.

Definition bfs_paths (g : graph) (o : oracle) : pyres (list path) :=
  match bfs_start g (keys g) o with
  | Err x => Err x
  | Ok (atoms, st, o1) => bfs_levels (2 * length g + 2) g atoms [] st o1
  end.

(* ---------------------------------------------------------------------------------------------------- *)
(* _make_pid                                                                                              *)
Definition dist_get (d : dist) (i j : Z) : Z :=
  match dget Z.eqb d i with Some r => match dget Z.eqb r j with Some x => x | None => INF end | None => INF end.
Definition dist_has (d : dist) (i j : Z) : bool :=
  match dget Z.eqb d i with Some r => dhas Z.eqb r j | None => false end.
Definition dist_set (d : dist) (i j x : Z) : dist :=
  let r := match dget Z.eqb d i with Some r => r | None => [] end in dput Z.eqb d i (dput Z.eqb r j x).

(* p[i][j] with both levels of defaultdict insertion: the inner dictionary and the updated table *)
Definition viv2 (p : d1) (i j : Z) : d3 * d1 :=
  let '(row, p1) := dviv Z.eqb p i [] in
  let '(cell, row') := dviv Z.eqb row j [] in
  (cell, dput Z.eqb p1 i row').
(* p[i][j] = cell  (p[i] is created when missing) *)
Definition set2 (p : d1) (i j : Z) (cell : d3) : d1 :=
  let '(row, p1) := dviv Z.eqb p i [] in dput Z.eqb p1 i (dput Z.eqb row j cell).
(* p[i][j][key] = c *)
Definition set3 (p : d1) (i j : Z) (key : pkey) (c : path) : d1 :=
  let '(cell, p1) := viv2 p i j in set2 p1 i j (dput pkeqb cell key c).

Definition nth_z (l : list Z) (k : nat) : Z := nth k l 0.
Definition sort_paths (l : list path) : list path := sort_by_len l.

(* first loop: for c in sorted(paths, key=len) *)
Definition pid_init_step (st : d1 * d1 * dist) (c : path) : d1 * d1 * dist :=
  let '(p1, p2, d) := st in
  let di := Z.of_nat (length c) - 1 in
  let n := nth_z c 0 in let m := last c 0 in
  let nn := nth_z c 1 in let mm := nth_z c (length c - 2) in
  if dist_has d n m && negb (dist_get d n m =? di) then
    (p1, set3 (set3 p2 n m (nn, mm) c) m n (mm, nn) (rev c), d)
  else
    (set3 (set3 p1 n m (nn, mm) c) m n (mm, nn) (rev c), p2, dist_set (dist_set d n m di) m n di).

(* {(ni, mj): ip[:-1] + jp for ((ni, _), ip), ((_, mj), jp) in zip(pid1[i][k].items(), pid1[k][j].items())} *)
Fixpoint zip_paths (a b : d3) (acc : d3) : d3 :=
  match a, b with
  | (ka, ip) :: a', (kb, jp) :: b' => zip_paths a' b' (dput pkeqb acc (fst ka, snd kb) (removelast ip ++ jp))
  | _, _ => acc
  end.
(* the comprehension reads pid1[i][k] and pid1[k][j] (inserting missing keys) *)
Definition compose (p1 : d1) (i k j : Z) : d3 * d1 :=
  let '(a, p1a) := viv2 p1 i k in
  let '(b, p1b) := viv2 p1a k j in
  (zip_paths a b [], p1b).
(* dict.update *)
Definition dupdate (cell extra : d3) : d3 := fold_left (fun acc e => dput pkeqb acc (fst e) (snd e)) extra cell.

(* body of  for j in pid1  *)
Definition pid_j (k i : Z) (dold : dist) (st : d1 * d1 * dist) (j : Z) : d1 * d1 * dist :=
  let '(p1, p2, dnew) := st in
  if (j =? k) || (j =? i) then st else
  let ij := dist_get dold i j in
  let ikj := dist_get dold i k + dist_get dold k j in
  if ij - ikj =? 1 then
    let '(old, p1a) := viv2 p1 i j in
    let p2a := set2 p2 i j old in
    let '(comp, p1b) := compose p1a i k j in
    (set2 p1b i j comp, p2a, dist_set dnew i j ikj)
  else if ikj <? ij then
    let p2a := set2 p2 i j [] in
    let '(comp, p1b) := compose p1 i k j in
    (set2 p1b i j comp, p2a, dist_set dnew i j ikj)
  else if ij =? ikj then
    let '(_, p1a) := viv2 p1 i j in
    let '(comp, p1b) := compose p1a i k j in
    let '(cell, p1c) := viv2 p1b i j in
    (set2 p1c i j (dupdate cell comp), p2, dist_set dnew i j ij)
  else if ikj - ij =? 1 then
    let '(_, p2a) := viv2 p2 i j in
    let '(comp, p1b) := compose p1 i k j in
    let '(cell, p2b) := viv2 p2a i j in
    (p1b, set2 p2b i j (dupdate cell comp), dist_set dnew i j ij)
  else (p1, p2, dist_set dnew i j ij).

Definition pid_i (ks : list Z) (k : Z) (dold : dist) (st : d1 * d1 * dist) (i : Z) : d1 * d1 * dist :=
  if i =? k then st else
  let '(p1, p2, dnew) := st in
  let dik := dist_get dold i k in
  fold_left (pid_j k i dold) ks (p1, p2, dist_set (dist_set dnew k i dik) i k dik).

Definition pid_k (ks : list Z) (st : d1 * d1 * dist) (k : Z) : d1 * d1 * dist :=
  let '(p1, p2, dold) := st in
  fold_left (pid_i ks k dold) ks (p1, p2, []).

Definition make_pid (paths : list path) : d1 * d1 * dist :=
  let st := fold_left pid_init_step (sort_paths paths) ([], [], []) in
  let ks := keys (fst (fst st)) in
  fold_left (pid_k ks) ks st.

(* ---------------------------------------------------------------------------------------------------- *)
(* _c_set                                                                                                 *)
Definition d3vals (c : d3) : list path := map snd c.
Definition lookup2 (p : d1) (i j : Z) : d3 :=
  match dget Z.eqb p i with Some r => match dget Z.eqb r j with Some c => c | None => [] end | None => [] end.

(* the entries (c_num, p1ij, p2ij) ; p2ij = None is an empty list with the flag false *)
Definition cs_entry := (Z * list path * option (list path))%type.
Definition cset_row (p2 : d1) (d : dist) (seen : list Z) (i : Z) (row : d2) : list cs_entry :=
  flat_map (fun jc =>
    let j := fst jc in
    if zmem j seen then [] else
    let p1ij := d3vals (snd jc) in
    let p2ij := d3vals (lookup2 p2 i j) in
    let dij := dist_get d i j * 2 in
    match p1ij with
    | [_] => match p2ij with [] => [] | _ => [(dij + 1, p1ij, Some p2ij)] end
    | _ => match p2ij with
           | [] => [(dij, p1ij, None)]
           | _ => [(dij, p1ij, None); (dij + 1, p1ij, Some p2ij)]
           end
    end) row.

Fixpoint cset_rows (p1 : d1) (p2 : d1) (d : dist) (seen : list Z) : list cs_entry :=
  match p1 with
  | [] => []
  | (i, row) :: t => let seen' := seen ++ [i] in cset_row p2 d seen' i row ++ cset_rows t p2 d seen'
  end.

Fixpoint insert_cs (e : cs_entry) (l : list cs_entry) : list cs_entry :=
  match l with [] => [e] | x :: t => if fst (fst e) <=? fst (fst x) then e :: l else x :: insert_cs e t end.
Definition sort_cs (l : list cs_entry) : list cs_entry := fold_right insert_cs [] l.

(* c2[-2:0:-1] *)
Definition sl_mid_rev (c : path) : path := rev (removelast (tl c)).
Definition nodup_b (c : list Z) : bool := nodup_z c.

Fixpoint map_res {A B} (f : A -> pyres B) (l : list A) : pyres (list B) :=
  match l with [] => Ok [] | a :: t => match f a with Err x => Err x | Ok b => match map_res f t with Err x => Err x | Ok r => Ok (b :: r) end end end.

Definition rings_of_entry (e : cs_entry) : pyres (list ring) :=
  let '(c_num, p1ij, p2o) := e in
  let raw :=
    if Z.odd c_num then
      match p2o with
      | None => []      (* never: odd entries carry p2ij *)
      | Some p2ij => flat_map (fun c1 => map (fun c2 => c1 ++ sl_mid_rev c2) p2ij) p1ij
      end
    else map (fun cc => fst cc ++ sl_mid_rev (snd cc)) (combine p1ij (tl p1ij)) in
  map_res canonic_ring (filter nodup_b raw).

Fixpoint concat_res {A} (l : list (pyres (list A))) : pyres (list A) :=
  match l with [] => Ok [] | x :: t => match x with Err e => Err e | Ok a => match concat_res t with Err e => Err e | Ok r => Ok (a ++ r) end end end.

Definition c_set (pids : d1 * d1 * dist) : pyres (list ring) :=
  let '(p1, p2, d) := pids in
  concat_res (map rings_of_entry (sort_cs (cset_rows p1 p2 d []))).

(* ---------------------------------------------------------------------------------------------------- *)
(* the whole perception: Rings.sssr                                                                      *)
Definition candidates (g : graph) (o : oracle) : pyres (list ring) :=
  match skin_graph g with
  | Err x => Err x
  | Ok sk => match bfs_paths sk o with Err x => Err x | Ok paths => c_set (make_pid paths) end
  end.

Definition sssr_model (g : graph) (o : oracle) : pyres (list ring) :=
  match rings_count g with
  | Err x => Err x
  | Ok n => if n =? 0 then Ok [] else
            match candidates g o with Err x => Err x | Ok cs => rings_filter cs (Z.to_nat n) end
  end.

(* one-line correspondence cases *)
Definition d3_eqb (a b : d3) : bool := list_eqb (pair_eqb pkeqb (list_eqb Z.eqb)) a b.
Definition d2_eqb (a b : d2) : bool := list_eqb (pair_eqb Z.eqb d3_eqb) a b.
Definition d1_eqb (a b : d1) : bool := list_eqb (pair_eqb Z.eqb d2_eqb) a b.
Definition c_bfs (g : graph) (o : oracle) (e : pyres (list path)) : bool := pyres_eqb ll_eqb (bfs_paths g o) e.
Definition c_pid1 (paths : list path) (e : d1) : bool := d1_eqb (fst (fst (make_pid paths))) e.
Definition c_pid2 (paths : list path) (e : d1) : bool := d1_eqb (snd (fst (make_pid paths))) e.
(* the distance table is compared by lookups on the given (i, j, value) triples *)
Definition c_dist (paths : list path) (e : list (Z * Z * Z)) : bool :=
  let d := snd (make_pid paths) in forallb (fun t => dist_get d (fst (fst t)) (snd (fst t)) =? snd t) e.
Definition c_cset (paths : list path) (e : pyres (list ring)) : bool := pyres_eqb ll_eqb (c_set (make_pid paths)) e.
Definition c_sssr (g : graph) (o : oracle) (e : pyres (list ring)) : bool := pyres_eqb ll_eqb (sssr_model g o) e.
