(* linear_hash_smiles / its suggested repair / linear_smiles_hash as functions of the molecule (C17, round 3): the spelling of
   atoms and bonds is Model.LinearSpell, the identifiers are atom_identifiers g; chs = CPython iteration order of the chain set
   (the only remaining input). *)
From Coq Require Import String ZArith List Bool.
From Model Require Import PyBase Graph PyHash Fingerprint LinearSmiles MorganSmiles LinearSpell.
Import ListNotations.
Open Scope Z_scope.

Definition linear_hash_smiles_model (h : list Z -> Z) (g : mol) (chs : list path) (nbp : Z) : list (Z * list string) :=
  linear_hash_smiles_with (lhs_fa g) (lhs_fb g) h (atom_identifiers g) g chs nbp.
Definition linear_hash_smiles_fixed_model (h : list Z -> Z) (g : mol) (chs : list path) (nbp : Z) : list (Z * list string) :=
  linear_hash_smiles_fixed_with (lhs_fa g) (lhs_fb g) h (atom_identifiers g) g chs nbp.
(* out = defaultdict(list); for k, sl in self.linear_hash_smiles(...).items(): for s in sl: out[s].append(k) *)
Definition linear_smiles_hash_model (h : list Z -> Z) (g : mol) (chs : list path) (nbp : Z) : list (string * list Z) :=
  smiles_hash_of (linear_hash_smiles_model h g chs nbp).
