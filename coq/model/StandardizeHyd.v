(* C14 extension -- explicify / implicify with the real valence lookup (Model.Valence) on the rule instantiations:
   the executable statement `implicify (explicify g) = g` used by the finite theorem of Proofs.StandardizeHydProofs *)
From Coq Require Import ZArith List String Bool.
From Model Require Import PyBase Graph PeriodicTable.
From Model Require Valence.
From Gen Require Import Elements StdRules.
From Model Require Import Standardize StandardizeMatch.
Import ListNotations.
Open Scope Z_scope.

(* atom.valence_rules(explicit_sum) + `first rule that matches the environment with h >= i` (same as in StandardizeTie.v) *)
Definition edict_of (env : list (Z * Z)) : Valence.edict := fold_left (fun d k => Valence.eincr d k) env [].
Fixpoint first_rule_ge (rs : list Valence.rule) (d : Valence.edict) (i : Z) : vres :=
  match rs with
  | [] => VNone
  | r :: rest => if Valence.rule_matches r d && (i <=? Valence.r_h r) then VSome (Valence.r_h r) else first_rule_ge rest d i
  end.
Definition real_vlookup (a : atom) (env : list (Z * Z)) (i : Z) : vres :=
  match Valence.lookup_rules (Valence.rules_of_atom a) (a_chg a) (a_rad a) (zsum (map fst env)) with
  | Err _ => VErr
  | Ok rs => first_rule_ge rs (edict_of env) i
  end.

Definition no_h_atoms (g : mol) : bool := forallb (fun na => negb (a_num (snd na) =? 1)) (m_atoms g).
Definition has_implicit (g : mol) : bool := existsb (fun na => match a_h (snd na) with Some h => 0 <? h | None => false end) (m_atoms g).

(* explicify then implicify gives the molecule back, dictionaries in the same order; and explicify of that gives the explicit
   form back *)
Definition inverse_b (g : mol) : bool :=
  match explicify g with
  | Ok g' => match implicify real_vlookup g' with
             | Ok g'' => mol_eqb g'' g && match explicify g'' with Ok g3 => mol_eqb g3 g' | Err _ => false end
             | Err _ => false
             end
  | Err _ => false
  end.
(* the instantiations the sweep is about: valence-valid, without hydrogen atoms; before and after the pass sequence *)
Definition inverse_report (v : nat) (r : rule) : bool * bool * bool :=
  let g := vinstantiate v r in
  let ok0 := all_valid g && no_h_atoms g in
  (ok0 && has_implicit g, negb ok0 || inverse_b g,
   match bf_passes g with
   | Ok (g1, _, _) => negb (all_valid g1 && no_h_atoms g1) || inverse_b g1
   | Err _ => true
   end).
