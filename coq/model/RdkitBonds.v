(* C20 -- model of Graph.bonds() (chython/containers/graph.py), the enumeration data.bonds() the RDKit bridge iterates: every bond once,
   from the row of the adjacency dictionary that comes first.  Over Model.Graph.mol (adjacency = _bonds, insertion ordered). *)
From Coq Require Import ZArith List Bool.
From Model Require Import PyBase Graph.
Import ListNotations.
Open Scope Z_scope.

(*   seen = set()
     for n, m_bond in self._bonds.items():
         seen.add(n)
         for m, bond in m_bond.items():
             if m not in seen: yield n, m, bond *)
Definition row_bonds (seen : list Z) (n : Z) (l : list (Z * bond)) : list (Z * Z * Z) :=
  flat_map (fun mb => if zmem (fst mb) seen then [] else [(n, fst mb, b_ord (snd mb))]) l.
Fixpoint bonds_go (adj : list (Z * list (Z * bond))) (seen : list Z) : list (Z * Z * Z) :=
  match adj with
  | [] => []
  | (n, l) :: r => row_bonds (n :: seen) n l ++ bonds_go r (n :: seen)
  end.
Definition bonds_of (g : mol) : list (Z * Z * Z) := bonds_go (m_adj g) [].

