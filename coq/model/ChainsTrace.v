(* Intermediate states of LinearFingerprint._chains (C17, round 3 (3)): the sequence of `now = queue.popleft()` values of the
   deque loop, from a GIVEN initial queue (for min_radius = 1 the code fills the deque from a set: `deque(arr)`, whose order is
   CPython's set iteration order; the correspondence check passes the observed initial content). *)
From Coq Require Import ZArith List Bool.
From Model Require Import PyBase Graph PyHash Fingerprint.
Import ListNotations.
Open Scope Z_scope.

Fixpoint chains_pops (fuel : nat) (g : mol) (hi : Z) (queue : list path) : option (list path) :=
  match fuel with
  | O => None
  | S f =>
      match queue with
      | [] => Some []
      | now :: q =>
          let var := extend g now in
          let q' := match var with
                    | [] => q
                    | v0 :: _ => if len_z v0 <? hi then q ++ var else q
                    end in
          option_map (cons now) (chains_pops f g hi q')
      end
  end.

(* the whole function from a given initial queue q0 (= list(deque(arr)) for min_radius = 1, the atoms in dict order otherwise):
   the sequence of arr.add arguments, the set arr starting as q0 for min_radius = 1 *)
Definition chains_seq_loop_from (fuel : nat) (g : mol) (lo hi : Z) (q0 : list path) : option (list path) :=
  if lo =? 1 then
    if hi =? 1 then Some q0
    else chains_loop fuel g lo hi q0 q0
  else chains_loop fuel g lo hi q0 [].
