(* C14 extension -- an executable SPECIFICATION of what pattern.get_mapping(mol, automorphism_filter=False) yields for the
   patterns of the standardisation tables (chython/periodictable/base/query.py: AnyMetal / AnyElement / ListElement /
   QueryElement.__eq__, containers/bonds.py: QueryBond.__eq__, algorithms/isomorphism.py: _get_mapping: injective, every
   pattern bond present with an allowed order, NO bond between two matched atoms that the pattern does not have):
   all embeddings by brute force, as a SET (the order in which the real matcher yields them is not modelled; the engine's
   result is compared for the real order in the correspondence).  With it the whole rule engine runs inside Coq:
     brute_matches : the `matches` Section variable of Model.Standardize
     calc_h        : Model.Valence.calc_implicit
   Inputs that stay inputs: the SSSR ring sizes of every atom (C06 territory; `rings`), given by the harness for real
   molecules and computed by brute force for the small rule instantiations below. *)
From Coq Require Import ZArith List String Bool.
From Model Require Import PyBase Graph PeriodicTable.
From Model Require Valence.
From Gen Require Import Elements StdRules.
From Model Require Import Standardize.
Import ListNotations.
Open Scope Z_scope.

Definition calc_h (g : mol) (n : Z) : option Z :=
  match Valence.calc_implicit g n with Ok h => h | Err _ => None end.

(* ---- atom labels as calc_labels stores them (Model.Valence.calc_labels_atom) ---- *)
Record alabel := mkALabel { al_nb : Z; al_het : Z; al_hyb : Z }.
Definition label_of (g : mol) (n : Z) : alabel :=
  match Valence.calc_labels_atom g n with
  | Ok l => mkALabel (Valence.l_neighbors l) (Valence.l_heteroatoms l) (Valence.l_hybridization l)
  | Err _ => mkALabel (-1) (-1) (-1)
  end.

Definition in_or_any (x : Z) (l : list Z) : bool := match l with [] => true | _ => zmem x l end.

(* ring_sizes constraint: () unconstrained; (0,) = !R: the atom is in no ring; otherwise one of the sizes *)
Definition ring_ok (want have : list Z) : bool :=
  match want with
  | [] => true
  | w :: _ => if w =? 0 then match have with [] => true | _ => false end
              else existsb (fun x => zmem x want) have
  end.

Section Matcher.
  Variable rings : Z -> list Z.            (* atom -> sizes of the SSSR rings containing it *)

  (* written with `if` so that vm_compute (call by value) stops at the first failing test and never computes labels / rings it
     does not need; the conjunction is the one of the four __eq__ methods *)
  Definition atom_match (g : mol) (pa : patom) (n : Z) : bool :=
    match atom_of g n with
    | None => false
    | Some a =>
        match pa_kind pa with
        | PMetal => if is_metal (a_num a)
                    then let lb := label_of g n in
                         if in_or_any (al_nb lb) (pa_nb pa) then in_or_any (al_hyb lb) (pa_hyb pa) else false
                    else false
        | k =>
            if match k with PElem nums => zmem (a_num a) nums | _ => true end then
            if match pa_chg pa with Some c => a_chg a =? c | None => true end then
            if match pa_rad pa with Some r => Bool.eqb (a_rad a) r | None => true end then
            let lb := label_of g n in
            if in_or_any (al_nb lb) (pa_nb pa) then
            if in_or_any (al_hyb lb) (pa_hyb pa) then
            if match pa_ring pa with [] => true | _ => ring_ok (pa_ring pa) (rings n) end then
            if match pa_h pa with [] => true | hs => match a_h a with Some h => zmem h hs | None => false end end then
            in_or_any (al_het lb) (pa_het pa)
            else false else false else false else false else false else false else false
        end
    end.

  Definition pbond_between (r : rule) (p q : Z) : option pbond :=
    find (fun x => ((pb_n x =? p) && (pb_m x =? q)) || ((pb_n x =? q) && (pb_m x =? p))) (r_bonds r).

  (* is the new pair (p -> n) consistent with an earlier pair (q -> m)? *)
  Definition pair_ok (r : rule) (g : mol) (p n q m : Z) : bool :=
    if n =? m then false else
    (* _bonds[n][m] is _bonds[m][n]: one Bond object under both keys *)
    match pbond_between r p q, bond_of g n m, bond_of g m n with
    | Some pb, Some b, Some _ => if zmem (b_ord b) (pb_ord pb)
                                 then match pb_ring pb with None => true | Some _ => false end      (* no ring-marked bond in the tables (obligation) *)
                                 else false
    | None, None, None => true
    | _, _, _ => false
    end.

  Fixpoint extend (r : rule) (g : mol) (todo : list patom) (acc : mapping) : list mapping :=
    match todo with
    | [] => [acc]
    | pa :: rest =>
        flat_map (fun n =>
                    if atom_match g pa n
                    then if forallb (fun qm => pair_ok r g (pa_id pa) n (fst qm) (snd qm)) acc
                         then extend r g rest (acc ++ [(pa_id pa, n)]) else []
                    else [])
                 (ids g)
    end.

  Definition brute_matches (_ _ : Z) (r : rule) (g : mol) : list mapping := extend r g (r_atoms r) [].
End Matcher.

(* ---- comparing sets of mappings: as sorted lists of target tuples in pattern-atom order ---- *)
Definition targets (r : rule) (mp : mapping) : list Z :=
  map (fun pa => match zget mp (pa_id pa) with Some n => n | None => -1 end) (r_atoms r).
Fixpoint zlist_leb (a b : list Z) : bool :=
  match a, b with
  | [], _ => true
  | _, [] => false
  | x :: a', y :: b' => if x <? y then true else if y <? x then false else zlist_leb a' b'
  end.
Fixpoint linsert (x : list Z) (l : list (list Z)) : list (list Z) :=
  match l with [] => [x] | y :: r => if zlist_leb x y then x :: l else y :: linsert x r end.
Definition lsort (l : list (list Z)) : list (list Z) := fold_right linsert [] l.
Definition same_matches (r : rule) (a b : list mapping) : bool :=
  list_eqb (list_eqb Z.eqb) (lsort (map (targets r) a)) (lsort (map (targets r) b)).

(* ---- ring sizes by brute force (small molecules only): sizes k <= 8 of simple cycles through n over non-special bonds ---- *)
Definition cov_nbrs (g : mol) (n : Z) : list Z :=
  map fst (filter (fun mb => negb (b_ord (snd mb) =? 8)) (nbrs g n)).
Fixpoint cycle_from (g : mol) (start cur : Z) (seen : list Z) (k : nat) : bool :=
  (* is there a simple path cur -> ... of exactly k more atoms whose last atom is bonded to start? *)
  match k with
  | O => zmem start (cov_nbrs g cur) && negb (Nat.eqb (List.length seen) 1)
  | S k' => existsb (fun x => negb (zmem x seen) && negb (x =? start) && cycle_from g start x (x :: seen) k') (cov_nbrs g cur)
  end.
Definition rings_bf (g : mol) (n : Z) : list Z :=
  filter (fun k => cycle_from g n n [n] (Z.to_nat (k - 1))) [3; 4; 5; 6; 7; 8].

(* ---- a rule's pattern as a molecule (variant v picks the v-th alternative of every element / order list), with carbon
        substituents up to the smallest allowed neighbour count, hydrogens by calc_implicit ---- *)
Definition pick {A} (v : nat) (l : list A) (d : A) : A := nth (Nat.modulo v (Nat.max 1 (List.length l))) l d.
Definition vinst_atom (v : nat) (a : patom) : Z * atom :=
  (pa_id a, mkAtom (match pa_kind a with PElem nums => pick v nums 6 | PAny => 6 | PMetal => 22 end) None
                   (match pa_chg a with Some c => c | None => 0 end)
                   (match pa_rad a with Some r => r | None => false end) None None).
Definition vinst_adj (v : nat) (bs : list pbond) (p : Z) : list (Z * bond) :=
  flat_map (fun x => let o := pick v (pb_ord x) 1 in
                     if pb_n x =? p then [(pb_m x, mkBond o None)] else if pb_m x =? p then [(pb_n x, mkBond o None)] else [])
           bs.
Fixpoint subst_plan (atoms : list patom) (bs : list pbond) (next : Z) : list (Z * Z) :=
  match atoms with
  | [] => []
  | a :: rest =>
      let deg := Z.of_nat (List.length (vinst_adj 0 bs (pa_id a))) in
      let k := match filter (fun d => deg <=? d) (pa_nb a) with [] => 0 | d :: ds => fold_left Z.min ds d - deg end in
      map (fun j => (pa_id a, next + j)) (zrange 0 k) ++ subst_plan rest bs (next + k)
  end.
Definition carbon : atom := mkAtom 6 None 0 false None None.
Definition vinstantiate (v : nat) (r : rule) : mol :=
  let plan := subst_plan (r_atoms r) (r_bonds r) (fold_right Z.max 0 (map pa_id (r_atoms r)) + 1) in
  let g := mkMol (map (vinst_atom v) (r_atoms r) ++ map (fun pc => (snd pc, carbon)) plan)
                 (map (fun a => (pa_id a, vinst_adj v (r_bonds r) (pa_id a) ++
                                          map (fun pc => (snd pc, mkBond 1 None)) (filter (fun pc => fst pc =? pa_id a) plan))) (r_atoms r)
                  ++ map (fun pc => (snd pc, [(fst pc, mkBond 1 None)])) plan) in
  recalc calc_h g (ids g).

(* valence-valid: every hydrogen count is known and no hydrogen atom has more than one covalent bond (calc_implicit gives every
   hydrogen atom the count 0) *)
Definition all_valid (g : mol) : bool :=
  forallb (fun na => match a_h (snd na) with Some _ => true | None => false end &&
                     (negb (a_num (snd na) =? 1) || (Z.of_nat (List.length (cov_nbrs g (fst na))) <=? 1))) (m_atoms g).
Definition hsum (g : mol) : Z :=
  zsum (map (fun na => match a_h (snd na) with Some h => h | None => 0 end) (m_atoms g)) +
  Z.of_nat (List.length (filter (fun na => a_num (snd na) =? 1) (m_atoms g))).

(* the engine with the brute-force matcher (ring sizes recomputed by brute force from the current molecule) *)
Definition bf_matches (stage ridx : Z) (r : rule) (g : mol) : list mapping := brute_matches (rings_bf g) stage ridx r g.
Definition bf_pass (rules : list rule) (g : mol) := standardize_pass bf_matches calc_h 0 rules true g.
Definition bf_passes (g : mol) := standardize_passes bf_matches calc_h double_rules single_rules metal_rules true g.

(* ---- the finite sweep over the rule tables: every rule on its own instantiation, through the whole pass sequence ---- *)
Definition table_rules : list rule := double_rules ++ single_rules ++ metal_rules.
Definition lhs_hits (g : mol) : list string :=
  map r_name (filter (fun r => match bf_matches 0 0 r g with [] => false | _ => true end) table_rules).
Record rule_report := mkReport {
  rp_name : string;
  rp_valid : bool;           (* the instantiation is valence-valid *)
  rp_matches : nat;          (* embeddings of the rule's own pattern in it *)
  rp_ok : bool;              (* the pass sequence completed *)
  rp_valid_after : bool;
  rp_dh : Z;                 (* change of the total hydrogen count *)
  rp_dq : Z;                 (* change of the net charge *)
  rp_lhs_after : list string (* rules whose pattern matches the result *)
}.
Definition report_of (v : nat) (r : rule) : rule_report :=
  let g := vinstantiate v r in
  let n := List.length (bf_matches 0 0 r g) in
  match n with
  | O => mkReport (r_name r) (all_valid g) O true true 0 0 []
  | _ => match bf_passes g with
         | Ok (g1, _, _) => mkReport (r_name r) (all_valid g) n true (all_valid g1) (hsum g1 - hsum g) (total_charge g1 - total_charge g) (lhs_hits g1)
         | Err _ => mkReport (r_name r) (all_valid g) n false false 0 0 []
         end
  end.
(* - rules that match a valence-valid instantiation and change the total hydrogen count, with the amount;
   - rules that match their instantiation and whose result is matched by some left-hand side, with those;
   - rules that match their instantiation and change the net charge;
   - rules whose valence-valid instantiation is not valence-valid afterwards;
   - number of rules that match their own instantiation; number of those with a valence-valid instantiation;
   - every pass sequence completed *)
Definition table_summary (v : nat) :=
  let t := map (report_of v) table_rules in
  let fired := filter (fun x => negb (Nat.eqb (rp_matches x) 0)) t in
  (map (fun x => (rp_name x, rp_dh x)) (filter (fun x => rp_valid x && negb (rp_dh x =? 0)) fired),
   map (fun x => (rp_name x, rp_lhs_after x)) (filter (fun x => match rp_lhs_after x with [] => false | _ => true end) fired),
   map (fun x => (rp_name x, rp_dq x)) (filter (fun x => negb (rp_dq x =? 0)) fired),
   map rp_name (filter (fun x => rp_valid x && negb (rp_valid_after x)) fired),
   List.length fired, List.length (filter rp_valid fired),
   forallb rp_ok fired).

(* ---- correspondence predicates (harness/checks/C14.py) ---- *)
Definition rings_of (t : list (Z * list Z)) (n : Z) : list Z := match zget t n with Some l => l | None => [] end.
Definition m_collection (c : Z) : list rule := if c =? 0 then double_rules else if c =? 1 then single_rules else metal_rules.
(* the SET of mappings the real get_mapping yielded for rule (c, ridx) on g0 (ring sizes as the real atoms carry them) is the
   set of embeddings the specification enumerates *)
Definition matches_ok (c ridx : Z) (rt : list (Z * list Z)) (g0 : mol) (mps : list mapping) : bool :=
  match nth_error (m_collection c) (Z.to_nat ridx) with
  | Some r => same_matches r (brute_matches (rings_of rt) 0 0 r g0) mps
  | None => false
  end.
Fixpoint zins (x : Z) (l : list Z) : list Z := match l with [] => [x] | y :: r => if x <=? y then x :: l else y :: zins x r end.
(* standardize() after fix_resonance entirely inside Coq (small molecules: ring sizes by brute force), molecule and the set of
   recalculated atoms compared; used for runs in which no rule had more than one embedding (the order of embeddings is not modelled) *)
Definition passes_bf_ok (ft : bool) (pre : list Z) (g0 g1 : mol) (fixed : list Z) : bool :=
  match standardize_passes bf_matches calc_h double_rules single_rules metal_rules ft g0 with
  | Ok (g', _, f') => mol_eqb g' g1 && list_eqb Z.eqb (fold_right zins [] (union_set pre f')) fixed
  | Err _ => false
  end.

(* ---- the engine without any oracle for the matcher: ring sizes from ANY function of the molecule; the five unbalanced rules
        (whose centre atom has no valence state: they cannot match a valence-valid molecule) switched off ---- *)
Definition spec_matches (rings : mol -> Z -> list Z) (stage ridx : Z) (r : rule) (g : mol) : list mapping :=
  brute_matches (rings g) stage ridx r g.
Definition valid_matches (rings : mol -> Z -> list Z) (stage ridx : Z) (r : rule) (g : mol) : list mapping :=
  if centre_invalid r then [] else spec_matches rings stage ridx r g.
