(* C10: runtime of the generated pack_len bodies (coq/gen/PackLenGen.v): integer helpers of the Python fragment *)
From Coq Require Import ZArith List Bool.
From Model Require Import PyBase Pack PackTop.
Import ListNotations.
Open Scope Z_scope.

(* int.from_bytes(b, 'big') *)
Definition be_bytes (l : list Z) : Z := fold_left (fun acc x => acc * 256 + x) l 0.
(* math.ceil(a / b) for integers a, b > 0 (true division; exact in double precision far beyond the sizes of a pack) *)
Definition py_ceil_div (a b : Z) : Z := - ((- a) / b).
(* truthiness of an int *)
Definition py_truthy (x : Z) : bool := negb (x =? 0).
