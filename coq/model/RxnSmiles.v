(* C15 -- model of the reaction SMILES writer and of the reaction branch of the reader:
     chython/containers/reaction.py  ReactionContainer.__format__   (per-role sort, '>' / '.' joining, CXSMILES
                                      radical block ^1: and fragment block f:)
     chython/files/daylight/smiles.py  smiles()   (whitespace split, cx_fragments / cx_radicals regexes, '>' and '.'
                                      splitting, fragment contraction with Python slices and sets)
   A molecule enters the writer as what the molecule-level code returns for it:
     f_smi  = m.__format__(spec, _return_order=True)[0]   (SMILES without CX part)
     f_ncomp = m.connected_components_count
     f_rad  = [m.atom(n).is_radical for n in order]     (also the second component of the sort key)
   The molecule-level SMILES writer / parser themselves are properties C01-C04 and are not modelled here.
   Definitions only; proofs in Proofs.RxnSmilesProofs. *)
From Coq Require Import ZArith List String Ascii Bool DecimalString.
From Model Require Import PyBase.
Import ListNotations.
Open Scope string_scope.
Open Scope list_scope.
Open Scope Z_scope.

Record fmol := mkF { f_smi : string; f_ncomp : Z; f_rad : list bool }.

(* ---------- list.sort(key=lambda x: (x[1], [radical flags in SMILES order])): stable ---------- *)
(* the sort is modelled as a stable insertion sort with "x <= y", i.e. not (y < x), as the test *)
Fixpoint insert_by {A : Type} (leb : A -> A -> bool) (x : A) (l : list A) : list A :=
  match l with
  | [] => [x]
  | y :: r => if leb x y then x :: y :: r else y :: insert_by leb x r
  end.
Definition sort_by {A : Type} (leb : A -> A -> bool) (l : list A) : list A := fold_right (insert_by leb) [] l.

(* Python comparison of two lists of bool: first difference decides (False < True), a proper prefix is smaller *)
Fixpoint blist_leb (a b : list bool) : bool :=
  match a, b with
  | [], _ => true
  | _ :: _, [] => false
  | x :: a', y :: b' => if Bool.eqb x y then blist_leb a' b' else negb x
  end.
(* Python comparison of the key tuples (smiles, radicals): strings by code points, then the lists *)
Definition key_leb (a b : fmol) : bool :=
  if String.eqb (f_smi a) (f_smi b) then blist_leb (f_rad a) (f_rad b) else String.leb (f_smi a) (f_smi b).

(* str(n) for n >= 0 *)
Definition dec (n : Z) : string := NilZero.string_of_uint (N.to_uint (Z.to_N n)).

(* ---------- ReactionContainer.__format__ ---------- *)
(* the inner loop over one role; returns (ss, contract entries, radical flags, count) *)
Fixpoint role_loop (ms : list fmol) (count : Z) : list string * list (list Z) * list bool * Z :=
  match ms with
  | [] => ([], [], [], count)
  | m :: rest =>
      let c := if f_ncomp m >? 1 then [map (fun x => x + count) (zrange 0 (f_ncomp m))] else [] in
      let count' := if f_ncomp m >? 1 then count + f_ncomp m else count + 1 in
      let '(ss, cs, rs, cf) := role_loop rest count' in
      (f_smi m :: ss, (c ++ cs)%list, (f_rad m ++ rs)%list, cf)
  end.

(* enumerate(radicals) positions holding True *)
Fixpoint true_positions (l : list bool) (i : Z) : list Z :=
  match l with
  | [] => []
  | b :: r => ((if b then [i] else []) ++ true_positions r (i + 1))%list
  end.

Record written := mkW { w_sig : string; w_radicals : list Z; w_contract : list (list Z) }.

Definition rxn_write (keep_order : bool) (rs gs ps : list fmol) : written :=
  let prep := fun l => if keep_order then l else sort_by key_leb l in
  let '(s1, c1, r1, n1) := role_loop (prep rs) 0 in
  let '(s2, c2, r2, n2) := role_loop (prep gs) n1 in
  let '(s3, c3, r3, _) := role_loop (prep ps) n2 in
  mkW (concat ">" [concat "." s1; concat "." s2; concat "." s3])
      (true_positions (r1 ++ r2 ++ r3)%list 0) (c1 ++ c2 ++ c3)%list.

Definition cx_text (w : written) : list string :=
  let a := match w_radicals w with [] => [] | r => [("^1:" ++ concat "," (map dec r))%string] end in
  let b := match w_contract w with [] => [] | c => [("f:" ++ concat "," (map (fun x => concat "." (map dec x)) c))%string] end in
  List.app a b.

(* format(reaction, spec):  keep_order = '!c' in spec,  no_cx = '!x' in spec *)
Definition rxn_format (keep_order no_cx : bool) (rs gs ps : list fmol) : string :=
  let w := rxn_write keep_order rs gs ps in
  if no_cx then w_sig w
  else match cx_text w with
       | [] => w_sig w
       | cx => (w_sig w ++ " |" ++ concat "," cx ++ "|")%string
       end.

(* ---------- reader: string helpers ---------- *)
(* str.split(sep) for a one-character separator *)
Fixpoint split_on (c : ascii) (s : string) : list string :=
  match s with
  | EmptyString => [EmptyString]
  | String a r =>
      if Ascii.eqb a c then EmptyString :: split_on c r
      else match split_on c r with
           | x :: xs => String a x :: xs
           | [] => [String a EmptyString]
           end
  end.

Fixpoint contains (c : ascii) (s : string) : bool :=
  match s with EmptyString => false | String a r => Ascii.eqb a c || contains c r end.

(* str.split() without argument: maximal runs of non-whitespace *)
Definition is_ws (c : ascii) : bool :=
  let n := N_of_ascii c in ((9 <=? n) && (n <=? 13) || (28 <=? n) && (n <=? 32))%N.
Fixpoint split_ws_aux (s : string) (cur : string) : list string :=   (* cur: the token being read *)
  match s with
  | EmptyString => match cur with EmptyString => [] | _ => [cur] end
  | String a r =>
      if is_ws a then match cur with EmptyString => split_ws_aux r EmptyString | _ => cur :: split_ws_aux r EmptyString end
      else split_ws_aux r (cur ++ String a EmptyString)%string
  end.
Definition split_ws (s : string) : list string := split_ws_aux s EmptyString.

Definition is_digit (c : ascii) : bool := let n := N_of_ascii c in ((48 <=? n) && (n <=? 57))%N.
(* longest digit prefix and the rest *)
Fixpoint take_digits (s : string) : string * string :=
  match s with
  | String a r => if is_digit a then let '(d, t) := take_digits r in (String a d, t) else (EmptyString, s)
  | EmptyString => (EmptyString, EmptyString)
  end.
(* int(x) of a digit string *)
Definition int_of_digits (s : string) : Z :=
  match NilZero.uint_of_string s with Some u => Z.of_N (N.of_uint u) | None => 0 end.

(* [0-9]+ *)
Definition p_num (s : string) : option (Z * string) :=
  let '(d, r) := take_digits s in match d with EmptyString => None | _ => Some (int_of_digits d, r) end.
(* (?:\.[0-9]+)*  greedy *)
Fixpoint p_dotnums (fuel : nat) (s : string) : list Z * string :=
  match fuel with
  | O => ([], s)
  | S k => match s with
           | String "." r => match p_num r with
                             | Some (n, r') => let '(ns, r'') := p_dotnums k r' in (n :: ns, r'')
                             | None => ([], s)
                             end
           | _ => ([], s)
           end
  end.
(* [0-9]+(?:\.[0-9]+)+ *)
Definition p_group (s : string) : option (list Z * string) :=
  match p_num s with
  | None => None
  | Some (n, r) => match p_dotnums (String.length r) r with
                   | ([], _) => None
                   | (ns, r') => Some (n :: ns, r')
                   end
  end.
(* (?:,group)*  greedy *)
Fixpoint p_groups (fuel : nat) (s : string) : list (list Z) :=
  match fuel with
  | O => []
  | S k => match s with
           | String "," r => match p_group r with
                             | Some (g, r') => g :: p_groups k r'
                             | None => []
                             end
           | _ => []
           end
  end.
(* re.search(cx_fragments, s): leftmost position where  f:group(,group)*  matches; the groups as numbers *)
Fixpoint search_fragments (s : string) : option (list (list Z)) :=
  match s with
  | EmptyString => None
  | String a r =>
      let here := match s with
                  | String "f" (String ":" t) =>
                      match p_group t with Some (g, t') => Some (g :: p_groups (String.length t') t') | None => None end
                  | _ => None
                  end in
      match here with Some x => Some x | None => search_fragments r end
  end.

(* (?:,[0-9]+)* greedy *)
Fixpoint p_commanums (fuel : nat) (s : string) : list Z * string :=
  match fuel with
  | O => ([], s)
  | S k => match s with
           | String "," r => match p_num r with
                             | Some (n, r') => let '(ns, r'') := p_commanums k r' in (n :: ns, r'')
                             | None => ([], s)
                             end
           | _ => ([], s)
           end
  end.
(* re.findall(cx_radicals, s), flattened:  \^[1-7]:[0-9]+(?:,[0-9]+)*  non-overlapping, left to right *)
Definition is_1_7 (c : ascii) : bool := let n := N_of_ascii c in ((49 <=? n) && (n <=? 55))%N.
Fixpoint find_radicals (fuel : nat) (s : string) : list Z :=
  match fuel with
  | O => []
  | S k =>
      match s with
      | EmptyString => []
      | String a r =>
          let here := match s with
                      | String "^" (String d (String ":" t)) =>
                          if is_1_7 d then
                            match p_num t with
                            | Some (n, t') => let '(ns, t'') := p_commanums (String.length t') t' in Some (n :: ns, t'')
                            | None => None
                            end
                          else None
                      | _ => None
                      end in
          match here with
          | Some (ns, rest) => (ns ++ find_radicals k rest)%list
          | None => find_radicals k r
          end
      end
  end.

Fixpoint zinsert (x : Z) (l : list Z) : list Z :=
  match l with [] => [x] | y :: r => if x <=? y then x :: y :: r else y :: zinsert x r end.
Definition zsort (l : list Z) : list Z := fold_right zinsert [] l.     (* sorted(...) *)

Definition starts_with_bar (s : string) : bool := match s with String "|" _ => true | _ => false end.
Fixpoint ends_with_bar (s : string) : bool :=
  match s with
  | EmptyString => false
  | String a EmptyString => Ascii.eqb a "|"
  | String _ r => ends_with_bar r
  end.

(* the CXSMILES part of smiles(): (radicals, contract) *)
Definition parse_cx (tokens_after_smi : list string) : list Z * option (list (list Z)) :=
  match tokens_after_smi with
  | cxs :: _ =>
      if starts_with_bar cxs && ends_with_bar cxs then
        let radicals := find_radicals (S (String.length cxs)) cxs in
        let radicals := if nodup_z radicals then radicals else [] in
        match search_fragments cxs with
        | Some groups =>
            let contract := map zsort groups in
            (radicals, if nodup_z (List.concat contract) then Some contract else None)
        | None => (radicals, None)
        end
      else ([], None)
  | [] => ([], None)
  end.

(* ---------- reader: Python list helpers ---------- *)
(* l[a:b] with Python's treatment of negative and out-of-range bounds; None = omitted *)
Definition py_slice {A : Type} (l : list A) (start stop : option Z) : list A :=
  let n := Z.of_nat (List.length l) in
  let norm := fun i => let j := if i <? 0 then i + n else i in Z.max 0 (Z.min n j) in
  let a := match start with None => 0 | Some i => norm i end in
  let b := match stop with None => n | Some i => norm i end in
  firstn (Z.to_nat (b - a)) (skipn (Z.to_nat a) l).
(* l[i] with a negative index counted from the end; default for IndexError (never reached below: every index used
   was tested to be a member of the matching index set) *)
Definition py_get (l : list string) (i : Z) : string :=
  let n := Z.of_nat (List.length l) in
  let j := if i <? 0 then i + n else i in
  if (j <? 0) || (n <=? j) then EmptyString else nth (Z.to_nat j) l EmptyString.
(* l[i] = v *)
Fixpoint upd {A : Type} (l : list A) (i : nat) (v : A) : list A :=
  match l, i with
  | [], _ => []
  | _ :: r, O => v :: r
  | x :: r, S k => x :: upd r k v
  end.
Definition zupd {A : Type} (l : list A) (i : Z) (v : A) : list A := if i <? 0 then l else upd l (Z.to_nat i) v.
Definition somes {A : Type} (l : list (option A)) : list A := flat_map (fun x => match x with Some v => [v] | None => [] end) l.

(* one role of   for x in d.split('.'): ...   (None = ValueError 'two dots in line' when ignore is off) *)
Definition role_pieces (ignore : bool) (d : string) : option (list string) :=
  match d with
  | EmptyString => Some []                       (* if not d: continue *)
  | _ => let xs := split_on "." d in
         if ignore then Some (filter (fun x => negb (String.eqb x EmptyString)) xs)
         else if existsb (fun x => String.eqb x EmptyString) xs then None else Some xs
  end.

Record cstate := mkC { cs_new : list (option string); cs_r : list Z; cs_p : list Z; cs_g : list Z }.

(* for c in contract: ... (the three issuperset tests in the order reactants, products, reagents) *)
Fixpoint contract_loop (rec_r rec_p rec_g : list string) (mol_count lr : Z) (cs : list (list Z)) (st : cstate) : pyres cstate :=
  match cs with
  | [] => Ok st
  | c :: rest =>
      match c with
      | [] => Err IndexError                    (* c[0]; the regex admits groups of >= 2 numbers only *)
      | c0 :: _ =>
          let st' :=
            if subset_z c (cs_r st) then
              mkC (zupd (cs_new st) c0 (Some (concat "." (map (fun x => py_get rec_r x) c))))
                  (filter (fun x => negb (zmem x c)) (cs_r st)) (cs_p st) (cs_g st)
            else if subset_z c (cs_p st) then
              mkC (zupd (cs_new st) c0 (Some (concat "." (map (fun x => py_get rec_p (x - mol_count)) c))))
                  (cs_r st) (filter (fun x => negb (zmem x c)) (cs_p st)) (cs_g st)
            else if subset_z c (cs_g st) then
              mkC (zupd (cs_new st) c0 (Some (concat "." (map (fun x => py_get rec_g (x - lr)) c))))
                  (cs_r st) (cs_p st) (filter (fun x => negb (zmem x c)) (cs_g st))
            else st in
          contract_loop rec_r rec_p rec_g mol_count lr rest st'
      end
  end.

Definition roles := (list string * list string * list string)%type.     (* reactants, reagents, products *)

(* the body of `if contract:` *)
Definition contract_roles (rec_r rec_p rec_g : list string) (contract : list (list Z)) : pyres roles :=
  let lr := Z.of_nat (List.length rec_r) in
  let lp := Z.of_nat (List.length rec_p) in
  let mol_count := lr + lp + Z.of_nat (List.length rec_g) in
  let st0 := mkC (repeat None (Z.to_nat mol_count))
                 (zrange 0 lr) (zrange (mol_count - lp) mol_count) (zrange lr (mol_count - lp)) in
  match contract_loop rec_r rec_p rec_g mol_count lr contract st0 with
  | Err e => Err e
  | Ok st =>
      let new1 := fold_left (fun nw x => zupd nw x (Some (py_get rec_r x))) (cs_r st) (cs_new st) in
      let new2 := fold_left (fun nw x => zupd nw x (Some (py_get rec_p (x - mol_count)))) (cs_p st) new1 in
      let new3 := fold_left (fun nw x => zupd nw x (Some (py_get rec_g (x - lr)))) (cs_g st) new2 in
      Ok (somes (py_slice new3 None (Some lr)),
          somes (py_slice new3 (Some lr) (Some (mol_count - lp))),
          somes (py_slice new3 (Some (mol_count - lp)) None))
  end.

(* the reaction branch of smiles() up to the molecule parser: which strings are handed to parser(smiles_tokenize(x)).
   None = the molecule branch (no '>' in the string), not modelled here *)
Definition read_core (ignore : bool) (smi : string) (contract : option (list (list Z))) : pyres (option roles) :=
  if negb (contains ">" smi) then Ok None                     (* if '>' in smi: *)
  else match split_on ">" smi with
  | [reactants; reagents; products] =>
      match role_pieces ignore reactants, role_pieces ignore products, role_pieces ignore reagents with
      | Some rec_r, Some rec_p, Some rec_g =>
          match contract with
          | Some (c :: cs) =>                                (* if contract: *)
              match contract_roles rec_r rec_p rec_g (c :: cs) with
              | Err e => Err e
              | Ok r => Ok (Some r)
              end
          | _ => Ok (Some (rec_r, rec_g, rec_p))
          end
      | _, _, _ => Err ValueError
      end
  | _ => Err ValueError                                       (* reactants, reagents, products = smi.split('>') *)
  end.

(* smiles(data) up to the molecule parser: roles and the radical atom indices.
   natoms x = number of atoms the molecule parser returns for the piece x (the parser itself is C01-C03, not modelled):
   a CX radical index must be below the total number of atoms (`x not in atom_map` / `x >= len(record['atoms'])`
   raise IncorrectSmiles), which is tested before ReactionContainer.__init__ refuses a reaction without molecules *)
Definition zsum (l : list Z) : Z := fold_left Z.add l 0.
Definition read_rxn (natoms : string -> Z) (ignore : bool) (data : string) : pyres (option roles * list Z) :=
  match split_ws data with
  | [] => Err ValueError                              (* data.split() of a whitespace-only string: smi, *data = [] *)
  | smi :: rest =>
      let '(radicals, contract) := parse_cx rest in
      match read_core ignore smi contract with
      | Err e => Err e
      | Ok (Some (a, g, p)) =>
          let total := zsum (map natoms (a ++ g ++ p)) in
          if existsb (fun x => total <=? x) radicals then Err IncorrectSmiles
          else match a, g, p with
               | [], [], [] => Err ValueError          (* ReactionContainer.__init__: 'At least one graph object required' *)
               | _, _, _ => Ok (Some (a, g, p), radicals)
               end
      | Ok None => if existsb (fun x => natoms smi <=? x) radicals then Err IncorrectSmiles else Ok (None, radicals)
      end
  end.

(* ---------- ReactionContainer.__str__ / __eq__ / __hash__ ----------
     __str__  = format(self)                          (cached)
     __eq__   = isinstance(other, ReactionContainer) and str(self) == str(other)
     __hash__ = hash(str(self))                        (cached)
   a reaction is the three lists of molecule descriptions; the hash of a str is an opaque function (it depends on
   PYTHONHASHSEED), a parameter of rxn_hash *)
Definition rxn := (list fmol * list fmol * list fmol)%type.      (* reactants, reagents, products *)
Definition rxn_str (x : rxn) : string := match x with (rs, gs, ps) => rxn_format false false rs gs ps end.
Definition rxn_eq (a b : rxn) : bool := String.eqb (rxn_str a) (rxn_str b).
Definition rxn_hash (str_hash : string -> Z) (a : rxn) : Z := str_hash (rxn_str a).
