(* C11 -- MDL (V2000 / V3000) files: write then read preserves the record.
   Theorems about the executable model coq/model/Mdl.v (tables regenerated from the source by tools/gen_mdl.py).
   PARTIAL by design: MRV (lxml), float formatting and the grep-based index are covered by the search only. *)
From Coq Require Import ZArith List String Ascii Bool Lia.
From Model Require Import PyBase Mdl MdlMap MdlMapRxn Mrv Stereo StereoSmiles StereoWedge.
From Gen Require Import MdlTables MdlSource MdlFn.
From Proofs Require Import MdlProofs MdlV2000 MdlV3000 MdlTail MdlFraming MdlFramingExt MdlMeta MdlFile MdlFileMol MdlFileMol3 MdlRxn MdlFileRxn MdlFileRxn3 MdlSessions MdlEscape MdlSourceTie MdlMapProofs MdlSlices MrvProofs StereoProofs MdlMapRxnProofs MdlFnTie MdlFnTie2 MdlMapRxnGeneral MdlRxnNumbers MdlRxnDropped MdlFuel MdlFuel2 MdlRxnDrop MdlMapRxnStrict MdlWedgeTie.
Import ListNotations.
Open Scope Z_scope.
Local Notation length := List.length.
Local Notation concat := List.concat.

(* ---- charge codes of the V2000 atom block: writer table and reader table are mutually inverse (finite, generated) ---- *)
Theorem C11_charge_maps_inverse :
  forallb charge_roundtrip_ok (zrange (-4) 5) = true /\
  forallb (fun k => (-4 <=? k) && (k <=? 4)) (map fst w_charge_map) = true /\
  forallb (fun e => match zget_last w_charge_map (snd e) with
                    | Some s => option_eqb Z.eqb (sget_last r_charge_map (L s)) (Some (snd e))
                    | None => false
                    end) r_charge_map = true.
Proof. exact charge_maps_inverse. Qed.
Print Assumptions C11_charge_maps_inverse.

(* every charge -4..4: the writer's code has 3 characters, and the reader maps it back (+-4 to 0: repaired by M  CHG) *)
Theorem C11_charge_code_roundtrip : forall c, -4 <= c <= 4 ->
  exists s, w_charge c = Ok s /\ length s = 3%nat /\ r_charge s = Ok (if (c =? 4) || (c =? -4) then 0 else c) /\ ~ In nl s.
Proof. exact w_charge_spec. Qed.
Print Assumptions C11_charge_code_roundtrip.

Theorem C11_mrv_bond_maps_inverse :
  forallb (fun k => match zget_last mrv_bond_w k with
                    | Some s => option_eqb Z.eqb (sget_last mrv_bond_r (L s)) (Some k)
                    | None => false end) [1; 2; 3; 4] = true /\
  option_eqb String.eqb (zget_last mrv_bond_w 8) (Some "1"" queryType=""Any"%string) = true /\
  option_eqb Z.eqb (sget_last mrv_bond_r (L "Any")) (Some 8) = true /\
  forallb (fun k => zmem k [1; 2; 3; 4; 8]) (map fst mrv_bond_w) = true.
Proof. exact mrv_bond_maps_inverse. Qed.
Print Assumptions C11_mrv_bond_maps_inverse.

(* ---- integer fields: int() of every formatted integer, any width, any padding (all V2000 columns, all V3000 tokens) ---- *)
Theorem C11_int_field_roundtrip : forall (w : nat) (n : Z),
  py_int (fmt_d w n) = Ok n /\ py_int (fmt_d w n ++ [nl]) = Ok n /\ py_int (zstr n) = Ok n.
Proof. exact (fun w n => conj (py_int_fmt_d w n) (conj (py_int_fmt_d_nl w n) (py_int_zstr n))). Qed.
Print Assumptions C11_int_field_roundtrip.

(* the 3-column fields of V2000 really are 3 characters wide for -99..999 (beyond that the columns shift) *)
Theorem C11_fmt_d3_width : forall n, -99 <= n <= 999 -> length (fmt_d 3 n) = 3%nat.
Proof. exact fmt_d3_len. Qed.
Print Assumptions C11_fmt_d3_width.

(* ---- V2000: what MOLWrite writes for a molecule, parse_mol_v2000 reads back field by field: every atom in order with its
        symbol, charge -4..4 (the +-4 path through M  CHG), isotope (M  ISO), radical (M  RAD), mapping number, coordinates (the
        value float() gives the written field); every bond with its order (0..8: 1, 2, 3, 4 aromatic, 8 special) between the
        right atom positions, wedge bonds first; the wedge list; the stripped title; an empty log.
        Hypotheses = what the format can carry: <= 999 atoms / bonds / atom numbers, 10-character coordinate fields that float()
        accepts, symbols of <= 3 non-blank characters other than the query symbols A / L / AL and D, isotopes 0..999, distinct atom
        numbers, bonds and wedges between atoms of the molecule, every wedge entry hides exactly one bond. ---- *)
Theorem C11_v2000_fields_roundtrip : forall mapping g fs,
  Forall2 wf_atom (wm_atoms g) fs ->
  wm_atoms g <> [] ->
  (length (wm_atoms g) <= 999)%nat ->
  (length (wm_bonds g) <= 999)%nat ->
  NoDup (map wa_num (wm_atoms g)) ->
  Forall (bond_ok (wm_atoms g)) (wm_bonds g) ->
  Forall (wedge_ok (wm_atoms g) (wm_bonds g)) (wm_wedge g) ->
  (length (wm_wedge g) + length (plain_bonds g) = length (wm_bonds g))%nat ->
  exists lines, write_mol_v2000 mapping g = Ok lines /\
    parse_mol_v2000 (map add_nl lines) =
    Ok (mk_parsed (title_of (wm_name g))
                  (map2 (expected_atom mapping) (wm_atoms g) fs)
                  (map (exp_wedge_bond (wm_atoms g) (wm_bonds g)) (wm_wedge g) ++ map (exp_plain_bond (wm_atoms g)) (plain_bonds g))
                  (map (exp_wedge_stereo (wm_atoms g)) (wm_wedge g))
                  []).
Proof. exact v2000_fields_roundtrip. Qed.
Print Assumptions C11_v2000_fields_roundtrip.

(* non-vacuity: a 3-atom molecule (numbers 7, 3, 12; C+4, 37Cl-, N radical; a wedge; an order-8 bond) satisfies the hypotheses *)
Theorem C11_v2000_example_hypotheses :
  Forall2 wf_atom (wm_atoms ex_mol) ex_fs /\ wm_atoms ex_mol <> [] /\
  (length (wm_atoms ex_mol) <= 999)%nat /\ (length (wm_bonds ex_mol) <= 999)%nat /\
  NoDup (map wa_num (wm_atoms ex_mol)) /\
  Forall (bond_ok (wm_atoms ex_mol)) (wm_bonds ex_mol) /\
  Forall (wedge_ok (wm_atoms ex_mol) (wm_bonds ex_mol)) (wm_wedge ex_mol) /\
  (length (wm_wedge ex_mol) + length (plain_bonds ex_mol) = length (wm_bonds ex_mol))%nat.
Proof. exact ex_hypotheses. Qed.
Print Assumptions C11_v2000_example_hypotheses.
Theorem C11_v2000_example :
  exists lines, write_mol_v2000 true ex_mol = Ok lines /\ parse_mol_v2000 (map add_nl lines) = Ok ex_parsed.
Proof. exact ex_roundtrip. Qed.
Print Assumptions C11_v2000_example.

(* the per-line codecs, for any text after the written line (file lines and splitlines() lines alike) *)
Theorem C11_v2000_atom_line_roundtrip : forall mapping a fx fy fz, wf_watom a fx fy fz ->
  exists line, v2_atom_line mapping a = Ok line /\
    forall t, v2_parse_atom (line ++ t) =
      Ok (mk_patom (wa_sym a) (if (wa_chg a =? 4) || (wa_chg a =? -4) then 0 else wa_chg a) None
                   (if mapping then wa_num a else 0) fx fy fz None false None).
Proof. exact v2_atom_roundtrip. Qed.
Print Assumptions C11_v2000_atom_line_roundtrip.
Theorem C11_v2000_bond_line_roundtrip : forall i j o st t, 1 <= i <= 999 -> 1 <= j <= 999 -> 0 <= o <= 8 ->
  In st [L "0"; L "1"; L "6"] ->
  v2_parse_bond (v2_bond_line i j o st ++ t) = Ok ((i - 1, j - 1, o), stereo_of i j st, []).
Proof. exact v2_bond_roundtrip. Qed.
Print Assumptions C11_v2000_bond_line_roundtrip.
Theorem C11_v2000_counts_line_roundtrip : forall na nb t, 0 <= na <= 999 -> 0 <= nb <= 999 ->
  py_int (slice 0 3 (v2_counts_line na nb ++ t)) = Ok na /\ py_int (slice 3 6 (v2_counts_line na nb ++ t)) = Ok nb.
Proof. exact v2_counts_roundtrip. Qed.
Print Assumptions C11_v2000_counts_line_roundtrip.

(* ---- V3000: what ESDFWrite / EMOLWrite write for a molecule, parse_mol_v3000 reads back field by field (no size limits, any
        charge, any isotope): tokens are plain (non-empty, no blank, no opening parenthesis, no double quote), symbols are not atom lists / * / R# / D ---- *)
Theorem C11_v3000_fields_roundtrip : forall mapping g fs,
  Forall2 wf3_atom (wm_atoms g) fs -> wm_atoms g <> [] -> NoDup (map wa_num (wm_atoms g)) ->
  Forall (bond_ok (wm_atoms g)) (wm_bonds g) -> Forall (wedge_ok (wm_atoms g) (wm_bonds g)) (wm_wedge g) ->
  (length (wm_wedge g) + length (plain_bonds g) = length (wm_bonds g))%nat ->
  exists lines, write_mol_v3000 mapping g = Ok lines /\
    parse_mol_v3000 (map add_nl lines) =
    Ok (mk_parsed3 (mk_parsed (title_of (wm_name g)) (map2 (expected_atom mapping) (wm_atoms g) fs)
          (map (exp_wedge_bond (wm_atoms g) (wm_bonds g)) (wm_wedge g) ++ map (exp_plain_bond (wm_atoms g)) (plain_bonds g))
          (map (exp_wedge_stereo (wm_atoms g)) (wm_wedge g)) []) []).
Proof. exact v3000_fields_roundtrip. Qed.
Print Assumptions C11_v3000_fields_roundtrip.

Theorem C11_v3000_example :
  (Forall2 wf3_atom (wm_atoms ex3_mol) ex3_fs /\ wm_atoms ex3_mol <> [] /\
   NoDup (map wa_num (wm_atoms ex3_mol)) /\
   Forall (bond_ok (wm_atoms ex3_mol)) (wm_bonds ex3_mol) /\
   Forall (wedge_ok (wm_atoms ex3_mol) (wm_bonds ex3_mol)) (wm_wedge ex3_mol) /\
   (length (wm_wedge ex3_mol) + length (plain_bonds ex3_mol) = length (wm_bonds ex3_mol))%nat) /\
  exists lines, write_mol_v3000 true ex3_mol = Ok lines /\ parse_mol_v3000 (map add_nl lines) = Ok ex3_parsed.
Proof. exact (conj ex3_hypotheses ex3_roundtrip). Qed.
Print Assumptions C11_v3000_example.

(* the V3000 tokenizer (emol.split) inverts the writer's join of plain tokens *)
Theorem C11_v3000_split_join : forall toks, Forall plain toks -> split3 (join [sp] toks) = toks.
Proof. exact split3_join. Qed.
Print Assumptions C11_v3000_split_join.

(* ---- a written text is iterated line by line as written ---- *)
Theorem C11_readlines_text_of_lines : forall ls,
  Forall (fun l => ~ In nl l) ls -> readlines (text_of_lines ls) = map add_nl ls.
Proof. exact readlines_text_of_lines. Qed.
Print Assumptions C11_readlines_text_of_lines.

(* ---- record framing.  A, build_mol, build_rxn (everything after the line parsers) and buffer_size are arbitrary ---- *)
Theorem C11_sdf_framing : forall (A : Type) (build_mol : parsed3 -> pyres A) (buffer_size : nat) recs last,
  Forall (fun rd => sdf_record_ok buffer_size (fst rd) /\ is_delim (snd rd) = true) recs ->
  sdf_record_ok buffer_size last ->
  sdf_read A build_mol buffer_size (sdf_file recs last) = collect A (sdf_results A build_mol recs last).
Proof. exact sdf_framing. Qed.
Print Assumptions C11_sdf_framing.

(* records may be EMPTY (delimiter right after delimiter: an invalid record, skipped); ValueError and IndexError are skipped *)
Theorem C11_sdf_damaged_records_skipped : forall (A : Type) (build_mol : parsed3 -> pyres A) (buffer_size : nat) recs last,
  Forall (fun rd => sdf_record_ok buffer_size (fst rd) /\ is_delim (snd rd) = true) recs ->
  sdf_record_ok buffer_size last ->
  Forall (skippable A) (sdf_results A build_mol recs last) ->
  sdf_read A build_mol buffer_size (sdf_file recs last) = (successes A (sdf_results A build_mol recs last), Exhausted).
Proof. exact sdf_damaged_records_skipped. Qed.
Print Assumptions C11_sdf_damaged_records_skipped.

Theorem C11_rdf_framing : forall (A : Type) (build_mol : parsed3 -> pyres A) (build_rxn : rparsed -> pyres A) (buffer_size : nat) header recs,
  Forall (fun l => is_fmt l = false /\ startswith (L "$RXN") l = false) header ->
  Forall (fun fb => is_fmt (fst fb) = true /\ rdf_body_ok buffer_size (S (length header)) (snd fb) /\ snd fb <> []) recs ->
  rdf_read A build_mol build_rxn buffer_size (rdf_file header recs) =
  collect A (map (rdf_one A build_mol build_rxn) (map snd recs)).
Proof. exact rdf_framing. Qed.
Print Assumptions C11_rdf_framing.

(* the same WITHOUT the non-empty-record hypothesis: an empty record (a format line directly followed by the next one, or by the end
   of the file) is skipped by the reader; the file yields the results of its non-empty records.  Size condition: record + header +
   number of records below the buffer size (the line counter of one read also counts header lines and skipped format lines) *)
Theorem C11_rdf_framing_full : forall (A : Type) (build_mol : parsed3 -> pyres A) (build_rxn : rparsed -> pyres A) (buffer_size : nat) header recs,
  Forall (fun l => is_fmt l = false /\ startswith (L "$RXN") l = false) header ->
  Forall (rdf_rec_ok buffer_size (S (length header) + length recs)) recs ->
  (S (length header) + length recs < buffer_size)%nat ->
  rdf_read A build_mol build_rxn buffer_size (rdf_file header recs) =
  collect A (map (rdf_one A build_mol build_rxn) (nonempty_bodies recs)).
Proof. exact rdf_framing_full. Qed.
Print Assumptions C11_rdf_framing_full.
Theorem C11_rdf_framing_full_example :
  Forall (fun l => is_fmt l = false /\ startswith (L "$RXN") l = false) ex_rdf_header /\
  Forall (rdf_rec_ok 100 (S (length ex_rdf_header) + length ex_rdf_recs_empty)) ex_rdf_recs_empty /\
  (S (length ex_rdf_header) + length ex_rdf_recs_empty < 100)%nat /\
  length (nonempty_bodies ex_rdf_recs_empty) = 3%nat /\ length ex_rdf_recs_empty = 5%nat /\
  rdf_read (option str) ex_build ex_build_rxn 100 (rdf_file ex_rdf_header ex_rdf_recs_empty) =
    ([(Some (L "a"), [(L "k", L "v")]); (Some (L "c"), [(L "k", L "w" ++ [nl] ++ L "MAD value")])], Exhausted).
Proof. exact rdf_framing_full_example. Qed.
Print Assumptions C11_rdf_framing_full_example.

(* one record on its own lines: the MOL block (up to the first "M  END" line) goes to the parser, the rest to read_metadata;
   RDF: the structure goes to the parser, the lines from the first "$DTYPE" line on to read_metadata *)
Theorem C11_sdf_record_split : forall (A : Type) (build_mol : parsed3 -> pyres A) b ml e metal,
  Forall (fun l => is_mend l = false) ml -> is_mend e = true ->
  sdf_one A build_mol b (ml ++ e :: metal) =
  match dispatch_mol A build_mol (ml ++ [e]) with
  | Err x => inr (Py x)
  | Ok mol => inl (mol, sdf_read_metadata metal)
  end.
Proof. exact sdf_record_split. Qed.
Print Assumptions C11_sdf_record_split.
Theorem C11_rdf_record_split : forall (A : Type) (build_mol : parsed3 -> pyres A) (build_rxn : rparsed -> pyres A) sl d metal,
  Forall (fun l => is_dtype l = false) sl -> is_dtype d = true -> sl <> [] ->
  rdf_one A build_mol build_rxn (sl ++ d :: metal) =
  match rdf_dispatch A build_mol build_rxn (sl ++ d :: metal) with
  | Err x => inr (Py x)
  | Ok obj => inl (obj, rdf_read_metadata (d :: metal))
  end.
Proof. exact rdf_record_split. Qed.
Print Assumptions C11_rdf_record_split.

(* non-vacuity: an SDF file whose three middle records are damaged (garbage counts, empty, truncated to two lines); an RDF file with a damaged middle record *)
Theorem C11_sdf_framing_example :
  Forall (fun rd => sdf_record_ok 100 (fst rd) /\ is_delim (snd rd) = true) ex_recs /\
  sdf_record_ok 100 [] /\
  sdf_results (option str) ex_build ex_recs [] =
    [inl (Some (L "a"), [(L "k", L "v")]); inr (Py ValueError); inr (Py ValueError); inr (Py IndexError); inl (Some (L "c"), [(L "k", L "v")]); inr EOFError] /\
  sdf_read (option str) ex_build 100 (sdf_file ex_recs []) = ([(Some (L "a"), [(L "k", L "v")]); (Some (L "c"), [(L "k", L "v")])], Exhausted).
Proof. exact sdf_framing_example. Qed.
Print Assumptions C11_sdf_framing_example.

Theorem C11_rdf_framing_example :
  Forall (fun l => is_fmt l = false /\ startswith (L "$RXN") l = false) ex_rdf_header /\
  Forall (fun fb => is_fmt (fst fb) = true /\ rdf_body_ok 100 (S (length ex_rdf_header)) (snd fb) /\ snd fb <> []) ex_rdf_recs /\
  rdf_read (option str) ex_build ex_build_rxn 100 (rdf_file ex_rdf_header ex_rdf_recs) =
    ([(Some (L "a"), [(L "k", L "v")]); (Some (L "c"), [(L "k", L "w" ++ [nl] ++ L "MAD value")])], Exhausted).
Proof. exact rdf_framing_example. Qed.
Print Assumptions C11_rdf_framing_example.

(* ---- reaction blocks (RXN V2000 / V3000, as RDFWrite / ERDFWrite emit them after the "$RFMT" line): counts line, $MOL blocks
        resp. REACTANT / PRODUCT / AGENT sections, roles incl. reagents; `tail` = whatever follows in the record (the metadata lines:
        RDFRead hands the whole record to the parser).  Molecules under the block hypotheses (wf_wmol2 / wf_wmol3 bundle them);
        V2000: at most 999 molecules per role (3-column counts); at least one molecule ---- *)
Theorem C11_rxn_v2000_fields_roundtrip : forall mapping r fr fp fg,
  Forall2 wf_wmol2 (wr_reactants r) fr -> Forall2 wf_wmol2 (wr_products r) fp -> Forall2 wf_wmol2 (wr_reagents r) fg ->
  (length (wr_reactants r) <= 999)%nat -> (length (wr_products r) <= 999)%nat -> (length (wr_reagents r) <= 999)%nat ->
  rxn_mols r <> [] ->
  exists lines, rxn_lines_v2000 mapping r = Ok lines /\
    forall tail, parse_rxn_v2000 (map add_nl lines ++ tail) =
      Ok (mk_rparsed (map2 (expected_mol2 mapping) (wr_reactants r) fr)
                     (map2 (expected_mol2 mapping) (wr_products r) fp)
                     (map2 (expected_mol2 mapping) (wr_reagents r) fg)
                     (title_of (wr_name r)) 0).
Proof. exact rxn_v2000_fields_roundtrip. Qed.
Print Assumptions C11_rxn_v2000_fields_roundtrip.
Theorem C11_rxn_v3000_fields_roundtrip : forall mapping r fr fp fg,
  Forall2 wf_wmol3 (wr_reactants r) fr -> Forall2 wf_wmol3 (wr_products r) fp -> Forall2 wf_wmol3 (wr_reagents r) fg ->
  rxn_mols r <> [] ->
  exists lines, rxn_lines_v3000 mapping r = Ok lines /\
    forall tail, parse_rxn_v3000 (map add_nl lines ++ tail) =
      Ok (mk_rparsed (map2 (expected_ctab3 mapping) (wr_reactants r) fr) (map2 (expected_ctab3 mapping) (wr_products r) fp)
                     (map2 (expected_ctab3 mapping) (wr_reagents r) fg) (title_of (wr_name r)) 0).
Proof. exact rxn_v3000_fields_roundtrip. Qed.
Print Assumptions C11_rxn_v3000_fields_roundtrip.
(* the lines are what the writers emit: text = "$RFMT\n" + lines + metadata *)
Theorem C11_rdf_rxn_text_lines : forall mapping r meta lines, rxn_lines_v2000 mapping r = Ok lines ->
  rdf_rxn_text mapping r meta = Ok (L "$RFMT" ++ [nl] ++ text_of_lines lines ++ rdf_meta_text meta).
Proof. exact rdf_rxn_text_lines. Qed.
Print Assumptions C11_rdf_rxn_text_lines.
Theorem C11_erdf_rxn_text_lines : forall mapping r meta lines, rxn_lines_v3000 mapping r = Ok lines ->
  erdf_rxn_text mapping r meta = Ok (L "$RFMT" ++ [nl] ++ text_of_lines lines ++ rdf_meta_text meta).
Proof. exact erdf_rxn_text_lines. Qed.
Print Assumptions C11_erdf_rxn_text_lines.
(* non-vacuity: 2 reactants, 1 product, 1 reagent (the reagent is NAMED "$MOL" resp. "M  V30 BEGIN CTAB", and the tail contains such
   lines too), both versions, through the theorems *)
Theorem C11_rxn_examples :
  (exists lines, rxn_lines_v2000 true ex_rxn2 = Ok lines /\ parse_rxn_v2000 (map add_nl lines ++ ex_tail) = Ok ex_rparsed2) /\
  (exists lines, rxn_lines_v3000 true ex_rxn3 = Ok lines /\ parse_rxn_v3000 (map add_nl lines ++ ex_tail) = Ok ex_rparsed3).
Proof. exact (conj ex_rxn2_roundtrip ex_rxn3_roundtrip). Qed.
Print Assumptions C11_rxn_examples.

(* ---- whole files.  The block theorems also hold with ANY further lines after the written block (the parsers stop at "M  END" /
        "END CTAB"): this is what the RDF reader and the RXN parsers rely on ---- *)
Theorem C11_v2000_fields_roundtrip_tail : forall mapping g fs,
  Forall2 wf_atom (wm_atoms g) fs -> wm_atoms g <> [] -> (length (wm_atoms g) <= 999)%nat -> (length (wm_bonds g) <= 999)%nat ->
  NoDup (map wa_num (wm_atoms g)) -> Forall (bond_ok (wm_atoms g)) (wm_bonds g) ->
  Forall (wedge_ok (wm_atoms g) (wm_bonds g)) (wm_wedge g) ->
  (length (wm_wedge g) + length (plain_bonds g) = length (wm_bonds g))%nat ->
  exists lines, write_mol_v2000 mapping g = Ok lines /\
    forall tail, parse_mol_v2000 (map add_nl lines ++ tail) =
    Ok (mk_parsed (title_of (wm_name g)) (map2 (expected_atom mapping) (wm_atoms g) fs)
                  (map (exp_wedge_bond (wm_atoms g) (wm_bonds g)) (wm_wedge g) ++ map (exp_plain_bond (wm_atoms g)) (plain_bonds g))
                  (map (exp_wedge_stereo (wm_atoms g)) (wm_wedge g)) []).
Proof. exact v2000_fields_roundtrip_tail. Qed.
Print Assumptions C11_v2000_fields_roundtrip_tail.

(* a text that float() accepts starts with a blank, a sign, a digit, a dot or a letter of inf / nan: never with '$' or 'M', so a
   written atom line is never taken for "$$$$", "$MOL", "$RFMT", "$DTYPE", "M  END", "M  V30 ..." *)
Theorem C11_float_field_first_char : forall c r f, py_float (c :: r) = Ok f -> is_cspace c = true \/ In c float_first.
Proof. exact py_float_first_char. Qed.
Print Assumptions C11_float_field_first_char.

(* SD files, generic in the MOL block: a record = (MOL lines without "M  END" inside, the "M  END" line, dictionary entries) *)
Theorem C11_sdf_file_roundtrip_generic : forall (A : Type) (build_mol : parsed3 -> pyres A) (buffer_size : nat) esc (recs : list frec),
  Forall (frec_ok buffer_size esc) recs ->
  sdf_read A build_mol buffer_size (readlines (file_text esc recs)) = collect A (map (frec_result A build_mol esc) recs ++ [inr EOFError]).
Proof. exact sdf_file_roundtrip_generic. Qed.
Print Assumptions C11_sdf_file_roundtrip_generic.
Theorem C11_rdf_file_roundtrip_generic : forall (A : Type) (build_mol : parsed3 -> pyres A) (build_rxn : rparsed -> pyres A) (buffer_size : nat) header (recs : list rrec),
  Forall (fun l => ~ In nl l /\ is_fmt l = false /\ startswith (L "$RXN") l = false) header ->
  Forall (rrec_ok buffer_size (length header)) recs ->
  rdf_read A build_mol build_rxn buffer_size (readlines (rdfile_text header recs)) = collect A (map (rrec_result A build_mol build_rxn) recs).
Proof. exact rdf_file_roundtrip_generic. Qed.
Print Assumptions C11_rdf_file_roundtrip_generic.

(* sdf_file_roundtrip: for records within the format limits (sdf_rec_wf: the V2000 block hypotheses; title and coordinate fields
   single lines; the title does not start with $$$$ / M  END / $RFMT / $MFMT / $DTYPE / $RXN; dictionary entries obey the
   format-inherent conditions of the metadata theorem and no value line starts with $$$$; the record fits the read-ahead buffer),
   reading the concatenation of what SDFWrite wrote returns, record by record, what the builder makes of the expected parse result,
   with the dictionary normalised line by line, and then the file ends *)
Theorem C11_sdf_file_roundtrip : forall (A : Type) (build : parsed3 -> pyres A) buffer_size mapping (recs : list sdf_in),
  Forall (sdf_rec_wf buffer_size mapping) recs ->
  exists texts, mapM (fun r => sdf_record_text mapping (si_mol r) (meta_of (si_entries r))) recs = Ok texts /\
    sdf_read A build buffer_size (readlines (concat texts)) =
    collect A (map (fun r => built build (mol_expected2 mapping (si_mol r) (si_fs r)) (sdf_meta_spec sdf_write_escape (si_entries r))) recs
               ++ [inr EOFError]).
Proof. exact sdf_v2000_file_roundtrip. Qed.
Print Assumptions C11_sdf_file_roundtrip.

(* rdf_file_roundtrip (molecule records): the header RDFWrite writes first, then the concatenation of what it wrote per record *)
Theorem C11_rdf_mol_file_roundtrip : forall (A : Type) (build : parsed3 -> pyres A) build_rxn buffer_size mapping header (recs : list sdf_in),
  Forall (fun l => ~ In nl l /\ is_fmt l = false /\ startswith (L "$RXN") l = false) header ->
  Forall (rdf_mol_wf buffer_size (length header) mapping) recs ->
  exists texts, mapM (fun r => rdf_mol_text mapping (si_mol r) (meta_of (si_entries r))) recs = Ok texts /\
    rdf_read A build build_rxn buffer_size (readlines (text_of_lines header ++ concat texts)) =
    collect A (map (fun r => built build (mol_expected2 mapping (si_mol r) (si_fs r)) (meta_spec (si_entries r))) recs).
Proof. exact rdf_v2000_mol_file_roundtrip. Qed.
Print Assumptions C11_rdf_mol_file_roundtrip.

(* the same for the V3000 writers: ESDFWrite then SDFRead, ERDFWrite (molecule records) then RDFRead *)
Theorem C11_esdf_file_roundtrip : forall (A : Type) (build : parsed3 -> pyres A) buffer_size mapping (recs : list sdf_in),
  Forall (esdf_rec_wf buffer_size mapping) recs ->
  exists texts, mapM (fun r => esdf_record_text mapping (si_mol r) (meta_of (si_entries r))) recs = Ok texts /\
    sdf_read A build buffer_size (readlines (concat texts)) =
    collect A (map (fun r => built build (mol_expected2 mapping (si_mol r) (si_fs r)) (sdf_meta_spec esdf_write_escape (si_entries r))) recs
               ++ [inr EOFError]).
Proof. exact esdf_v3000_file_roundtrip. Qed.
Print Assumptions C11_esdf_file_roundtrip.
Theorem C11_erdf_mol_file_roundtrip : forall (A : Type) (build : parsed3 -> pyres A) build_rxn buffer_size mapping header (recs : list sdf_in),
  Forall (fun l => ~ In nl l /\ is_fmt l = false /\ startswith (L "$RXN") l = false) header ->
  Forall (erdf_mol_wf buffer_size (length header) mapping) recs ->
  exists texts, mapM (fun r => erdf_mol_text mapping (si_mol r) (meta_of (si_entries r))) recs = Ok texts /\
    rdf_read A build build_rxn buffer_size (readlines (text_of_lines header ++ concat texts)) =
    collect A (map (fun r => built build (mol_expected2 mapping (si_mol r) (si_fs r)) (meta_spec (si_entries r))) recs).
Proof. exact erdf_v3000_mol_file_roundtrip. Qed.
Print Assumptions C11_erdf_mol_file_roundtrip.

(* rdf_file_roundtrip, REACTION records (V2000): molecules under the block hypotheses with titles / coordinate fields single lines
   and titles not looking like structural lines (wmol_ok2); reaction title a single line not starting with $RFMT/$MFMT/$DTYPE;
   <= 999 molecules per role, at least one; dictionary under the format-inherent conditions; the record fits the buffer *)
Theorem C11_rdf_rxn_file_roundtrip : forall (A : Type) (build : parsed3 -> pyres A) (build_rxn : rparsed -> pyres A) buffer_size mapping header (recs : list rxn_in),
  Forall (fun l => ~ In nl l /\ is_fmt l = false /\ startswith (L "$RXN") l = false) header ->
  Forall (rdf_rxn_wf buffer_size (length header) mapping) recs ->
  exists texts, mapM (fun x => rdf_rxn_text mapping (ri_rxn x) (meta_of (ri_entries x))) recs = Ok texts /\
    rdf_read A build build_rxn buffer_size (readlines (text_of_lines header ++ concat texts)) =
    collect A (map (fun x => match build_rxn (rxn_expected2 mapping x) with Ok o => inl (o, meta_spec (ri_entries x)) | Err e => inr (Py e) end) recs).
Proof. exact rdf_v2000_rxn_file_roundtrip. Qed.
Print Assumptions C11_rdf_rxn_file_roundtrip.

(* the same for V3000 reaction records: ERDFWrite then RDFRead (no limits on the number of molecules) *)
Theorem C11_erdf_rxn_file_roundtrip : forall (A : Type) (build : parsed3 -> pyres A) (build_rxn : rparsed -> pyres A) buffer_size mapping header (recs : list rxn_in),
  Forall (fun l => ~ In nl l /\ is_fmt l = false /\ startswith (L "$RXN") l = false) header ->
  Forall (erdf_rxn_wf buffer_size (length header) mapping) recs ->
  exists texts, mapM (fun x => erdf_rxn_text mapping (ri_rxn x) (meta_of (ri_entries x))) recs = Ok texts /\
    rdf_read A build build_rxn buffer_size (readlines (text_of_lines header ++ concat texts)) =
    collect A (map (fun x => match build_rxn (rxn_expected3 mapping x) with Ok o => inl (o, meta_spec (ri_entries x)) | Err e => inr (Py e) end) recs).
Proof. exact erdf_v3000_rxn_file_roundtrip. Qed.
Print Assumptions C11_erdf_rxn_file_roundtrip.
(* non-vacuity of the two reaction file theorems: hypotheses hold for a reaction with 2 reactants, 1 product and a reagent named
   "$MOL" resp. "M  V30 BEGIN CTAB", with a two-line metadata value; the files read back *)
Theorem C11_rxn_file_examples :
  (rdf_rxn_wf 200 2 true ex_rxn_in2 /\ erdf_rxn_wf 200 2 true ex_rxn_in3) /\
  (exists texts, mapM (fun x => rdf_rxn_text true (ri_rxn x) (meta_of (ri_entries x))) [ex_rxn_in2] = Ok texts /\
     rdf_read (option str) ex_build ex_build_rxn 200 (readlines (text_of_lines ex_rxn_header ++ concat texts)) =
     ([(Some (L "test rxn"), [(L "k", L "v" ++ [nl] ++ L "w")])], Exhausted)) /\
  (exists texts, mapM (fun x => erdf_rxn_text true (ri_rxn x) (meta_of (ri_entries x))) [ex_rxn_in3] = Ok texts /\
     rdf_read (option str) ex_build ex_build_rxn 200 (readlines (text_of_lines ex_rxn_header ++ concat texts)) =
     ([(Some (L "test rxn"), [(L "k", L "v" ++ [nl] ++ L "w")])], Exhausted)).
Proof. exact (conj ex_rxn_files_wf rxn_file_examples). Qed.
Print Assumptions C11_rxn_file_examples.

(* non-vacuity: the hypotheses hold for a two-record file (charge +4, isotope, radical, wedge, order-8 bond, renumbered atoms;
   an escaped key, a two-line value), and the file reads back *)
Theorem C11_file_roundtrip_example :
  (Forall (sdf_rec_wf 100 true) ex_file_recs /\ Forall (rdf_mol_wf 100 2 true) (firstn 1 ex_file_recs)) /\
  exists texts, mapM (fun r => sdf_record_text true (si_mol r) (meta_of (si_entries r))) ex_file_recs = Ok texts /\
    sdf_read (option str) ex_build 100 (readlines (concat texts)) =
    ([(Some (L "test mol"), [(L "k", L "v")]); (Some (L "test mol"), [(L "a>b", L "two" ++ [nl] ++ L "lines"); (L "n", L "1")])], Exhausted).
Proof. exact (conj ex_file_recs_wf sdf_file_example). Qed.
Print Assumptions C11_file_roundtrip_example.

(* ---- writer sessions (IO.__init__, _RDFWrite.__init__): an RD file created by path and then reopened by path with append=True any
        number of times is the header ONCE, followed by all records in order - so the file theorems above, which speak about
        header ++ records, apply to files with such a history; and the decision table of the header ---- *)
Theorem C11_rdf_append_history : forall stamp first rest,
  ss_buffer first = false -> ss_records first <> [] ->
  Forall (fun s => ss_buffer s = false /\ ss_append s = true) rest ->
  rdf_sessions stamp (first :: rest) = rdf_header_text stamp ++ concat (concat (map ss_records (first :: rest))).
Proof. exact rdf_append_history. Qed.
Print Assumptions C11_rdf_append_history.
Theorem C11_rdf_header_table :
  map (fun x => rdf_writes_header (fst (fst x)) (snd (fst x)) (snd x))
      [(false, false, false); (false, false, true); (false, true, false); (false, true, true);
       (true, false, false); (true, false, true); (true, true, false); (true, true, true)] =
      [true; true; true; false; true; true; false; false].
Proof. exact rdf_header_table. Qed.
Print Assumptions C11_rdf_header_table.
Theorem C11_rdf_append_history_example :
  rdf_sessions (L "01/01/01 00:00") [mk_session false false [L "A"; L "B"]; mk_session false true [L "C"]; mk_session false true []; mk_session false true [L "D"]] =
  L "$RDFILE 1" ++ [nl] ++ L "$DATM    01/01/01 00:00" ++ [nl] ++ L "ABCD".
Proof. exact rdf_append_history_example. Qed.
Print Assumptions C11_rdf_append_history_example.

(* ---- metadata: values come back line by line, stripped, blank lines dropped; equal keys merge ---- *)
Theorem C11_rdf_meta_roundtrip_normalised : forall entries, Forall rdf_entry_ok entries ->
  rdf_read_metadata (readlines (rdf_meta_text (meta_of entries))) = meta_spec entries.
Proof. exact rdf_meta_roundtrip_normalised. Qed.
Print Assumptions C11_rdf_meta_roundtrip_normalised.

Theorem C11_sdf_meta_roundtrip_normalised : forall esc entries, Forall (sdf_entry_ok esc) entries ->
  sdf_read_metadata (readlines (sdf_meta_text esc (meta_of entries))) = sdf_meta_spec esc entries.
Proof. exact sdf_meta_roundtrip_normalised. Qed.
Print Assumptions C11_sdf_meta_roundtrip_normalised.

Theorem C11_meta_value_line_not_key_line : forall l,
  (match l with ">"%char :: _ => False | _ => True end) -> meta_match (add_nl l) = None.
Proof. exact meta_match_not_gt. Qed.
Print Assumptions C11_meta_value_line_not_key_line.

(* the key escapes, in full: for EVERY key without '&' the reader reconstructs the stripped key from what SDFWrite / ESDFWrite wrote
   (replace-by-replace induction; the writer tables are the generated ones) ... *)
Theorem C11_sdf_key_escape_no_amp : forall k, ~ In amp k ->
  sdf_key_back sdf_write_escape k = strip k /\ sdf_key_back esdf_write_escape k = strip k.
Proof. exact sdf_key_escape_no_amp. Qed.
Print Assumptions C11_sdf_key_escape_no_amp.
(* ... hence, with keys free of '&' and newline, the conditions of the metadata theorem are conditions on the RAW key and the dictionary
   comes back under the stripped keys: the same specification as for RDF *)
Theorem C11_sdf_meta_roundtrip_plain : forall entries, Forall sdf_entry_plain entries ->
  sdf_read_metadata (readlines (sdf_meta_text sdf_write_escape (meta_of entries))) = meta_spec entries.
Proof. exact sdf_meta_roundtrip_plain. Qed.
Print Assumptions C11_sdf_meta_roundtrip_plain.
Theorem C11_sdf_key_escape_example : ~ In amp (L " a>b <c> ") /\ sdf_key_back sdf_write_escape (L " a>b <c> ") = L "a>b <c>".
Proof. exact sdf_key_escape_example. Qed.
Print Assumptions C11_sdf_key_escape_example.

(* (the earlier bounded sweep, now a special case of C11_sdf_key_escape_no_amp; kept as an independent vm_compute check) *)
Theorem C11_sdf_key_escape_partial :
  forallb (fun k => str_eqb (sdf_key_back sdf_write_escape k) (strip k)) (words (L "<>gtl;x ") 5) = true.
Proof. exact sdf_key_escape_bounded. Qed.
Print Assumptions C11_sdf_key_escape_partial.
(* ... and false in general: '&' is not escaped, a key holding the text of an entity comes back altered (known finding) *)
Theorem C11_sdf_key_escape_refuted : exists k, sdf_key_back sdf_write_escape k <> strip k.
Proof. exact sdf_key_escape_refuted. Qed.
Print Assumptions C11_sdf_key_escape_refuted.

Theorem C11_rdf_meta_example :
  rdf_entry_ok (L "k1", [L "first"; L "MAD value"; L "TAU"]) /\
  rdf_read_metadata (readlines (rdf_meta_text [(L "k1", L "first" ++ [nl] ++ L "MAD value" ++ [nl] ++ L "TAU"); (L " key two ", L "  x " ++ [nl; nl] ++ L "y")])) =
  [(L "k1", L "first" ++ [nl] ++ L "MAD value" ++ [nl] ++ L "TAU"); (L "key two", L "x" ++ [nl] ++ L "y")].
Proof. exact rdf_meta_example. Qed.
Print Assumptions C11_rdf_meta_example.

Theorem C11_sdf_meta_example :
  sdf_read_metadata (readlines (sdf_meta_text sdf_write_escape [(L "a>b", L " v1 " ++ [nl; nl] ++ L "v2"); (L "a>b", L "v3"); (L "c", L "w")])) =
  [(L "a>b", L "v1" ++ [nl] ++ L "v2" ++ [nl] ++ L "v3"); (L "c", L "w")].
Proof. exact sdf_meta_example. Qed.
Print Assumptions C11_sdf_meta_example.

(* ---- MRV, below lxml: the attribute-level writer/reader pair (model coq/model/Mrv.v).  The writer side is the text MRVWrite emits
        (<atomArray>..</bondArray>, rendered from attribute lists); `mrv_dict` is what an XML parser + xml_dict find in that text
        (a start-tag scanner: this is where the value `1" queryType="Any` written for order 8 becomes two attributes); parse_molecule
        is the reader.  For every molecule with distinct atom numbers, bonds / wedges between its atoms, orders from the generated
        bond_map (1, 2, 3, 4, 8), attribute values non-blank without double quote: atoms in order with element, isotope, charge,
        radical, mapping number, hydrogenCount, x2/2 and y2/2, bonds wedge-first, W/H stereo, title, empty log ---- *)
Theorem C11_mrv_molecule_roundtrip : forall mapping g fs hs,
  Forall2 wfm_atom (wm_atoms g) fs -> wm_atoms g <> [] -> NoDup (map wa_num (wm_atoms g)) ->
  Forall (mbond_ok (wm_atoms g)) (wm_bonds g) -> Forall (wedge_ok (wm_atoms g) (wm_bonds g)) (wm_wedge g) ->
  no_char dq (wm_name g) ->
  exists w d,
    write_mrv mapping g hs = Ok w /\ mrv_dict (wm_name g) w = Ok d /\
    parse_molecule d =
    Ok (mk_mparsed (title_of (wm_name g)) (exp_atoms mapping (wm_atoms g) fs hs)
                   (map (exp_wedge_bond (wm_atoms g) (wm_bonds g)) (wm_wedge g) ++ map (exp_plain_bond (wm_atoms g)) (plain_bonds g))
                   (map (exp_wedge_stereo (wm_atoms g)) (wm_wedge g)) [] (id_map (map wa_num (wm_atoms g)) 0)).
Proof. exact mrv_molecule_roundtrip. Qed.
Print Assumptions C11_mrv_molecule_roundtrip.

Theorem C11_mrv_atom_roundtrip : forall mapping a h f, wfm_atom a f ->
  exists d, xml_elem_attrs (mrv_atom_raw mapping a h) = Ok d /\ mrv_parse_atom d = Ok (aid (wa_num a), exp_matom mapping a f h).
Proof. exact mrv_atom_roundtrip. Qed.
Print Assumptions C11_mrv_atom_roundtrip.

(* bond orders through the generated bond_map, incl. the injected queryType="Any" of order 8 *)
Theorem C11_mrv_order_roundtrip : forall o, valid_order o ->
  exists ov r, w_order o = Ok ov /\ cook [(L "order", ov)] = Some r /\ read_order (xml_attrs r) = Ok o.
Proof. exact order_roundtrip. Qed.
Print Assumptions C11_mrv_order_roundtrip.
Theorem C11_mrv_valid_orders : forall o, valid_order o <-> o = 1 \/ o = 2 \/ o = 3 \/ o = 4 \/ o = 8.
Proof. exact valid_order_cases. Qed.
Print Assumptions C11_mrv_valid_orders.

(* non-vacuity: charges +4/-1/-2, isotopes, radicals, hydrogen counts, two wedges, order 4 and 8 bonds, numbers 7 3 12 5 *)
Theorem C11_mrv_example :
  (Forall2 wfm_atom (wm_atoms exm_mol) exm_fs /\ wm_atoms exm_mol <> [] /\ NoDup (map wa_num (wm_atoms exm_mol)) /\
   Forall (mbond_ok (wm_atoms exm_mol)) (wm_bonds exm_mol) /\ Forall (wedge_ok (wm_atoms exm_mol) (wm_bonds exm_mol)) (wm_wedge exm_mol) /\
   no_char dq (wm_name exm_mol)) /\
  mrv_write_read true exm_mol exm_hs = Ok exm_parsed.
Proof. exact (conj exm_hypotheses exm_roundtrip). Qed.
Print Assumptions C11_mrv_example.

(* ---- random access (MDLRead.__getitem__ with a step-1 slice, seek, the index SDFRead.reset_index builds): on an SD file whose record
        lines do not contain "$$$$" the index addresses the records, and reader[i:j] returns what the records i..j-1 yield on their own
        lines (ValueError skipped, IndexError NOT: it propagates); when every record parses or raises a ValueError this is the
        sub-range of what sequential reading returns ---- *)
Theorem C11_sdf_getslice_records : forall (A : Type) (build_mol : parsed3 -> pyres A) (buffer_size : nat) recs i j,
  Forall (rec_ok buffer_size) recs ->
  sdf_getslice A build_mol buffer_size i j (sdf_file recs []) =
  slice_collect A (map (sdf_one A build_mol true) (map fst (firstn (Nat.min j (length recs) - Nat.min i (length recs)) (skipn (Nat.min i (length recs)) recs)))).
Proof. exact sdf_getslice_records. Qed.
Print Assumptions C11_sdf_getslice_records.
Theorem C11_sdf_random_access_is_sequential : forall (A : Type) (build_mol : parsed3 -> pyres A) (buffer_size : nat) recs i j,
  Forall (rec_ok buffer_size) recs ->
  Forall (val_skippable A) (map (sdf_one A build_mol true) (map fst recs)) -> (i <= j <= length recs)%nat ->
  sdf_getslice A build_mol buffer_size i j (sdf_file recs []) =
    (successes A (map (sdf_one A build_mol true) (map fst (firstn (j - i) (skipn i recs)))), Exhausted) /\
  sdf_read A build_mol buffer_size (sdf_file recs []) = (successes A (map (sdf_one A build_mol true) (map fst recs)), Exhausted).
Proof. exact sdf_random_access_is_sequential. Qed.
Print Assumptions C11_sdf_random_access_is_sequential.
Theorem C11_sdf_slices_example :
  Forall (rec_ok 100) ex_recs /\
  sdf_getslice (option str) ex_build 100 0 3 (sdf_file ex_recs []) = ([(Some (L "a"), [(L "k", L "v")])], Exhausted) /\
  sdf_getslice (option str) ex_build 100 4 9 (sdf_file ex_recs []) = ([(Some (L "c"), [(L "k", L "v")])], Exhausted) /\
  snd (sdf_getslice (option str) ex_build 100 2 5 (sdf_file ex_recs [])) = Crashed (Py IndexError).
Proof. exact sdf_slices_example. Qed.
Print Assumptions C11_sdf_slices_example.

(* ---- between the parsed dict and the container (model coq/model/MdlMap.v): postprocess_parsed_molecule decides the atom numbers,
        the graph part of create_molecule keys the atoms by them and re-addresses the bonds (no loops, known atoms, no double bond);
        the construction of the atom object is the parameter mk.  Hence: what the V2000 / V3000 writers wrote comes back as a
        container graph with the atoms under their ORIGINAL numbers in the ORIGINAL order and exactly the written bonds ---- *)
Theorem C11_pp_mapping_written : forall ig ms, ms <> [] -> NoDup ms -> Forall (fun m => m <> 0) ms ->
  pp_mapping false ig (map Some ms) = Ok (ms, 0%nat).
Proof. exact pp_mapping_written. Qed.
Print Assumptions C11_pp_mapping_written.
Theorem C11_pp_mapping_unmapped_and_remap : forall ig,
  (forall n, pp_mapping false ig (repeat (Some 0) (S n)) = Ok (zrange_from 1 (S n), 0%nat)) /\
  (forall ms, pp_mapping true ig ms = Ok (zrange_from 1 (length ms), 0%nat)).
Proof. exact (fun ig => conj (pp_mapping_unmapped ig) (pp_mapping_remap ig)). Qed.
Print Assumptions C11_pp_mapping_unmapped_and_remap.
Theorem C11_create_graph_written : forall (X : Type) (mk : patom -> pyres X) nums atoms xs B,
  NoDup nums -> length nums = length atoms -> Forall2 (fun a x => mk a = Ok x) atoms xs ->
  Forall (fun b => In (fst (fst b)) nums /\ In (snd (fst b)) nums) B -> simple [] B ->
  create_graph X mk nums atoms (map (readdress nums) B) = Ok (combine nums xs, B).
Proof. exact create_graph_written. Qed.
Print Assumptions C11_create_graph_written.
Theorem C11_molecule_graph_roundtrip_v2000 : forall (X : Type) (mk : patom -> pyres X) ig g fs xs,
  Forall2 wf_atom (wm_atoms g) fs -> wm_atoms g <> [] -> (length (wm_atoms g) <= 999)%nat -> (length (wm_bonds g) <= 999)%nat ->
  NoDup (map wa_num (wm_atoms g)) -> Forall (bond_ok (wm_atoms g)) (wm_bonds g) -> Forall (wedge_ok (wm_atoms g) (wm_bonds g)) (wm_wedge g) ->
  (length (wm_wedge g) + length (plain_bonds g) = length (wm_bonds g))%nat ->
  Forall (fun a => wa_num a <> 0) (wm_atoms g) -> simple [] (written_bonds g) ->
  Forall2 (fun p x => mk p = Ok x) (map2 (expected_atom true) (wm_atoms g) fs) xs ->
  exists lines, write_mol_v2000 true g = Ok lines /\
    (do p <- parse_mol_v2000 (map add_nl lines); read_graph mk false ig p) = Ok (combine (map wa_num (wm_atoms g)) xs, written_bonds g).
Proof. exact molecule_graph_roundtrip_v2000. Qed.
Print Assumptions C11_molecule_graph_roundtrip_v2000.
Theorem C11_molecule_graph_roundtrip_v3000 : forall (X : Type) (mk : patom -> pyres X) ig g fs xs,
  Forall2 wf3_atom (wm_atoms g) fs -> wm_atoms g <> [] -> NoDup (map wa_num (wm_atoms g)) ->
  Forall (bond_ok (wm_atoms g)) (wm_bonds g) -> Forall (wedge_ok (wm_atoms g) (wm_bonds g)) (wm_wedge g) ->
  (length (wm_wedge g) + length (plain_bonds g) = length (wm_bonds g))%nat ->
  Forall (fun a => wa_num a <> 0) (wm_atoms g) -> simple [] (written_bonds g) ->
  Forall2 (fun p x => mk p = Ok x) (map2 (expected_atom true) (wm_atoms g) fs) xs ->
  exists lines, write_mol_v3000 true g = Ok lines /\
    (do p <- parse_mol_v3000 (map add_nl lines); read_graph mk false ig (p3 p)) = Ok (combine (map wa_num (wm_atoms g)) xs, written_bonds g).
Proof. exact molecule_graph_roundtrip_v3000. Qed.
Print Assumptions C11_molecule_graph_roundtrip_v3000.
Theorem C11_graph_roundtrip_example :
  Forall (fun a => wa_num a <> 0) (wm_atoms ex_mol) /\ simple [] (written_bonds ex_mol) /\
  exists lines, write_mol_v2000 true ex_mol = Ok lines /\
    option_map (fun r => (map fst (fst r), snd r))
      (match (do p <- parse_mol_v2000 (map add_nl lines); read_graph (fun a => Ok a) false true p) with Ok r => Some r | Err _ => None end) =
    Some ([7; 3; 12], [(7, 3, 1); (12, 3, 8)]).
Proof. exact graph_roundtrip_example. Qed.
Print Assumptions C11_graph_roundtrip_example.

(* ---- tie to the SOURCE TEXT: Gen.MdlSource holds the f-strings, column slices, string / integer constants, skipped-exception lists
        and the key-line regular expression of the writers and readers, regenerated on every run; the model's line writers ARE the
        renderings of the generated templates (render: literal pieces, field order and format specifications from the source) ---- *)
Theorem C11_source_snapshot :
  src_molwrite_templates = hand_molwrite_templates /\ src_emolwrite_templates = hand_emolwrite_templates /\
  src_mol_slices = hand_mol_slices /\ src_mol_strings = hand_mol_strings /\ src_mol_ints = hand_mol_ints /\
  src_emol_slices = hand_emol_slices /\ src_emol_strings = hand_emol_strings /\ src_emol_split_strings = hand_emol_split_strings /\
  src_rxn_slices = hand_rxn_slices /\ src_rxn_strings = hand_rxn_strings /\ src_rxn_ints = hand_rxn_ints /\
  src_erxn_slices = hand_erxn_slices /\ src_erxn_strings = hand_erxn_strings /\ src_erxn_ints = hand_erxn_ints /\
  src_sdfwrite_templates = hand_sdfwrite_templates /\ src_rdfwrite_templates = hand_rdfwrite_templates /\
  src_esdfwrite_templates = hand_esdfwrite_templates /\ src_erdfwrite_templates = hand_erdfwrite_templates /\
  src_sdfread_read_block_strings = hand_sdfread_read_block_strings /\ src_rdfread_read_block_strings = hand_rdfread_read_block_strings /\
  src_sdfread_read_metadata_strings = hand_sdfread_read_metadata_strings /\ src_rdfread_read_metadata_strings = hand_rdfread_read_metadata_strings /\
  src_rdfread_read_metadata_slices = hand_rdfread_read_metadata_slices /\
  src_sdfread_reset_index_strings = hand_sdfread_reset_index_strings /\ src_rdfread_reset_index_strings = hand_rdfread_reset_index_strings /\
  src_meta_pattern = hand_meta_pattern /\ src_rdfwrite_header_strings = hand_rdfwrite_header_strings /\ src_io_init_strings = hand_io_init_strings.
Proof.
  exact (conj tie_molwrite_templates (conj tie_emolwrite_templates (conj tie_mol_slices (conj tie_mol_strings (conj tie_mol_ints
        (conj tie_emol_slices (conj tie_emol_strings (conj tie_emol_split_strings (conj tie_rxn_slices (conj tie_rxn_strings (conj tie_rxn_ints
        (conj tie_erxn_slices (conj tie_erxn_strings (conj tie_erxn_ints (conj tie_sdfwrite_templates (conj tie_rdfwrite_templates
        (conj tie_esdfwrite_templates (conj tie_erdfwrite_templates (conj tie_sdfread_read_block_strings (conj tie_rdfread_read_block_strings
        (conj tie_sdfread_read_metadata_strings (conj tie_rdfread_read_metadata_strings (conj tie_rdfread_read_metadata_slices
        (conj tie_sdfread_reset_index_strings (conj tie_rdfread_reset_index_strings (conj tie_meta_pattern (conj tie_rdfwrite_header_strings
        tie_io_init_strings))))))))))))))))))))))))))).
Qed.
Print Assumptions C11_source_snapshot.
Theorem C11_tie_v2_atom_line : forall (mapping : bool) a c, w_charge (wa_chg a) = Ok c ->
  match render (env_of [("x"%string, VF (wa_x a)); ("y"%string, VF (wa_y a)); ("z"%string, VF (wa_z a)); ("a.atomic_symbol"%string, VS (wa_sym a));
                        ("c"%string, VS c); ("m"%string, VZ (if mapping then wa_num a else 0))]) (tpl src_molwrite_templates 1) with
  | Some t => v2_atom_line mapping a = Ok (removelast t) /\ last t sp = nl
  | None => False
  end.
Proof. exact tie_v2_atom_line. Qed.
Print Assumptions C11_tie_v2_atom_line.
Theorem C11_tie_v2_prop_lines : forall n iso chg,
  render (env_of [("n"%string, VZ n); ("a.isotope"%string, VZ iso)]) (tpl src_molwrite_templates 4) =
    Some (add_nl (L "M  ISO  1 " ++ fmt_d 3 n ++ [sp] ++ fmt_d 3 iso)) /\
  render (env_of [("n"%string, VZ n)]) (tpl src_molwrite_templates 5) = Some (add_nl (L "M  RAD  1 " ++ fmt_d 3 n ++ L "   2")) /\
  render (env_of [("n"%string, VZ n); ("a.charge"%string, VZ chg)]) (tpl src_molwrite_templates 6) =
    Some (add_nl (L "M  CHG  1 " ++ fmt_d 3 n ++ [sp] ++ fmt_d 3 chg)).
Proof. exact tie_v2_prop_lines. Qed.
Print Assumptions C11_tie_v2_prop_lines.
Theorem C11_tie_v2_header_and_bonds : forall name na nb i j o (up : bool),
  render (env_of [("g.name"%string, VS name); ("g.atoms_count"%string, VZ na); ("g.bonds_count"%string, VZ nb)]) (tpl src_molwrite_templates 0) =
    Some (text_of_lines [name; []; []; v2_counts_line na nb]) /\
  render (env_of [("atoms[n]"%string, VZ i); ("atoms[m]"%string, VZ j); ("bonds[n][m].order"%string, VZ o);
                  ("s == 1 and '1' or '6'"%string, VS (if up then L "1" else L "6"))]) (tpl src_molwrite_templates 2) =
    Some (add_nl (v2_bond_line i j o (if up then L "1" else L "6"))) /\
  render (env_of [("atoms[n]"%string, VZ i); ("atoms[m]"%string, VZ j); ("b.order"%string, VZ o)]) (tpl src_molwrite_templates 3) =
    Some (add_nl (v2_bond_line i j o (L "0"))).
Proof. exact (fun name na nb i j o up => conj (tie_v2_header name na nb) (tie_v2_bond_lines i j o up)). Qed.
Print Assumptions C11_tie_v2_header_and_bonds.
Theorem C11_tie_skipped_exceptions_and_header :
  (src_iter_handlers = ["(ValueError, IndexError)"; "EOFError"]%string /\ src_getitem_handlers = ["EOFError"; "ValueError"; "EOFError"; "ValueError"]%string) /\
  (src_rdfwrite_init_condition = "not append or not (self._is_buffer or self._file.tell() != 0)"%string /\
   forall is_buffer append tell_nonzero, rdf_writes_header is_buffer append tell_nonzero = negb append || negb (is_buffer || tell_nonzero)).
Proof. exact (conj tie_skipped_exceptions tie_header_condition). Qed.
Print Assumptions C11_tie_skipped_exceptions_and_header.

(* ---- REACTION mapping numbers (model coq/model/MdlMapRxn.v of _mapping.postprocess_parsed_reaction, shared by the RDF V2000 / V3000 and
        MRV reaction readers): what a written reaction carries -- non-zero numbers, distinct inside each role, the agents sharing none
        with reactants / products -- comes back unchanged, role by role and molecule by molecule, with nothing logged ---- *)
Theorem C11_pp_reaction_written : forall ig R P G,
  NoDup (concat R) -> NoDup (concat P) -> NoDup (concat G) ->
  Forall (fun m => m <> 0) (concat R) -> Forall (fun m => m <> 0) (concat P) -> Forall (fun m => m <> 0) (concat G) ->
  (forall x, In x (concat G) -> ~ In x (concat R ++ concat P)) ->
  pp_reaction false ig (map (map Some) R) (map (map Some) P) (map (map Some) G)
  = Ok (mk_pprr R P G 0%nat (repeat 0%nat (length R) ++ repeat 0%nat (length P) ++ repeat 0%nat (length G))).
Proof. exact pp_reaction_written. Qed.
Print Assumptions C11_pp_reaction_written.
Theorem C11_pp_reaction_written_instance :
  pp_reaction false true [[Some 1; Some 2; Some 3]; [Some 4; Some 5; Some 6; Some 7]] [[Some 4; Some 5; Some 6; Some 3; Some 2; Some 1]; [Some 7]] [[Some 12; Some 9]]
  = Ok (mk_pprr [[1; 2; 3]; [4; 5; 6; 7]] [[4; 5; 6; 3; 2; 1]; [7]] [[12; 9]] 0%nat [0; 0; 0; 0; 0]%nat).
Proof. exact pp_reaction_written_instance. Qed.
Print Assumptions C11_pp_reaction_written_instance.

(* ANY record (ignore=True, remap=False: the readers' defaults): postprocess_parsed_reaction never raises and its result is described
   exactly by the relations rn (one role, left to right with the counter: a non-zero number not seen before in the role is kept, every
   other atom takes the counter) and rs (an agent whose number also occurs among the final reactant / product numbers takes the counter);
   every number of the record is below the first fresh number; numbers are distinct inside every role; the agents share none with
   reactants / products *)
Theorem C11_pp_reaction_general : forall R P G,
  let fR := map map_val (concat R) in let fP := map map_val (concat P) in let fG := map map_val (concat G) in
  exists rc pr rg0 rg c1 c2 c3 c4 lg ml,
    pp_reaction false true R P G
    = Ok (mk_pprr (split_sizes (map (@length _) R) rc) (split_sizes (map (@length _) P) pr) (split_sizes (map (@length _) G) rg) lg ml) /\
    rn (ppr_start fR fP fG) [] fR rc c1 /\ rn c1 [] fP pr c2 /\ rn c2 [] fG rg0 c3 /\ rs (rc ++ pr) c3 rg0 rg c4 /\
    (forall x, In x (fR ++ fP ++ fG) -> x < ppr_start fR fP fG) /\
    NoDup rc /\ NoDup pr /\ NoDup rg /\ (forall x, In x rg -> ~ In x (rc ++ pr)) /\
    length rc = length fR /\ length pr = length fP /\ length rg = length fG.
Proof. exact pp_reaction_general. Qed.
Print Assumptions C11_pp_reaction_general.
(* user level: every non-zero number of the record is still in its role after reading (an agent's: when no reactant / product atom
   carries it); distinct inside each role; agents apart *)
Theorem C11_pp_reaction_preserves : forall R P G,
  let fR := map map_val (concat R) in let fP := map map_val (concat P) in let fG := map map_val (concat G) in
  exists r, pp_reaction false true R P G = Ok r /\
    (forall x, x <> 0 -> In x fR -> In x (concat (ppr_reactants r))) /\
    (forall x, x <> 0 -> In x fP -> In x (concat (ppr_products r))) /\
    (forall x, x <> 0 -> In x fG -> ~ In x fR -> ~ In x fP -> In x (concat (ppr_reagents_out r))) /\
    NoDup (concat (ppr_reactants r)) /\ NoDup (concat (ppr_products r)) /\ NoDup (concat (ppr_reagents_out r)) /\
    (forall x, In x (concat (ppr_reagents_out r)) -> ~ In x (concat (ppr_reactants r) ++ concat (ppr_products r))).
Proof. exact pp_reaction_preserves. Qed.
Print Assumptions C11_pp_reaction_preserves.
(* non-vacuity: a partially mapped record whose agent carries the number just above the largest reactant / product number: the
   unmapped atoms get 4 and 5, the agent keeps its 3 *)
Theorem C11_pp_reaction_general_instance :
  pp_reaction false true [[Some 1; Some 2; Some 0]] [[Some 2; Some 1; None]] [[Some 3]]
  = Ok (mk_pprr [[1; 2; 4]] [[2; 1; 5]] [[3]] 0%nat [0; 0; 0]%nat) /\
  rn 4 [] [1; 2; 0] [1; 2; 4] 5 /\ rn 5 [] [2; 1; 0] [2; 1; 5] 6 /\ rn 6 [] [3] [3] 6 /\ rs ([1; 2; 4] ++ [2; 1; 5]) 6 [3] [3] 6.
Proof. exact pp_reaction_general_instance. Qed.
Print Assumptions C11_pp_reaction_general_instance.

(* composed with the reaction block theorems: the atom numbers of a written REACTION come back (RDFWrite / ERDFWrite -> parse_rxn_* ->
   postprocess_parsed_reaction), role by role and molecule by molecule, in the original order, nothing logged *)
Theorem C11_rxn_v2000_numbers_roundtrip : forall ig r fr fp fg,
  Forall2 wf_wmol2 (wr_reactants r) fr -> Forall2 wf_wmol2 (wr_products r) fp -> Forall2 wf_wmol2 (wr_reagents r) fg ->
  (length (wr_reactants r) <= 999)%nat -> (length (wr_products r) <= 999)%nat -> (length (wr_reagents r) <= 999)%nat ->
  rxn_mols r <> [] -> rxn_numbers_ok r ->
  exists lines, rxn_lines_v2000 true r = Ok lines /\
    forall tail, (do p <- parse_rxn_v2000 (map add_nl lines ++ tail); read_rxn_numbers ig p) = Ok (rxn_numbers_expected r).
Proof. exact rxn_v2000_numbers_roundtrip. Qed.
Print Assumptions C11_rxn_v2000_numbers_roundtrip.
Theorem C11_rxn_v3000_numbers_roundtrip : forall ig r fr fp fg,
  Forall2 wf_wmol3 (wr_reactants r) fr -> Forall2 wf_wmol3 (wr_products r) fp -> Forall2 wf_wmol3 (wr_reagents r) fg ->
  rxn_mols r <> [] -> rxn_numbers_ok r ->
  exists lines, rxn_lines_v3000 true r = Ok lines /\
    forall tail, (do p <- parse_rxn_v3000 (map add_nl lines ++ tail); read_rxn_numbers ig p) = Ok (rxn_numbers_expected r).
Proof. exact rxn_v3000_numbers_roundtrip. Qed.
Print Assumptions C11_rxn_v3000_numbers_roundtrip.
Theorem C11_rxn_numbers_example :
  rxn_numbers_ok ex_rxn_numbers /\
  exists lines, rxn_lines_v2000 true ex_rxn_numbers = Ok lines /\
    (do p <- parse_rxn_v2000 (map add_nl lines ++ ex_tail); read_rxn_numbers true p) = Ok (mk_pprr [[7; 3; 12]] [[7; 3; 12]] [] 0%nat [0; 0]%nat).
Proof. exact (conj ex_rxn_numbers_ok rxn_numbers_example). Qed.
Print Assumptions C11_rxn_numbers_example.

(* WHOLE PARSER, RXN V2000 (after the repair 93f39b0 of the $MOL search; this is the statement the former _refuted theorem refuted): a record
   whose blocks are written molecules, EMPTY molecules (any three header lines, a counts line with atom count 0, one more line) or anything
   else the molecule parser rejects with a ValueError, at ANY positions, is read with every other molecule in its role and one log entry
   per dropped block (the model's loop with its line search, the bookkeeping as translated from the source: composition of the loop
   lemma with C11_rxn_drop_roles) *)
Theorem C11_rxn_v2000_dropped_roles : forall name l2 l3 counts (A P G : list ditem) tail,
  Forall (ditem_ok pm2 (L "$MOL") 4 1) (A ++ P ++ G) -> A ++ P ++ G <> [] -> startswith (L "$MOL") counts = false ->
  py_int (slice 0 3 counts) = Ok (Z.of_nat (length A)) -> py_int (slice 3 6 counts) = Ok (Z.of_nat (length P)) ->
  (match rstrip (slice_from 6 counts) with [] => Ok 0 | t => py_int t end) = Ok (Z.of_nat (length G)) ->
  parse_rxn_v2000 ([add_nl (L "$RXN"); name; l2; l3; counts] ++ concat (map dit_lines (A ++ P ++ G)) ++ tail) =
    Ok (mk_rparsed (somes parsed3 (map dit_out A)) (somes parsed3 (map dit_out P)) (somes parsed3 (map dit_out G))
                   (title_of name) (nones (A ++ P ++ G))).
Proof. exact rxn_v2000_dropped_roles. Qed.
Print Assumptions C11_rxn_v2000_dropped_roles.
(* the blocks the theorem is about exist: every written molecule, and every empty molecule block *)
Theorem C11_rxn_v2000_blocks : 
  (forall mapping g fs, wf_wmol2 g fs -> exists ls, write_mol_v2000 mapping g = Ok ls /\ ditem_ok pm2 (L "$MOL") 4 1 (written2 mapping ls g fs)) /\
  (forall t1 t2 t3 counts last b, py_int (slice 0 3 counts) = Ok 0 -> py_int (slice 3 6 counts) = Ok b ->
     ditem_ok pm2 (L "$MOL") 4 1 (empty2 t1 t2 t3 counts last)).
Proof. exact (conj written2_ok empty2_ok). Qed.
Print Assumptions C11_rxn_v2000_blocks.
(* non-vacuity through the theorem: an EMPTY reactant FIRST, the written example molecule as product, an EMPTY agent *)
Theorem C11_rxn_v2000_dropped_example :
  exists ls, write_mol_v2000 true (ex_mol_named (L "p") ex_mol) = Ok ls /\
    parse_rxn_v2000 ([add_nl (L "$RXN"); add_nl (L "t"); add_nl []; add_nl []; add_nl (L "  1  1  1")] ++
                     concat (map dit_lines ([ex_empty2] ++ [written2 true ls (ex_mol_named (L "p") ex_mol) ex_fs] ++ [ex_empty2])) ++ ex_tail)
    = Ok (mk_rparsed [] [expected_mol2 true (ex_mol_named (L "p") ex_mol) ex_fs] [] (Some (L "t")) 2).
Proof. exact rxn_v2000_dropped_example. Qed.
Print Assumptions C11_rxn_v2000_dropped_example.

(* a DROPPED molecule leaves every other molecule in its role: the bookkeeping of the reaction parsers AS TRANSLATED from the source
   (src_rxn_drop; C11_tie_rxn_loop_drop: the model's loop applies exactly this function), run over the outcomes of the molecules in file
   order (Some m: parsed, None: dropped) from the counters of the counts line, ends with the counters at the numbers of molecules read
   per role, so the final slices are the parsed reactants, products and agents -- wherever the dropped molecules stand *)
Theorem C11_rxn_drop_roles : forall (X : Type) (A P G : list (option X)),
  let a := Z.of_nat (length A) in let p := Z.of_nat (length P) in let g := Z.of_nat (length G) in
  let '(mols, rc, pc, gc) := fold_left (drop_step X) (A ++ P ++ G) ([], a, a + p, a + p + g) in
  mols = somes X A ++ somes X P ++ somes X G /\
  rc = Z.of_nat (length (somes X A)) /\ pc = rc + Z.of_nat (length (somes X P)) /\ gc = pc + Z.of_nat (length (somes X G)) /\
  firstn (Z.to_nat rc) mols = somes X A /\ lslice (Z.to_nat rc) (Z.to_nat pc) mols = somes X P /\ skipn (Z.to_nat pc) mols = somes X G.
Proof. exact rxn_drop_roles. Qed.
Print Assumptions C11_rxn_drop_roles.
Theorem C11_rxn_drop_roles_instance :
  fold_left (drop_step nat) ([Some 1; Some 2] ++ [None; Some 4] ++ [Some 5])%nat ([], 2, 4, 5) = ([1; 2; 4; 5]%nat, 2, 3, 4).
Proof. exact rxn_drop_roles_instance. Qed.
Print Assumptions C11_rxn_drop_roles_instance.

(* strict mode (ignore=False): postprocess_parsed_reaction either raises MappingError (a ValueError, nothing else) or returns exactly what
   the tolerant mode returns, for every record and both settings of remap *)
Theorem C11_pp_reaction_strict : forall remap R P G,
  (forall r, pp_reaction remap false R P G = Ok r -> pp_reaction remap true R P G = Ok r) /\
  (forall e, pp_reaction remap false R P G = Err e -> e = ValueError).
Proof. exact (fun remap R P G => conj (pp_reaction_strict_refines remap R P G) (pp_reaction_strict_error remap R P G)). Qed.
Print Assumptions C11_pp_reaction_strict.

(* ---- FUEL SUFFICIENCY: the fuelled functions of the model never decide anything by running out of fuel.  The record iterators, for
        EVERY file (well-formed or not), every buffer size, every behaviour of the builders; str.replace and the start-tag scanner: any
        larger fuel gives the same value ---- *)
Theorem C11_readers_never_out_of_fuel : forall (A : Type) (build_mol : parsed3 -> pyres A) (build_rxn : rparsed -> pyres A) (buffer_size : nat) file,
  snd (sdf_read A build_mol buffer_size file) <> OutOfFuel /\ snd (rdf_read A build_mol build_rxn buffer_size file) <> OutOfFuel.
Proof. exact (fun A bm br bs file => conj (sdf_read_never_out_of_fuel A bm bs file) (rdf_read_never_out_of_fuel A bm br bs file)). Qed.
Print Assumptions C11_readers_never_out_of_fuel.
Theorem C11_text_fuel_enough :
  (forall old new s f, (length s < f)%nat -> replace old new s = match old with [] => s | _ => replace_fuel f old new s end) /\
  (forall l f, (length (render_attrs l) < f)%nat -> cook l = scan_attrs f (render_attrs l)).
Proof. exact (conj replace_fuel_enough cook_fuel_enough). Qed.
Print Assumptions C11_text_fuel_enough.

(* ---- tie BY TRANSLATION (Gen.MdlFn, regenerated on every run by tools/gen_mdlfn.py from the STATEMENTS of the source): the role
        boundaries and the dropped-molecule bookkeeping of parse_rxn_v2000 / parse_rxn_v3000, the per-atom branch chains of
        postprocess_parsed_molecule and of both passes of postprocess_parsed_reaction, the first fresh number ---- *)
Theorem C11_tie_rxn_loop_drop : forall pm marker off1 off2 bias data st n start e,
  find_line marker (skipn (rs_start st + off1) data) (rs_start st + off2) = Some start ->
  pm (skipn start data) = Err e -> is_value_error e = true ->
  (forall lm rc pc gc, src_erxn_drop lm rc pc gc = src_rxn_drop lm rc pc gc) /\
  rxn_loop pm marker off1 off2 bias data st n =
    let '(rc, pc, gc) := src_rxn_drop (Z.of_nat (length (rs_mols st))) (rs_rc st) (rs_pc st) (rs_gc st) in
    Ok (mk_rs (start + bias) (rs_mols st) rc pc gc (S (rs_log st))).
Proof. exact (fun pm marker off1 off2 bias data st n start e H1 H2 H3 => conj tie_rxn_drop_same (tie_rxn_loop_drop pm marker off1 off2 bias data st n start e H1 H2 H3)). Qed.
Print Assumptions C11_tie_rxn_loop_drop.
Theorem C11_tie_rxn_v2000_counts : forall data line l1 i0 i1 i2,
  nth_error data 4 = Some line -> py_int (slice 0 3 line) = Ok i0 -> py_int (slice 3 6 line) = Ok i1 ->
  (match rstrip (slice_from 6 line) with [] => Ok 0 | t => py_int t end) = Ok i2 -> nth_error data 1 = Some l1 ->
  parse_rxn_v2000 data =
    let '(rc, pc, gc) := src_rxn_counts i0 i1 i2 in
    if gc =? 0 then Err ValueError else
    if (rc <? 0) || (pc <? rc) || (gc <? pc) then Err OtherError else
    do st <- foldM (rxn_loop (fun d => lift2 (parse_mol_v2000 d)) (L "$MOL") 4 5 1 data) (nat_range (Z.to_nat gc)) (mk_rs 0 [] rc pc gc 0);
    rxn_result (title_of l1) st.
Proof. exact tie_rxn_v2000_counts. Qed.
Print Assumptions C11_tie_rxn_v2000_counts.
Theorem C11_tie_rxn_v3000_counts : forall data line l1 t0 t1 rest i0 i1 i2,
  nth_error data 4 = Some line -> split_ws (slice_from 13 line) = t0 :: t1 :: rest -> py_int t0 = Ok i0 -> py_int t1 = Ok i1 ->
  (match rest with [t2] => py_int t2 | _ => Ok 0 end) = Ok i2 -> nth_error data 1 = Some l1 ->
  parse_rxn_v3000 data =
    let '(rc, pc, gc) := src_erxn_counts (Z.of_nat (length (t0 :: t1 :: rest))) i0 i1 (match rest with [_] => i2 | _ => 0 end) in
    if gc =? 0 then Err ValueError else
    if (rc <? 0) || (pc <? rc) || (gc <? pc) then Err OtherError else
    do st <- foldM (rxn_loop (parse_ctab_v3000 None) (L "M  V30 BEGIN CTAB") 5 5 0 data) (nat_range (Z.to_nat gc)) (mk_rs 1 [] rc pc gc 0);
    rxn_result (title_of l1) st.
Proof. exact tie_rxn_v3000_counts. Qed.
Print Assumptions C11_tie_rxn_v3000_counts.
Theorem C11_tie_mapping_steps : forall ig,
  (forall st om, src_ppm_step ig om (pp_next st) (pp_used st) (pp_out st) (pp_log st) = (do s <- pp_step ig st om; Ok (pp_tuple s))) /\
  (forall st m, src_ppr_step ig m (pp_next st) (pp_used st) (pp_out st) (pp_log st) = (do s <- pp_step ig st (Some m); Ok (pp_tuple s))) /\
  (forall st om, src_ppr_first_step ig om (m1_used st) (m1_out st) (m1_log st) = (do s <- m1_step ig st om; Ok (m1_used s, m1_out s, m1_log s))) /\
  (forall reactants products reagents, src_ppr_start reactants products reagents = ppr_start reactants products reagents) /\
  (forall rc pr rg c l, src_ppr_reagents ig rc pr rg c l = ppr_reagents ig rc pr rg c l).
Proof. exact (fun ig => conj (tie_ppm_step ig) (conj (tie_ppr_step ig) (conj (tie_ppr_first_step ig) (conj tie_ppr_start (tie_ppr_reagents ig))))). Qed.
Print Assumptions C11_tie_mapping_steps.

(* ---- reading the configuration of an ALLENE from a wedge (add_wedge, allene branch; model Model.StereoWedge.wedge_al shared with C12):
        the model's selection IS the `if w == 0 / 1 / 2 / else` chain as translated from the source (Gen.MdlFn.src_allene_wedge); the chain
        does not depend on which end of the allene is called the first one; an up and a down wedge give opposite labels ---- *)
Theorem C11_tie_allene_wedge : forall isH n0 n1 n2 n3 t1 t2 n m c mark w,
  isH m = false -> env_index (n0, n1, n2, n3) m = Some w ->
  wedge_al isH (n0, n1, n2, n3) t1 t2 n m c mark =
    let '(m1, a, b, r) := src_allene_wedge w t1 t2 n0 n1 in
    Ok (allene_label r (allene_sign mark (xy_of c a) (xy_of c b) (xy_of c m1))).
Proof. exact tie_allene_wedge. Qed.
Print Assumptions C11_tie_allene_wedge.
Theorem C11_allene_wedge_end_symmetry : forall w t1 t2 o0 o1, 0 <= w <= 3 ->
  src_allene_wedge (other_end_position w) t2 t1 o1 o0 = src_allene_wedge w t1 t2 o0 o1.
Proof. exact allene_wedge_end_symmetry. Qed.
Print Assumptions C11_allene_wedge_end_symmetry.
Theorem C11_allene_label_flip : forall r mark u v w,
  allene_label r (allene_sign (- mark) u v w) = option_map negb (allene_label r (allene_sign mark u v w)).
Proof. exact allene_label_flip. Qed.
Print Assumptions C11_allene_label_flip.

(* ---- the geometric sign functions behind wedge reading / writing (model and lemmas shared with C12) ---- *)
Theorem C11_pyramid_sign_antisym : forall n u v w,
  pyramid_sign n v u w = - pyramid_sign n u v w /\ pyramid_sign n u w v = - pyramid_sign n u v w /\
  pyramid_sign n v w u = pyramid_sign n u v w.
Proof. exact (fun n u v w => conj (pyramid_sign_swap_uv n u v w) (conj (pyramid_sign_swap_vw n u v w) (pyramid_sign_rotate n u v w))). Qed.
Print Assumptions C11_pyramid_sign_antisym.

(* flipping every wedge (z -> -z) inverts the tetrahedral sign; mirroring the drawing keeps cis/trans *)
Theorem C11_wedge_flip_inverts_sign : forall nx ny nz ux uy uz vx vy vz wx wy wz,
  pyramid_sign (nx, ny, - nz) (ux, uy, - uz) (vx, vy, - vz) (wx, wy, - wz) = - pyramid_sign (nx, ny, nz) (ux, uy, uz) (vx, vy, vz) (wx, wy, wz).
Proof. exact pyramid_sign_mirror. Qed.
Print Assumptions C11_wedge_flip_inverts_sign.

Theorem C11_cis_trans_sign_sym : forall n u v w, cis_trans_sign w v u n = cis_trans_sign n u v w.
Proof. exact cis_trans_sign_reverse. Qed.
Print Assumptions C11_cis_trans_sign_sym.
