(* C09 -- the accelerated bit-mask matcher and the reference matcher decide the same atom / bond / closure tests and
   return the same sequence of mappings.
   Statements only; proofs in Proofs.IsoBitsProofs.  The claim is about chython/algorithms/_isomorphism.pyx AS SOURCE
   (run through a transpiler by the check; the compiled extension cannot be built here). *)
From Coq Require Import ZArith List Bool String.
From Model Require Import PyBase PeriodicTable IsoBits IsoBitsExt IsoBitsPyx IsoBitsFuel IsoBitsDict IsoBitsGuard.
From Model Require Iso.
From Gen Require Import Elements IsoClosure IsoGuard IsoCand IsoRefCand IsoDescend IsoYield IsoInit.
From Proofs Require Import IsoBitsProofs IsoBitsSearchProofs IsoBitsExtProofs IsoClosureTie IsoBitsPyxProofs IsoBitsFuelProofs IsoGuardTie IsoCandTie IsoBitsRangeProofs IsoRefCandTie IsoDescendTie IsoYieldTie IsoInitTie IsoBitsGuardProofs.
Import ListNotations.
Open Scope Z_scope.

(* first atom of a component: `mask1 & bits1 and mask2 & bits2 == bits2 and mask3 & bits3 == bits3 and mask4 & bits4`
   on the words written by the two encoders decides QueryElement/AnyElement/ListElement/AnyMetal.__eq__, for every
   query and atom inside the representable range (elements 1..116, charge -4..4, ATOM isotope offset -8..8 and H 0..4 -
   both guaranteed by the tables / by the guard of get_mapping -, neighbours/heteroatoms 0..14, hybridisation 1..4, ring
   sizes 3..65; ANY query isotope, query hydrogens 0..14, AnyMetal against every element; tuples of ANY length) *)
Theorem C09_mask_match_first_correct : forall q a,
  query_ok q = true -> atom_ok a = true -> elem_hyp q (la_num a) ->
  mask_match_first (enc_qatom q None) (enc_atom a) = match_atom q a.
Proof. exact mask_match_first_correct. Qed.
Print Assumptions C09_mask_match_first_correct.

(* every following atom: `mask1 & bond == bond` tests bond order, ring mark and element at once *)
Theorem C09_mask_match_next_correct : forall q qb a lb,
  query_ok q = true -> atom_ok a = true -> elem_hyp q (la_num a) -> qbond_ok qb = true -> bond_ok lb = true ->
  mask_match_next (enc_qatom q (Some qb)) (enc_bond lb (w1 (enc_atom a))) (enc_atom a) = qbond_match qb lb && match_atom q a.
Proof. exact mask_match_next_correct. Qed.
Print Assumptions C09_mask_match_next_correct.

(* ring closures: `if not c_bond or j_bond.bond & c_bond != c_bond: break` decides QueryBond.__eq__ *)
Theorem C09_closure_ok_correct : forall qb lb an,
  1 <= an <= 118 -> qbond_ok qb = true -> bond_ok lb = true ->
  closure_ok (enc_closure qb) (enc_bond lb (bit (pos1 an))) = qbond_match qb lb.
Proof. exact closure_ok_correct. Qed.
Print Assumptions C09_closure_ok_correct.

Theorem C09_bond_word_of_atom : forall a, w1 (enc_atom a) = bit (pos1 (la_num a)).
Proof. exact enc_atom_w1. Qed.
Print Assumptions C09_bond_word_of_atom.

(* the documented identification: Lv, Ts and Og share one bit *)
Theorem C09_lv_ts_og_identified :
  elem_masks 117 = elem_masks 116 /\ elem_masks 118 = elem_masks 116 /\
  forall a n, In n [117; 118] ->
    let a' := mkLA n (la_iso a) (la_chg a) (la_rad a) (la_nb a) (la_hyb a) (la_h a) (la_het a) (la_rings a) in
    let a0 := mkLA 116 (la_iso a) (la_chg a) (la_rad a) (la_nb a) (la_hyb a) (la_h a) (la_het a) (la_rings a) in
    w1 (enc_atom a') = w1 (enc_atom a0) /\ w2 (enc_atom a') = w2 (enc_atom a0) /\ w4 (enc_atom a') = w4 (enc_atom a0).
Proof. exact lv_ts_og_identified. Qed.
Print Assumptions C09_lv_ts_og_identified.

(* the isotope hypothesis holds for every isotope the Element setter accepts (regenerated element tables) *)
Theorem C09_atom_isotope_representable : forall e i,
  In e elements -> isotope_accepted e i = true -> iso_off_ok (Some i) (e_num e) = true.
Proof. exact atom_isotope_representable. Qed.
Print Assumptions C09_atom_isotope_representable.

(* THE SEARCHES.  rq = one component of _compiled_query, rm = the molecule as _get_mapping reads it (atoms by position in
   dict order).  On the buffers the two encoders write (enc_query / enc_mol = _cython_compiled_query /
   _cython_compiled_structure, all fields) the loop of _isomorphism.pyx yields exactly the sequence of partial-mapping
   paths that _get_mapping yields: for every well-formed query component (first entry without bond, the others with one;
   ring-closure partners distinct and earlier), every well-formed molecule (distinct neighbour keys inside the molecule),
   all atoms / query atoms / bonds inside the representable range, EVERY scope and every amount of fuel.
   No bound on the number of atoms, on the query size or on the number of closures. *)
Theorem C09_mask_search_equiv : forall rq rm scope fuel,
  rq <> [] -> wf_query rq -> wf_mol rm -> in_range_pair rq rm ->
  mask_search (enc_query rq) (enc_mol rm) scope fuel = ref_search rq rm scope fuel.
Proof. exact mask_search_equiv. Qed.
Print Assumptions C09_mask_search_equiv.

(* the same with the hypotheses as one boolean that the correspondence runner evaluates on the real inputs *)
Theorem C09_mask_search_equiv_b : forall rq rm scope fuel,
  hyps_ok rq rm = true -> mask_search (enc_query rq) (enc_mol rm) scope fuel = ref_search rq rm scope fuel.
Proof. exact mask_search_equiv_b. Qed.
Print Assumptions C09_mask_search_equiv_b.

(* the dictionaries built from a path are the same: query atom number -> molecule atom number *)
Theorem C09_mapping_equiv : forall rq rm p, Forall (fun i => 0 <= i < zlen rm) p ->
  mask_mapping (enc_query rq) (enc_mol rm) p = ref_mapping rq rm p.
Proof. exact mapping_equiv. Qed.
Print Assumptions C09_mapping_equiv.

(* non-vacuity of the search theorem: ring query with one closure on methylcyclopropane, six mappings; empty under a scope *)
Theorem C09_mask_search_example :
  hyps_ok ex_rq ex_rm = true /\
  mask_search (enc_query ex_rq) (enc_mol ex_rm) [true; true; true; true] 100 =
    Some [[3; 2; 1]; [3; 1; 2]; [2; 3; 1]; [2; 1; 3]; [1; 3; 2]; [1; 2; 3]] /\
  ref_search ex_rq ex_rm [true; true; true; true] 100 = Some [[3; 2; 1]; [3; 1; 2]; [2; 3; 1]; [2; 1; 3]; [1; 3; 2]; [1; 2; 3]] /\
  mask_search (enc_query ex_rq) (enc_mol ex_rm) [true; true; true; false] 100 = Some [].
Proof. exact mask_search_example. Qed.
Print Assumptions C09_mask_search_example.

(* ONE COMPONENT / SCOPE CALL OF QueryIsomorphism.get_mapping, guard included: with `_cython=True` and with `_cython=False`
   the same sequence of dictionaries is yielded.  A molecule with an unknown hydrogen count (None) takes the reference path
   by the guard and needs no hypothesis at all; any other molecule must be well formed and inside the representable range. *)
Theorem C09_get_mapping_equiv : forall rq rm scope fuel,
  rq <> [] -> wf_query rq -> (has_unknown_h rm = false -> wf_mol rm) -> in_range_pair rq rm ->
  component_mappings true rq rm scope fuel = component_mappings false rq rm scope fuel.
Proof. exact get_mapping_equiv. Qed.
Print Assumptions C09_get_mapping_equiv.

Theorem C09_get_mapping_equiv_b : forall rq rm scope fuel, gm_hyps_ok rq rm = true ->
  component_mappings true rq rm scope fuel = component_mappings false rq rm scope fuel.
Proof. exact get_mapping_equiv_b. Qed.
Print Assumptions C09_get_mapping_equiv_b.

Theorem C09_unknown_h_takes_reference_path : forall rm a, In a rm -> la_h (ra_atom a) = None ->
  uses_mask_path true rm = false.
Proof. exact unknown_h_takes_reference_path. Qed.
Print Assumptions C09_unknown_h_takes_reference_path.

(* non-vacuity of the guard: raw pyridine-like N (hydrogens None) against [N;h0]: both flags yield nothing, whereas the mask
   path alone would have accepted the atom *)
Theorem C09_get_mapping_example :
  let rm := [mkRA 1 (mkLA 6 None 0 false 1 4 (Some 1) 1 [6]) [(1, mkLB 4 true)];
             mkRA 2 noh_atom [(0, mkLB 4 true)]] in
  let rq := [mkRQ 1 0 (QElem 7 None (mkQX 0 false [] [] [0] [] [])) None []] in
  has_unknown_h rm = true /\ uses_mask_path true rm = false /\
  component_mappings true rq rm [true; true] 10 = Some [] /\ component_mappings false rq rm [true; true] 10 = Some [] /\
  option_map (map (mask_mapping (enc_query rq) (enc_mol rm))) (mask_search (enc_query rq) (enc_mol rm) [true; true] 10) = Some [[(1, 2)]].
Proof. exact get_mapping_example. Qed.
Print Assumptions C09_get_mapping_example.

(* THE TWO PUBLIC CALLS.  public_get_mapping = guard + Isomorphism._get_mapping (query components x connected components of
   the target in the order given, searching scope, lazy_product and merge of Model.Iso, automorphism filter) + the stereo
   post-filter as an arbitrary predicate.  query.get_mapping(other, ...) yields the same sequence of dictionaries with
   _cython=True and _cython=False: any number of components on both sides, any scope or none, filter on or off. *)
Theorem C09_public_get_mapping_equiv : forall stereo_ok comps rm tcomps flt scope fuel,
  Forall (fun rq => rq <> [] /\ wf_query rq /\ in_range_pair rq rm) comps ->
  (has_unknown_h rm = false -> wf_mol rm) ->
  public_get_mapping stereo_ok true comps rm tcomps flt scope fuel =
  public_get_mapping stereo_ok false comps rm tcomps flt scope fuel.
Proof. exact public_get_mapping_equiv. Qed.
Print Assumptions C09_public_get_mapping_equiv.

Theorem C09_public_get_mapping_equiv_b : forall stereo_ok comps rm tcomps flt scope fuel,
  public_hyps_ok comps rm = true ->
  public_get_mapping stereo_ok true comps rm tcomps flt scope fuel =
  public_get_mapping stereo_ok false comps rm tcomps flt scope fuel.
Proof. exact public_get_mapping_equiv_b. Qed.
Print Assumptions C09_public_get_mapping_equiv_b.

(* non-vacuity: query C.O on CO.C *)
Theorem C09_public_get_mapping_example :
  public_hyps_ok ex2_comps ex2_rm = true /\
  public_get_mapping (fun _ => true) true ex2_comps ex2_rm [[1; 2]; [3]] true None 100 = [[(1, 3); (2, 2)]] /\
  public_get_mapping (fun _ => true) false ex2_comps ex2_rm [[1; 2]; [3]] true None 100 = [[(1, 3); (2, 2)]] /\
  public_get_mapping (fun _ => true) true ex2_comps ex2_rm [[1; 2]; [3]] true (Some [1; 2]) 100 = [].
Proof. exact public_get_mapping_example. Qed.
Print Assumptions C09_public_get_mapping_example.

(* THE STACK.  mask_occupancy = the largest number of entries the stack of the .pyx loop ever holds (cells of stack_index /
   stack_depth needed).  Since 25e27ca the .pyx allocates atoms_count * query.atoms_count cells (alloc_pyx): that is always
   enough - every query component with at least one atom, every molecule whose neighbour dicts have distinct keys inside
   the molecule, every scope, any fuel.  (One atom: atoms_count cells, exactly the depth-0 entries.) *)
Theorem C09_stack_bound_sufficient : forall rq rm scope fuel, rq <> [] -> adj_ok rm ->
  (mask_occupancy (enc_query rq) (enc_mol rm) scope fuel <= alloc_pyx (enc_query rq) (enc_mol rm))%nat.
Proof. exact stack_bound_sufficient. Qed.
Print Assumptions C09_stack_bound_sufficient.

(* the tight bound, for ANY buffers: atoms_count entries of depth 0 + one batch (at most a neighbour list) per further depth *)
Theorem C09_stack_bound_tight : forall qu mo scope fuel,
  (mask_occupancy qu mo scope fuel <= alloc_tight qu mo)%nat.
Proof. exact stack_bound_tight. Qed.
Print Assumptions C09_stack_bound_tight.

Theorem C09_wf_mol_adj_ok : forall rm, wf_mol rm -> adj_ok rm.
Proof. exact wf_mol_adj_ok. Qed.
Print Assumptions C09_wf_mol_adj_ok.

(* non-vacuity / history: K5 on itself needs 11 cells, the star query on SF6 22; both fit the new allocation *)
Theorem C09_stack_bound_examples :
  adj_ok k5_rm /\ occ_of k5_rq k5_rm = 11%nat /\ alloc_pyx (enc_query k5_rq) (enc_mol k5_rm) = 25%nat /\
  adj_ok sf6s_rm /\ occ_of star_rq sf6s_rm = 22%nat /\ alloc_pyx (enc_query star_rq) (enc_mol sf6s_rm) = 49%nat /\
  alloc_tight (enc_query star_rq) (enc_mol sf6s_rm) = 43%nat.
Proof. exact stack_bound_examples. Qed.
Print Assumptions C09_stack_bound_examples.

(* history of the fixed finding stack-overflow: the former allocation 2 * atoms_count was exceeded inside all hypotheses of the
   equivalence theorems, and so is atoms_count + number of bond records (the repair suggested first) *)
Theorem C09_stack_bound_2n_refuted :
  hyps_ok k5_rq k5_rm = true /\ occ_of k5_rq k5_rm = 11%nat /\ alloc_2n (enc_mol k5_rm) = 10%nat /\
  hyps_ok sf6_rq sf6_rm = true /\ occ_of sf6_rq sf6_rm = 16%nat /\ alloc_2n (enc_mol sf6_rm) = 14%nat.
Proof. exact stack_bound_2n_refuted. Qed.
Print Assumptions C09_stack_bound_2n_refuted.

Theorem C09_stack_bound_atoms_plus_bonds_refuted :
  hyps_ok star_rq sf6s_rm = true /\ occ_of star_rq sf6s_rm = 22%nat /\ alloc_atoms_plus_bonds (enc_mol sf6s_rm) = 19%nat /\
  alloc_tight (enc_query star_rq) (enc_mol sf6s_rm) = 43%nat.
Proof. exact stack_bound_atoms_plus_bonds_refuted. Qed.
Print Assumptions C09_stack_bound_atoms_plus_bonds_refuted.

(* the witnesses of the former findings (fixed in the code): AnyMetal vs Rn, query hydrogens (0, 5) vs [C-4], query isotopes
   21 and 30 vs plain carbon lie INSIDE the hypotheses now, and both sides reject them *)
Theorem C09_fixed_findings_examples :
  query_ok (QMetal [] []) = true /\ atom_ok rn_atom = true /\ elem_hyp (QMetal [] []) 86 /\
  match_atom (QMetal [] []) rn_atom = false /\ mask_match_first (enc_qatom (QMetal [] []) None) (enc_atom rn_atom) = false /\
  query_ok h05_query = true /\ atom_ok c4_atom = true /\
  match_atom h05_query c4_atom = false /\ mask_match_first (enc_qatom h05_query None) (enc_atom c4_atom) = false /\
  query_ok c21_query = true /\ query_ok c30_query = true /\ atom_ok c_atom = true /\
  match_atom c21_query c_atom = false /\ mask_match_first (enc_qatom c21_query None) (enc_atom c_atom) = false /\
  match_atom c30_query c_atom = false /\ mask_match_first (enc_qatom c30_query None) (enc_atom c_atom) = false.
Proof. exact fixed_findings_examples. Qed.
Print Assumptions C09_fixed_findings_examples.

(* non-vacuity *)
Theorem C09_mask_match_example :
  let q := QElem 6 (Some 13) (mkQX 0 false [2; 3] [1] [1; 2] [0] [5; 6]) in
  let a := mkLA 6 (Some 13) 0 false 3 1 (Some 1) 0 [6] in
  let a' := mkLA 6 (Some 13) 0 false 3 1 (Some 1) 0 [7] in
  let qb := mkQB [1; 4] (Some true) in
  query_ok q = true /\ atom_ok a = true /\ atom_ok a' = true /\ elem_hyp q (la_num a) /\ qbond_ok qb = true /\
  bond_ok (mkLB 4 true) = true /\
  match_atom q a = true /\ mask_match_first (enc_qatom q None) (enc_atom a) = true /\
  match_atom q a' = false /\ mask_match_first (enc_qatom q None) (enc_atom a') = false /\
  mask_match_next (enc_qatom q (Some qb)) (enc_bond (mkLB 4 true) (w1 (enc_atom a))) (enc_atom a) = true /\
  mask_match_next (enc_qatom q (Some qb)) (enc_bond (mkLB 2 true) (w1 (enc_atom a))) (enc_atom a) = false /\
  closure_ok (enc_closure qb) (enc_bond (mkLB 1 true) (w1 (enc_atom a))) = true /\
  closure_ok (enc_closure qb) (enc_bond (mkLB 1 false) (w1 (enc_atom a))) = false.
Proof. exact mask_match_example. Qed.
Print Assumptions C09_mask_match_example.

(* THE .pyx LOOP WITH ITS SCRATCH ARRAYS.  pyx_search threads the C arrays `matched` (bint per atom) and `closures` (one bond word
   per atom: filled for a candidate, read, nulled) through the loop exactly as _isomorphism.pyx does; mask_search represents them
   by path membership / a fresh lookup.  For ANY query buffer, scope and fuel, and any molecule buffer whose bond records point
   to atoms of the buffer, the two return the same mappings, and the closures array is all zero again when the loop ends. *)
Theorem C09_pyx_search_refines : forall qu mo scope, mo_ok mo -> forall fuel,
  pyx_search qu mo scope fuel = mask_search qu mo scope fuel /\
  (forall out tr cl, pyx_run qu mo scope fuel = Some (out, tr, cl) -> cl = repeat 0 (natoms mo)).
Proof. exact pyx_search_refines. Qed.
Print Assumptions C09_pyx_search_refines.

(* hence the array-level loop of the .pyx on the encoders' buffers returns what _get_mapping returns *)
Theorem C09_pyx_search_equiv : forall rq rm scope fuel,
  rq <> [] -> wf_query rq -> wf_mol rm -> in_range_pair rq rm ->
  pyx_search (enc_query rq) (enc_mol rm) scope fuel = ref_search rq rm scope fuel.
Proof. exact pyx_search_equiv. Qed.
Print Assumptions C09_pyx_search_equiv.

Theorem C09_pyx_search_example :
  mo_okb (enc_mol ex_rm) = true /\
  pyx_search (enc_query ex_rq) (enc_mol ex_rm) [true; true; true; true] 100 =
    Some [[3; 2; 1]; [3; 1; 2]; [2; 3; 1]; [2; 1; 3]; [1; 3; 2]; [1; 2; 3]] /\
  match pyx_run (enc_query ex_rq) (enc_mol ex_rm) [true; true; true; true] 100 with
  | Some (_, tr, cl) => cl = [0; 0; 0; 0] /\ firstn 3 tr = [(3, O, [], [], 2%nat); (2, 1%nat, [3], [3], 3%nat); (1, 2%nat, [3; 2], [2; 3], 3%nat)]
  | None => False
  end.
Proof. exact pyx_search_example. Qed.
Print Assumptions C09_pyx_search_example.

(* TIE TO THE SOURCE (regenerated on every run by tools/gen_isoclosure.py into Gen.IsoClosure): the hand-written bond word,
   ring-closure entry, mask conditions and record layouts of the model are exactly what the current source says.  (The
   per-atom encoders enc_atom / enc_qatom are tied the same way by tools/gen_isolayout.py: C18_source_*_layout_is_model.) *)
Theorem C09_source_bond_word_is_model : forall b nb1, g_enc_bond b nb1 = enc_bond b nb1.
Proof. exact g_enc_bond_is_model. Qed.
Print Assumptions C09_source_bond_word_is_model.

Theorem C09_source_closure_entry_is_model : forall qb, g_enc_closure qb = enc_closure qb.
Proof. exact g_enc_closure_is_model. Qed.
Print Assumptions C09_source_closure_entry_is_model.

Theorem C09_source_first_test_is_model : forall sc m b, g_first_test sc m b = sc && mask_match_first m b.
Proof. exact g_first_test_is_model. Qed.
Print Assumptions C09_source_first_test_is_model.

Theorem C09_source_next_test_is_model : forall sc mt m bond b,
  g_next_test sc mt m bond b = sc && negb mt && mask_match_next m bond b.
Proof. exact g_next_test_is_model. Qed.
Print Assumptions C09_source_next_test_is_model.

Theorem C09_source_closure_break_is_model : forall qv c, closure_ok qv c = negb (g_closure_break qv c).
Proof. exact g_closure_break_is_model. Qed.
Print Assumptions C09_source_closure_break_is_model.

Theorem C09_source_closure_partner_is_model : forall j n mt, g_counts_as_closure j n mt = negb (j =? n) && mt.
Proof. exact g_counts_as_closure_is_model. Qed.
Print Assumptions C09_source_closure_partner_is_model.

Theorem C09_source_struct_layouts_agree :
  g_header_struct = "I"%string /\
  fmt_of g_pyx_atom_t = g_m_atom_struct /\ fmt_of g_pyx_q_atom_t = g_q_atom_struct /\ fmt_of g_pyx_bond_t = g_bond_struct /\
  map snd g_pyx_atom_t = ["bits1"; "bits2"; "bits3"; "bits4"; "from_"; "to_"; "mapping"]%string /\
  map snd g_pyx_q_atom_t = ["mask1"; "mask2"; "mask3"; "mask4"; "back"; "closure"; "from_"; "to_"; "mapping"]%string /\
  map snd g_pyx_bond_t = ["bond"; "index"]%string.
Proof. exact struct_layouts_agree. Qed.
Print Assumptions C09_source_struct_layouts_agree.

(* MORE OF THE SOURCE, regenerated on every run by tools/gen_isoguard.py into Gen.IsoGuard (statement by statement: `if` ->
   if/then/else, assignment -> let, any()/all() over the atoms -> existsb/forallb, `is None` -> match on the option):
   the guard statements of QueryIsomorphism.get_mapping (since d9d8bf3 two: unknown hydrogens; ring sizes above 65 in the molecule or in a
   non-AnyMetal query atom) and the selection of `components` are exactly uses_mask_path2 of Model.IsoBitsGuard (so
   C09_public_get_mapping2_equiv speaks about the guard as it is written in the source now), the scope array of the inner get_mapping is scope_bits, and the
   offset bookkeeping (start / closures / q_from / q_to, start / o_from / o_to) of the two buffer writers yields the
   closure / from_ / to_ fields of enc_query and enc_mol. *)
Theorem C09_source_guard_is_model : forall cython comps rm,
  g_guard_test_1 cython comps rm = cython && has_unknown_h rm /\
  g_guard_test_2 cython comps rm = cython && (big_ring_mol rm || big_ring_query comps) /\
  g_uses_mask_path cython comps rm = uses_mask_path2 cython comps rm.
Proof.
  intros. destruct (g_guard_tests_are_model cython comps rm) as [H1 H2].
  split; [exact H1|split; [exact H2|apply g_uses_mask_path_is_model]].
Qed.
Print Assumptions C09_source_guard_is_model.

Theorem C09_source_scope_array_is_model : forall rm s, g_scope_bits rm s = scope_bits rm s.
Proof. exact g_scope_bits_is_model. Qed.
Print Assumptions C09_source_scope_array_is_model.

Theorem C09_source_query_offsets_are_model : forall rq,
  map (fun a => (qa_closure a, qa_from a, qa_to a)) (qu_atoms (enc_query rq)) = g_q_offsets (map (fun e => zlen (rq_clos e)) rq) 0.
Proof. exact g_q_offsets_is_enc_query. Qed.
Print Assumptions C09_source_query_offsets_are_model.

Theorem C09_source_molecule_offsets_are_model : forall rm,
  map (fun a => (ma_from a, ma_to a)) (mo_atoms (enc_mol rm)) = g_m_offsets (map (fun a => zlen (ra_nbrs a)) rm) 0.
Proof. exact g_m_offsets_is_enc_mol. Qed.
Print Assumptions C09_source_molecule_offsets_are_model.

Theorem C09_source_offsets_example :
  g_q_offsets [0; 0; 2; 1] 0 = [(0, 0, 0); (0, 0, 0); (2, 0, 2); (1, 2, 3)] /\ g_m_offsets [1; 2; 1] 0 = [(0, 1); (1, 3); (3, 4)].
Proof. exact g_offsets_example. Qed.
Print Assumptions C09_source_offsets_example.

(* THE CANDIDATE BLOCK OF THE .pyx LOOP, regenerated statement by statement by tools/gen_isocand.py into Gen.IsoCand.g_cand_body
   (lines `if q_atom.closure:` ... `else:` ... of _isomorphism.pyx: fill the closures scratch array and count, compare the count,
   look every query closure up, break / else, push, null the array; the no-closure scan): for a neighbour record that passes the
   mask test it IS pyx_cand of the array-level model - exactly one push or none, the same closures array afterwards - for all
   inputs; together with g_next_test (Gen.IsoClosure) the whole body of the neighbour loop for one record comes from the source.
   Through C09_pyx_search_refines / C09_pyx_search_equiv the equivalence theorems therefore speak about these lines as they are
   written now. *)
Theorem C09_source_candidate_block_is_model : forall qu mo scope front path matched base i_bond closures,
  let m := bt_index i_bond in
  let qa := q_atom qu (Z.of_nat front) in
  znth scope m false && negb (aget matched m false) && mask_match_next (qa_mask qa) (bt_bond i_bond) (ma_bits (m_atom mo m)) = true ->
  g_cand_body qu mo front path matched base m closures =
  (Z.b2z (fst (pyx_cand qu mo scope front path matched base i_bond closures)),
   snd (pyx_cand qu mo scope front path matched base i_bond closures)).
Proof. exact g_cand_body_is_model. Qed.
Print Assumptions C09_source_candidate_block_is_model.

Theorem C09_source_neighbour_loop_body_is_model : forall qu mo scope front path matched base i_bond closures,
  let m := bt_index i_bond in
  pyx_cand qu mo scope front path matched base i_bond closures =
  if g_next_test (znth scope m false) (aget matched m false) (qa_mask (q_atom qu (Z.of_nat front))) (bt_bond i_bond) (ma_bits (m_atom mo m))
  then (fst (g_cand_body qu mo front path matched base m closures) =? 1, snd (g_cand_body qu mo front path matched base m closures))
  else (false, closures).
Proof. exact pyx_cand_from_source. Qed.
Print Assumptions C09_source_neighbour_loop_body_is_model.

(* non-vacuity: candidate 0 of a triangle whose other two atoms are matched, one closure expected: one push, array nulled - also
   when the array held a stale entry; no push for a query atom without closures *)
Theorem C09_source_candidate_block_example :
  let mo := mkMolT [mkMA b4zero 0 2 1; mkMA b4zero 2 4 2; mkMA b4zero 4 6 3]
                   [mkBT 7 1; mkBT 7 2; mkBT 7 0; mkBT 7 2; mkBT 7 0; mkBT 7 1] in
  let qu := mkQueryT [mkQA b4zero 0 0 0 0 1; mkQA b4zero 0 0 0 0 2; mkQA b4zero 1 1 0 1 3] [mkBT 7 0] in
  g_cand_body qu mo 2 [1; 2] [false; true; true] 2 0 [0; 0; 0] = (1, [0; 0; 0]) /\
  g_cand_body qu mo 2 [1; 2] [false; true; true] 2 0 [0; 5; 0] = (1, [0; 0; 0]) /\
  g_cand_body qu mo 1 [1; 2] [false; true; true] 2 0 [0; 0; 0] = (0, [0; 0; 0]).
Proof. exact g_cand_body_example. Qed.
Print Assumptions C09_source_candidate_block_example.

(* THE DESCEND BLOCK OF THE .pyx LOOP, regenerated statement by statement by tools/gen_isodescend.py into Gen.IsoDescend.g_descend
   (the else-branch of `if depth == q_decrement:` up to the load of n_atom: `if path_size != depth:` unmark the dead end, mark and
   append the popped atom, front, load the next query atom, branch back).  It works on the C state: the path ARRAY and path_size.
   On every C state that represents the model state (the model's path = the first path_size cells of the array; depth <= path_size,
   as the loop guarantees; the array has room for cell `depth`; the back reference of the next query atom points to an earlier depth)
   it computes the model's flags (unmark, then mark n), an array whose first depth + 1 cells are the model's new path,
   path_size = depth + 1, and the same atom whose records are scanned next - the corresponding step of pyx_dfs. *)
Theorem C09_source_descend_block_refines : forall qu matched parr path depth n,
  firstn (List.length path) parr = path -> (depth <= List.length path)%nat -> (depth < List.length parr)%nat ->
  let qa := q_atom qu (Z.of_nat (S depth)) in
  0 <= qa_back qa <= Z.of_nat depth ->
  let path' := firstn depth path ++ [n] in
  exists parr',
    g_descend qu matched parr (Z.of_nat (List.length path)) (Z.of_nat depth) n =
      (aset (unmark matched path depth) n true, parr', Z.of_nat (S depth),
       if negb (qa_back qa =? Z.of_nat depth) then znth path' (qa_back qa) 0 else n) /\
    firstn (S depth) parr' = path' /\ List.length parr' = List.length parr.
Proof. exact g_descend_refines. Qed.
Print Assumptions C09_source_descend_block_refines.

(* non-vacuity: a dead end (path [4; 2; 7], popped (9, depth 1): 2 and 7 unmarked, 9 marked and stored in cell 1, the next query atom
   branches back to depth 0 -> atom 4 is scanned), and the same step without a dead end *)
Theorem C09_source_descend_block_example :
  let qu := mkQueryT [mkQA b4zero 0 0 0 0 1; mkQA b4zero 0 0 0 0 2; mkQA b4zero 0 0 0 0 3; mkQA b4zero 2 0 0 0 4] [] in
  g_descend qu [false; false; true; false; true; false; false; true; false; false] [4; 2; 7] 3 1 9 =
    ([false; false; false; false; true; false; false; false; false; true], [4; 9; 7], 2, 4) /\
  g_descend qu [false; false; false; false; true; false; false; false; false; false] [4; 2; 7] 1 1 9 =
    ([false; false; false; false; true; false; false; false; false; true], [4; 9; 7], 2, 4).
Proof. exact g_descend_example. Qed.
Print Assumptions C09_source_descend_block_example.

(* THE YIELD BLOCK OF THE .pyx LOOP, regenerated statement by statement by tools/gen_isoyield.py into Gen.IsoYield.g_yield (body of
   `if depth == q_decrement:`: a fresh dict, `mapping[query.atoms[i].mapping] = molecule.atoms[path[i]].mapping` over range(depth), the
   store for the popped atom, yield; dset = the Python dict store).  On a path array whose first `depth` cells are the model's path
   it builds exactly mask_mapping - the dictionary the equivalence theorems compare with the reference one - provided the query atom
   numbers are distinct (they are the keys of the query's atom dict). *)
Theorem C09_source_yield_block_is_model : forall qu mo parr path depth n,
  firstn depth parr = firstn depth path -> (depth <= List.length parr)%nat -> (depth <= List.length path)%nat ->
  (depth < List.length (qu_atoms qu))%nat ->
  NoDup (firstn (S depth) (map qa_mapping (qu_atoms qu))) ->
  g_yield qu mo parr (Z.of_nat depth) n = mask_mapping qu mo (firstn depth path ++ [n]).
Proof. exact g_yield_is_model. Qed.
Print Assumptions C09_source_yield_block_is_model.

Theorem C09_source_yield_block_example :
  let qu := mkQueryT [mkQA b4zero 0 0 0 0 5; mkQA b4zero 0 0 0 0 3; mkQA b4zero 1 0 0 0 9] [] in
  let mo := mkMolT [mkMA b4zero 0 0 10; mkMA b4zero 0 0 20; mkMA b4zero 0 0 30] [] in
  g_yield qu mo [2; 0] 2 1 = [(5, 30); (3, 10); (9, 20)] /\ mask_mapping qu mo [2; 0; 1] = [(5, 30); (3, 10); (9, 20)].
Proof. exact g_yield_example. Qed.
Print Assumptions C09_source_yield_block_example.

(* THE FIRST-ATOM LOOP OF THE .pyx (tools/gen_isoinit.py -> Gen.IsoInit.g_init_stack: `for n in range(molecule.atoms_count)` as a fold, its
   `if` = g_first_test of Gen.IsoClosure, the three push statements = a cons of (n, 0); the translator also checks the three pop
   statements at the top of `while stack:`): it leaves init_stack of the model - the atoms passing the first-atom test, last one on
   top, depth 0. *)
Theorem C09_source_first_atom_loop_is_model : forall qu mo scope,
  g_init_stack qu mo scope (zlen (mo_atoms mo)) =
  map (fun e => (fst e, Z.of_nat (snd e))) (init_stack (zlen (mo_atoms mo)) (mask_first qu mo scope)).
Proof. exact g_init_stack_is_model. Qed.
Print Assumptions C09_source_first_atom_loop_is_model.

(* THE CANDIDATE BLOCK OF THE REFERENCE MATCHER, regenerated statement by statement by tools/gen_isorefcand.py into
   Gen.IsoRefCand.g_ref_cand_body (isomorphism.py:_get_mapping, body of `for o_n, o_bond in o_bonds[n].items():` - scope / not yet
   matched / bond test, atom test, closure set of the candidate, comparison with the closure partners, bond test of every closure,
   push): it pushes once exactly when ref_cand of the model holds, for all inputs.  ref_cand is the candidate test of ref_search, the
   reference side of every equivalence theorem above. *)
Theorem C09_source_reference_candidate_block_is_model : forall rq rm scope front path base e,
  g_ref_cand_body rq rm scope front path base e = Z.b2z (ref_cand rq rm scope front path base e).
Proof. exact g_ref_cand_body_is_model. Qed.
Print Assumptions C09_source_reference_candidate_block_is_model.

(* non-vacuity: third atom of a triangle query on cyclopropane: closure found -> one push; wrong closure bond order or outside the
   scope -> none *)
Theorem C09_source_reference_candidate_block_example :
  g_ref_cand_body (t_rq 1) t_rm [true; true; true] 2 [0; 1] 1 (2, mkLB 1 true) = 1 /\
  g_ref_cand_body (t_rq 2) t_rm [true; true; true] 2 [0; 1] 1 (2, mkLB 1 true) = 0 /\
  g_ref_cand_body (t_rq 1) t_rm [true; true; false] 2 [0; 1] 1 (2, mkLB 1 true) = 0.
Proof. exact g_ref_cand_body_example. Qed.
Print Assumptions C09_source_reference_candidate_block_example.

(* FUEL.  The Python / C loops have no iteration counter; the Gallina loops count iterations with `fuel` and return None when it
   is used up.  dfs_fuel_bound N D last = 1 + N * (number of nodes of the complete D-ary tree of height last) iterations always
   suffice (N atoms, at most D neighbour records per atom, last = query atoms - 1): the searches TERMINATE, on any buffers / any
   reference inputs, no hypothesis.  More fuel never changes a result.  So the out-of-fuel value None - and the `None => []`
   branch of component_list inside public_get_mapping - is excluded by a theorem, and the equivalence theorems above (stated for
   any fuel) are statements about the one result every sufficient fuel gives. *)
Theorem C09_mask_search_terminates : forall qu mo scope fuel, (mask_fuel qu mo <= fuel)%nat ->
  exists r, mask_search qu mo scope fuel = Some r.
Proof. exact mask_search_terminates. Qed.
Print Assumptions C09_mask_search_terminates.

Theorem C09_ref_search_terminates : forall rq rm scope fuel, (ref_fuel rq rm <= fuel)%nat ->
  exists r, ref_search rq rm scope fuel = Some r.
Proof. exact ref_search_terminates. Qed.
Print Assumptions C09_ref_search_terminates.

Theorem C09_pyx_search_terminates : forall qu mo scope fuel, mo_ok mo -> (mask_fuel qu mo <= fuel)%nat ->
  exists r, pyx_search qu mo scope fuel = Some r.
Proof. exact pyx_search_terminates. Qed.
Print Assumptions C09_pyx_search_terminates.

Theorem C09_mask_search_fuel_monotone : forall qu mo scope fuel r, mask_search qu mo scope fuel = Some r ->
  forall fuel', (fuel <= fuel')%nat -> mask_search qu mo scope fuel' = Some r.
Proof. exact mask_search_fuel_mono. Qed.
Print Assumptions C09_mask_search_fuel_monotone.

Theorem C09_ref_search_fuel_monotone : forall rq rm scope fuel r, ref_search rq rm scope fuel = Some r ->
  forall fuel', (fuel <= fuel')%nat -> ref_search rq rm scope fuel' = Some r.
Proof. exact ref_search_fuel_mono. Qed.
Print Assumptions C09_ref_search_fuel_monotone.

(* one component / scope call under either flag: an observed `Some r` is the result for every larger fuel, and from
   component_fuel on the result is one and the same and never None *)
Theorem C09_component_call_fuel_monotone : forall cython rq rm scope fuel r,
  component_mappings cython rq rm scope fuel = Some r ->
  forall fuel', (fuel <= fuel')%nat -> component_mappings cython rq rm scope fuel' = Some r.
Proof. exact component_mappings_fuel_mono. Qed.
Print Assumptions C09_component_call_fuel_monotone.

Theorem C09_component_call_fuel_irrelevant : forall cython rq rm scope f1 f2,
  (component_fuel rq rm <= f1)%nat -> (component_fuel rq rm <= f2)%nat ->
  component_mappings cython rq rm scope f1 = component_mappings cython rq rm scope f2 /\
  component_mappings cython rq rm scope f1 <> None.
Proof. exact component_mappings_fuel_irrelevant. Qed.
Print Assumptions C09_component_call_fuel_irrelevant.

(* the public call: the same list of dictionaries for every fuel from public_fuel on, no component call inside it out of fuel *)
Theorem C09_public_get_mapping_fuel_irrelevant : forall stereo_ok cython comps rm tcomps flt scope f1 f2,
  (public_fuel comps rm <= f1)%nat -> (public_fuel comps rm <= f2)%nat ->
  public_get_mapping stereo_ok cython comps rm tcomps flt scope f1 =
  public_get_mapping stereo_ok cython comps rm tcomps flt scope f2.
Proof. exact public_get_mapping_fuel_irrelevant. Qed.
Print Assumptions C09_public_get_mapping_fuel_irrelevant.

Theorem C09_public_no_component_out_of_fuel : forall cython comps rm fuel, (public_fuel comps rm <= fuel)%nat ->
  forall rq s, In rq comps -> component_mappings cython rq rm (scope_bits rm s) fuel <> None.
Proof. exact public_no_component_out_of_fuel. Qed.
Print Assumptions C09_public_no_component_out_of_fuel.

(* the two public calls agree for every pair of sufficient fuels (not even the same on both sides) *)
Theorem C09_public_get_mapping_equiv_fuel_free : forall stereo_ok comps rm tcomps flt scope f1 f2,
  Forall (fun rq => rq <> [] /\ wf_query rq /\ in_range_pair rq rm) comps ->
  (has_unknown_h rm = false -> wf_mol rm) ->
  (public_fuel comps rm <= f1)%nat -> (public_fuel comps rm <= f2)%nat ->
  public_get_mapping stereo_ok true comps rm tcomps flt scope f1 =
  public_get_mapping stereo_ok false comps rm tcomps flt scope f2.
Proof. exact public_get_mapping_equiv_fuel_free. Qed.
Print Assumptions C09_public_get_mapping_equiv_fuel_free.

(* non-vacuity: the bound of the ring example is 53 iterations (16 are needed, 15 run out), of the public example 4 *)
Theorem C09_fuel_examples :
  mask_fuel (enc_query ex_rq) (enc_mol ex_rm) = 53%nat /\ ref_fuel ex_rq ex_rm = 53%nat /\
  mask_search (enc_query ex_rq) (enc_mol ex_rm) [true; true; true; true] 53 =
    Some [[3; 2; 1]; [3; 1; 2]; [2; 3; 1]; [2; 1; 3]; [1; 3; 2]; [1; 2; 3]] /\
  mask_search (enc_query ex_rq) (enc_mol ex_rm) [true; true; true; true] 15 = None /\
  public_fuel ex2_comps ex2_rm = 4%nat.
Proof. exact fuel_examples. Qed.
Print Assumptions C09_fuel_examples.

(* THE RING-SIZE HYPOTHESIS OF THE COMPONENT-LEVEL THEOREMS IS NECESSARY (finding ring-size-above-65, FIXED at the public level by
   d9d8bf3: see C09_public_get_mapping2_equiv below).  This is a statement about the ENCODERS and ONE COMPONENT CALL only
   (mask_match_first / component_mappings, which know nothing of the second guard statement): both encoders drop ring sizes above 65
   and encode "only such sizes" as ring-free, so C09_mask_search_equiv / C09_get_mapping_equiv keep their hypothesis ring sizes 3..65.
   The public call no longer reaches the encoders with such inputs. *)
Theorem C09_component_ring_size_above_65_refuted :
  query_ok (QElem 6 None (no_x [0])) = true /\ atom_ok (set_rings c_ring66 [65]) = true /\ elem_hyp (QElem 6 None (no_x [0])) 6 /\
  match_atom (QElem 6 None (no_x [0])) c_ring66 = false /\
  mask_match_first (enc_qatom (QElem 6 None (no_x [0])) None) (enc_atom c_ring66) = true /\
  query_ok (QElem 6 None (no_x [65])) = true /\ atom_ok c_chain = true /\
  match_atom (QElem 6 None (no_x [66])) c_chain = false /\
  mask_match_first (enc_qatom (QElem 6 None (no_x [66])) None) (enc_atom c_chain) = true /\
  atom_ok (set_rings c_ring6_70 [6; 65]) = true /\
  match_atom (QElem 6 None (no_x [70])) c_ring6_70 = true /\
  mask_match_first (enc_qatom (QElem 6 None (no_x [70])) None) (enc_atom c_ring6_70) = false /\
  let rq := [mkRQ 1 0 (QElem 6 None (no_x [0])) None []] in
  let rm := [mkRA 1 (set_rings (mkLA 6 None 0 false 0 1 (Some 4) 0 []) [66]) []] in
  has_unknown_h rm = false /\ wf_queryb rq = true /\ in_range_pairb rq rm = true /\
  wf_molb [mkRA 1 (set_rings (mkLA 6 None 0 false 0 1 (Some 4) 0 []) [65]) []] = true /\
  component_mappings true rq rm [true] 10 = Some [[(1, 1)]] /\ component_mappings false rq rm [true] 10 = Some [].
Proof. exact ring_size_above_65_refuted. Qed.
Print Assumptions C09_component_ring_size_above_65_refuted.

(* THE TWO PUBLIC CALLS SINCE d9d8bf3 (second guard statement).  public_get_mapping2 = the guard as translated from the source
   (uses_mask_path2: flag, no unknown hydrogen count, no ring size above 65 in the molecule or in a non-AnyMetal query atom) + the
   wrapper of C09_public_get_mapping_equiv.  NO UPPER BOUND ON RING SIZES any more: the hypotheses are those of
   C09_public_get_mapping_equiv for the inputs with every ring size above 65 replaced by 65 (cap_comps / cap_mol), i.e. everything
   except `ring size <= 65`, which the guard now discharges.  (C09_public_get_mapping_equiv above remains as the statement about the
   wrapper under a given effective flag.) *)
Theorem C09_public_get_mapping2_equiv : forall stereo_ok comps rm tcomps flt scope fuel,
  Forall (fun rq => rq <> [] /\ wf_query rq /\ in_range_pair rq (cap_mol rm)) (cap_comps comps) ->
  (has_unknown_h rm = false -> wf_mol (cap_mol rm)) ->
  public_get_mapping2 stereo_ok true comps rm tcomps flt scope fuel =
  public_get_mapping2 stereo_ok false comps rm tcomps flt scope fuel.
Proof. exact public_get_mapping2_equiv. Qed.
Print Assumptions C09_public_get_mapping2_equiv.

Theorem C09_public_get_mapping2_equiv_b : forall stereo_ok comps rm tcomps flt scope fuel,
  public_hyps_ok (cap_comps comps) (cap_mol rm) = true ->
  public_get_mapping2 stereo_ok true comps rm tcomps flt scope fuel =
  public_get_mapping2 stereo_ok false comps rm tcomps flt scope fuel.
Proof. exact public_get_mapping2_equiv_b. Qed.
Print Assumptions C09_public_get_mapping2_equiv_b.

(* a ring size above 65 anywhere: the reference path under both flags, no hypothesis at all *)
Theorem C09_big_ring_takes_reference_path : forall stereo_ok cython comps rm tcomps flt scope fuel,
  big_ring_mol rm || big_ring_query comps = true ->
  uses_mask_path2 cython comps rm = false /\
  public_get_mapping2 stereo_ok cython comps rm tcomps flt scope fuel = public_get_mapping stereo_ok false comps rm tcomps flt scope fuel.
Proof. exact big_ring_takes_reference_path. Qed.
Print Assumptions C09_big_ring_takes_reference_path.

Theorem C09_public_get_mapping2_equiv_fuel_free : forall stereo_ok comps rm tcomps flt scope f1 f2,
  Forall (fun rq => rq <> [] /\ wf_query rq /\ in_range_pair rq (cap_mol rm)) (cap_comps comps) ->
  (has_unknown_h rm = false -> wf_mol (cap_mol rm)) ->
  (public_fuel comps rm <= f1)%nat -> (public_fuel comps rm <= f2)%nat ->
  public_get_mapping2 stereo_ok true comps rm tcomps flt scope f1 =
  public_get_mapping2 stereo_ok false comps rm tcomps flt scope f2.
Proof. exact public_get_mapping2_equiv_fuel_free. Qed.
Print Assumptions C09_public_get_mapping2_equiv_fuel_free.

(* non-vacuity = the repaired witnesses: [C;!R] vs an atom of a 66-ring, [C;r66] vs a chain atom: hypotheses hold, both flags take
   the reference path and yield nothing (the wrapper forced onto the mask path would still yield a mapping); an ordinary input still
   takes the mask path *)
Theorem C09_public_get_mapping2_example :
  public_hyps_ok (cap_comps br_comps) (cap_mol br_rm) = true /\ uses_mask_path2 true br_comps br_rm = false /\
  public_get_mapping2 (fun _ => true) true br_comps br_rm [[1]] true None 10 = [] /\
  public_get_mapping2 (fun _ => true) false br_comps br_rm [[1]] true None 10 = [] /\
  public_get_mapping (fun _ => true) true br_comps br_rm [[1]] true None 10 = [[(1, 1)]] /\
  public_hyps_ok (cap_comps br_comps2) (cap_mol br_rm2) = true /\ uses_mask_path2 true br_comps2 br_rm2 = false /\
  public_get_mapping2 (fun _ => true) true br_comps2 br_rm2 [[1]] true None 10 = [] /\
  public_get_mapping (fun _ => true) true br_comps2 br_rm2 [[1]] true None 10 = [[(1, 1)]] /\
  uses_mask_path2 true ex2_comps ex2_rm = true /\
  public_get_mapping2 (fun _ => true) true ex2_comps ex2_rm [[1; 2]; [3]] true None 100 = [[(1, 3); (2, 2)]].
Proof. exact public_get_mapping2_example. Qed.
Print Assumptions C09_public_get_mapping2_example.
