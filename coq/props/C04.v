(* C04 -- implicit hydrogen counts and valence errors follow the element valence rules.
   Statements only; definitions in Model.Valence and Model.ValenceArom (mirror of the Python code; ValenceArom: closed form
   of the aromatic branch, union / substructure / split) and Proofs.ValenceProofs / Proofs.ValenceExt (specification
   vocabulary: no_aromatic, non8, env_of, mol_union, formula_count, octet_h, atoms_of, in_sel, overlap, ...).  The element
   tables are regenerated from chython/periodictable/group*.py on every run (Gen.Elements). *)
From Coq Require Import ZArith List String Bool Permutation.
From Model Require Import PyBase Graph PeriodicTable Valence ValenceArom.
From Model Require Import ValenceSrcLib.
From Gen Require Import Elements ValenceSrc ValenceBodies.
From Proofs Require Import ValenceProofs ValenceExt ValenceImpl ValenceSrcProofs ValenceBodiesProofs ValenceStd ValenceTotalsSrc ValenceEdits ValenceStdSrc.
Import ListNotations.
Open Scope string_scope.
Open Scope Z_scope.
Open Scope list_scope.

(* ---- calc_implicit and check_implicit agree, for ANY rule table vr ---- *)
Theorem C04_calc_check_agree : forall (vr : Z -> pyres (list rule)) num chg rad nv h,
  no_aromatic nv = true -> calc_atom vr num chg rad nv = Ok (Some h) -> check_atom vr num nv h = Ok true.
Proof. exact calc_check_agree. Qed.
Print Assumptions C04_calc_check_agree.

Theorem C04_check_justified : forall (vr : Z -> pyres (list rule)) num chg rad nv h,
  check_atom vr num nv h = Ok true ->
  (num = 1 /\ h = 0 /\ calc_atom vr num chg rad nv = Ok (Some 0)) \/
  (num <> 1 /\ no_aromatic nv = true /\
   exists s d rules r, scan_check nv 0 [] = SDone s d 0 /\ vr s = Ok rules /\ In r rules /\ r_h r = h /\
                       rule_matches r d = true /\
                       exists h', calc_atom vr num chg rad nv = Ok (Some h') /\ first_rule rules d = Some h').
Proof. exact check_justified. Qed.
Print Assumptions C04_check_justified.

Theorem C04_calc_none_iff : forall (vr : Z -> pyres (list rule)) num chg rad nv,
  no_aromatic nv = true -> num <> 1 ->
  (calc_atom vr num chg rad nv = Ok None <-> forall h, check_atom vr num nv h = Ok false).
Proof. exact calc_none_iff. Qed.
Print Assumptions C04_calc_none_iff.

(* the restriction to localised bonds is necessary (deliberate: "can't check aromatic rings") *)
Theorem C04_check_aromatic_false : forall (vr : Z -> pyres (list rule)) num nv h,
  num <> 1 -> no_aromatic nv = false ->
  check_atom vr num nv h = Ok false \/ exists e, check_atom vr num nv h = Err e.
Proof. exact check_aromatic_false. Qed.
Print Assumptions C04_check_aromatic_false.

Theorem C04_calc_check_agree_needs_localised :
  exists nv, calc_atom (valence_rules el_C 0 false) 6 0 false nv = Ok (Some 1) /\
             check_atom (valence_rules el_C 0 false) 6 nv 1 = Ok false.
Proof. exact calc_check_agree_needs_localised. Qed.
Print Assumptions C04_calc_check_agree_needs_localised.

Theorem C04_first_rule_wins : forall rs d h,
  first_rule rs d = Some h <->
  exists pre r post, rs = pre ++ r :: post /\ forallb (fun x => negb (rule_matches x d)) pre = true /\
                     rule_matches r d = true /\ r_h r = h.
Proof. exact first_rule_wins. Qed.
Print Assumptions C04_first_rule_wins.

(* ---- locality: only element, charge, radical and the multiset of (order, element) over non-8 bonds matter ---- *)
Theorem C04_calc_env_perm : forall t num chg rad e e', Permutation e e' ->
  calc_env t num chg rad e = calc_env t num chg rad e' /\
  forall h, check_env t num chg rad e h = check_env t num chg rad e' h.
Proof. exact calc_env_perm. Qed.
Print Assumptions C04_calc_env_perm.

Theorem C04_calc_env_multiset : forall t num chg rad e e', Permutation (filter non8 e) (filter non8 e') ->
  calc_env t num chg rad e = calc_env t num chg rad e' /\
  forall h, check_env t num chg rad e h = check_env t num chg rad e' h.
Proof. exact calc_env_multiset. Qed.
Print Assumptions C04_calc_env_multiset.

Theorem C04_calc_implicit_local : forall g g' n n' a a' e e',
  atom_of g n = Some a -> atom_of g' n' = Some a' ->
  a_num a = a_num a' -> a_chg a = a_chg a' -> a_rad a = a_rad a' ->
  env_of g n = Some e -> env_of g' n' = Some e' -> Permutation (filter non8 e) (filter non8 e') ->
  calc_implicit g n = calc_implicit g' n' /\ forall h, check_implicit g n h = check_implicit g' n' h.
Proof. exact calc_implicit_local. Qed.
Print Assumptions C04_calc_implicit_local.

Theorem C04_calc_env_multiset_example :
  Permutation (filter non8 [(1, 6); (2, 8); (1, 8)]) (filter non8 [(1, 8); (8, 26); (2, 8); (1, 6)]) /\
  calc_env (compiled_rules el_N) 7 1 false [(1, 6); (2, 8); (1, 8)] = Ok (Some 0).
Proof. exact calc_env_multiset_example. Qed.
Print Assumptions C04_calc_env_multiset_example.

(* ---- valence check ---- *)
Theorem C04_check_valence_spec : forall g n,
  In n (check_valence g) <-> exists a, In (n, a) (m_atoms g) /\ a_h a = None.
Proof. exact check_valence_spec. Qed.
Print Assumptions C04_check_valence_spec.

Theorem C04_check_valence_exact : forall g g', NoDup (ids g) -> fix_hydrogens g = Ok g' ->
  forall n, In n (check_valence g') <-> In n (ids g) /\ calc_implicit g n = Ok None.
Proof. exact check_valence_exact. Qed.
Print Assumptions C04_check_valence_exact.

Theorem C04_check_valence_no_state : forall g g', NoDup (ids g) -> fix_hydrogens g = Ok g' ->
  forall n a e, atom_of g n = Some a -> env_of g n = Some e -> has4 e = false ->
  (In n (check_valence g') <-> a_num a <> 1 /\ forall h, check_implicit g n h = Ok false).
Proof. exact check_valence_no_state. Qed.
Print Assumptions C04_check_valence_no_state.

Theorem C04_check_valence_example :
  exists g', fix_hydrogens nitromethane_5 = Ok g' /\ check_valence g' = [2] /\
             option_map a_h (atom_of g' 1) = Some (Some 3) /\ wf_mol nitromethane_5 = true.
Proof. exact check_valence_example. Qed.
Print Assumptions C04_check_valence_example.

(* ---- totals are sums over atoms: additive over disjoint union, invariant under permutation of the atoms ---- *)
Theorem C04_charge_additive : forall g1 g2, molecular_charge (mol_union g1 g2) = molecular_charge g1 + molecular_charge g2.
Proof. exact charge_union. Qed.
Print Assumptions C04_charge_additive.
Theorem C04_charge_perm : forall g g', Permutation (m_atoms g) (m_atoms g') -> molecular_charge g = molecular_charge g'.
Proof. exact charge_perm. Qed.
Print Assumptions C04_charge_perm.

Theorem C04_radical_additive : forall g1 g2, is_radical (mol_union g1 g2) = is_radical g1 || is_radical g2.
Proof. exact radical_union. Qed.
Print Assumptions C04_radical_additive.
Theorem C04_radical_perm : forall g g', Permutation (m_atoms g) (m_atoms g') -> is_radical g = is_radical g'.
Proof. exact radical_perm. Qed.
Print Assumptions C04_radical_perm.
Theorem C04_radical_iff : forall g, is_radical g = true <-> exists n a, In (n, a) (m_atoms g) /\ a_rad a = true.
Proof. exact radical_iff. Qed.
Print Assumptions C04_radical_iff.

Theorem C04_mass_is_sum : forall g m, molecular_mass_e24 g = Ok m ->
  exists hm, atomic_mass_e24 1 None = Ok hm /\
  m = zsum (map (fun na => match mass_term hm na with Ok w => w | Err _ => 0 end) (m_atoms g)) /\
  forall na, In na (m_atoms g) -> exists am h, atomic_mass_e24 (a_num (snd na)) (a_iso (snd na)) = Ok am /\ a_h (snd na) = Some h /\
                                             mass_term hm na = Ok (am + h * hm).
Proof. exact mass_is_sum. Qed.
Print Assumptions C04_mass_is_sum.
Theorem C04_mass_additive : forall g1 g2 m1 m2, molecular_mass_e24 g1 = Ok m1 -> molecular_mass_e24 g2 = Ok m2 ->
  molecular_mass_e24 (mol_union g1 g2) = Ok (m1 + m2).
Proof. exact mass_union. Qed.
Print Assumptions C04_mass_additive.
Theorem C04_mass_perm : forall g g' m, Permutation (m_atoms g) (m_atoms g') -> molecular_mass_e24 g = Ok m -> molecular_mass_e24 g' = Ok m.
Proof. exact mass_perm. Qed.
Print Assumptions C04_mass_perm.

Theorem C04_brutto_is_count : forall g c, brutto g = Ok c ->
  (forall s, sval c s = formula_count (m_atoms g) s) /\ (exists v, sget c "H" = Some v) /\
  forall na, In na (m_atoms g) -> exists h, a_h (snd na) = Some h.
Proof. exact brutto_is_count. Qed.
Print Assumptions C04_brutto_is_count.
Theorem C04_formula_additive : forall l1 l2 s, formula_count (l1 ++ l2) s = formula_count l1 s + formula_count l2 s.
Proof. exact formula_count_app. Qed.
Print Assumptions C04_formula_additive.
Theorem C04_formula_perm : forall l l' s, Permutation l l' -> formula_count l s = formula_count l' s.
Proof. exact formula_count_perm. Qed.
Print Assumptions C04_formula_perm.
Theorem C04_brutto_additive : forall g1 g2 c1 c2, brutto g1 = Ok c1 -> brutto g2 = Ok c2 ->
  exists c, brutto (mol_union g1 g2) = Ok c /\ forall s, sval c s = sval c1 s + sval c2 s.
Proof. exact brutto_union. Qed.
Print Assumptions C04_brutto_additive.
Theorem C04_brutto_perm : forall g g' c, Permutation (m_atoms g) (m_atoms g') -> brutto g = Ok c ->
  exists c', brutto g' = Ok c' /\ forall s, sval c' s = sval c s.
Proof. exact brutto_perm. Qed.
Print Assumptions C04_brutto_perm.

Theorem C04_totals_example :
  brutto methanol = Ok [("C", 1); ("O", 1); ("H", 4)] /\
  brutto sodium = Ok [("Na", 1); ("H", 0)] /\
  brutto (mol_union sodium methanol) = Ok [("Na", 1); ("C", 1); ("O", 1); ("H", 4)] /\
  molecular_charge (mol_union sodium methanol) = 1 /\
  molecular_mass_e24 methanol = Ok 32041904090630000000000000 /\
  molecular_mass_e24 (mol_union sodium methanol) = Ok 55031674090630000000000000.
Proof. exact totals_example. Qed.
Print Assumptions C04_totals_example.

(* ---- finite theorems over the regenerated tables ---- *)
Theorem C04_tables_compile : forall e, In e elements -> exists t, compiled_rules e = Ok t.
Proof. exact tables_compile. Qed.
Print Assumptions C04_tables_compile.

Theorem C04_decimals_fit : decimals_fit_b = true.
Proof. exact decimals_fit. Qed.
Print Assumptions C04_decimals_fit.

(* charge, bonds (explicit + implicit H) and the radical electron never use more than the group's valence electrons, and
   leave an even number of them except in the elemental state of odd-electron elements and the Bi(II)/Bi(IV) rules *)
Theorem C04_rule_electron_parity :
  (forall e x, In e elements -> main_group e = true -> In x (flat_rules e) ->
     0 <= lone_electrons e x /\ Z.even (lone_electrons e x) = negb (parity_exception e x)) /\
  Z.of_nat (List.length main_rules) = 536 /\
  odd_rules = [("Li", 0); ("Na", 0); ("K", 0); ("Rb", 0); ("Cs", 0); ("Fr", 0);
               ("B", 0); ("Al", 0); ("Ga", 0); ("In", 0); ("Tl", 0); ("Nh", 0);
               ("P", 0); ("As", 0); ("Sb", 0);
               ("Bi", 0); ("Bi", 2); ("Bi", 2); ("Bi", 2); ("Bi", 2); ("Bi", 2); ("Bi", 2); ("Bi", 2); ("Bi", 4); ("Bi", 4);
               ("Mc", 0); ("At", 0); ("Ts", 0)].
Proof. exact rule_electron_parity. Qed.
Print Assumptions C04_rule_electron_parity.

Theorem C04_organic_octet : forall e chg rad env,
  In e organic -> -2 <= chg <= 2 -> (List.length env <= 4)%nat -> (forall x, In x env -> In x bond_types) ->
  exists r, calc_env (compiled_rules e) (e_num e) chg rad env = Ok r /\
    match octet_h (e_num e) chg rad env, r with
    | Some a, Some b => a = b
    | Some _, None => octet_supported (e_sym e) chg rad = false
    | None, Some _ => hypervalent_state (e_sym e) chg rad = true
    | None, None => True
    end.
Proof. exact organic_octet. Qed.
Print Assumptions C04_organic_octet.

Theorem C04_organic_octet_counts :
  Z.of_nat (List.length all_envs) = 7315 /\
  map (fun k => count_class k octet_classes) [0; 1; 2; 3; 4] = [3480; 4587; 1321; 868412; 0].
Proof. exact organic_octet_counts. Qed.
Print Assumptions C04_organic_octet_counts.

(* ==== extension round ==== *)
(* ---- the delocalised (aromatic) branch of calc_implicit, exactly as coded (Model.ValenceArom.arom_h is the closed form;
        arom_bonds = number of aromatic bonds, sigma_sum = sum of the localised orders, order-8 bonds ignored) ---- *)
Theorem C04_calc_env_aromatic : forall t num chg rad e, num <> 1 -> has_arom e = true ->
  calc_env t num chg rad e = Ok (arom_h num chg rad e).
Proof. exact calc_env_aromatic. Qed.
Print Assumptions C04_calc_env_aromatic.

Theorem C04_aromatic_h1_iff : forall t num chg rad e, num <> 1 -> has_arom e = true ->
  (calc_env t num chg rad e = Ok (Some 1) <->
   num = 6 /\ chg = 0 /\ rad = false /\ arom_bonds e = 2 /\ sigma_sum e = 0).
Proof. exact aromatic_h1_iff. Qed.
Print Assumptions C04_aromatic_h1_iff.

Theorem C04_aromatic_h0_iff : forall t num chg rad e, num <> 1 -> has_arom e = true ->
  (calc_env t num chg rad e = Ok (Some 0) <->
   num = 6 /\ chg = 0 /\ rad = false /\
   ((arom_bonds e = 2 /\ sigma_sum e = 1) \/ (arom_bonds e = 3 /\ sigma_sum e = 0))).
Proof. exact aromatic_h0_iff. Qed.
Print Assumptions C04_aromatic_h0_iff.

Theorem C04_aromatic_none_iff : forall t num chg rad e, num <> 1 -> has_arom e = true ->
  (calc_env t num chg rad e = Ok None <->
   ~ (num = 6 /\ chg = 0 /\ rad = false /\
      ((arom_bonds e = 2 /\ (sigma_sum e = 0 \/ sigma_sum e = 1)) \/ (arom_bonds e = 3 /\ sigma_sum e = 0)))).
Proof. exact aromatic_none_iff. Qed.
Print Assumptions C04_aromatic_none_iff.

(* "no localised bond" read on real bonds (orders >= 1): every bond is aromatic or an order-8 bond *)
Theorem C04_sigma_sum_zero_iff : forall e, (forall x, In x e -> 1 <= fst x) ->
  (sigma_sum e = 0 <-> forall x, In x e -> fst x = 4 \/ fst x = 8).
Proof. exact sigma_sum_zero_iff. Qed.
Print Assumptions C04_sigma_sum_zero_iff.

Theorem C04_aromatic_three_connected : forall t num chg rad e h, num <> 1 -> has_arom e = true ->
  calc_env t num chg rad e = Ok (Some h) -> (h = 0 \/ h = 1) /\ arom_bonds e + sigma_sum e + h = 3.
Proof. exact aromatic_three_connected. Qed.
Print Assumptions C04_aromatic_three_connected.

(* the valence table is never consulted for a delocalised atom; check_implicit refuses every count *)
Theorem C04_aromatic_table_free : forall t t' num chg rad e, has_arom e = true ->
  calc_env t num chg rad e = calc_env t' num chg rad e.
Proof. exact calc_env_aromatic_table_free. Qed.
Print Assumptions C04_aromatic_table_free.

Theorem C04_check_env_aromatic : forall t num chg rad e h, num <> 1 -> has_arom e = true ->
  check_env t num chg rad e h = Ok false.
Proof. exact check_env_aromatic. Qed.
Print Assumptions C04_check_env_aromatic.

(* neighbour-order independence in the aromatic branch: C04_calc_env_perm / C04_calc_env_multiset above hold for EVERY
   environment, aromatic ones included; the closed form itself depends on the multiset of non-8 bonds only *)
Theorem C04_arom_h_multiset : forall num chg rad e e', Permutation (filter non8 e) (filter non8 e') ->
  has_arom e = has_arom e' /\ (has_arom e = true -> arom_h num chg rad e = arom_h num chg rad e').
Proof. exact arom_h_multiset. Qed.
Print Assumptions C04_arom_h_multiset.

(* ... provided every neighbour exists: on a corrupted bond dictionary the result depends on the order *)
Theorem C04_dangling_order_dependent :
  let vr := valence_rules el_N 0 false in
  Permutation [(1, None); (4, Some 6)] [(4, Some 6); (1, None)] /\
  calc_atom vr 7 0 false [(1, None); (4, Some 6)] = Err KeyError /\
  calc_atom vr 7 0 false [(4, Some 6); (1, None)] = Ok None.
Proof. exact dangling_order_dependent. Qed.
Print Assumptions C04_dangling_order_dependent.

(* the shortcuts agree with carbon's valence table on the Kekule spelling of the environment (first aromatic bond ->
   double, the others -> single), for the count and for the valence error alike *)
Theorem C04_aromatic_matches_kekule : forall e, (forall x, In x e -> 1 <= fst x) -> 2 <= arom_bonds e ->
  calc_env (compiled_rules el_C) 6 0 false e = calc_env (compiled_rules el_C) 6 0 false (kekule_env true e).
Proof. exact aromatic_matches_kekule. Qed.
Print Assumptions C04_aromatic_matches_kekule.

Theorem C04_calc_implicit_aromatic : forall g n a e,
  atom_of g n = Some a -> env_of g n = Some e -> a_num a <> 1 -> has_arom e = true ->
  calc_implicit g n = Ok (arom_h (a_num a) (a_chg a) (a_rad a) e) /\ forall h, check_implicit g n h = Ok false.
Proof. exact calc_implicit_aromatic. Qed.
Print Assumptions C04_calc_implicit_aromatic.

Theorem C04_aromatic_examples :
  calc_env (compiled_rules el_C) 6 0 false [(4, 6); (4, 6)] = Ok (Some 1) /\
  calc_env (compiled_rules el_C) 6 0 false [(4, 6); (1, 6); (4, 7)] = Ok (Some 0) /\
  calc_env (compiled_rules el_C) 6 0 false [(8, 26); (4, 7); (1, 6); (4, 6)] = Ok (Some 0) /\
  calc_env (compiled_rules el_C) 6 0 false [(4, 6); (4, 6); (4, 6)] = Ok (Some 0) /\
  calc_env (compiled_rules el_C) 6 0 false [(4, 6); (2, 8); (4, 6)] = Ok None /\
  calc_env (compiled_rules el_C) 6 0 false (kekule_env true [(4, 6); (2, 8); (4, 6)]) = Ok None /\
  calc_env (compiled_rules el_N) 7 0 false [(4, 6); (4, 6)] = Ok None /\
  kekule_env true [(4, 6); (1, 6); (4, 7)] = [(2, 6); (1, 6); (1, 7)] /\
  Z.of_nat (List.length arom_space) = 4791.
Proof. exact aromatic_examples. Qed.
Print Assumptions C04_aromatic_examples.

(* ---- union / substructure / split (Model.ValenceArom mirrors Graph.union, MoleculeContainer.substructure / split as far
        as atoms, bonds and hydrogen counts go; the components are an input of split_with: perception is C06) ---- *)
Theorem C04_totals_numbering_free : forall g g', atoms_of g = atoms_of g' ->
  brutto g = brutto g' /\ molecular_charge g = molecular_charge g' /\ is_radical g = is_radical g' /\
  molecular_mass_e24 g = molecular_mass_e24 g'.
Proof. exact totals_numbering_free. Qed.
Print Assumptions C04_totals_numbering_free.

Theorem C04_union_py_error : forall g1 g2 remap,
  (union_py g1 g2 remap = Err ValueError <-> remap = false /\ exists k, In k (ids g1) /\ In k (ids g2)) /\
  ((exists u, union_py g1 g2 remap = Ok u) \/ union_py g1 g2 remap = Err ValueError).
Proof. exact union_py_error. Qed.
Print Assumptions C04_union_py_error.

Theorem C04_union_py_atoms : forall g1 g2 remap u, union_py g1 g2 remap = Ok u -> atoms_of u = atoms_of g1 ++ atoms_of g2.
Proof. exact union_py_atoms. Qed.
Print Assumptions C04_union_py_atoms.

Theorem C04_union_py_totals : forall g1 g2 remap u, union_py g1 g2 remap = Ok u ->
  molecular_charge u = molecular_charge g1 + molecular_charge g2 /\
  is_radical u = is_radical g1 || is_radical g2 /\
  (forall c1 c2, brutto g1 = Ok c1 -> brutto g2 = Ok c2 ->
     exists c, brutto u = Ok c /\ forall s, sval c s = sval c1 s + sval c2 s) /\
  (forall m1 m2, molecular_mass_e24 g1 = Ok m1 -> molecular_mass_e24 g2 = Ok m2 -> molecular_mass_e24 u = Ok (m1 + m2)).
Proof. exact union_py_totals. Qed.
Print Assumptions C04_union_py_totals.

(* with remap the second molecule is numbered max+1, max+2, ... : no atom of the first is overwritten *)
Theorem C04_union_py_ids : forall g1 g2 remap u, NoDup (ids g1) -> NoDup (ids g2) -> union_py g1 g2 remap = Ok u ->
  NoDup (ids u) /\
  ids u = ids g1 ++ (if overlap g1 g2 then zrange_from (max_id g1 + 1) (List.length (ids g2)) else ids g2).
Proof. exact union_py_ids. Qed.
Print Assumptions C04_union_py_ids.

Theorem C04_substructure_keep_atoms : forall g sel s, substructure g sel false = Ok s ->
  m_atoms s = filter (in_sel sel) (m_atoms g).
Proof. exact substructure_keep_atoms. Qed.
Print Assumptions C04_substructure_keep_atoms.

Theorem C04_split_atoms : forall g comps parts, is_partition g comps = true -> split_with g comps = Ok parts ->
  Permutation (flat_map m_atoms parts) (m_atoms g).
Proof. exact split_atoms. Qed.
Print Assumptions C04_split_atoms.

Theorem C04_split_totals : forall g comps parts, is_partition g comps = true -> split_with g comps = Ok parts ->
  molecular_charge g = zsum (map molecular_charge parts) /\
  is_radical g = existsb is_radical parts /\
  (forall s, formula_count (m_atoms g) s = zsum (map (fun p => formula_count (m_atoms p) s) parts)) /\
  (forall c, brutto g = Ok c -> exists cs, Forall2 (fun p ci => brutto p = Ok ci) parts cs /\
                                          forall s, sval c s = zsum (map (fun ci => sval ci s) cs)) /\
  (forall m, molecular_mass_e24 g = Ok m -> exists ms, Forall2 (fun p mi => molecular_mass_e24 p = Ok mi) parts ms /\ m = zsum ms).
Proof. exact split_totals. Qed.
Print Assumptions C04_split_totals.

(* the recalculation switch: on a selection that no bond leaves, recalculation stores what calc_implicit gives in the whole
   molecule; if the molecule's counts are fresh (state after fix_structure) both settings build the same substructure; on a
   selection that cuts a bond they differ (witness) *)
Theorem C04_sub_recalc_closed : forall g sel s, closed_sel g sel = true -> substructure g sel true = Ok s ->
  ids s = filter (fun n => zmem n sel) (ids g) /\
  forall k a, atom_of g k = Some a -> zmem k sel = true -> atom_of s k = Some (with_h a (result_of (calc_implicit g k))).
Proof. exact sub_recalc_closed. Qed.
Print Assumptions C04_sub_recalc_closed.

Theorem C04_sub_switch_irrelevant : forall g sel s, NoDup (ids g) -> closed_sel g sel = true ->
  (forall k a, atom_of g k = Some a -> a_h a = result_of (calc_implicit g k)) ->
  substructure g sel true = Ok s -> substructure g sel false = Ok s.
Proof. exact sub_switch_irrelevant. Qed.
Print Assumptions C04_sub_switch_irrelevant.

Theorem C04_sub_switch_matters :
  closed_sel ethane [1] = false /\
  option_map (fun s => map (fun na => a_h (snd na)) (m_atoms s)) (match substructure ethane [1] false with Ok s => Some s | Err _ => None end) = Some [Some 3] /\
  option_map (fun s => map (fun na => a_h (snd na)) (m_atoms s)) (match substructure ethane [1] true with Ok s => Some s | Err _ => None end) = Some [Some 4] /\
  closed_sel ethane [1; 2] = true /\ substructure ethane [2; 1] true = Ok ethane /\ substructure ethane [2; 1] false = Ok ethane.
Proof. exact sub_switch_matters. Qed.
Print Assumptions C04_sub_switch_matters.

Theorem C04_union_split_example :
  union_py methanol methanol false = Err ValueError /\
  exists u p2, union_py methanol methanol true = Ok u /\ ids u = [1; 2; 3; 4] /\ wf_mol u = true /\
    is_partition u [[1; 2]; [3; 4]] = true /\ forallb (closed_sel u) [[1; 2]; [3; 4]] = true /\
    split_with u [[1; 2]; [3; 4]] = Ok [methanol; p2] /\ ids p2 = [3; 4] /\ atoms_of p2 = atoms_of methanol /\
    brutto u = Ok [("C", 2); ("O", 2); ("H", 8)] /\
    substructure u [4; 3] true = Ok p2 /\ substructure u [] true = Err ValueError /\ substructure u [5] true = Err ValueError.
Proof. exact union_split_example. Qed.
Print Assumptions C04_union_split_example.

(* ==== extension round 3: implicify_hydrogens ==== *)
(* Model.ValenceArom.implicify mirrors Standardize.implicify_hydrogens.  impl_result g rem fixed = g without the atoms `rem`,
   with the counts `fixed`; fix_h fixed k a = a with the count fixed[k] if k is a key of fixed; h_of g n k = k is a hydrogen atom
   with at most one non-8 bond, a single bond to n. *)
Theorem C04_implicify_sound : forall g g', wf_mol g = true -> implicify g = Ok g' ->
  exists rem fixed, g' = impl_result g rem fixed /\
    (forall k, In k rem -> exists ak, atom_of g k = Some ak /\ a_num ak = 1) /\
    (forall k a, zmem k rem = false -> atom_of g k = Some a -> atom_of g' k = Some (fix_h fixed k a)) /\
    (forall n h, zget fixed n = Some h ->
       exists a nb hi, atom_of g n = Some a /\ a_num a <> 1 /\ zmem n rem = false /\ zget (m_adj g) n = Some nb /\
         (forall k, In k hi -> In k rem /\ h_of g n k) /\ (1 <= List.length hi)%nat /\ Z.of_nat (List.length hi) <= h /\
         ((forall mb, In mb nb -> b_ord (snd mb) <> 4) -> check_implicit g' n h = Ok true)).
Proof. exact implicify_sound. Qed.
Print Assumptions C04_implicify_sound.

Theorem C04_implicify_examples :
  wf_mol methanol_explicit = true /\ implicify methanol_explicit = Ok methanol /\
  wf_mol ph5_explicit = true /\ implicify ph5_explicit = Ok ph5_explicit.
Proof. exact implicify_examples. Qed.
Print Assumptions C04_implicify_examples.

(* ==== extension round 3: the hand-written branch structure against the regenerated source (Gen.ValenceSrc, written by
        tools/gen_valence_src.py from calc_implicit / check_implicit / implicify_hydrogens on every run) ==== *)
Theorem C04_calc_atom_follows_source : forall vr num chg rad nv, calc_atom vr num chg rad nv = calc_atom_src vr num chg rad nv.
Proof. exact calc_atom_follows_source. Qed.
Print Assumptions C04_calc_atom_follows_source.

Theorem C04_check_atom_follows_source : forall vr num nv h, check_atom vr num nv h = check_atom_src vr num nv h.
Proof. exact check_atom_follows_source. Qed.
Print Assumptions C04_check_atom_follows_source.

Theorem C04_arom_h_follows_source : forall num chg rad e, has_arom e = true ->
  (if support_of src_support num chg rad then src_arom_value (arom_bonds e) (sigma_sum e) else Some None) = Some (arom_h num chg rad e).
Proof. exact arom_h_follows_source. Qed.
Print Assumptions C04_arom_h_follows_source.

Theorem C04_implicify_constants : src_impl_consts = [1; 6; 1; 1; 8; 8; 8; 1] /\ e_num el_H = 1 /\ e_num el_C = 6.
Proof. exact implicify_constants. Qed.
Print Assumptions C04_implicify_constants.

(* ==== fourth wave: deferred recalculation (fix_structure over the recorded atoms) ==== *)
Theorem C04_recalc_loop_fresh : forall g ns g', (forall k, In k ns -> In k (ids g)) -> recalc_loop g ns = Ok g' -> fresh_on g' ns = true.
Proof. exact recalc_loop_fresh. Qed.
Print Assumptions C04_recalc_loop_fresh.

Theorem C04_recalc_loop_fresh_example :
  (exists g', recalc_loop propane_stale [1; 2; 3] = Ok g' /\ map (fun na => a_h (snd na)) (m_atoms g') = [Some 3; Some 2; Some 3] /\
              fresh_on g' [1; 2; 3] = true /\ stored_ok g' = true) /\
  (exists g', recalc_loop propane_stale [1; 2] = Ok g' /\ fresh_on g' [1; 2] = true /\ fresh_on g' [1; 2; 3] = false /\ stored_ok g' = false).
Proof. exact recalc_loop_fresh_example. Qed.
Print Assumptions C04_recalc_loop_fresh_example.

(* ==== round 4: tie by translation -- Gen.ValenceBodies holds the BODIES of Element._compiled_valence_rules, Element.valence_rules and
        Element.atomic_mass translated statement by statement by tools/gen_valence_bodies.py on every run; the hand-written model
        equals the translated source on every element of the regenerated table ==== *)
Theorem C04_compiled_rules_follow_source : forall e, In e elements -> src_compiled_valence_rules e = compiled_rules e.
Proof. exact compiled_rules_follow_source. Qed.
Print Assumptions C04_compiled_rules_follow_source.

Theorem C04_valence_rules_follow_source : forall e c r v, In e elements -> src_valence_rules e c r v = valence_rules e c r v.
Proof. exact valence_rules_follow_source. Qed.
Print Assumptions C04_valence_rules_follow_source.

Theorem C04_valence_rules_source_example :
  src_valence_rules el_C 0 false 3 = Ok [mkRule [] [] 1] /\ src_valence_rules el_C 0 false 5 = Err ValenceError /\ In el_C elements.
Proof. exact valence_rules_source_example. Qed.
Print Assumptions C04_valence_rules_source_example.

Theorem C04_atomic_mass_follows_source : forall e iso, In e elements -> src_atomic_mass e iso = atomic_mass_e24 (e_num e) iso.
Proof. exact atomic_mass_follows_source. Qed.
Print Assumptions C04_atomic_mass_follows_source.

(* a labelled atom weighs its isotope, never the natural average - also under the label of the most common isotope *)
Theorem C04_labelled_mass_is_isotope_mass : forall e i m, In e elements -> zget (e_mass e) i = Some m ->
  src_atomic_mass e (Some i) = Ok (dec_scale m 12 * 10 ^ 12) /\ atomic_mass_e24 (e_num e) (Some i) = Ok (dec_scale m 12 * 10 ^ 12).
Proof. exact labelled_mass_is_isotope_mass. Qed.
Print Assumptions C04_labelled_mass_is_isotope_mass.

Theorem C04_common_isotope_label_matters :
  e_mdl el_C = 12 /\ atomic_mass_e24 6 (Some 12) = Ok (12 * 10 ^ 24) /\ atomic_mass_e24 6 None = Ok 12010735898500000000000000 /\
  src_atomic_mass el_C (Some 12) = Ok (12 * 10 ^ 24) /\ src_atomic_mass el_C (Some 1) = Err KeyError.
Proof. exact common_isotope_label_matters. Qed.
Print Assumptions C04_common_isotope_label_matters.

(* ==== round 4: the rule engine of standardize() recalculates the atoms it collected (`for n in hs: self.calc_implicit(n)`): selective
        recalculation leaves EVERY atom fresh iff hs covers every atom whose valence state changed ==== *)
Theorem C04_selective_recalc_fresh : forall g0 g1 hs g2,
  (forall k, In k (ids g0) -> fresh_at g0 k) ->
  ids g1 = ids g0 ->
  (forall k, In k (ids g1) -> ~ In k hs ->
     option_map a_h (atom_of g1 k) = option_map a_h (atom_of g0 k) /\ calc_implicit g1 k = calc_implicit g0 k) ->
  recalc_loop g1 hs = Ok g2 ->
  ids g2 = ids g1 /\ forall k, In k (ids g2) -> fresh_at g2 k.
Proof. exact selective_recalc_fresh. Qed.
Print Assumptions C04_selective_recalc_fresh.

Theorem C04_calc_implicit_view : forall g g' k,
  option_map (fun a => (a_num a, a_chg a, a_rad a)) (atom_of g k) = option_map (fun a => (a_num a, a_chg a, a_rad a)) (atom_of g' k) ->
  option_map (nview_of g) (zget (m_adj g) k) = option_map (nview_of g') (zget (m_adj g') k) ->
  calc_implicit g k = calc_implicit g' k.
Proof. exact calc_implicit_view. Qed.
Print Assumptions C04_calc_implicit_view.

Theorem C04_selective_recalc_needs_all :
  fresh_on methylnickel [1; 2] = true /\
  (exists g, recalc_loop methylnickel_coordinate [1; 2] = Ok g /\ fresh_on g [1; 2] = true /\ stored_ok g = true /\ check_valence g = [] /\
             map (fun na => a_h (snd na)) (m_atoms g) = [Some 4; Some 0]) /\
  (exists g, recalc_loop methylnickel_coordinate [1] = Ok g /\ fresh_on g [1] = true /\ fresh_on g [1; 2] = false /\ stored_ok g = false /\
             check_valence g = [2] /\ calc_implicit g 2 = Ok (Some 0)).
Proof. exact selective_recalc_needs_all. Qed.
Print Assumptions C04_selective_recalc_needs_all.

(* ==== round 4: the totals against their bodies translated from chython/containers/molecule.py on every run, for EVERY molecule ==== *)
Theorem C04_molecular_charge_follows_source : forall g, src_molecular_charge g = Ok (molecular_charge g).
Proof. exact molecular_charge_follows_source. Qed.
Print Assumptions C04_molecular_charge_follows_source.

Theorem C04_is_radical_follows_source : forall g, src_is_radical g = Ok (is_radical g).
Proof. exact is_radical_follows_source. Qed.
Print Assumptions C04_is_radical_follows_source.

Theorem C04_molecular_mass_follows_source : forall g, src_molecular_mass g = molecular_mass_e24 g.
Proof. exact molecular_mass_follows_source. Qed.
Print Assumptions C04_molecular_mass_follows_source.

Theorem C04_brutto_follows_source : forall g, src_brutto g = brutto g.
Proof. exact brutto_follows_source. Qed.
Print Assumptions C04_brutto_follows_source.

Theorem C04_totals_source_example :
  src_brutto methanol13 = Ok [("C"%string, 1); ("O"%string, 1); ("H"%string, 4)] /\ src_molecular_charge methanol13 = Ok 0 /\
  src_is_radical methanol13 = Ok false /\ src_molecular_mass methanol13 = molecular_mass_e24 methanol13 /\
  exists m, src_molecular_mass methanol13 = Ok m /\ 33 * 10 ^ 24 < m < 34 * 10 ^ 24.
Proof. exact totals_source_example. Qed.
Print Assumptions C04_totals_source_example.

(* ==== round 4: the edits of the rule engine of standardize() (charge / radical flag of the atom_fix atoms, order or new bond for the bonds_fix
        pairs) followed by the recalculation of a set hs that contains every touched atom leave EVERY atom fresh ==== *)
Theorem C04_edit_keeps_others : forall g e k, ~ In k (touched e) ->
  ids (apply_edit g e) = ids g /\
  option_map a_h (atom_of (apply_edit g e) k) = option_map a_h (atom_of g k) /\
  calc_implicit (apply_edit g e) k = calc_implicit g k.
Proof. exact edit_keeps_others. Qed.
Print Assumptions C04_edit_keeps_others.

Theorem C04_edits_recalc_fresh : forall g0 es hs g2,
  (forall k, In k (ids g0) -> fresh_at g0 k) ->
  (forall e k, In e es -> In k (touched e) -> In k hs) ->
  recalc_loop (apply_edits g0 es) hs = Ok g2 ->
  ids g2 = ids g0 /\ forall k, In k (ids g2) -> fresh_at g2 k.
Proof. exact edits_recalc_fresh. Qed.
Print Assumptions C04_edits_recalc_fresh.

Theorem C04_edits_recalc_fresh_example :
  fresh_on nickel_carbonyl [1; 2; 3] = true /\ check_valence nickel_carbonyl = [2; 3] /\
  exists g, recalc_loop (apply_edits nickel_carbonyl carbonyl_edits) [1; 2; 3] = Ok g /\ fresh_on g [1; 2; 3] = true /\ check_valence g = [] /\
            map (fun na => (a_chg (snd na), a_h (snd na))) (m_atoms g) = [(-1, Some 0); (1, Some 0); (0, Some 0)] /\
            bond_of g 3 1 = Some (mkBond 8 None).
Proof. exact edits_recalc_fresh_example. Qed.
Print Assumptions C04_edits_recalc_fresh_example.

(* ==== round 4: what the engine collects for recalculation, re-read from the source of Standardize.__standardize on every run ==== *)
Theorem C04_std_engine_writes :
  src_std_afix_writes = ["a._charge"%string; "a._is_radical"%string] /\
  src_std_bfix_writes = ["b._order"%string; "bonds[m][n]"%string; "bonds[n][m]"%string].
Proof. exact std_engine_writes. Qed.
Print Assumptions C04_std_engine_writes.

Theorem C04_std_engine_collects_touched :
  (forall n c r, incl (touched (EState n c r)) (atoms_named src_std_afix_collects n 0)) /\
  (forall n m o, incl (touched (EOrder n m o)) (atoms_named src_std_bfix_collects n m)).
Proof. exact std_engine_collects_touched. Qed.
Print Assumptions C04_std_engine_collects_touched.
