(* C20 -- the RDKit bridge preserves structure and configuration in both directions.  Statements only; proofs in
   Proofs.RdkitProofs.  The bond dictionaries / the `_inorganic` set / the enum constants are regenerated from
   chython/utils/rdkit.py and the two sign tables from chython/algorithms/stereo.py on every run.
   RDKit's own behaviour (element symbols, implicit-hydrogen count, neighbour order of a chiral centre, choice of
   double-bond reference atoms) is universally quantified. *)
From Coq Require Import ZArith List String Bool.
From Model Require Import PyBase Graph PeriodicTable Stereo Rdkit RdkitRegistry.
From Model Require Import RdkitApi RdkitConfApi RdkitBonds RdkitRings.
From Gen Require Import Elements RdkitTables StereoTables RdkitConsts RdkitBody RdkitSign RdkitConf RdkitRegistryBody.
From Proofs Require Import StereoProofs RdkitProofs RdkitExt RdkitExt2 RdkitExt3 RdkitExt4 RdkitExt5 RdkitExt6 RdkitBodyTie RdkitSignTie RdkitConfTie RdkitRegistryTie RdkitInverted RdkitBondsOf RdkitBodyTie2 RdkitRingsTie.
Import ListNotations.
Open Scope string_scope.
Open Scope Z_scope.

(* ---- bond dictionaries (finite, over the generated tables) ---- *)
Theorem C20_bond_maps_inverse :
  (forall o, In o [1; 2; 3; 4; 8] -> exists t, bond_type o = Ok t /\ rdkit_bond_order t = Ok o) /\
  (forall t, In t ["SINGLE"; "DOUBLE"; "TRIPLE"; "AROMATIC"; "DATIVE"] -> exists o, rdkit_bond_order t = Ok o /\ bond_type o = Ok t).
Proof. exact bond_maps_inverse. Qed.
Print Assumptions C20_bond_maps_inverse.

Theorem C20_bond_type_domain : forall o, ~ In o [1; 2; 3; 4; 8] -> bond_type o = Err KeyError.
Proof. exact bond_type_domain. Qed.
Print Assumptions C20_bond_type_domain.

(* NOT inverted: ZERO and UNSPECIFIED are read as order 8 and written back as DATIVE; other types are rejected *)
Theorem C20_bond_maps_inverse_zero_refuted :
  rdkit_bond_order "ZERO" = Ok 8 /\ rdkit_bond_order "UNSPECIFIED" = Ok 8 /\ bond_type 8 = Ok "DATIVE" /\
  rdkit_bond_order "QUADRUPLE" = Err KeyError.
Proof. exact bond_maps_inverse_zero_refuted. Qed.
Print Assumptions C20_bond_maps_inverse_zero_refuted.

Theorem C20_enum_constants :
  chiral_cw = "CHI_TETRAHEDRAL_CW" /\ chiral_ccw = "CHI_TETRAHEDRAL_CCW" /\ bs_cis = "STEREOZ" /\ bs_trans = "STEREOE".
Proof. exact enum_constants. Qed.
Print Assumptions C20_enum_constants.

(* ---- atom attributes ---- *)
(* chython -> RDKit -> chython, for every RDKit symbol function that is faithful to the atomic number, every atom in
   range and EVERY implicit-hydrogen count [impl] RDKit may add: element, isotope, charge, radical flag and coordinates
   come back; the hydrogen count comes back as h + impl; the atom NUMBER comes back as _parsed_mapping *)
Theorem C20_bridge_attributes_inverse_from_to : forall (symbol : Z -> string),
  (forall z e, from_symbol (symbol z) = Some e -> e_num e = z) ->
  forall n keep c h, cvalid symbol c -> c_hyd c = Some h -> 0 <= h ->
    exists r, to_atom n keep c = Ok r /\
      forall impl x y, from_atom symbol impl x y r =
        Ok (mkC (c_num c) (c_iso c) (c_chg c) (c_rad c) (Some (h + impl)) (Some (if keep then n else 0)) x y).
Proof. exact from_to_atom. Qed.
Print Assumptions C20_bridge_attributes_inverse_from_to.

Theorem C20_bridge_attributes_identity_from_to : forall (symbol : Z -> string),
  (forall z e, from_symbol (symbol z) = Some e -> e_num e = z) ->
  forall n c h, cvalid symbol c -> c_hyd c = Some h -> 0 <= h -> c_map c = Some n ->
    exists r, to_atom n true c = Ok r /\ from_atom symbol 0 (c_x c) (c_y c) r = Ok c.
Proof. exact from_to_atom_identity. Qed.
Print Assumptions C20_bridge_attributes_identity_from_to.

(* RDKit -> chython -> RDKit, for every property record from_rdkit_molecule accepts *)
Theorem C20_bridge_attributes_inverse_to_from : forall (symbol : Z -> string),
  (forall z e, from_symbol (symbol z) = Some e -> e_num e = z) ->
  forall impl x y r c n keep, from_atom symbol impl x y r = Ok c -> 0 <= r_exph r + impl ->
    to_atom n keep c =
      Ok (mkR (r_num r) (r_iso r) (r_chg r) (if r_nrad r =? 0 then 0 else 1) (r_exph r + impl) (if keep then n else 0)).
Proof. exact to_from_atom. Qed.
Print Assumptions C20_bridge_attributes_inverse_to_from.

Theorem C20_bridge_attributes_identity_to_from : forall (symbol : Z -> string),
  (forall z e, from_symbol (symbol z) = Some e -> e_num e = z) ->
  forall x y r c n, from_atom symbol 0 x y r = Ok c -> 0 <= r_exph r -> (r_nrad r = 0 \/ r_nrad r = 1) -> r_map r = n ->
    to_atom n true c = Ok r.
Proof. exact to_from_atom_identity. Qed.
Print Assumptions C20_bridge_attributes_identity_to_from.

(* non-vacuity: chython's own symbols satisfy the hypothesis on RDKit's symbols and cover 1..118; a concrete atom *)
Theorem C20_symbol_hypothesis_satisfiable :
  (forall z e, from_symbol (chython_symbol z) = Some e -> e_num e = z) /\
  (forall z, 1 <= z <= 118 -> exists e, from_symbol (chython_symbol z) = Some e /\ e_num e = z).
Proof. exact (conj chython_symbol_faithful chython_symbol_total). Qed.
Print Assumptions C20_symbol_hypothesis_satisfiable.

Theorem C20_bridge_attributes_example :
  let c := mkC 6 (Some 13) 0 true (Some 3) (Some 7) 11 22 in
  cvalid chython_symbol c /\
  match to_atom 7 true c with Ok r => from_atom chython_symbol 0 11 22 r = Ok c | Err _ => False end.
Proof. exact from_to_atom_example. Qed.
Print Assumptions C20_bridge_attributes_example.

(* exactly what is NOT preserved *)
Theorem C20_radical_multiplicity_refuted :
  exists r c, from_atom chython_symbol 0 0 0 r = Ok c /\ r_map r = 1 /\
              exists r', to_atom 1 true c = Ok r' /\ r' <> r /\ r_nrad r = 2 /\ r_nrad r' = 1.
Proof. exact to_from_radicals_refuted. Qed.
Print Assumptions C20_radical_multiplicity_refuted.

Theorem C20_rdkit_map_number_refuted :
  exists r c, from_atom chython_symbol 0 0 0 r = Ok c /\ c_map c = Some 5 /\
              exists r', to_atom 1 true c = Ok r' /\ r_map r = 5 /\ r_map r' = 1.
Proof. exact to_from_mapnum_refuted. Qed.
Print Assumptions C20_rdkit_map_number_refuted.

Theorem C20_added_implicit_hydrogens_refuted :
  exists c r c', c_hyd c = Some 0 /\ to_atom 1 true c = Ok r /\ from_atom chython_symbol 1 0 0 r = Ok c' /\ c_hyd c' = Some 1.
Proof. exact from_to_hydrogens_refuted. Qed.
Print Assumptions C20_added_implicit_hydrogens_refuted.

Theorem C20_no_hydrogen_count_raises : forall n keep c, c_hyd c = None -> to_atom n keep c = Err TypeError.
Proof. exact to_atom_no_hydrogen_count_raises. Qed.
Print Assumptions C20_no_hydrogen_count_raises.

(* ---- bonds ---- *)
Theorem C20_bridge_bond_inverse : forall sym n m o, In o [1; 2; 3; 4; 8] ->
  exists b e t, to_bond sym n m o = Ok (b, e, t) /\
                exists q, from_bond b e t = Ok q /\ same_bond q (n, m, o) = true.
Proof. exact from_to_bond. Qed.
Print Assumptions C20_bridge_bond_inverse.

Theorem C20_dative_points_to_metal : forall s_nonmetal s_metal n m,
  smem s_nonmetal inorganic = true -> smem s_metal inorganic = false ->
  to_bond s_nonmetal n m 8 = Ok (n, m, "DATIVE") /\ to_bond s_metal m n 8 = Ok (n, m, "DATIVE").
Proof. exact dative_points_to_metal. Qed.
Print Assumptions C20_dative_points_to_metal.

Theorem C20_dative_to_from : forall sb se b e,
  smem sb inorganic = true -> smem se inorganic = false ->
  exists q, from_bond b e "DATIVE" = Ok q /\ q = (b, e, 8) /\
            to_bond sb b e 8 = Ok (b, e, "DATIVE") /\ to_bond se e b 8 = Ok (b, e, "DATIVE").
Proof. exact dative_to_from. Qed.
Print Assumptions C20_dative_to_from.

Theorem C20_dative_to_from_refuted :
  from_bond 1 2 "DATIVE" = Ok (1, 2, 8) /\ to_bond "Fe" 1 2 8 = Ok (2, 1, "DATIVE") /\
  from_bond 2 1 "DATIVE" = Ok (2, 1, 8) /\ to_bond "N" 1 2 8 = Ok (1, 2, "DATIVE").
Proof. exact dative_to_from_refuted. Qed.
Print Assumptions C20_dative_to_from_refuted.

Theorem C20_index_map_lookup : forall nums k, NoDup nums -> (k < List.length nums)%nat ->
  midx (index_map nums) (nth k nums 0) = Ok (Z.of_nat k).
Proof. exact index_map_lookup. Qed.
Print Assumptions C20_index_map_lookup.

(* ---- coordinates ---- *)
Theorem C20_bridge_coordinates_from_to : forall xy confs,
  from_conformers (List.length xy) (to_conformers xy confs) = (xy, confs).
Proof. exact from_to_conformers. Qed.
Print Assumptions C20_bridge_coordinates_from_to.

Theorem C20_bridge_coordinates_to_from : forall d ps rest,
  let cs := (d, ps) :: rest in
  let '(xy, confs) := from_conformers (List.length ps) cs in
  to_conformers xy confs = (false, map flat ps) :: map (fun c => (true, snd c)) (filter fst cs).
Proof. exact to_from_conformers. Qed.
Print Assumptions C20_bridge_coordinates_to_from.

Theorem C20_bridge_coordinates_to_from_2d : forall ps, (forall p, In p ps -> flat p = p) ->
  let '(xy, confs) := from_conformers (List.length ps) [(false, ps)] in to_conformers xy confs = [(false, ps)].
Proof. exact to_from_conformers_2d. Qed.
Print Assumptions C20_bridge_coordinates_to_from_2d.

Theorem C20_bridge_coordinates_3d_refuted :
  let cs := [(true, [(1, 2, 3)])] in
  let '(xy, confs) := from_conformers 1 cs in to_conformers xy confs = [(false, [(1, 2, 0)]); (true, [(1, 2, 3)])].
Proof. exact to_from_conformers_3d_refuted. Qed.
Print Assumptions C20_bridge_coordinates_3d_refuted.

(* ---- configuration: tetrahedral ---- *)
(* for EVERY arrangement p of the four neighbours RDKit may use: label -> tag -> label is the identity *)
Theorem C20_bridge_stereo_inverse_th4 : forall (isH : Z -> bool) a b c d p s,
  NoDup [a; b; c; d] -> In p perms4 ->
  let o := [a; b; c; d] in
  exists tag, to_chiral_tag isH (Some o) (sel o p) (Some s) = Ok (Some tag) /\
              sign_of_tag tag = Some (xorb s (odd_perm p)) /\
              from_chiral_tag isH (Some o) (sel o p) tag = Ok (Some s).
Proof. exact bridge_th_from_to4. Qed.
Print Assumptions C20_bridge_stereo_inverse_th4.

Theorem C20_bridge_stereo_inverse_th3 : forall (isH : Z -> bool) a b c q s,
  NoDup [a; b; c] -> In q perms3 ->
  let o := [a; b; c] in
  exists tag, to_chiral_tag isH (Some o) (sel o q) (Some s) = Ok (Some tag) /\
              from_chiral_tag isH (Some o) (sel o q) tag = Ok (Some s).
Proof. exact bridge_th_from_to3. Qed.
Print Assumptions C20_bridge_stereo_inverse_th3.

Theorem C20_bridge_stereo_inverse_th3H : forall (isH : Z -> bool) a b c h p s,
  NoDup [a; b; c; h] -> isH a = false -> isH b = false -> isH c = false -> isH h = true -> In p perms4 ->
  exists tag, to_chiral_tag isH (Some [a; b; c]) (sel [a; b; c; h] p) (Some s) = Ok (Some tag) /\
              from_chiral_tag isH (Some [a; b; c]) (sel [a; b; c; h] p) tag = Ok (Some s).
Proof. exact bridge_th_from_to3H. Qed.
Print Assumptions C20_bridge_stereo_inverse_th3H.

(* tag -> label -> tag, with possibly different arrangements p (source molecule) and p' (rebuilt molecule) *)
Theorem C20_bridge_stereo_inverse_th_to_from : forall (isH : Z -> bool) a b c d p p' tag t,
  NoDup [a; b; c; d] -> In p perms4 -> In p' perms4 -> sign_of_tag tag = Some t ->
  let o := [a; b; c; d] in
  exists s tag', from_chiral_tag isH (Some o) (sel o p) tag = Ok (Some s) /\
                 to_chiral_tag isH (Some o) (sel o p') (Some s) = Ok (Some tag') /\
                 sign_of_tag tag' = Some (xorb t (xorb (odd_perm p) (odd_perm p'))) /\
                 (p' = p -> tag' = tag).
Proof. exact bridge_th_to_from4. Qed.
Print Assumptions C20_bridge_stereo_inverse_th_to_from.

(* the handedness RDKit reads does not depend on the arrangement it happens to use *)
Theorem C20_bridge_stereo_meaning_independent_of_rdkit_order :
  forall (isH : Z -> bool) (meaning : list Z -> bool -> bool) a b c d,
  NoDup [a; b; c; d] ->
  (forall env t, meaning env (negb t) = negb (meaning env t)) ->
  (forall p t, In p perms4 -> meaning (sel [a; b; c; d] p) t = xorb (meaning [a; b; c; d] t) (odd_perm p)) ->
  forall p s, In p perms4 ->
  let o := [a; b; c; d] in
  exists tag t, to_chiral_tag isH (Some o) (sel o p) (Some s) = Ok (Some tag) /\ sign_of_tag tag = Some t /\
                meaning (sel o p) t = meaning o s.
Proof. exact bridge_th_meaning_independent_of_rdkit_order. Qed.
Print Assumptions C20_bridge_stereo_meaning_independent_of_rdkit_order.

(* non-vacuity of the two hypotheses on [meaning] *)
Theorem C20_meaning_hypotheses_satisfiable :
  let meaning := fun (env : list Z) (t : bool) => xorb t (odd_perm env) in
  NoDup [1; 2; 3; 4] /\
  (forall env t, meaning env (negb t) = negb (meaning env t)) /\
  (forall p t, In p perms4 -> meaning (sel [1; 2; 3; 4] p) t = xorb (meaning [1; 2; 3; 4] t) (odd_perm p)).
Proof. exact meaning_instance. Qed.
Print Assumptions C20_meaning_hypotheses_satisfiable.

Theorem C20_no_label_no_tag : forall isH order env,
  to_chiral_tag isH order env None = Ok None /\
  (forall s, to_chiral_tag isH None env s = Ok None) /\
  (forall tag, sign_of_tag tag = None -> from_chiral_tag isH order env tag = Ok None) /\
  (forall tag, from_chiral_tag isH None env tag = Ok None).
Proof. exact no_label_no_tag. Qed.
Print Assumptions C20_no_label_no_tag.

(* ---- configuration: double bonds ---- *)
Theorem C20_bridge_stereo_inverse_ct : forall (isH : Z -> bool) n0 n1 n2 n3 a b s label',
  NoDup [n0; n1; n2; n3] -> In a [0; 2] -> In b [1; 3] ->
  let env := (n0, n1, Some n2, Some n3) in
  sign_of_bs label' = Some (xorb s (ct_parity a b)) ->
  to_bond_stereo env s = (n0, n1, bs_of_sign s) /\
  from_bond_stereo isH (Some env) None (pick (n0, n1, n2, n3) a) (pick (n0, n1, n2, n3) b) label' = Ok (Some s) /\
  from_bond_stereo isH None (Some env) (pick (n0, n1, n2, n3) b) (pick (n0, n1, n2, n3) a) label' = Ok (Some s).
Proof. exact bridge_ct_from_to. Qed.
Print Assumptions C20_bridge_stereo_inverse_ct.

Theorem C20_bridge_stereo_inverse_ct_same_refs : forall (isH : Z -> bool) n0 n1 o2 o3 s,
  let env := (n0, n1, o2, o3) in
  let '(r0, r1, label) := to_bond_stereo env s in
  from_bond_stereo isH (Some env) None r0 r1 label = Ok (Some s) /\
  from_bond_stereo isH None (Some env) r1 r0 label = Ok (Some s).
Proof. exact bridge_ct_from_to_same_refs. Qed.
Print Assumptions C20_bridge_stereo_inverse_ct_same_refs.

Theorem C20_bridge_stereo_inverse_ct_to_from : forall (isH : Z -> bool) n0 n1 n2 n3 a b label z,
  NoDup [n0; n1; n2; n3] -> In a [0; 2] -> In b [1; 3] -> sign_of_bs label = Some z ->
  let env := (n0, n1, Some n2, Some n3) in
  exists s, from_bond_stereo isH (Some env) None (pick (n0, n1, n2, n3) a) (pick (n0, n1, n2, n3) b) label = Ok (Some s) /\
            to_bond_stereo env s = (n0, n1, bs_of_sign (xorb z (ct_parity a b))) /\
            (a = 0 -> b = 1 -> to_bond_stereo env s = (n0, n1, label)).
Proof. exact bridge_ct_to_from. Qed.
Print Assumptions C20_bridge_stereo_inverse_ct_to_from.

(* ---- whole molecules (structure part): to_rdkit_molecule then from_rdkit_molecule ---- *)
(* every well-formed molecule (pairwise different atom numbers, atoms in range with a hydrogen count, bonds between existing
   atoms with an order a chython bond can have) is transferred without error, and what comes back is the same molecule with
   the atoms renumbered 1..N in enumeration order ([expect_atoms]: same element, isotope, charge, radical flag; hydrogens
   h + RDKit's implicit hydrogens; RDKit's coordinates; the old number as map number) and every bond between the renumbered
   ends with its order, in the same order of bonds *)
Theorem C20_bridge_molecule_inverse_from_to : forall (symbol : Z -> string),
  (forall z e, from_symbol (symbol z) = Some e -> e_num e = z) ->
  forall keep atoms bonds,
    NoDup (map fst atoms) -> atoms_ok symbol atoms ->
    (forall n m o, In (n, m, o) bonds -> In n (map fst atoms) /\ In m (map fst atoms) /\ In o [1; 2; 3; 4; 8]) ->
    exists ras rbs, to_mol keep (atoms, bonds) = Ok (ras, rbs) /\
      forall impls xy, exists bonds',
        from_mol symbol impls xy (ras, rbs) = Ok (expect_atoms keep 0 atoms impls xy, bonds') /\
        Forall2 (fun b b' => bond_image (map fst atoms) b (fun i j o => same_bond b' (Z.of_nat i + 1, Z.of_nat j + 1, o) = true)) bonds bonds'.
Proof. exact from_to_mol. Qed.
Print Assumptions C20_bridge_molecule_inverse_from_to.

(* non-vacuity: 13C-labelled ethanol bound to Fe(2+) through an order-8 bond enumerated from the iron, atoms numbered 7 3 9 1 *)
Theorem C20_bridge_molecule_example :
  let atoms := [(7, mkC 6 None 0 false (Some 3) None 0 0); (3, mkC 6 (Some 13) 0 false (Some 2) None 0 0);
                (9, mkC 8 None 0 false (Some 1) None 0 0); (1, mkC 26 None 2 false (Some 0) None 0 0)] in
  let bonds := [(7, 3, 1); (3, 9, 1); (1, 9, 8)] in
  NoDup (map fst atoms) /\ atoms_ok chython_symbol atoms /\
  (forall n m o, In (n, m, o) bonds -> In n (map fst atoms) /\ In m (map fst atoms) /\ In o [1; 2; 3; 4; 8]) /\
  to_mol true (atoms, bonds) = Ok ([mkR 6 0 0 0 3 7; mkR 6 13 0 0 2 3; mkR 8 0 0 0 1 9; mkR 26 0 2 0 0 1],
                                   [(0, 1, "SINGLE"); (1, 2, "SINGLE"); (2, 3, "DATIVE")]).
Proof. exact from_to_mol_example. Qed.
Print Assumptions C20_bridge_molecule_example.

(* ---- whole molecules (structure part): from_rdkit_molecule then to_rdkit_molecule ---- *)
(* whatever from_rdkit_molecule accepts (bond ends are atom indices, no negative hydrogen total) is written back without
   error: the same atoms in the same order ([expect_ratoms]: radical electrons capped at 1, total hydrogens as explicit
   hydrogens, new atom number as map number) and, bond by bond, a bond between the same two atoms whose type is the image of
   the original type under the two dictionaries, begin and end possibly exchanged *)
Theorem C20_bridge_molecule_inverse_to_from : forall (symbol : Z -> string),
  (forall z e, from_symbol (symbol z) = Some e -> e_num e = z) ->
  forall keep impls xy ras rbs atoms bonds,
    from_mol symbol impls xy (ras, rbs) = Ok (atoms, bonds) -> hyd_nonneg ras impls ->
    (forall bi ei t, In (bi, ei, t) rbs -> 0 <= bi < Z.of_nat (List.length ras) /\ 0 <= ei < Z.of_nat (List.length ras)) ->
    exists rbs', to_mol keep (atoms, bonds) = Ok (expect_ratoms keep 0 ras impls, rbs') /\ Forall2 rbond_image rbs rbs'.
Proof. exact to_from_mol. Qed.
Print Assumptions C20_bridge_molecule_inverse_to_from.

(* for the five invertible types the bond comes back with its type, as it was or with begin and end exchanged *)
Theorem C20_bridge_molecule_bond_types_to_from : forall rb rb', rbond_image rb rb' ->
  In (snd rb) ["SINGLE"; "DOUBLE"; "TRIPLE"; "AROMATIC"; "DATIVE"] ->
  rb' = rb \/ rb' = (snd (fst rb), fst (fst rb), snd rb).
Proof. exact to_from_mol_invertible_types. Qed.
Print Assumptions C20_bridge_molecule_bond_types_to_from.

(* non-vacuity: [15NH3+] -> [Cu+] with coordinates and a map number *)
Theorem C20_bridge_molecule_to_from_example :
  let ras := [mkR 7 15 1 0 3 0; mkR 29 0 1 0 0 4] in
  let rbs := [(0, 1, "DATIVE")] in
  from_mol chython_symbol [0; 0] [(1, 2); (3, 4)] (ras, rbs) =
    Ok ([(1, mkC 7 (Some 15) 1 false (Some 3) (Some 0) 1 2); (2, mkC 29 None 1 false (Some 0) (Some 4) 3 4)], [(1, 2, 8)]) /\
  hyd_nonneg ras [0; 0] /\
  to_mol true ([(1, mkC 7 (Some 15) 1 false (Some 3) (Some 0) 1 2); (2, mkC 29 None 1 false (Some 0) (Some 4) 3 4)], [(1, 2, 8)]) =
    Ok ([mkR 7 15 1 0 3 1; mkR 29 0 1 0 0 2], rbs).
Proof. exact to_from_mol_example. Qed.
Print Assumptions C20_bridge_molecule_to_from_example.

(* ---- configuration over whole molecules: to_rdkit_molecule then from_rdkit_molecule ---- *)
(* the sign translation between ANY two arrangements u (registry order) and v (listed order) of one neighbour set *)
Theorem C20_translate_any_two_arrangements : forall (isH : Z -> bool) a b c d u v s,
  NoDup [a; b; c; d] -> In u perms4 -> In v perms4 ->
  translate_th isH (sel [a; b; c; d] u) (sel [a; b; c; d] v) s = Ok (xorb s (xorb (odd_perm u) (odd_perm v))).
Proof. exact translate_th_general4. Qed.
Print Assumptions C20_translate_any_two_arrangements.

(* ALL tetrahedral labels of a molecule.  [atoms] = (number, label) in enumeration order, [th] / [th'] the stereogenic
   registries of the molecule given / rebuilt, [nb] RDKit's neighbour function (indices), [rho] the renumbering.  Hypothesis
   [atoms_wf]: every labelled stereogenic centre has 4 heavy neighbours, 3 + implicit hydrogen or 3 + a hydrogen atom, RDKit
   lists them in SOME arrangement p and the rebuilt molecule holds them, renamed, in SOME arrangement q (p, q arbitrary, per
   centre).  Then the third loop of to_rdkit_molecule writes a tag for exactly these centres, from_rdkit_molecule reads every
   one of them back as a label s' that denotes the same configuration ([same_configuration]: translated to the renamed old
   neighbour order it is the old label), and unlabelled / non-stereogenic atoms get no label. *)
Theorem C20_bridge_stereo_molecule_tetrahedra : forall (isH isH' : Z -> bool) th th' nums nb rho atoms k,
  atoms_wf isH isH' th th' nums nb rho k atoms ->
  exists tags, to_tags isH th nums nb k atoms = Ok tags /\
    exists labels', from_tags isH' th' nb k (map tag_name tags) = Ok labels' /\
                    Forall2 (label_image isH' th th' rho) atoms labels'.
Proof. exact tetrahedra_from_to. Qed.
Print Assumptions C20_bridge_stereo_molecule_tetrahedra.

(* the renumbering the code performs (k-th atom -> k + 1) satisfies the hypothesis on [rho] of [atoms_wf] *)
Theorem C20_renumbering_satisfies_hypothesis : forall nums,
  NoDup nums ->
  (forall k, 0 <= k < Z.of_nat (List.length nums) -> rho_of nums (znth nums k 0) = k + 1) /\
  (forall l, (forall j, In j l -> 0 <= j < Z.of_nat (List.length nums)) ->
             map (fun j => j + 1) l = map (rho_of nums) (map (fun j => znth nums j 0) l)).
Proof. intros nums Hn. split; [intros k Hk; apply rho_of_nth; assumption | intros l Hl; apply rho_of_env; assumption]. Qed.
Print Assumptions C20_renumbering_satisfies_hypothesis.

Theorem C20_bridge_stereo_molecule_example :
  let nums := [3; 7; 9; 4] in
  let atoms := [(3, None); (7, Some true); (9, None); (4, None)] in
  let th := [(7, [3; 9; 4])] in
  let th' := [(2, [1; 4; 3])] in
  let nb := fun k => if k =? 1 then [2; 0; 3] else [1] in
  atoms_wf (fun _ => false) (fun _ => false) th th' nums nb (rho_of nums) 0 atoms /\
  to_tags (fun _ => false) th nums nb 0 atoms = Ok [None; Some "CHI_TETRAHEDRAL_CW"; None; None] /\
  from_tags (fun _ => false) th' nb 0 (map tag_name [None; Some "CHI_TETRAHEDRAL_CW"; None; None]) =
    Ok [(1, None); (2, Some false); (3, None); (4, None)] /\
  translate_th (fun _ => false) [1; 4; 3] (map (rho_of nums) [3; 9; 4]) false = Ok true.
Proof. exact tetrahedra_example. Qed.
Print Assumptions C20_bridge_stereo_molecule_example.

(* ---- direction of a coordinate bond and the order of the atoms ---- *)
(* the code looks at the FIRST atom of the pair data.bonds() yields: when both atoms are inside `_inorganic` or both outside,
   the two enumerations of ONE bond give opposite directions -- for every such pair *)
Theorem C20_dative_direction_follows_order : forall s1 s2 n m, n <> m ->
  smem s1 inorganic = smem s2 inorganic ->
  exists b e, to_bond s1 n m 8 = Ok (b, e, "DATIVE") /\ to_bond s2 m n 8 = Ok (e, b, "DATIVE") /\ (b, e) <> (e, b).
Proof. exact dative_direction_follows_order. Qed.
Print Assumptions C20_dative_direction_follows_order.

(* "one bond, one direction" is false for the code as it is (boron is not in the set: B~Co; both inside: N~O) *)
Theorem C20_dative_direction_order_refuted :
  ~ (forall s1 s2 n m, to_bond s1 n m 8 = Ok (n, m, "DATIVE") <-> to_bond s2 m n 8 = Ok (n, m, "DATIVE")) /\
  smem "B" inorganic = false /\ smem "Co" inorganic = false /\
  to_bond "B" 1 2 8 = Ok (2, 1, "DATIVE") /\ to_bond "Co" 2 1 8 = Ok (1, 2, "DATIVE") /\
  to_bond "N" 1 2 8 = Ok (1, 2, "DATIVE") /\ to_bond "O" 2 1 8 = Ok (2, 1, "DATIVE").
Proof. exact dative_direction_order_refuted. Qed.
Print Assumptions C20_dative_direction_order_refuted.

(* the suggested rule (look at both atoms; exchange only when the first is outside the set S and the second inside): one
   direction from both enumerations whenever exactly one atom is inside S, ... *)
Theorem C20_dative_fixed_order_independent : forall S s_in s_out n m o,
  smem s_in S = true -> smem s_out S = false ->
  to_bond_fixed S s_in s_out n m o = to_bond_fixed S s_out s_in m n o /\
  (forall t, bond_type o = Ok t -> to_bond_fixed S s_in s_out n m o = Ok (n, m, t)).
Proof. exact dative_fixed_order_independent. Qed.
Print Assumptions C20_dative_fixed_order_independent.

(* ... it is the rule of the code on every pair with exactly one atom inside `_inorganic`, ... *)
Theorem C20_dative_fixed_agrees_with_code : forall s_n s_m n m o,
  smem s_n inorganic <> smem s_m inorganic -> to_bond_fixed inorganic s_n s_m n m o = to_bond s_n n m o.
Proof. exact dative_fixed_agrees_with_code. Qed.
Print Assumptions C20_dative_fixed_agrees_with_code.

(* ... with 'B' added to the set it repairs the witness, ... *)
Theorem C20_dative_fixed_repairs_witness :
  to_bond_fixed ("B" :: inorganic) "B" "Co" 1 2 8 = Ok (1, 2, "DATIVE") /\
  to_bond_fixed ("B" :: inorganic) "Co" "B" 2 1 8 = Ok (1, 2, "DATIVE").
Proof. exact dative_fixed_repairs_witness. Qed.
Print Assumptions C20_dative_fixed_repairs_witness.

(* ... and it does NOT make two atoms of one class order-free (missing: a direction-free bond type for them) *)
Theorem C20_dative_fixed_same_class_partial : forall S s1 s2 n m,
  smem s1 S = smem s2 S -> to_bond_fixed S s1 s2 n m 8 = Ok (n, m, "DATIVE") /\ to_bond_fixed S s2 s1 m n 8 = Ok (m, n, "DATIVE").
Proof. exact dative_fixed_same_class_partial. Qed.
Print Assumptions C20_dative_fixed_same_class_partial.

(* one tetrasubstituted double bond, every choice RDKit and the rebuilt molecule have *)
Theorem C20_bridge_stereo_double_bond_any_registry :
  forall (isH' : Z -> bool) (rho : Z -> Z) n0 n1 n2 n3 y0 y1 y2 y3 sw c0 c1 a b s label' nn nm e_be e_eb,
  let old := (n0, n1, n2, n3) in
  let N' := (y0, y1, y2, y3) in
  let E' := (y0, y1, Some y2, Some y3) in
  NoDup [y0; y1; y2; y3] ->
  (forall i, In i [0; 1; 2; 3] -> rho (pick old i) = pick N' (pmap sw c0 c1 i)) ->
  In a [0; 2] -> In b [1; 3] ->
  sign_of_bs label' = Some (xorb s (ct_parity a b)) ->
  ((nn = rho (pick old a) /\ nm = rho (pick old b)) \/ (nn = rho (pick old b) /\ nm = rho (pick old a))) ->
  ((e_be = Some E' /\ e_eb = None) \/ (e_be = None /\ e_eb = Some E')) ->
  to_bond_stereo (n0, n1, Some n2, Some n3) s = (n0, n1, bs_of_sign s) /\
  exists s', from_bond_stereo isH' e_be e_eb nn nm label' = Ok (Some s') /\
             translate_env isH' E' (rho n0) (rho n1) s' = Ok s.
Proof. exact bond_roundtrip. Qed.
Print Assumptions C20_bridge_stereo_double_bond_any_registry.

Theorem C20_bridge_stereo_molecule_double_bonds_example :
  let centers := [(2, (2, 3)); (3, (2, 3))] in
  let ct := [(2, 3, (1, 4, Some 5, Some 6))] in
  let ct' := [(3, 2, (4, 5, Some 6, Some 1))] in
  let bonds := [(1, 2, None); (2, 3, Some true); (3, 4, None)] in
  let rbonds := [(0, 1, "STEREONONE", 0, 0); (2, 1, "STEREOZ", 3, 0); (2, 3, "STEREONONE", 0, 0)] in
  Forall2 (bond_wf (fun x => x) centers ct ct') bonds rbonds /\
  to_bond_labels centers ct bonds = Ok [None; Some (1, 4, "STEREOZ"); None] /\
  from_bond_labels (fun _ => false) ct' rbonds = Ok [(1, 2, None); (3, 2, Some false); (3, 4, None)] /\
  translate_env (fun _ => false) (4, 5, Some 6, Some 1) 1 4 false = Ok true.
Proof. exact double_bonds_example. Qed.
Print Assumptions C20_bridge_stereo_molecule_double_bonds_example.

(* ---- conformers as the code builds them from the dictionaries of data._conformers ---- *)
(* dictionaries holding exactly the atoms in enumeration order give the list model [to_conformers] of the round-trip theorems *)
Theorem C20_conformers_dict_refines : forall nums xy confs,
  NoDup nums -> (forall ps, In ps confs -> List.length ps = List.length nums) ->
  to_conformers_dict nums xy (map (combine nums) confs) = Ok (to_conformers xy confs).
Proof. exact conformers_dict_refines. Qed.
Print Assumptions C20_conformers_dict_refines.

(* a dictionary that misses the last atom raises (AddConformer), one that misses an earlier atom is zero-filled, an unknown
   key raises KeyError *)
Theorem C20_conformers_dict_malformed :
  to_conformers_dict [1; 2; 3] [] [[(1, (1, 2, 3)); (2, (4, 5, 6))]] = Err OtherError /\
  to_conformers_dict [1; 2; 3] [] [[(3, (1, 2, 3))]] = Ok [(false, []); (true, [(0, 0, 0); (0, 0, 0); (1, 2, 3)])] /\
  to_conformers_dict [1; 2; 3] [] [[(1, (1, 2, 3)); (4, (0, 0, 0))]] = Err KeyError.
Proof. exact conformers_dict_malformed. Qed.
Print Assumptions C20_conformers_dict_malformed.

(* ---- double bonds with missing substituents (hydrogens): every arrangement ---- *)
(* the one-end-exchange law of _translate_cis_trans_sign for EVERY pattern of present / missing second substituents: an end is
   (first heavy substituent, second one or None); a reference atom with flag false is the first substituent, with flag true
   the second one or -- when it is missing -- any hydrogen atom; the sign changes by (flag on the first end) xor (flag on the
   last end) *)
Theorem C20_translate_env_law_any : forall (isH : Z -> bool) ya oya yb oyb fa fb x z t,
  env_ok isH (ya, oya) (yb, oyb) -> ref_on isH (ya, oya) fa x -> ref_on isH (yb, oyb) fb z ->
  translate_env isH (ya, yb, oya, oyb) x z t = Ok (xorb t (xorb fa fb)).
Proof. exact translate_env_law_any. Qed.
Print Assumptions C20_translate_env_law_any.

(* one labelled plain double bond with ANY substituent pattern: RDKit names any reference atoms it can (a hydrogen ATOM where
   the substituent is missing), reports the label relative to them, runs the bond either way; the rebuilt molecule keys its
   entry by either orientation with the substituents of an end in either order *)
Theorem C20_bridge_stereo_double_bond_any_pattern :
  forall (isH isH' : Z -> bool) (rho : Z -> Z) n0 n1 o2 o3 ya oya yb oyb (sw c0 c1 a b : bool) x z s label' nn nm e_be e_eb,
  let E' := if sw then (yb, ya, oyb, oya) else (ya, yb, oya, oyb) in
  let fr := if sw then rho z else rho x in
  let lr := if sw then rho x else rho z in
  env_ok isH' (ya, oya) (yb, oyb) ->
  end_image rho c0 (n0, o2) (ya, oya) -> end_image rho c1 (n1, o3) (yb, oyb) ->
  ref_on isH (n0, o2) a x -> ref_on isH (n1, o3) b z ->
  (a = true -> o2 = None -> isH' (rho x) = true) -> (b = true -> o3 = None -> isH' (rho z) = true) ->
  sign_of_bs label' = Some (xorb s (xorb a b)) ->
  ((e_be = Some E' /\ e_eb = None /\ nn = fr /\ nm = lr) \/ (e_be = None /\ e_eb = Some E' /\ nn = lr /\ nm = fr)) ->
  to_bond_stereo (n0, n1, o2, o3) s = (n0, n1, bs_of_sign s) /\
  exists s', from_bond_stereo isH' e_be e_eb nn nm label' = Ok (Some s') /\
             translate_ct isH' (if sw then None else Some E') (if sw then Some E' else None) (rho n0) (rho n1) s' = Ok s.
Proof. exact bond_roundtrip_any. Qed.
Print Assumptions C20_bridge_stereo_double_bond_any_pattern.

(* ALL double-bond labels of a molecule, full statement.  [bond_wf_any] relates each chython bond to what RDKit holds for it:
   nothing written -> no E/Z label; a labelled plain double bond (two, one or no second substituent on either end) -> as in
   the theorem above, per bond.  Then the fourth loop of to_rdkit_molecule writes exactly the labelled plain double bonds and
   from_rdkit_molecule reads each back as a label for which the rebuilt molecule, asked for the renamed old reference atoms
   (_translate_cis_trans_sign(rho cn, rho cm, rho n0, rho n1)), answers the old label; all other bonds get no label. *)
Theorem C20_bridge_stereo_molecule_double_bonds :
  forall (isH isH' : Z -> bool) rho centers ct ct' bonds rbonds,
  Forall2 (bond_wf_any isH isH' rho centers ct ct') bonds rbonds ->
  exists outs, to_bond_labels centers ct bonds = Ok outs /\
    exists labels', from_bond_labels isH' ct' rbonds = Ok labels' /\
                    Forall2 (blabel_image_any isH' rho centers ct ct') bonds labels'.
Proof. exact double_bonds_from_to_full. Qed.
Print Assumptions C20_bridge_stereo_molecule_double_bonds.

(* non-vacuity: F/C([H])=C([H])/Cl with hydrogen ATOMS; RDKit names the hydrogen of the first end as reference atom (and so
   reports the opposite label), runs the bond the other way, the rebuilt molecule keys the entry the other way *)
Theorem C20_bridge_stereo_molecule_double_bonds_full_example :
  let isH := fun x => (x =? 5) || (x =? 6) in
  let centers := [(2, (2, 3)); (3, (2, 3))] in
  let ct := [(2, 3, (1, 4, None, None))] in
  let ct' := [(3, 2, (4, 1, None, None))] in
  let bonds := [(1, 2, None); (2, 3, Some true); (3, 4, None); (2, 5, None); (3, 6, None)] in
  let rbonds := [(0, 1, "STEREONONE", 0, 0); (2, 1, "STEREOE", 3, 4); (2, 3, "STEREONONE", 0, 0); (1, 4, "STEREONONE", 0, 0);
                 (2, 5, "STEREONONE", 0, 0)] in
  Forall2 (bond_wf_any isH isH (fun x => x) centers ct ct') bonds rbonds /\
  to_bond_labels centers ct bonds = Ok [None; Some (1, 4, "STEREOZ"); None; None; None] /\
  from_bond_labels isH ct' rbonds = Ok [(1, 2, None); (3, 2, Some true); (3, 4, None); (2, 5, None); (3, 6, None)] /\
  translate_ct isH (pget ct' (2, 3)) (pget ct' (3, 2)) 1 4 true = Ok true.
Proof. exact double_bonds_full_example. Qed.
Print Assumptions C20_bridge_stereo_molecule_double_bonds_full_example.

(* ---- which labels from_rdkit_molecule can lose (the part after the label loops; fix_stereo is a parameter) ---- *)
(* under the only assumption that fix_stereo erases labels and does nothing else, every atom label of the result is
   [atom_label]: the translation of the CW/CCW tag of that atom, or nothing because (1) the atom has no CW/CCW tag, (2) it is
   not in stereogenic_tetrahedrons, (3) the translation raised KeyError (RDKit lists four neighbours, the registry holds three
   and none of the four is a hydrogen) -- or (4) fix_stereo erased it; and fix_stereo does not even run when the RDKit molecule
   carries no tag and no E/Z label *)
Theorem C20_from_rdkit_final_atom_labels : forall fixs, only_erases fixs ->
  forall (isH : Z -> bool) th ct nb tags rbonds fa fb,
  from_stereo_final fixs isH th ct nb tags rbonds = Ok (fa, fb) ->
  exists keepA : Z -> bool,
    fa = map (fun it => (fst it + 1, if keepA (fst it + 1) then atom_label isH th nb (fst it) (snd it) else None)) (enum_from 0 tags) /\
    (has_tag tags || has_bond_label rbonds = false -> forall n, keepA n = true).
Proof. exact final_atom_labels. Qed.
Print Assumptions C20_from_rdkit_final_atom_labels.

(* nothing is invented, nothing is changed *)
Theorem C20_from_rdkit_final_atom_label_sound : forall fixs, only_erases fixs ->
  forall (isH : Z -> bool) th ct nb tags rbonds fa fb n s,
  from_stereo_final fixs isH th ct nb tags rbonds = Ok (fa, fb) -> In (n, Some s) fa ->
  exists k tag t o, n = k + 1 /\ In (k, tag) (enum_from 0 tags) /\ sign_of_tag tag = Some t /\ zget th n = Some o /\
                    translate_th isH o (map (fun j => j + 1) (nb k)) t = Ok s.
Proof. exact final_atom_label_sound. Qed.
Print Assumptions C20_from_rdkit_final_atom_label_sound.

Theorem C20_from_rdkit_final_bond_labels : forall fixs, only_erases fixs ->
  forall (isH : Z -> bool) th ct nb tags rbonds fa fb,
  from_stereo_final fixs isH th ct nb tags rbonds = Ok (fa, fb) ->
  exists keepB : Z * Z -> bool,
    fb = map (fun rb => let k := (fst (fst (fst (fst rb))) + 1, snd (fst (fst (fst rb))) + 1) in
                        (k, if keepB k then bond_label isH ct rb else None)) rbonds /\
    (has_tag tags || has_bond_label rbonds = false -> forall k, keepB k = true).
Proof. exact final_bond_labels. Qed.
Print Assumptions C20_from_rdkit_final_bond_labels.

(* every cause of a lost label occurs (and the hypothesis on fix_stereo is satisfiable) *)
Theorem C20_lost_label_causes :
  let nb := fun _ : Z => [0; 2; 3] in
  let th := [(2, [1; 3; 4])] in
  let erase2 : stereo_labels -> stereo_labels :=
    fun l => (map (fun p => (fst p, if fst p =? 2 then None else snd p)) (fst l), snd l) in
  let same : stereo_labels -> stereo_labels := fun l => l in
  let tags := ["CHI_UNSPECIFIED"; "CHI_TETRAHEDRAL_CCW"; "CHI_UNSPECIFIED"; "CHI_UNSPECIFIED"] in
  from_stereo_final same (fun _ => false) th [] nb tags [] = Ok ([(1, None); (2, Some true); (3, None); (4, None)], []) /\
  from_stereo_final same (fun _ => false) th [] nb ["CHI_UNSPECIFIED"; "CHI_OTHER"; "CHI_UNSPECIFIED"; "CHI_UNSPECIFIED"] [] =
    Ok ([(1, None); (2, None); (3, None); (4, None)], []) /\
  from_stereo_final same (fun _ => false) [] [] nb tags [] = Ok ([(1, None); (2, None); (3, None); (4, None)], []) /\
  from_stereo_final same (fun _ => false) th [] (fun _ => [0; 2; 3; 4]) (tags ++ ["CHI_UNSPECIFIED"]) [] =
    Ok ([(1, None); (2, None); (3, None); (4, None); (5, None)], []) /\
  from_stereo_final erase2 (fun _ => false) th [] nb tags [] = Ok ([(1, None); (2, None); (3, None); (4, None)], []) /\
  only_erases same /\ only_erases erase2.
Proof. exact lost_label_causes. Qed.
Print Assumptions C20_lost_label_causes.

(* ---- ring double bonds: the cut-off of MoleculeStereo.__chiral_centers that decides whether fix_stereo keeps their label ---- *)
Theorem C20_ring_double_bond_cutoff : forall sizes, ring_bond_chiral sizes = true <-> (forall x, In x sizes -> 8 <= x).
Proof. exact ring_bond_chiral_cutoff. Qed.
Print Assumptions C20_ring_double_bond_cutoff.

Theorem C20_ring_double_bond_cutoff_examples :
  ring_bond_chiral [8] = true /\ ring_bond_chiral [7] = false /\ ring_bond_chiral [9; 12] = true /\ ring_bond_chiral [10; 6] = false.
Proof. exact ring_bond_chiral_examples. Qed.
Print Assumptions C20_ring_double_bond_cutoff_examples.

(* ---- the entry test of MoleculeStereo._chiral_morgan (the atom order the chirality perception of fix_stereo works with) ---- *)
Theorem C20_plain_order_iff_no_label : forall atoms bond_atoms,
  uses_plain_order atoms bond_atoms = true <-> atoms = [] /\ bond_atoms = [].
Proof. exact plain_order_iff_no_label. Qed.
Print Assumptions C20_plain_order_iff_no_label.

(* ---- the stereo registry is a function of the molecule (Model.RdkitRegistry), not an input ---- *)
(* a permutation of distinct atoms IS one of the 24 arrangements *)
Theorem C20_arrangement_of_permutation : forall a b c d l,
  NoDup [a; b; c; d] -> Permutation.Permutation [a; b; c; d] l -> exists q, In q perms4 /\ l = sel [a; b; c; d] q.
Proof. exact arrangement4_of_permutation. Qed.
Print Assumptions C20_arrangement_of_permutation.

(* stereogenic_tetrahedrons of ANY molecule that has the renamed centre with the same element / charge / radical flag, the
   renamed neighbours with the same elements and the same bond orders -- the adjacency in any order -- holds for that centre a
   permutation of the renamed old entry, and no entry where the old molecule has none *)
Theorem C20_registry_equivariant : forall g g' rho n,
  same_kind g g' rho n -> (forall x, In x (nbr_ids g n) -> same_kind g g' rho x) -> same_nbrs g g' rho n ->
  match stereogenic_entry g n with
  | Some env => exists env', stereogenic_entry g' (rho n) = Some env' /\ Permutation.Permutation (map rho env) env'
  | None => stereogenic_entry g' (rho n) = None
  end.
Proof. exact registry_equivariant. Qed.
Print Assumptions C20_registry_equivariant.

Theorem C20_registry_lookup : forall g n, In n (ids g) -> zget (stereogenic_tetrahedrons_of g) n = stereogenic_entry g n.
Proof. exact registry_lookup. Qed.
Print Assumptions C20_registry_lookup.

(* ALL tetrahedral labels of a molecule with the registries COMPUTED from the two graphs.  [graph_wf]: for every labelled
   stereogenic centre, the rebuilt molecule g' has the renamed centre and neighbours with the same element / charge / radical
   flag and the same bond orders (adjacency in ANY order), the neighbours are pairwise different and stay so under the renaming,
   and RDKit lists exactly the neighbours of the centre (in ANY order).  No assumption on registries or arrangements is left:
   they are derived (C20_registry_equivariant, C20_arrangement_of_permutation). *)
Theorem C20_bridge_stereo_molecule_tetrahedra_graph : forall g g' rho nums nb atoms k,
  graph_wf g g' rho nums nb k atoms ->
  exists tags, to_tags (is_hydrogen g) (stereogenic_tetrahedrons_of g) nums nb k atoms = Ok tags /\
    exists labels', from_tags (is_hydrogen g') (stereogenic_tetrahedrons_of g') nb k (map tag_name tags) = Ok labels' /\
      Forall2 (label_image (is_hydrogen g') (stereogenic_tetrahedrons_of g) (stereogenic_tetrahedrons_of g') rho) atoms labels'.
Proof. exact tetrahedra_from_to_graph. Qed.
Print Assumptions C20_bridge_stereo_molecule_tetrahedra_graph.

(* non-vacuity: N(3)-C(7)(-C(9))(-C(4))-H(5), label on C(7); rebuilt with numbers 1..5 and another adjacency order; RDKit lists the
   neighbours of the centre as indices 3, 0, 4, 2 *)
Theorem C20_bridge_stereo_molecule_graph_example :
  let atm := fun z s => mkAtom z None 0 false (Some 0) s in
  let sb := mkBond 1 None in
  let g := mkMol [(3, atm 7 None); (7, atm 6 (Some true)); (9, atm 6 None); (4, atm 6 None); (5, atm 1 None)]
                 [(3, [(7, sb)]); (7, [(3, sb); (9, sb); (4, sb); (5, sb)]); (9, [(7, sb)]); (4, [(7, sb)]); (5, [(7, sb)])] in
  let g' := mkMol [(1, atm 7 None); (2, atm 6 None); (3, atm 6 None); (4, atm 6 None); (5, atm 1 None)]
                  [(1, [(2, sb)]); (2, [(5, sb); (4, sb); (1, sb); (3, sb)]); (3, [(2, sb)]); (4, [(2, sb)]); (5, [(2, sb)])] in
  let nums := [3; 7; 9; 4; 5] in
  let nb := fun k => if k =? 1 then [3; 0; 4; 2] else [1] in
  graph_wf g g' (rho_of nums) nums nb 0 [(3, None); (7, Some true); (9, None); (4, None); (5, None)].
Proof. exact graph_example. Qed.
Print Assumptions C20_bridge_stereo_molecule_graph_example.

(* ---- the constants and test shapes copied by the hand-written models are the ones regenerated from the source ---- *)
(* Gen.RdkitConsts is rewritten on every run from chython/algorithms/stereo.py (H, C, the tests of tetrahedrons and
   stereogenic_tetrahedrons, the ring cut-off of __chiral_centers, the entry test of _chiral_morgan) and from the charge setter of
   chython/periodictable/base/element.py; a source edit of any of them breaks this theorem (or the translator fails closed) *)
Theorem C20_models_use_generated_constants :
  (forall sizes, ring_bond_chiral sizes = negb (existsb (fun x => x <? ring_small_below) sizes)) /\
  (forall a b, uses_plain_order a b = entry_test plain_order_negated a b) /\
  (forall g n, is_tetrahedron g n =
     match atom_of g n with
     | Some a => (a_num a =? stereo_C) && (a_chg a =? 0) && negb (a_rad a) &&
                 forallb (fun mb => b_ord (snd mb) =? tetra_bond_order) (nbrs g n) &&
                 negb (tetra_max_bonds <? Z.of_nat (List.length (nbrs g n)))
     | None => false
     end) /\
  (forall g x, is_hydrogen g x = match atom_of g x with Some a => a_num a =? stereo_H | None => false end) /\
  (forall k : Z, ((k =? 3) || (k =? 4)) = zmem k tetra_env_sizes) /\
  (forall chg, ((4 <? chg) || (chg <? -4)) = ((charge_max <? chg) || (chg <? charge_min))).
Proof. exact models_use_generated_constants. Qed.
Print Assumptions C20_models_use_generated_constants.

(* ---- the adjacency from_rdkit_molecule rebuilds ---- *)
(* atoms first, then add_bond per RDKit bond (appended at both ends): the neighbours of an atom are exactly the bonds incident to
   it, in the order of the bond list *)
Theorem C20_built_neighbours : forall nums bonds k,
  (forall a b o, In (a, b, o) bonds -> In a nums /\ In b nums /\ a <> b) -> In k nums ->
  plain (nbrs_in (build_adj nums bonds) k) = incident k bonds.
Proof. exact built_neighbours. Qed.
Print Assumptions C20_built_neighbours.

(* with the bond list C20_bridge_molecule_inverse_from_to delivers (bond by bond the renamed ends, either way round), the rebuilt
   molecule satisfies the neighbour hypothesis [same_nbrs] of C20_bridge_stereo_molecule_tetrahedra_graph at EVERY atom, whenever
   the adjacency of the molecule given lists every bond of data.bonds() at both ends *)
Theorem C20_rebuilt_same_nbrs : forall nums, NoDup nums -> forall g atoms' B B' n,
  (forall a b o, In (a, b, o) B -> a <> b) -> adjacency_of nums g B ->
  Forall2 (fun b b' => bond_image nums b (fun i j o => same_bond b' (Z.of_nat i + 1, Z.of_nat j + 1, o) = true)) B B' ->
  In n nums ->
  same_nbrs g (mkMol atoms' (build_adj (map (rho_of nums) nums) B')) (rho_of nums) n.
Proof. exact rebuilt_same_nbrs. Qed.
Print Assumptions C20_rebuilt_same_nbrs.

(* ---- end to end: structure AND tetrahedral configuration of a whole molecule, the rebuilt molecule being computed ---- *)
(* The molecule given: atoms, adjacency, data.bonds(), labels.  Hypotheses: it is well formed (pairwise different numbers, atoms in
   range with a hydrogen count, loop-free bonds between its atoms with supported orders, the adjacency lists every bond at both
   ends) and, for every labelled stereogenic centre, RDKit lists that centre's neighbours (as indices, in ANY order).  Then
   to_rdkit_molecule's transfer succeeds, from_rdkit_molecule's transfer succeeds, and in the molecule it rebuilds -- atoms by
   from_mol, adjacency by add_bond in RDKit's bond order, registry by stereogenic_tetrahedrons of THAT graph -- every labelled
   centre carries a label that denotes the same configuration (translated to the renamed old neighbour order it is the old
   label), all other atoms none.  Nothing about registries, arrangements or the rebuilt graph is assumed. *)
Theorem C20_bridge_tetrahedra_end_to_end : forall (symbol : Z -> string),
  (forall z e, from_symbol (symbol z) = Some e -> e_num e = z) ->
  forall keep atoms adj B lab lab' nb impls xy,
  let nums := map fst atoms in
  let rho := rho_of nums in
  let g := mkMol (graph_atoms atoms lab) adj in
  let atoms' := expect_atoms keep 0 atoms impls xy in
  NoDup nums -> atoms_ok symbol atoms ->
  (forall n m o, In (n, m, o) B -> In n nums /\ In m nums /\ In o [1; 2; 3; 4; 8] /\ n <> m) ->
  adjacency_of nums g B ->
  (forall i n, nth_error nums i = Some n -> lab n <> None -> stereogenic_entry g n <> None ->
     NoDup (nbr_ids g n) /\ Permutation.Permutation (nbr_ids g n) (env_old nums nb (Z.of_nat i)) /\
     (forall j, In j (nb (Z.of_nat i)) -> 0 <= j < Z.of_nat (List.length nums))) ->
  exists ras rbs bonds', to_mol keep (atoms, B) = Ok (ras, rbs) /\
    from_mol symbol impls xy (ras, rbs) = Ok (atoms', bonds') /\
    let g' := mkMol (graph_atoms atoms' lab') (build_adj (map rho nums) bonds') in
    exists tags, to_tags (is_hydrogen g) (stereogenic_tetrahedrons_of g) nums nb 0 (map (fun n => (n, lab n)) nums) = Ok tags /\
      exists labels', from_tags (is_hydrogen g') (stereogenic_tetrahedrons_of g') nb 0 (map tag_name tags) = Ok labels' /\
        Forall2 (label_image (is_hydrogen g') (stereogenic_tetrahedrons_of g) (stereogenic_tetrahedrons_of g') rho)
                (map (fun n => (n, lab n)) nums) labels'.
Proof. exact tetrahedra_end_to_end. Qed.
Print Assumptions C20_bridge_tetrahedra_end_to_end.

(* non-vacuity of its hypotheses *)
Theorem C20_bridge_tetrahedra_end_to_end_example :
  let atoms := [(3, mkC 7 None 0 false (Some 2) None 0 0); (7, mkC 6 None 0 false (Some 0) None 0 0);
                (9, mkC 6 None 0 false (Some 3) None 0 0); (4, mkC 6 None 0 false (Some 3) None 0 0);
                (5, mkC 1 None 0 false (Some 0) None 0 0)] in
  let sb := mkBond 1 None in
  let adj := [(3, [(7, sb)]); (7, [(3, sb); (9, sb); (4, sb); (5, sb)]); (9, [(7, sb)]); (4, [(7, sb)]); (5, [(7, sb)])] in
  let B := [(3, 7, 1); (7, 9, 1); (7, 4, 1); (7, 5, 1)] in
  let lab := fun n => if n =? 7 then Some true else None in
  let nb := fun k => if k =? 1 then [3; 0; 4; 2] else [1] in
  let nums := map fst atoms in
  let g := mkMol (graph_atoms atoms lab) adj in
  NoDup nums /\ atoms_ok chython_symbol atoms /\
  (forall n m o, In (n, m, o) B -> In n nums /\ In m nums /\ In o [1; 2; 3; 4; 8] /\ n <> m) /\
  adjacency_of nums g B /\
  (forall i n, nth_error nums i = Some n -> lab n <> None -> stereogenic_entry g n <> None ->
     NoDup (nbr_ids g n) /\ Permutation.Permutation (nbr_ids g n) (env_old nums nb (Z.of_nat i)) /\
     (forall j, In j (nb (Z.of_nat i)) -> 0 <= j < Z.of_nat (List.length nums))) /\
  stereogenic_tetrahedrons_of g = [(7, [3; 9; 4])].
Proof. exact end_to_end_example. Qed.
Print Assumptions C20_bridge_tetrahedra_end_to_end_example.

(* ---- round 4: the model functions ARE the source, translated ----
   Gen.RdkitBody is regenerated on every run by tools/gen_rdkit_body.py from the statements of to_rdkit_molecule /
   from_rdkit_molecule (chython/utils/rdkit.py), one Gallina term per Python statement in the error monad, with the API names read as
   in Model.RdkitApi.  The hand-written model functions the theorems above are about are equal, for all inputs, to these translated
   bodies: an edit of a translated statement that changes behaviour breaks one of the following equalities. *)
(* to_rdkit_molecule, `for n, a in data.atoms()` (first loop): the RDKit atom *)
Theorem C20_translated_to_atom : forall n keep a, g_to_atom n keep a = to_atom n keep a.
Proof. exact tie_to_atom. Qed.
Print Assumptions C20_translated_to_atom.

(* to_rdkit_molecule, `for n, m, b in data.bonds()` (first loop over bonds): the dative-direction exchange and AddBond *)
Theorem C20_translated_to_bond : forall (asym : Z -> pyres string) l n m o,
  g_to_bond asym (midx l) n m o =
  match asym n with
  | Err e => Err e
  | Ok s => match to_bond s n m o with
            | Err e => Err e
            | Ok (bn, en, t) => match midx l bn, midx l en with
                                | Ok bi, Ok ei => Ok (bi, ei, t)
                                | Err e, _ => Err e
                                | _, Err e => Err e
                                end
            end
  end.
Proof. exact tie_to_bond. Qed.
Print Assumptions C20_translated_to_bond.

(* the structure part of to_rdkit_molecule on a whole molecule = the two translated bodies over data.atoms() / data.bonds() *)
Theorem C20_translated_to_mol : forall keep atoms bonds,
  to_mol keep (atoms, bonds) =
  pbind (mapM (fun na => g_to_atom (fst na) keep (snd na)) atoms) (fun ras =>
  pbind (mapM (fun b => let '(n, m, o) := b in
                        g_to_bond (fun k => match zget atoms k with
                                            | None => Err KeyError
                                            | Some a => Ok (chython_symbol (c_num a))
                                            end)
                                  (midx (index_map (map fst atoms))) n m o) bonds) (fun rbs =>
  Ok (ras, rbs))).
Proof. exact tie_to_mol. Qed.
Print Assumptions C20_translated_to_mol.

(* to_rdkit_molecule, second loop over the atoms: the chiral tag *)
Theorem C20_translated_to_tag : forall isH th (mapping : Z -> pyres Z) n s env i, mapping n = Ok i ->
  g_to_tag isH th mapping n s env = to_chiral_tag isH (zget th n) env s.
Proof. exact tie_to_tag. Qed.
Print Assumptions C20_translated_to_tag.

(* to_rdkit_molecule, second loop over the bonds: stereo atoms and E/Z label, per bond and over data.bonds() *)
Theorem C20_translated_to_bond_label : forall centers ct n m s,
  g_to_bond_label centers ct (fun k => Ok k) n m s =
  pyres_map embed_label (to_bond_stereo_sel (zget centers n) n m (match zget centers n with Some c => pget ct c | None => None end) s).
Proof. exact tie_to_bond_label. Qed.
Print Assumptions C20_translated_to_bond_label.

Theorem C20_translated_to_bond_labels : forall centers ct bonds,
  mapM (fun b => let '(n, m, s) := b in g_to_bond_label centers ct (fun k => Ok k) n m s) bonds =
  pyres_map (map embed_label) (to_bond_labels centers ct bonds).
Proof. exact tie_to_bond_labels. Qed.
Print Assumptions C20_translated_to_bond_labels.

(* from_rdkit_molecule, `for ra in data.GetAtoms()`: the chython atom and the entry of tetrahedron_stereo *)
Theorem C20_translated_from_atom : forall symbol impl x y idx nbrs tag r,
  g_from_atom symbol impl x y idx nbrs tag r =
  match from_atom symbol impl x y r with
  | Err e => Err e
  | Ok c => Ok (c, th_entry idx nbrs tag)
  end.
Proof. exact tie_from_atom. Qed.
Print Assumptions C20_translated_from_atom.

(* from_rdkit_molecule, `for b in data.GetBonds()`: add_bond and the entry of cis_trans_stereo *)
Theorem C20_translated_from_bond : forall bi ei t label sb se,
  g_from_bond (fun i => Ok (i + 1)) bi ei t label (sb, se) =
  match from_bond (bi + 1) (ei + 1) t with
  | Err e => Err e
  | Ok q => Ok (q, ct_entry (bi + 1) (ei + 1) (sb + 1) (se + 1) label)
  end.
Proof. exact tie_from_bond. Qed.
Print Assumptions C20_translated_from_bond.

(* the structure part of from_rdkit_molecule on a whole molecule = the translated atom body over data.GetAtoms() (the atom of index i
   is numbered i + 1) and the translated bond body over data.GetBonds() *)
Theorem C20_translated_from_mol : forall symbol impls xy ras rbs,
  from_mol symbol impls xy (ras, rbs) =
  pbind (from_atoms_g symbol 0 ras impls xy) (fun atoms =>
  pbind (mapM (fun b => let '(bi, ei, t) := b in pyres_map fst (g_from_bond (fun i => Ok (i + 1)) bi ei t "" (0, 0))) rbs) (fun bonds =>
  Ok (atoms, bonds))).
Proof. exact tie_from_mol. Qed.
Print Assumptions C20_translated_from_mol.

(* from_rdkit_molecule, "move stereo labels as is": the two try / except KeyError loops *)
Theorem C20_translated_from_label_th : forall isH th k env s tag, sign_of_tag tag = Some s ->
  g_from_label_th isH th (fun i => Ok (i + 1)) k env s = from_chiral_tag isH (zget th (k + 1)) (map (fun j => j + 1) env) tag.
Proof. exact tie_from_label_th. Qed.
Print Assumptions C20_translated_from_label_th.

Theorem C20_translated_from_label_ct : forall isH ct n m nn nm s label, sign_of_bs label = Some s ->
  g_from_label_ct isH ct n m nn nm s = from_bond_stereo isH (pget ct (n, m)) (pget ct (m, n)) nn nm label.
Proof. exact tie_from_label_ct. Qed.
Print Assumptions C20_translated_from_label_ct.

(* from_rdkit_molecule, the statements after the label loops: fix_structure, then fix_stereo iff an entry was collected *)
Theorem C20_translated_from_tail : forall fixs isH th ct nb tags rbonds,
  from_stereo_final fixs isH th ct nb tags rbonds =
  pbind (from_tags isH th nb 0 tags) (fun la =>
  pbind (from_bond_labels isH ct rbonds) (fun lb =>
  g_from_tail (fun l => l) fixs (filter tag_has_sign tags) (filter bond_has_sign rbonds) (la, lb))).
Proof. exact tie_from_tail. Qed.
Print Assumptions C20_translated_from_tail.

(* non-vacuity: the translated bodies compute (a charged radical isotope; both dative directions; an E/Z label in both directions) *)
Theorem C20_translated_examples :
  g_to_atom 7 true (mkC 6 (Some 13) (-1) true (Some 2) None 0 0) = Ok (mkR 6 13 (-1) 1 2 7) /\
  g_to_bond (fun _ => Ok "Fe") (fun k => Ok (k - 1)) 1 2 8 = Ok (1, 0, "DATIVE") /\
  g_to_bond (fun _ => Ok "N") (fun k => Ok (k - 1)) 1 2 8 = Ok (0, 1, "DATIVE") /\
  g_to_bond_label [(1, (1, 2)); (2, (1, 2))] [(1, 2, (3, 4, None, None))] (fun k => Ok k) 1 2 (Some true) = Ok (Some (3, 4), Some "STEREOZ") /\
  g_from_bond (fun i => Ok (i + 1)) 0 1 "DOUBLE" "STEREOE" (2, 3) = Ok (1, 2, 2, Some (1, 2, 3, 4, false)).
Proof. exact tie_examples. Qed.
Print Assumptions C20_translated_examples.

(* ---- round 4: the sign conventions ARE the source, translated ----
   Gen.RdkitSign is regenerated on every run by tools/gen_rdkit_sign.py from the bodies of MoleculeStereo._translate_tetrahedron_sign
   and MoleculeStereo._translate_cis_trans_sign (chython/algorithms/stereo.py): every statement (the if / elif / else chains, the two
   try blocks, the table look-ups) in continuation style in the error monad.  Model.Stereo.translate_th / translate_ct, on which all
   configuration theorems above rest, are equal to the translated bodies for all inputs. *)
Theorem C20_translated_sign_th : forall isH th lab n env (s : bool),
  g_translate_th isH th lab n env (Some s) = pyres_map Some (py_translate_th isH th n env s).
Proof. exact tie_translate_th. Qed.
Print Assumptions C20_translated_sign_th.

(* called without a sign (to_rdkit_molecule): the atom's own label, KeyError without one *)
Theorem C20_translated_sign_th_self : forall isH th lab n env,
  g_translate_th isH th lab n env None = pyres_map Some (py_translate_th_self isH th lab n env).
Proof. exact tie_translate_th_self. Qed.
Print Assumptions C20_translated_sign_th_self.

Theorem C20_translated_sign_ct : forall isH ct centers bl n m nn nm (s : bool),
  g_translate_ct isH ct centers bl n m nn nm (Some s) = pyres_map Some (py_translate_ct isH ct n m nn nm s).
Proof. exact tie_translate_ct. Qed.
Print Assumptions C20_translated_sign_ct.

(* what the API readings used above unfold to: the registry look-up, then Model.Stereo *)
Theorem C20_translated_sign_reading : forall isH th ct n m env nn nm s,
  py_translate_th isH th n env s = match zget th n with None => Err KeyError | Some o => translate_th isH o env s end /\
  py_translate_ct isH ct n m nn nm s = translate_ct isH (pget ct (n, m)) (pget ct (m, n)) nn nm s.
Proof. intros. split; reflexivity. Qed.
Print Assumptions C20_translated_sign_reading.

Theorem C20_translated_sign_examples :
  g_translate_th (fun x => x =? 9) [(5, [1; 2; 3])] None 5 [3; 1; 2] (Some true) = Ok (Some true) /\
  g_translate_th (fun x => x =? 9) [(5, [1; 2; 3])] None 5 [2; 1; 3] (Some true) = Ok (Some false) /\
  g_translate_th (fun x => x =? 9) [(5, [1; 2; 3])] None 5 [9; 1; 2; 3] (Some true) = Ok (Some false) /\
  g_translate_th (fun x => x =? 9) [(5, [1; 2; 3])] None 5 [8; 1; 2; 3] (Some true) = Err KeyError /\
  g_translate_ct (fun x => x =? 9) [(1, 2, (3, 4, Some 5, None))] [] (fun _ _ => Ok None) 1 2 3 4 (Some true) = Ok (Some true) /\
  g_translate_ct (fun x => x =? 9) [(1, 2, (3, 4, Some 5, None))] [] (fun _ _ => Ok None) 1 2 5 4 (Some true) = Ok (Some false) /\
  g_translate_ct (fun x => x =? 9) [(1, 2, (3, 4, Some 5, None))] [] (fun _ _ => Ok None) 2 1 9 5 (Some true) = Ok (Some true) /\
  g_translate_ct (fun x => x =? 9) [(1, 2, (3, 4, Some 5, None))] [] (fun _ _ => Ok None) 1 2 7 4 (Some true) = Err KeyError.
Proof. exact sign_examples. Qed.
Print Assumptions C20_translated_sign_examples.

(* ---- round 4: the conformer part of to_rdkit_molecule, translated (Gen.RdkitConf, tools/gen_rdkit_conf.py) ----
   The hand model writes the 2D conformer as the list of (x, y, 0) in atom order; the code stores the position of atom n at index
   mapping[n].  For distinct atom numbers the translated loop builds exactly that list, and the whole dictionary conformer model is the
   translated steps folded in the order of the code. *)
Theorem C20_translated_conformer_2d : forall atoms, NoDup (map fst atoms) ->
  pbind g_conf_new (fun conf =>
  pbind (foldM (fun conf na => g_conf2d_step (midx (index_map (map fst atoms))) conf (fst na) (snd na)) atoms conf)
        (g_conf2d_finish (List.length atoms))) =
  Ok (false, map pos_of atoms).
Proof. exact tie_conf2d. Qed.
Print Assumptions C20_translated_conformer_2d.

Theorem C20_translated_conformer_3d : forall nums c,
  pbind g_conf3d_new (fun conf =>
  pbind (foldM (fun conf e => g_conf3d_step (midx (index_map nums)) conf (fst e) (snd e)) c conf)
        (g_conf3d_finish (List.length nums))) =
  match fill_conf (index_map nums) [] c with
  | Err e => Err e
  | Ok ps => if Nat.eqb (List.length ps) (List.length nums) then Ok (true, ps) else Err OtherError
  end.
Proof. exact tie_conf3d. Qed.
Print Assumptions C20_translated_conformer_3d.

Theorem C20_translated_conformers : forall atoms confs, NoDup (map fst atoms) ->
  to_conformers_dict (map fst atoms) (map (fun na => (c_x (snd na), c_y (snd na))) atoms) confs =
  pbind (pbind g_conf_new (fun conf =>
         pbind (foldM (fun conf na => g_conf2d_step (midx (index_map (map fst atoms))) conf (fst na) (snd na)) atoms conf)
               (g_conf2d_finish (List.length atoms)))) (fun c2 =>
  pbind (mapM (fun c => pbind g_conf3d_new (fun conf =>
                        pbind (foldM (fun conf e => g_conf3d_step (midx (index_map (map fst atoms))) conf (fst e) (snd e)) c conf)
                              (g_conf3d_finish (List.length (map fst atoms))))) confs) (fun cs =>
  Ok (c2 :: cs))).
Proof. exact tie_to_conformers_dict. Qed.
Print Assumptions C20_translated_conformers.

(* non-vacuity: atoms numbered 7, 3: the position of atom 3 lands at index 1; {3: .., 7: ..} is stored by index; an incomplete
   conformer is refused by AddConformer; a key that is no atom is a KeyError *)
Theorem C20_translated_conformer_examples :
  pbind g_conf_new (fun conf =>
    pbind (foldM (fun conf na => g_conf2d_step (midx (index_map [7; 3])) conf (fst na) (snd na))
                 [(7, mkC 6 None 0 false (Some 0) None 11 12); (3, mkC 8 None 0 false (Some 0) None 21 22)] conf)
          (g_conf2d_finish 2)) = Ok (false, [(11, 12, 0); (21, 22, 0)]) /\
  pbind g_conf3d_new (fun conf => pbind (foldM (fun conf e => g_conf3d_step (midx (index_map [7; 3])) conf (fst e) (snd e)) [(3, (1, 2, 3)); (7, (4, 5, 6))] conf)
                                        (g_conf3d_finish 2)) = Ok (true, [(4, 5, 6); (1, 2, 3)]) /\
  pbind g_conf3d_new (fun conf => pbind (foldM (fun conf e => g_conf3d_step (midx (index_map [7; 3])) conf (fst e) (snd e)) [(7, (4, 5, 6))] conf)
                                        (g_conf3d_finish 2)) = Err OtherError /\
  pbind g_conf3d_new (fun conf => pbind (foldM (fun conf e => g_conf3d_step (midx (index_map [7; 3])) conf (fst e) (snd e)) [(9, (4, 5, 6))] conf)
                                        (g_conf3d_finish 2)) = Err KeyError.
Proof. exact conf_examples. Qed.
Print Assumptions C20_translated_conformer_examples.

(* ---- round 4: the stereo registry model IS the source, translated (Gen.RdkitRegistryBody, tools/gen_rdkit_registry.py) ----
   The loop bodies of MoleculeStereo.tetrahedrons and MoleculeStereo.stereogenic_tetrahedrons (chython/algorithms/stereo.py), with their
   all(..) / any(..) / sum(..) / tuple(..) comprehensions, translated statement by statement over Model.Graph.mol; the registry model
   of Model.RdkitRegistry, from which C20_registry_equivariant and the end-to-end theorem compute the registries, equals them. *)
Theorem C20_translated_tetrahedrons : forall g n,
  is_tetrahedron g n = match atom_of g n with Some a => g_tetra_step g n a | None => false end.
Proof. exact tie_is_tetrahedron. Qed.
Print Assumptions C20_translated_tetrahedrons.

Theorem C20_translated_stereogenic_entry : forall g n,
  stereogenic_entry g n = if is_tetrahedron g n then g_stereogenic_step g n else None.
Proof. exact tie_stereogenic_entry. Qed.
Print Assumptions C20_translated_stereogenic_entry.

Theorem C20_translated_stereogenic_tetrahedrons : forall g,
  stereogenic_tetrahedrons_of g =
  flat_map (fun n => match g_stereogenic_step g n with Some e => [(n, e)] | None => [] end)
           (filter (fun n => match atom_of g n with Some a => g_tetra_step g n a | None => false end) (ids g)).
Proof. exact tie_stereogenic_tetrahedrons. Qed.
Print Assumptions C20_translated_stereogenic_tetrahedrons.

Theorem C20_translated_registry_example :
  let sb := mkBond 1 None in
  let g := mkMol [(3, mkAtom 7 None 0 false (Some 2) None); (7, mkAtom 6 None 0 false (Some 0) None);
                  (9, mkAtom 6 None 0 false (Some 3) None); (4, mkAtom 6 None 0 false (Some 3) None);
                  (5, mkAtom 1 None 0 false (Some 0) None)]
                 [(3, [(7, sb)]); (7, [(3, sb); (9, sb); (4, sb); (5, sb)]); (9, [(7, sb)]); (4, [(7, sb)]); (5, [(7, sb)])] in
  match atom_of g 7 with Some a => g_tetra_step g 7 a | None => false end = true /\
  g_stereogenic_step g 7 = Some [3; 9; 4] /\
  match atom_of g 3 with Some a => g_tetra_step g 3 a | None => true end = false.
Proof. exact registry_examples. Qed.
Print Assumptions C20_translated_registry_example.

(* ---- round 4: the dictionary `inverted = {v: k for k, v in mapping.items()}` (its text is pinned by tools/gen_rdkit_body.py) ----
   to_tags reads inverted[j] as the j-th atom number; with the dictionary modelled as built this is a theorem for distinct atom numbers *)
Theorem C20_inverted_lookup : forall nums j, (j < List.length nums)%nat ->
  inverted_get nums (Z.of_nat j) = Ok (znth nums (Z.of_nat j) 0).
Proof. exact inverted_lookup. Qed.
Print Assumptions C20_inverted_lookup.

Theorem C20_inverted_of_mapping : forall nums k, NoDup nums -> (k < List.length nums)%nat ->
  exists i, midx (index_map nums) (nth k nums 0) = Ok i /\ inverted_get nums i = Ok (nth k nums 0).
Proof. exact inverted_of_mapping. Qed.
Print Assumptions C20_inverted_of_mapping.

Theorem C20_inverted_domain : forall nums j, (j < 0 \/ Z.of_nat (List.length nums) <= j) -> inverted_get nums j = Err KeyError.
Proof. exact inverted_domain. Qed.
Print Assumptions C20_inverted_domain.

Theorem C20_inverted_example : inverted_get [7; 3; 12] 1 = Ok 3 /\ midx (index_map [7; 3; 12]) 3 = Ok 1 /\ inverted_get [7; 3; 12] 3 = Err KeyError.
Proof. exact inverted_example. Qed.
Print Assumptions C20_inverted_example.

(* ---- round 4, FROM HYPOTHESIS TO THEOREM: data.bonds() as a function of the adjacency ----
   Graph.bonds() (`seen` set, row after row) is modelled (Model.RdkitBonds.bonds_of, tied to list(mol.bonds()) of every molecule of
   the registry correspondence).  For every molecule passing the well-formedness test of Model.Graph (also evaluated on those live
   molecules) every atom's neighbours with their orders are, up to order, the bonds of data.bonds() incident to it, and every yielded
   bond joins two different atoms of the molecule and is an entry of the adjacency: the two hypotheses of
   C20_bridge_tetrahedra_end_to_end about the consistency of data.bonds() with the adjacency, formerly only tested, are derived. *)
Theorem C20_bonds_of_adjacency : forall g, wf_mol g = true ->
  (forall k, In k (ids g) -> Permutation.Permutation (plain (nbrs g k)) (incident k (bonds_of g))) /\
  (forall n m o, In (n, m, o) (bonds_of g) -> In n (ids g) /\ In m (ids g) /\ n <> m /\
                                              exists b, bond_of g n m = Some b /\ b_ord b = o).
Proof. exact bonds_of_wf. Qed.
Print Assumptions C20_bonds_of_adjacency.

Theorem C20_bonds_of_example :
  let sb := mkBond 1 None in
  let g := mkMol [(3, mkAtom 7 None 0 false (Some 2) None); (7, mkAtom 6 None 0 false (Some 0) None);
                  (9, mkAtom 6 None 0 false (Some 3) None); (4, mkAtom 6 None 0 false (Some 3) None);
                  (5, mkAtom 1 None 0 false (Some 0) None)]
                 [(3, [(7, sb)]); (7, [(3, sb); (9, sb); (4, sb); (5, sb)]); (9, [(7, sb)]); (4, [(7, sb)]); (5, [(7, sb)])] in
  wf_mol g = true /\ bonds_of g = [(3, 7, 1); (7, 9, 1); (7, 4, 1); (7, 5, 1)].
Proof. exact bonds_of_example. Qed.
Print Assumptions C20_bonds_of_example.

(* the end-to-end theorem with data.bonds() computed: hypotheses about the molecule given are now only its well-formedness test,
   atoms in range, bond orders among the five a chython bond accepts (and RDKit listing each labelled centre's neighbours) *)
Theorem C20_bridge_tetrahedra_end_to_end_wf : forall (symbol : Z -> string),
  (forall z e, from_symbol (symbol z) = Some e -> e_num e = z) ->
  forall keep atoms adj lab lab' nb impls xy,
  let nums := map fst atoms in
  let rho := rho_of nums in
  let g := mkMol (graph_atoms atoms lab) adj in
  let B := bonds_of g in
  let atoms' := expect_atoms keep 0 atoms impls xy in
  wf_mol g = true -> atoms_ok symbol atoms ->
  (forall n m b, bond_of g n m = Some b -> In (b_ord b) [1; 2; 3; 4; 8]) ->
  (forall i n, nth_error nums i = Some n -> lab n <> None -> stereogenic_entry g n <> None ->
     NoDup (nbr_ids g n) /\ Permutation.Permutation (nbr_ids g n) (env_old nums nb (Z.of_nat i)) /\
     (forall j, In j (nb (Z.of_nat i)) -> 0 <= j < Z.of_nat (List.length nums))) ->
  exists ras rbs bonds', to_mol keep (atoms, B) = Ok (ras, rbs) /\
    from_mol symbol impls xy (ras, rbs) = Ok (atoms', bonds') /\
    let g' := mkMol (graph_atoms atoms' lab') (build_adj (map rho nums) bonds') in
    exists tags, to_tags (is_hydrogen g) (stereogenic_tetrahedrons_of g) nums nb 0 (map (fun n => (n, lab n)) nums) = Ok tags /\
      exists labels', from_tags (is_hydrogen g') (stereogenic_tetrahedrons_of g') nb 0 (map tag_name tags) = Ok labels' /\
        Forall2 (label_image (is_hydrogen g') (stereogenic_tetrahedrons_of g) (stereogenic_tetrahedrons_of g') rho)
                (map (fun n => (n, lab n)) nums) labels'.
Proof. exact tetrahedra_end_to_end_wf. Qed.
Print Assumptions C20_bridge_tetrahedra_end_to_end_wf.

(* ---- round 4: the whole-molecule label functions = the translated loop bodies iterated ---- *)
Theorem C20_translated_to_tags : forall isH th (mapping : Z -> pyres Z) nums nb atoms k,
  (forall n s, In (n, s) atoms -> exists i, mapping n = Ok i) ->
  to_tags isH th nums nb k atoms = to_tags_g isH th mapping nums nb k atoms.
Proof. exact tie_to_tags. Qed.
Print Assumptions C20_translated_to_tags.

Theorem C20_translated_from_tags : forall isH th nb tags k, from_tags isH th nb k tags = from_tags_g isH th nb k tags.
Proof. exact tie_from_tags. Qed.
Print Assumptions C20_translated_from_tags.

Theorem C20_translated_from_bond_labels : forall isH ct rbonds,
  from_bond_labels isH ct rbonds = mapM (from_bond_label_g isH ct) rbonds.
Proof. exact tie_from_bond_labels. Qed.
Print Assumptions C20_translated_from_bond_labels.

(* ---- round 5: which double bonds are "ring double bonds" (MoleculeStereo.ring_cumulenes_terminals) ----
   Only the double bonds selected by this test are subject to the small-ring rule (C20_ring_double_bond_cutoff).  The test is translated
   from the source on every run (g_ring_terminal, tools/gen_rdkit_registry.py); it selects a bond exactly when both ends are ring atoms
   that lie in a COMMON ring: a double bond joining two different rings keeps its configuration whatever the ring sizes. *)
Theorem C20_translated_ring_terminal : forall ar n m, g_ring_terminal ar n m = ring_terminal ar n m.
Proof. exact tie_ring_terminal. Qed.
Print Assumptions C20_translated_ring_terminal.

Theorem C20_ring_terminal_iff_common_ring : forall ar n m,
  ring_terminal ar n m = true <->
  In n (keys ar) /\ In m (keys ar) /\ exists r, In r (ar_get ar n) /\ In r (ar_get ar m).
Proof. exact ring_terminal_common_ring. Qed.
Print Assumptions C20_ring_terminal_iff_common_ring.

Theorem C20_ring_terminal_examples :
  ring_terminal [(2, [[1; 2; 3; 4; 5]]); (6, [[6; 7; 8; 9; 10]])] 2 6 = false /\
  ring_terminal [(2, [[1; 2; 3; 4; 5; 6; 7; 8]]); (3, [[1; 2; 3; 4; 5; 6; 7; 8]])] 2 3 = true /\
  ring_terminal [(2, [[1; 2; 3; 4; 5]])] 2 6 = false.
Proof. exact ring_terminal_examples. Qed.
Print Assumptions C20_ring_terminal_examples.
