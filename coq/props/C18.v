(* C18 -- periodic table data are complete and mutually consistent.
   Only statements here; proofs are in Proofs.PeriodicTable.  Tables are regenerated from /repo. *)
From Coq Require Import ZArith List String Bool.
From Model Require Import PyBase PeriodicTable IsoBits Valence.
From Gen Require Import Elements RuntimeDump IsoLayout ElemCode ElemRules ElemVariants.
From Proofs Require Import PeriodicTable IsoLayoutTie PeriodicMatcher ElemCodeTie ElemRulesTie ElemRulesExt ElemVariantsTie.
Import ListNotations.
Open Scope Z_scope.

Theorem C18_lookups_inverse_and_standard :
  forall n, 1 <= n <= 118 ->
    exists e, from_number n = Some e /\ e_num e = n /\ e_sym e = std_symbol n /\
              exists e', from_symbol (e_sym e) = Some e' /\ e_num e' = n /\ e_sym e' = e_sym e.
Proof. exact lookups_inverse_std. Qed.
Print Assumptions C18_lookups_inverse_and_standard.

Theorem C18_table_shape :
  List.length elements = 118%nat /\ nodup_z (map e_num elements) = true /\ nodup_s (map e_sym elements) = true /\
  forallb (fun e => (1 <=? e_num e) && (e_num e <=? 118)) elements = true.
Proof. exact table_shape. Qed.
Print Assumptions C18_table_shape.

Theorem C18_out_of_range_rejected : from_number 0 = None /\ from_number 119 = None /\ from_number (-1) = None.
Proof. exact out_of_range_rejected. Qed.
Print Assumptions C18_out_of_range_rejected.

Theorem C18_period_group_standard :
  forallb (fun e => (e_period e =? std_period (e_num e)) && (e_group e =? std_group (e_num e))) elements = true.
Proof. exact period_group_std. Qed.
Print Assumptions C18_period_group_standard.

Theorem C18_isotope_tables_consistent :
  forall e, In e elements ->
    (forall k, In k (keys (e_dist e)) <-> In k (keys (e_mass e))) /\ mass_computable e = true /\ e_dist e <> [].
Proof. exact isotopes_consistent. Qed.
Print Assumptions C18_isotope_tables_consistent.

Theorem C18_average_mass_defined :
  forallb (fun e => match avg_mass_e24 e with Some m => 0 <? m | None => false end) elements = true.
Proof. exact avg_mass_defined_positive. Qed.
Print Assumptions C18_average_mass_defined.

Theorem C18_abundances_normalised :
  forallb (fun e => forallb (fun kv => 0 <=? fst (snd kv)) (e_dist e) &&
                    (Z.abs (dist_sum_e12 e - 10 ^ 12) <=? 10 ^ 9)) elements = true.
Proof. exact abundances_normalised. Qed.
Print Assumptions C18_abundances_normalised.

(* full statement "the reference isotope is among the keys" is false on the unchanged tree: _partial names the
   19 exceptions (known findings), _refuted shows the list is exact and gives the Br witness *)
Theorem C18_reference_isotope_tabulated_partial :
  forall e, In e elements -> In (e_mdl e) (keys (e_dist e)) \/ In (e_sym e) mdl_isotope_exceptions.
Proof. exact reference_isotope_or_known. Qed.
Print Assumptions C18_reference_isotope_tabulated_partial.

Theorem C18_reference_isotope_tabulated_refuted :
  forallb (fun e => negb (smem (e_sym e) mdl_isotope_exceptions) || negb (mdl_in_keys e)) elements = true /\
  existsb (fun e => String.eqb (e_sym e) "Br" && (e_mdl e =? 80) && negb (mdl_in_keys e)) elements = true.
Proof. exact reference_isotope_tabulated_refuted. Qed.
Print Assumptions C18_reference_isotope_tabulated_refuted.

Theorem C18_reference_isotope_near :
  forallb (fun e => forallb (fun k => (-8 <=? k - e_mdl e) && (k - e_mdl e <=? 8)) (keys (e_dist e))) elements = true.
Proof. exact reference_isotope_near. Qed.
Print Assumptions C18_reference_isotope_near.

Theorem C18_isotopes_representable :
  forall e i, In e elements -> isotope_accepted e i = true ->
    1 <= pack_isotope_field e i <= 31 /\ unpack_isotope e (pack_isotope_field e i) = i /\
    46 <= matcher_isotope_bit e i <= 62.
Proof. exact isotopes_representable. Qed.
Print Assumptions C18_isotopes_representable.

Theorem C18_pyx_isotope_tables :
  pack_common_isotopes = unpack_common_isotopes /\ List.length pack_common_isotopes = 119%nat /\
  forallb (fun e => znth pack_common_isotopes (e_num e) (-1000) =? e_mdl e - 16) elements = true.
Proof. exact pyx_isotope_tables. Qed.
Print Assumptions C18_pyx_isotope_tables.

Theorem C18_unpack_elements_table : unpack_elements = "None"%string :: std_symbols.
Proof. exact unpack_elements_table. Qed.
Print Assumptions C18_unpack_elements_table.

Theorem C18_charge_fields :
  forallb (fun c => (0 <=? c + 4) && (c + 4 <=? 15) && (35 <=? c + 39) && (c + 39 <=? 43)) (zrange (-4) 5) = true.
Proof. exact charge_fields. Qed.
Print Assumptions C18_charge_fields.

Theorem C18_hydrogens_representable :
  forallb (fun e => forallb (fun h => (0 <=? h) && (h <=? 4)) (tabulated_h e)) elements = true.
Proof. exact hydrogens_representable. Qed.
Print Assumptions C18_hydrogens_representable.

Theorem C18_number_fields :
  forallb (fun n => (n <=? 127) &&
                    (if n <=? 56 then (1 <=? 57 - n) && (57 - n <=? 56)
                     else let m := if 116 <? n then 116 else n in (4 <=? 120 - m) && (120 - m <=? 63)))
          all_numbers = true.
Proof. exact number_fields. Qed.
Print Assumptions C18_number_fields.

Theorem C18_valence_tables_compile :
  forallb (fun e => forallb (fun s => match from_symbol s with Some _ => true | None => false end) (env_symbols e) &&
                    negb (match e_common e with [] => true | _ => false end) &&
                    forallb (fun v => 0 <=? v) (e_common e) &&
                    forallb (fun r => let '(c, _, h, env) := r in
                                      (-4 <=? c) && (c <=? 4) && (0 <=? h) &&
                                      forallb (fun be => (1 <=? fst be) && (fst be <=? 3)) env) (e_exc e))
          elements = true.
Proof. exact valence_tables_compile. Qed.
Print Assumptions C18_valence_tables_compile.

Theorem C18_runtime_subclasses_are_elements : rt_subclasses = map e_sym elements.
Proof. exact runtime_subclasses_are_elements. Qed.
Print Assumptions C18_runtime_subclasses_are_elements.

Theorem C18_runtime_lookups_agree :
  forallb (fun r => let '(s, n, s') := r in
                    match from_symbol s with Some e => (e_num e =? n) && String.eqb (e_sym e) s' | None => false end)
          rt_by_symbol = true /\
  forallb (fun r => match from_number (fst r) with
                    | Some e => String.eqb (e_sym e) (snd r)
                    | None => String.eqb (snd r) ""
                    end) rt_by_number = true /\
  map fst rt_by_number = zrange 0 121.
Proof. exact runtime_lookups_agree. Qed.
Print Assumptions C18_runtime_lookups_agree.

Theorem C18_runtime_mass_and_rules_agree :
  rt_mass_ok = map (fun e => (e_sym e, mass_computable e)) elements /\
  forallb (fun r => snd r) rt_rules_ok = true /\ map fst rt_rules_ok = map e_sym elements.
Proof. exact runtime_mass_and_rules_agree. Qed.
Print Assumptions C18_runtime_mass_and_rules_agree.

Theorem C18_variants_exist :
  forallb (fun e => existsb (fun r => String.eqb (fst r) ("Dynamic" ++ e_sym e) && (snd r =? e_num e)) rt_dynamic &&
                    existsb (fun r => let '(s, n, m) := r in
                                      String.eqb s ("Query" ++ e_sym e) && (n =? e_num e) && (m =? e_mdl e)) rt_query)
          elements = true /\
  List.length rt_dynamic = 118%nat /\ List.length rt_query = 118%nat.
Proof. exact variants_exist. Qed.
Print Assumptions C18_variants_exist.

(* ---- matcher bit layout AS WRITTEN IN THE SOURCE: Gen.IsoLayout is regenerated from the statements of
        MoleculeIsomorphism._cython_compiled_structure / QueryIsomorphism._cython_compiled_query (tools/gen_isolayout.py) ---- *)

(* the regenerated encoders are, for every atom / query atom / query bond, the hand-written model encoders on which the
   C09 exactness theorems are proved (a changed literal, shift, threshold or branch breaks this) *)
Theorem C18_source_structure_layout_is_model : forall a, g_enc_atom a = enc_atom a.
Proof. exact g_enc_atom_eq. Qed.
Print Assumptions C18_source_structure_layout_is_model.

Theorem C18_source_query_layout_is_model : forall q b, g_enc_qatom q b = enc_qatom q b.
Proof. exact g_enc_qatom_eq. Qed.
Print Assumptions C18_source_query_layout_is_model.

(* every tabulated state (118 elements x (no isotope | tabulated isotope) x charge -4..4 x radical x hydrogens 0..4) lies in
   the range where the mask test is exact ... *)
Theorem C18_tabulated_states_in_matcher_range : forallb (fun e => forallb atom_ok (state_atoms e)) elements = true.
Proof. exact tabulated_states_atom_ok. Qed.
Print Assumptions C18_tabulated_states_in_matcher_range.

(* ... is found, on the source encoders, by the element / any-element / list queries that leave isotope and hydrogens open
   and by the query spelling its isotope out, and is not found by a query with another hydrogen count ... *)
Theorem C18_tabulated_states_found_by_source_layout : forallb (fun e => forallb state_found (state_atoms e)) elements = true.
Proof. exact tabulated_states_found. Qed.
Print Assumptions C18_tabulated_states_found_by_source_layout.

(* ... and for EVERY in-range query the source layout decides the reference comparison __eq__ on it *)
Theorem C18_tabulated_states_decided_by_source_layout : forall e a q,
  In e elements -> In a (state_atoms e) -> query_ok q = true -> elem_hyp q (la_num a) ->
  mask_match_first (g_enc_qatom q None) (g_enc_atom a) = match_atom q a.
Proof. exact tabulated_states_decided. Qed.
Print Assumptions C18_tabulated_states_decided_by_source_layout.

Theorem C18_tabulated_state_example :
  exists e, from_number 7 = Some e /\ In (mkLA 7 (Some 15) 1 false 0 1 (Some 4) 0 []) (state_atoms e).
Proof. exact state_atoms_example. Qed.
Print Assumptions C18_tabulated_state_example.

(* ---- the validating / lookup / mass methods AS WRITTEN IN THE SOURCE: Gen.ElemCode is regenerated from the bodies of
        Element.isotope / charge / is_radical (setters), __init__, atomic_mass, from_symbol, from_atomic_number of
        chython/periodictable/base/element.py (tools/gen_elemcode.py, statement by statement, fail closed) ---- *)

(* the regenerated bodies are the hand model, for EVERY value (None, ints, bools, other types), every element record and every
   state of the class cache that the code itself can produce (a changed test, bound, exception or table breaks these) *)
Theorem C18_source_isotope_setter_is_model : forall e v, g_isotope_set e v = isotope_set_spec e v.
Proof. exact g_isotope_set_eq. Qed.
Print Assumptions C18_source_isotope_setter_is_model.

Theorem C18_source_charge_setter_is_model : forall e v, g_charge_set e v = charge_set_spec v.
Proof. exact g_charge_set_eq. Qed.
Print Assumptions C18_source_charge_setter_is_model.

Theorem C18_source_radical_setter_is_model : forall e v, g_is_radical_set e v = is_radical_set_spec v.
Proof. exact g_is_radical_set_eq. Qed.
Print Assumptions C18_source_radical_setter_is_model.

Theorem C18_source_init_is_model : forall e i c r d, g_init e i c r d = init_spec e i c r d.
Proof. exact g_init_eq. Qed.
Print Assumptions C18_source_init_is_model.

Theorem C18_source_atomic_mass_is_model : forall e iso, g_atomic_mass e iso = mass_spec e iso.
Proof. exact g_atomic_mass_eq. Qed.
Print Assumptions C18_source_atomic_mass_is_model.

Theorem C18_source_from_symbol_is_model : forall s, g_from_symbol s = from_symbol_spec s.
Proof. exact g_from_symbol_eq. Qed.
Print Assumptions C18_source_from_symbol_is_model.

Theorem C18_source_from_atomic_number_is_model : forall c n, cache_ok c ->
  g_from_atomic_number c n = (from_number_spec n, filled_cache).
Proof. exact g_from_atomic_number_eq. Qed.
Print Assumptions C18_source_from_atomic_number_is_model.

(* any sequence of number lookups from a fresh interpreter (empty class cache): every answer is the model's, whatever was
   asked before -- the cache never changes an answer *)
Theorem C18_source_lookup_history : forall ns c, cache_ok c -> run_lookups c ns = map from_number_spec ns.
Proof. exact run_lookups_eq. Qed.
Print Assumptions C18_source_lookup_history.

(* clause 1 of C18 on the translated lookups, and rejection of every number outside 1..118 *)
Theorem C18_source_lookups_inverse_and_standard : forall n c, 1 <= n <= 118 -> cache_ok c ->
  exists e, fst (g_from_atomic_number c n) = Ok e /\ e_num e = n /\ e_sym e = std_symbol n /\
            exists e', g_from_symbol (e_sym e) = Ok e' /\ e_num e' = n /\ e_sym e' = e_sym e.
Proof. exact source_lookups_inverse_std. Qed.
Print Assumptions C18_source_lookups_inverse_and_standard.

Theorem C18_source_lookups_reject : forall n c, cache_ok c -> ~ (1 <= n <= 118) -> fst (g_from_atomic_number c n) = Err ValueError.
Proof. exact source_lookups_reject. Qed.
Print Assumptions C18_source_lookups_reject.

(* every tabulated state is constructible by the translated __init__ and stored unchanged (with and without isotope); an int
   isotope that is not tabulated, or a charge outside -4..4, raises ValueError; delta_isotope counts from mdl_isotope *)
Theorem C18_source_tabulated_states_constructible : forall e i c r,
  isotope_accepted e i = true -> -4 <= c <= 4 ->
  g_init e (VInt i) (VInt c) (VBool r) VNone = Ok (VInt i, VInt c, VBool r) /\
  g_init e VNone (VInt c) (VBool r) VNone = Ok (VNone, VInt c, VBool r).
Proof. intros e i c r Hi Hc. split; [exact (init_tabulated e i c r Hi Hc) | exact (init_no_isotope e c r Hc)]. Qed.
Print Assumptions C18_source_tabulated_states_constructible.

Theorem C18_source_untabulated_states_rejected : forall e i c r,
  (isotope_accepted e i = false -> g_init e (VInt i) (VInt c) (VBool r) VNone = Err ValueError) /\
  (isotope_accepted e i = true -> ~ (-4 <= c <= 4) -> g_init e (VInt i) (VInt c) (VBool r) VNone = Err ValueError).
Proof. exact init_rejects. Qed.
Print Assumptions C18_source_untabulated_states_rejected.

Theorem C18_source_delta_isotope : forall e c r d, g_init e VNone c r (VInt d) = g_init e (VInt (e_mdl e + d)) c r VNone.
Proof. exact init_delta. Qed.
Print Assumptions C18_source_delta_isotope.

(* the translated atomic_mass raises for no element: the average is defined and positive, and so is the mass of every isotope
   the translated setter accepts *)
Theorem C18_source_mass_defined : forall e, In e elements ->
  (exists m, g_atomic_mass e None = Ok (MSum m) /\ 0 < m) /\
  (forall i, isotope_accepted e i = true -> exists m, g_atomic_mass e (Some i) = Ok (MOne m) /\ 0 < fst m).
Proof. exact source_mass_defined. Qed.
Print Assumptions C18_source_mass_defined.

Theorem C18_source_examples :
  (exists e, g_from_symbol "C" = Ok e /\ e_num e = 6 /\
             g_init e (VInt 14) (VInt (-1)) (VBool true) VNone = Ok (VInt 14, VInt (-1), VBool true) /\
             g_init e (VInt 15) (VInt 0) (VBool false) VNone = Err ValueError /\
             g_init e VNone (VInt 5) (VBool false) VNone = Err ValueError /\
             g_init e VNone (VInt 0) (VBool false) (VInt 1) = Ok (VInt 13, VInt 0, VBool false) /\
             g_init e VOther (VInt 0) (VBool false) VNone = Err TypeError /\
             g_atomic_mass e (Some 13) = Ok (MOne (13003355, 6%nat))) /\
  g_from_symbol "Xx" = Err ValueError /\
  run_lookups [] [8; 0; 6; 119; 8] = map from_number_spec [8; 0; 6; 119; 8].
Proof. exact source_examples. Qed.
Print Assumptions C18_source_examples.

(* ---- the valence-table compilers AS WRITTEN IN THE SOURCE: Gen.ElemRules is regenerated from the bodies of
        Element._compiled_valence_rules / _compiled_saturation_rules / _compiled_charge_radical / valence_rules
        (tools/gen_elemrules.py: assignments, defaultdict / set / list mutations, if/else, nested for loops, raising subscripts) ---- *)

(* the regenerated compiler is the hand model of Model.Valence (on which the C04 theorems are proved) for EVERY element record,
   including records whose tables make it raise *)
Theorem C18_source_valence_compiler_is_model : forall e, g_compiled_valence_rules e = compiled_rules e.
Proof. exact g_compiled_valence_rules_eq. Qed.
Print Assumptions C18_source_valence_compiler_is_model.

Theorem C18_source_valence_rules_is_model : forall e c r v, g_valence_rules e c r v = valence_rules e c r v.
Proof. exact g_valence_rules_eq. Qed.
Print Assumptions C18_source_valence_rules_is_model.

(* clause "valence rule tables compile" on the translated code: for each of the 118 elements both compilers return, the rule
   table is non-empty and well formed (charges -4..4, bond orders 1..3, neighbour numbers 1..118, hydrogens 0..4, set = keys of dict) *)
Theorem C18_source_valence_tables_compile : forall e, In e elements ->
  exists t l, g_compiled_valence_rules e = Ok t /\ g_compiled_saturation_rules e = Ok l /\ t <> [] /\ rule_table_ok t = true.
Proof. exact source_valence_tables_compile. Qed.
Print Assumptions C18_source_valence_tables_compile.

(* clause "every tabulated hydrogen count is representable": whatever rule the translated valence_rules returns, for any element
   of the table and any charge / radical / valence, assigns 0..4 hydrogens *)
Theorem C18_source_rule_hydrogens_representable : forall e c r v l x, In e elements ->
  g_valence_rules e c r v = Ok l -> In x l -> 0 <= r_h x <= 4.
Proof. exact source_rule_hydrogens. Qed.
Print Assumptions C18_source_rule_hydrogens_representable.

Theorem C18_source_compile_empty_common : forall e, e_common e = [] -> g_compiled_valence_rules e = Err IndexError.
Proof. exact source_compile_empty_common. Qed.
Print Assumptions C18_source_compile_empty_common.

(* the complete case analysis of the translated compiler's outcome for ANY element record (by induction over the tables): IndexError
   iff _common_valences is empty; otherwise it returns iff every symbol of every exception environment names an element class, and
   raises KeyError if one does not; the 118 tables are well formed in this sense *)
Theorem C18_source_compile_outcome : forall e,
  (e_common e = [] -> g_compiled_valence_rules e = Err IndexError) /\
  (e_common e <> [] -> exceptions_known e = true -> exists t, g_compiled_valence_rules e = Ok t) /\
  (e_common e <> [] -> exceptions_known e = false -> g_compiled_valence_rules e = Err KeyError).
Proof. exact source_compile_outcome. Qed.
Print Assumptions C18_source_compile_outcome.

Theorem C18_tables_well_formed :
  forallb (fun e => negb (match e_common e with [] => true | _ => false end) && exceptions_known e) elements = true.
Proof. exact tables_well_formed_all. Qed.
Print Assumptions C18_tables_well_formed.

Theorem C18_source_rules_examples :
  g_valence_rules el_C 0 false 4 = Ok [mkRule [] [] 0] /\
  g_valence_rules el_C 0 false 1 = Ok [mkRule [] [] 3] /\
  g_valence_rules el_C 0 false 5 = Err ValenceError /\
  g_valence_rules el_N 1 false 4 = Ok [mkRule [] [] 0] /\
  g_compiled_charge_radical el_H = [(1, false); (0, true); (-1, false)] /\
  g_compiled_valence_rules (mkElem "X" 119 8 1 [] [] [] [] (0, 0%nat) 0 false false) = Err IndexError /\
  g_compiled_valence_rules (mkElem "X" 119 8 1 [] [] [1] [(0, true, 0, [(1, "Xx"%string)])] (0, 0%nat) 0 false false) = Err KeyError.
Proof. exact source_rules_examples. Qed.
Print Assumptions C18_source_rules_examples.

(* ---- the generated Query* / Dynamic* classes AS WRITTEN IN THE SOURCE: Gen.ElemVariants is regenerated from the two class-creating
        loops of periodictable/__init__.py and from atomic_symbol / from_symbol / from_atomic_number of DynamicElement (base/dynamic.py)
        and QueryElement (base/query.py) (tools/gen_elemvariants.py) ---- *)

(* clause "query and dynamic variants exist with the same number": for every element both variant classes are found by number and by
   symbol, carry the element's number (the query class also its reference isotope) and report the element's symbol *)
Theorem C18_source_variants_exist : forall e, In e elements ->
  g_dynamic_from_atomic_number (e_num e) = Ok (mkV ("Dynamic" ++ e_sym e) (e_num e) None) /\
  g_dynamic_from_symbol (e_sym e) = Ok (mkV ("Dynamic" ++ e_sym e) (e_num e) None) /\
  g_query_from_atomic_number (e_num e) = Ok (QClass (mkV ("Query" ++ e_sym e) (e_num e) (Some (e_mdl e)))) /\
  g_query_from_symbol (e_sym e) = Ok (QClass (mkV ("Query" ++ e_sym e) (e_num e) (Some (e_mdl e)))) /\
  g_dynamic_symbol (mkV ("Dynamic" ++ e_sym e) (e_num e) None) = e_sym e /\
  g_query_symbol (mkV ("Query" ++ e_sym e) (e_num e) (Some (e_mdl e))) = e_sym e.
Proof. exact source_variants_exist. Qed.
Print Assumptions C18_source_variants_exist.

Theorem C18_source_variants_by_number : forall n, 1 <= n <= 118 ->
  exists d q, g_dynamic_from_atomic_number n = Ok d /\ g_query_from_atomic_number n = Ok (QClass q) /\
              g_dynamic_symbol d = std_symbol n /\ g_query_symbol q = std_symbol n /\ v_num d = n /\ v_num q = n.
Proof. exact source_variants_by_number. Qed.
Print Assumptions C18_source_variants_by_number.

Theorem C18_source_variants_reject : forall n, ~ (1 <= n <= 118) ->
  g_dynamic_from_atomic_number n = Err ValueError /\ g_query_from_atomic_number n = Err ValueError.
Proof. exact source_variants_reject. Qed.
Print Assumptions C18_source_variants_reject.

(* the symbol a variant reports is its class name without the prefix, for ANY symbol string (not only the 118) *)
Theorem C18_source_variant_symbol_exact : forall s n m,
  g_dynamic_symbol (mkV ("Dynamic" ++ s) n m) = s /\ g_query_symbol (mkV ("Query" ++ s) n m) = s.
Proof. intros s n m. split; [apply dynamic_symbol_exact | apply query_symbol_exact]. Qed.
Print Assumptions C18_source_variant_symbol_exact.

(* the classes found in the running interpreter are exactly the translated ones (118 each, one per element) *)
Theorem C18_source_variants_are_runtime :
  same_members (fun x y => String.eqb (fst x) (fst y) && (snd x =? snd y))
               rt_dynamic (map (fun c => (v_name c, v_num c)) g_dynamic_classes) = true /\
  same_members (fun x y => let '(s1, n1, m1) := x in let '(s2, n2, m2) := y in String.eqb s1 s2 && (n1 =? n2) && (m1 =? m2))
               rt_query (map (fun c => (v_name c, v_num c, match v_mdl c with Some m => m | None => -1 end)) g_query_classes) = true /\
  List.length g_dynamic_classes = 118%nat /\ List.length g_query_classes = 118%nat /\
  same_members (fun x y => String.eqb (e_sym x) (e_sym y)) import_order elements = true.
Proof. exact source_variants_are_runtime. Qed.
Print Assumptions C18_source_variants_are_runtime.

Theorem C18_source_variant_examples :
  g_query_from_symbol "A" = Ok QAnyElement /\ g_query_from_symbol "M" = Ok QAnyMetal /\
  g_query_from_symbol "Xx" = Err ValueError /\ g_dynamic_from_symbol "A" = Err ValueError /\
  g_dynamic_from_atomic_number 66 = Ok (mkV "DynamicDy" 66 None) /\ g_dynamic_symbol (mkV "DynamicDy" 66 None) = "Dy"%string /\
  g_query_from_atomic_number 35 = Ok (QClass (mkV "QueryBr" 35 (Some 80))).
Proof. exact source_variant_examples. Qed.
Print Assumptions C18_source_variant_examples.
