(* C18 -- periodic table data are complete and mutually consistent.
   Only statements here; proofs are in Proofs.PeriodicTable.  Tables are regenerated from /repo. *)
From Coq Require Import ZArith List String Bool.
From Model Require Import PyBase PeriodicTable IsoBits.
From Gen Require Import Elements RuntimeDump IsoLayout.
From Proofs Require Import PeriodicTable IsoLayoutTie PeriodicMatcher.
Import ListNotations.
Open Scope Z_scope.

Theorem C18_lookups_inverse_and_standard :
  forall n, 1 <= n <= 118 ->
    exists e, from_number n = Some e /\ e_num e = n /\ e_sym e = std_symbol n /\
              exists e', from_symbol (e_sym e) = Some e' /\ e_num e' = n /\ e_sym e' = e_sym e.
Proof. exact lookups_inverse_std. Qed.
Print Assumptions C18_lookups_inverse_and_standard.

Theorem C18_table_shape :
  List.length elements = 118%nat /\ nodup_z (map e_num elements) = true /\ nodup_s (map e_sym elements) = true /\
  forallb (fun e => (1 <=? e_num e) && (e_num e <=? 118)) elements = true.
Proof. exact table_shape. Qed.
Print Assumptions C18_table_shape.

Theorem C18_out_of_range_rejected : from_number 0 = None /\ from_number 119 = None /\ from_number (-1) = None.
Proof. exact out_of_range_rejected. Qed.
Print Assumptions C18_out_of_range_rejected.

Theorem C18_period_group_standard :
  forallb (fun e => (e_period e =? std_period (e_num e)) && (e_group e =? std_group (e_num e))) elements = true.
Proof. exact period_group_std. Qed.
Print Assumptions C18_period_group_standard.

Theorem C18_isotope_tables_consistent :
  forall e, In e elements ->
    (forall k, In k (keys (e_dist e)) <-> In k (keys (e_mass e))) /\ mass_computable e = true /\ e_dist e <> [].
Proof. exact isotopes_consistent. Qed.
Print Assumptions C18_isotope_tables_consistent.

Theorem C18_average_mass_defined :
  forallb (fun e => match avg_mass_e24 e with Some m => 0 <? m | None => false end) elements = true.
Proof. exact avg_mass_defined_positive. Qed.
Print Assumptions C18_average_mass_defined.

Theorem C18_abundances_normalised :
  forallb (fun e => forallb (fun kv => 0 <=? fst (snd kv)) (e_dist e) &&
                    (Z.abs (dist_sum_e12 e - 10 ^ 12) <=? 10 ^ 9)) elements = true.
Proof. exact abundances_normalised. Qed.
Print Assumptions C18_abundances_normalised.

(* full statement "the reference isotope is among the keys" is false on the unchanged tree: _partial names the
   19 exceptions (known findings), _refuted shows the list is exact and gives the Br witness *)
Theorem C18_reference_isotope_tabulated_partial :
  forall e, In e elements -> In (e_mdl e) (keys (e_dist e)) \/ In (e_sym e) mdl_isotope_exceptions.
Proof. exact reference_isotope_or_known. Qed.
Print Assumptions C18_reference_isotope_tabulated_partial.

Theorem C18_reference_isotope_tabulated_refuted :
  forallb (fun e => negb (smem (e_sym e) mdl_isotope_exceptions) || negb (mdl_in_keys e)) elements = true /\
  existsb (fun e => String.eqb (e_sym e) "Br" && (e_mdl e =? 80) && negb (mdl_in_keys e)) elements = true.
Proof. exact reference_isotope_tabulated_refuted. Qed.
Print Assumptions C18_reference_isotope_tabulated_refuted.

Theorem C18_reference_isotope_near :
  forallb (fun e => forallb (fun k => (-8 <=? k - e_mdl e) && (k - e_mdl e <=? 8)) (keys (e_dist e))) elements = true.
Proof. exact reference_isotope_near. Qed.
Print Assumptions C18_reference_isotope_near.

Theorem C18_isotopes_representable :
  forall e i, In e elements -> isotope_accepted e i = true ->
    1 <= pack_isotope_field e i <= 31 /\ unpack_isotope e (pack_isotope_field e i) = i /\
    46 <= matcher_isotope_bit e i <= 62.
Proof. exact isotopes_representable. Qed.
Print Assumptions C18_isotopes_representable.

Theorem C18_pyx_isotope_tables :
  pack_common_isotopes = unpack_common_isotopes /\ List.length pack_common_isotopes = 119%nat /\
  forallb (fun e => znth pack_common_isotopes (e_num e) (-1000) =? e_mdl e - 16) elements = true.
Proof. exact pyx_isotope_tables. Qed.
Print Assumptions C18_pyx_isotope_tables.

Theorem C18_unpack_elements_table : unpack_elements = "None"%string :: std_symbols.
Proof. exact unpack_elements_table. Qed.
Print Assumptions C18_unpack_elements_table.

Theorem C18_charge_fields :
  forallb (fun c => (0 <=? c + 4) && (c + 4 <=? 15) && (35 <=? c + 39) && (c + 39 <=? 43)) (zrange (-4) 5) = true.
Proof. exact charge_fields. Qed.
Print Assumptions C18_charge_fields.

Theorem C18_hydrogens_representable :
  forallb (fun e => forallb (fun h => (0 <=? h) && (h <=? 4)) (tabulated_h e)) elements = true.
Proof. exact hydrogens_representable. Qed.
Print Assumptions C18_hydrogens_representable.

Theorem C18_number_fields :
  forallb (fun n => (n <=? 127) &&
                    (if n <=? 56 then (1 <=? 57 - n) && (57 - n <=? 56)
                     else let m := if 116 <? n then 116 else n in (4 <=? 120 - m) && (120 - m <=? 63)))
          all_numbers = true.
Proof. exact number_fields. Qed.
Print Assumptions C18_number_fields.

Theorem C18_valence_tables_compile :
  forallb (fun e => forallb (fun s => match from_symbol s with Some _ => true | None => false end) (env_symbols e) &&
                    negb (match e_common e with [] => true | _ => false end) &&
                    forallb (fun v => 0 <=? v) (e_common e) &&
                    forallb (fun r => let '(c, _, h, env) := r in
                                      (-4 <=? c) && (c <=? 4) && (0 <=? h) &&
                                      forallb (fun be => (1 <=? fst be) && (fst be <=? 3)) env) (e_exc e))
          elements = true.
Proof. exact valence_tables_compile. Qed.
Print Assumptions C18_valence_tables_compile.

Theorem C18_runtime_subclasses_are_elements : rt_subclasses = map e_sym elements.
Proof. exact runtime_subclasses_are_elements. Qed.
Print Assumptions C18_runtime_subclasses_are_elements.

Theorem C18_runtime_lookups_agree :
  forallb (fun r => let '(s, n, s') := r in
                    match from_symbol s with Some e => (e_num e =? n) && String.eqb (e_sym e) s' | None => false end)
          rt_by_symbol = true /\
  forallb (fun r => match from_number (fst r) with
                    | Some e => String.eqb (e_sym e) (snd r)
                    | None => String.eqb (snd r) ""
                    end) rt_by_number = true /\
  map fst rt_by_number = zrange 0 121.
Proof. exact runtime_lookups_agree. Qed.
Print Assumptions C18_runtime_lookups_agree.

Theorem C18_runtime_mass_and_rules_agree :
  rt_mass_ok = map (fun e => (e_sym e, mass_computable e)) elements /\
  forallb (fun r => snd r) rt_rules_ok = true /\ map fst rt_rules_ok = map e_sym elements.
Proof. exact runtime_mass_and_rules_agree. Qed.
Print Assumptions C18_runtime_mass_and_rules_agree.

Theorem C18_variants_exist :
  forallb (fun e => existsb (fun r => String.eqb (fst r) ("Dynamic" ++ e_sym e) && (snd r =? e_num e)) rt_dynamic &&
                    existsb (fun r => let '(s, n, m) := r in
                                      String.eqb s ("Query" ++ e_sym e) && (n =? e_num e) && (m =? e_mdl e)) rt_query)
          elements = true /\
  List.length rt_dynamic = 118%nat /\ List.length rt_query = 118%nat.
Proof. exact variants_exist. Qed.
Print Assumptions C18_variants_exist.

(* ---- matcher bit layout AS WRITTEN IN THE SOURCE: Gen.IsoLayout is regenerated from the statements of
        MoleculeIsomorphism._cython_compiled_structure / QueryIsomorphism._cython_compiled_query (tools/gen_isolayout.py) ---- *)

(* the regenerated encoders are, for every atom / query atom / query bond, the hand-written model encoders on which the
   C09 exactness theorems are proved (a changed literal, shift, threshold or branch breaks this) *)
Theorem C18_source_structure_layout_is_model : forall a, g_enc_atom a = enc_atom a.
Proof. exact g_enc_atom_eq. Qed.
Print Assumptions C18_source_structure_layout_is_model.

Theorem C18_source_query_layout_is_model : forall q b, g_enc_qatom q b = enc_qatom q b.
Proof. exact g_enc_qatom_eq. Qed.
Print Assumptions C18_source_query_layout_is_model.

(* every tabulated state (118 elements x (no isotope | tabulated isotope) x charge -4..4 x radical x hydrogens 0..4) lies in
   the range where the mask test is exact ... *)
Theorem C18_tabulated_states_in_matcher_range : forallb (fun e => forallb atom_ok (state_atoms e)) elements = true.
Proof. exact tabulated_states_atom_ok. Qed.
Print Assumptions C18_tabulated_states_in_matcher_range.

(* ... is found, on the source encoders, by the element / any-element / list queries that leave isotope and hydrogens open
   and by the query spelling its isotope out, and is not found by a query with another hydrogen count ... *)
Theorem C18_tabulated_states_found_by_source_layout : forallb (fun e => forallb state_found (state_atoms e)) elements = true.
Proof. exact tabulated_states_found. Qed.
Print Assumptions C18_tabulated_states_found_by_source_layout.

(* ... and for EVERY in-range query the source layout decides the reference comparison __eq__ on it *)
Theorem C18_tabulated_states_decided_by_source_layout : forall e a q,
  In e elements -> In a (state_atoms e) -> query_ok q = true -> elem_hyp q (la_num a) ->
  mask_match_first (g_enc_qatom q None) (g_enc_atom a) = match_atom q a.
Proof. exact tabulated_states_decided. Qed.
Print Assumptions C18_tabulated_states_decided_by_source_layout.

Theorem C18_tabulated_state_example :
  exists e, from_number 7 = Some e /\ In (mkLA 7 (Some 15) 1 false 0 1 (Some 4) 0 []) (state_atoms e).
Proof. exact state_atoms_example. Qed.
Print Assumptions C18_tabulated_state_example.
