(* C07 -- substructure search returns exactly the set of valid embeddings.  Statements only; proofs in
   Proofs.IsoLazyProofs / IsoMatchProofs / IsoCompileProofs / IsoProofs.  Model: Model.Iso (hand-written, tied to
   chython/algorithms/isomorphism.py and chython/_functions.py by the correspondence of harness/checks/C07.py). *)
From Coq Require Import ZArith List Bool Permutation.
From Model Require Import PyBase Iso.
From Proofs Require Import IsoLazyProofs IsoMatchProofs IsoCompileProofs IsoProofs.
Import ListNotations.
Open Scope Z_scope.

(* lazy_product: for ALL lists of lists the output is the cartesian product, each tuple exactly once, in some order *)
Theorem C07_lazy_product_exact : forall (X : Type) (ls : list (list X)), Permutation (lazy_product ls) (cartesian ls).
Proof. exact @lazy_product_exact. Qed.
Print Assumptions C07_lazy_product_exact.

Theorem C07_lazy_product_In : forall (X : Type) (ls : list (list X)) (t : list X),
  In t (lazy_product ls) <-> Forall2 (fun x L => In x L) t ls.
Proof. exact @lazy_product_In. Qed.
Print Assumptions C07_lazy_product_In.

Theorem C07_lazy_product_empty_iff : forall (X : Type) (ls : list (list X)),
  lazy_product ls = [] <-> exists L, In L ls /\ L = [].
Proof. exact @lazy_product_empty_iff. Qed.
Print Assumptions C07_lazy_product_empty_iff.

Theorem C07_lazy_product_NoDup : forall (X : Type) (ls : list (list X)),
  (forall L, In L ls -> NoDup L) -> NoDup (lazy_product ls).
Proof. exact @lazy_product_NoDup. Qed.
Print Assumptions C07_lazy_product_NoDup.

(* _compile_query: see Iso.compiled_ok / Iso.lin_ok for the promise *)
Theorem C07_compile_query_spec : forall (QA QB : Type) (atoms : list (Z * QA)) (bonds : list (Z * list (Z * QB))),
  wf_adj atoms bonds ->
  forall comps clo, compile_query atoms bonds = Ok (comps, clo) -> compiled_ok atoms bonds comps clo.
Proof. exact compile_query_spec. Qed.
Print Assumptions C07_compile_query_spec.

(* _get_mapping on a linear order with the promised shape: sound, complete, nothing twice *)
Theorem C07_matcher_sound : forall (QA A QB B : Type) (amatch : QA -> A -> bool) (bmatch : QB -> B -> bool)
    (q_atoms : list (Z * QA)) (q_bonds : list (Z * list (Z * QB))) (clo : closures_t QB)
    (o_atoms : list (Z * A)) (o_bonds : list (Z * list (Z * B))) (scope : list Z),
  wf_adj q_atoms q_bonds -> wf_adj o_atoms o_bonds ->
  forall c, c <> [] -> lin_ok q_atoms q_bonds clo [] c ->
  forall f, In f (get_mapping amatch bmatch c clo o_atoms o_bonds scope) ->
            induced_embedding amatch bmatch q_atoms q_bonds o_atoms o_bonds (map fst4 c) scope f.
Proof. exact get_mapping_sound. Qed.
Print Assumptions C07_matcher_sound.

Theorem C07_matcher_complete : forall (QA A QB B : Type) (amatch : QA -> A -> bool) (bmatch : QB -> B -> bool)
    (q_atoms : list (Z * QA)) (q_bonds : list (Z * list (Z * QB))) (clo : closures_t QB)
    (o_atoms : list (Z * A)) (o_bonds : list (Z * list (Z * B))) (scope : list Z),
  wf_adj o_atoms o_bonds ->
  forall c, c <> [] -> lin_ok q_atoms q_bonds clo [] c ->
  forall f, induced_embedding amatch bmatch q_atoms q_bonds o_atoms o_bonds (map fst4 c) scope f ->
            In f (get_mapping amatch bmatch c clo o_atoms o_bonds scope).
Proof. exact get_mapping_complete. Qed.
Print Assumptions C07_matcher_complete.

Theorem C07_matcher_NoDup : forall (QA A QB B : Type) (amatch : QA -> A -> bool) (bmatch : QB -> B -> bool)
    (clo : closures_t QB) (o_atoms : list (Z * A)) (o_bonds : list (Z * list (Z * B))) (scope : list Z),
  wf_adj o_atoms o_bonds ->
  forall c, NoDup (get_mapping amatch bmatch c clo o_atoms o_bonds scope).
Proof. exact get_mapping_NoDup. Qed.
Print Assumptions C07_matcher_NoDup.

(* compile + match *)
Theorem C07_matcher_exact : forall (QA A QB B : Type) (amatch : QA -> A -> bool) (bmatch : QB -> B -> bool)
    (q_atoms : list (Z * QA)) q_bonds (o_atoms : list (Z * A)) o_bonds comps clo scope,
  wf_adj q_atoms q_bonds -> wf_adj o_atoms o_bonds ->
  compile_query q_atoms q_bonds = Ok (comps, clo) ->
  forall c, In c comps ->
    NoDup (get_mapping amatch bmatch c clo o_atoms o_bonds scope) /\
    forall f, In f (get_mapping amatch bmatch c clo o_atoms o_bonds scope) <->
              induced_embedding amatch bmatch q_atoms q_bonds o_atoms o_bonds (map fst4 c) scope f.
Proof. exact matcher_exact. Qed.
Print Assumptions C07_matcher_exact.

Theorem C07_automorphism_filter_exact : forall ms,
  (forall m, In m (auto_filter true [] ms) -> In m ms) /\
  (forall m, In m ms -> exists m', In m' (auto_filter true [] ms) /\ (forall y, In y (image m) <-> In y (image m'))) /\
  ForallOrdPairs (fun a b => ~ (forall y, In y (image a) <-> In y (image b))) (auto_filter true [] ms) /\
  auto_filter false [] ms = ms.
Proof. exact automorphism_filter_exact. Qed.
Print Assumptions C07_automorphism_filter_exact.
