(* C07 -- substructure search returns exactly the set of valid embeddings.  Statements only; proofs in
   Proofs.IsoLazyProofs / IsoMatchProofs / IsoCompileProofs / IsoProofs.  Model: Model.Iso (hand-written, tied to
   chython/algorithms/isomorphism.py and chython/_functions.py by the correspondence of harness/checks/C07.py). *)
From Coq Require Import ZArith List Bool Permutation.
From Model Require Import PyBase Graph Rings Stereo Iso IsoStereo IsoStack.
From Proofs Require Import StereoProofs IsoLazyProofs IsoMatchProofs IsoCompileProofs IsoProofs IsoExt IsoAuto IsoStereoProofs IsoStereoExt IsoMatchStereo IsoCC IsoOpsTie IsoTrace IsoMatchTie IsoStackProofs IsoStackExt IsoLazyTie.
From Gen Require Import IsoOps IsoMatch IsoLazy.
Import ListNotations.
Open Scope Z_scope.

(* lazy_product: for ALL lists of lists the output is the cartesian product, each tuple exactly once, in some order *)
Theorem C07_lazy_product_exact : forall (X : Type) (ls : list (list X)), Permutation (lazy_product ls) (cartesian ls).
Proof. exact @lazy_product_exact. Qed.
Print Assumptions C07_lazy_product_exact.

Theorem C07_lazy_product_In : forall (X : Type) (ls : list (list X)) (t : list X),
  In t (lazy_product ls) <-> Forall2 (fun x L => In x L) t ls.
Proof. exact @lazy_product_In. Qed.
Print Assumptions C07_lazy_product_In.

Theorem C07_lazy_product_empty_iff : forall (X : Type) (ls : list (list X)),
  lazy_product ls = [] <-> exists L, In L ls /\ L = [].
Proof. exact @lazy_product_empty_iff. Qed.
Print Assumptions C07_lazy_product_empty_iff.

Theorem C07_lazy_product_NoDup : forall (X : Type) (ls : list (list X)),
  (forall L, In L ls -> NoDup L) -> NoDup (lazy_product ls).
Proof. exact @lazy_product_NoDup. Qed.
Print Assumptions C07_lazy_product_NoDup.

(* _compile_query: see Iso.compiled_ok / Iso.lin_ok for the promise *)
Theorem C07_compile_query_spec : forall (QA QB : Type) (atoms : list (Z * QA)) (bonds : list (Z * list (Z * QB))),
  wf_adj atoms bonds ->
  forall comps clo, compile_query atoms bonds = Ok (comps, clo) -> compiled_ok atoms bonds comps clo.
Proof. exact compile_query_spec. Qed.
Print Assumptions C07_compile_query_spec.

(* _get_mapping on a linear order with the promised shape: sound, complete, nothing twice *)
Theorem C07_matcher_sound : forall (QA A QB B : Type) (amatch : QA -> A -> bool) (bmatch : QB -> B -> bool)
    (q_atoms : list (Z * QA)) (q_bonds : list (Z * list (Z * QB))) (clo : closures_t QB)
    (o_atoms : list (Z * A)) (o_bonds : list (Z * list (Z * B))) (scope : list Z),
  wf_adj q_atoms q_bonds -> wf_adj o_atoms o_bonds ->
  forall c, c <> [] -> lin_ok q_atoms q_bonds clo [] c ->
  forall f, In f (get_mapping amatch bmatch c clo o_atoms o_bonds scope) ->
            induced_embedding amatch bmatch q_atoms q_bonds o_atoms o_bonds (map fst4 c) scope f.
Proof. exact get_mapping_sound. Qed.
Print Assumptions C07_matcher_sound.

Theorem C07_matcher_complete : forall (QA A QB B : Type) (amatch : QA -> A -> bool) (bmatch : QB -> B -> bool)
    (q_atoms : list (Z * QA)) (q_bonds : list (Z * list (Z * QB))) (clo : closures_t QB)
    (o_atoms : list (Z * A)) (o_bonds : list (Z * list (Z * B))) (scope : list Z),
  wf_adj o_atoms o_bonds ->
  forall c, c <> [] -> lin_ok q_atoms q_bonds clo [] c ->
  forall f, induced_embedding amatch bmatch q_atoms q_bonds o_atoms o_bonds (map fst4 c) scope f ->
            In f (get_mapping amatch bmatch c clo o_atoms o_bonds scope).
Proof. exact get_mapping_complete. Qed.
Print Assumptions C07_matcher_complete.

Theorem C07_matcher_NoDup : forall (QA A QB B : Type) (amatch : QA -> A -> bool) (bmatch : QB -> B -> bool)
    (clo : closures_t QB) (o_atoms : list (Z * A)) (o_bonds : list (Z * list (Z * B))) (scope : list Z),
  wf_adj o_atoms o_bonds ->
  forall c, NoDup (get_mapping amatch bmatch c clo o_atoms o_bonds scope).
Proof. exact get_mapping_NoDup. Qed.
Print Assumptions C07_matcher_NoDup.

(* compile + match *)
Theorem C07_matcher_exact : forall (QA A QB B : Type) (amatch : QA -> A -> bool) (bmatch : QB -> B -> bool)
    (q_atoms : list (Z * QA)) q_bonds (o_atoms : list (Z * A)) o_bonds comps clo scope,
  wf_adj q_atoms q_bonds -> wf_adj o_atoms o_bonds ->
  compile_query q_atoms q_bonds = Ok (comps, clo) ->
  forall c, In c comps ->
    NoDup (get_mapping amatch bmatch c clo o_atoms o_bonds scope) /\
    forall f, In f (get_mapping amatch bmatch c clo o_atoms o_bonds scope) <->
              induced_embedding amatch bmatch q_atoms q_bonds o_atoms o_bonds (map fst4 c) scope f.
Proof. exact matcher_exact. Qed.
Print Assumptions C07_matcher_exact.

Theorem C07_automorphism_filter_exact : forall ms,
  (forall m, In m (auto_filter true [] ms) -> In m ms) /\
  (forall m, In m ms -> exists m', In m' (auto_filter true [] ms) /\ (forall y, In y (image m) <-> In y (image m'))) /\
  ForallOrdPairs (fun a b => ~ (forall y, In y (image a) <-> In y (image b))) (auto_filter true [] ms) /\
  auto_filter false [] ms = ms.
Proof. exact automorphism_filter_exact. Qed.
Print Assumptions C07_automorphism_filter_exact.

(* ---------------------------------------------------------------------------------------------------------------
   Isomorphism._get_mapping: target components, searching_scope, several pattern components, the operators.
   Vocabulary (definitions in Proofs.IsoProofs, unfolded here in comments):
     tcomps_ok o_atoms o_bonds tcomps   other.connected_components is a partition of the target atoms into lists that
                                        no bond leaves (every atom in one, no bond leaves one, no list twice, disjoint)
     scope_list o_atoms scope           the atoms a search may use: all target atoms (scope = None) or those in the scope
     single_stream / multi_stream       what the generator yields before the automorphism filter, in order
     multi_embedding comps scope f      f = concat fs, fs.(i) an induced embedding of the i-th pattern component inside the
                                        scope whose image lies in a target component cands.(i), the cands pairwise different
   --------------------------------------------------------------------------------------------------------------- *)

(* one pattern component, ANY scope (None, empty, partial, numbers that are not atoms): exactly the embeddings inside it, each once *)
Theorem C07_scope_exact : forall (QA A QB B : Type) (amatch : QA -> A -> bool) (bmatch : QB -> B -> bool)
    (q_atoms : list (Z * QA)) (q_bonds : list (Z * list (Z * QB))) (o_atoms : list (Z * A)) (o_bonds : list (Z * list (Z * B)))
    (tcomps : list (list Z)),
  wf_adj q_atoms q_bonds -> wf_adj o_atoms o_bonds -> tcomps_ok A B o_atoms o_bonds tcomps ->
  forall c clo scope, c <> [] -> lin_ok q_atoms q_bonds clo [] c ->
    NoDup (single_stream QA A QB B amatch bmatch o_atoms o_bonds tcomps c clo scope) /\
    forall f, In f (single_stream QA A QB B amatch bmatch o_atoms o_bonds tcomps c clo scope) <->
              induced_embedding amatch bmatch q_atoms q_bonds o_atoms o_bonds (map fst4 c) (scope_list A o_atoms scope) f.
Proof. exact scope_exact. Qed.
Print Assumptions C07_scope_exact.

(* several (or zero) pattern components: different pattern components in different target components *)
Theorem C07_multi_component_exact : forall (QA A QB B : Type) (amatch : QA -> A -> bool) (bmatch : QB -> B -> bool)
    (q_atoms : list (Z * QA)) (q_bonds : list (Z * list (Z * QB))) (o_atoms : list (Z * A)) (o_bonds : list (Z * list (Z * B)))
    (tcomps : list (list Z)) (comps : list (list (lentry QA QB))) (clo : closures_t QB),
  wf_adj q_atoms q_bonds -> wf_adj o_atoms o_bonds -> tcomps_ok A B o_atoms o_bonds tcomps ->
  compiled_ok q_atoms q_bonds comps clo ->
  forall scope f, In f (multi_stream QA A QB B amatch bmatch o_atoms o_bonds tcomps comps clo scope) <->
                  multi_embedding QA A QB B amatch bmatch q_atoms q_bonds o_atoms o_bonds tcomps comps scope f.
Proof. exact multi_component_exact. Qed.
Print Assumptions C07_multi_component_exact.

(* the whole call pattern.get_mapping(target, automorphism_filter=flt, searching_scope=scope), any pattern, any scope *)
Theorem C07_get_mapping_exact : forall (QA A QB B : Type) (amatch : QA -> A -> bool) (bmatch : QB -> B -> bool)
    (q_atoms : list (Z * QA)) (q_bonds : list (Z * list (Z * QB))) (o_atoms : list (Z * A)) (o_bonds : list (Z * list (Z * B)))
    (tcomps : list (list Z)),
  wf_adj q_atoms q_bonds -> wf_adj o_atoms o_bonds -> tcomps_ok A B o_atoms o_bonds tcomps ->
  forall comps clo flt scope, compile_query q_atoms q_bonds = Ok (comps, clo) ->
  exists stream,
    mol_get_mapping amatch bmatch q_atoms q_bonds o_atoms o_bonds tcomps flt scope = Ok (auto_filter flt [] stream) /\
    NoDup stream /\
    forall f, In f stream <-> multi_embedding QA A QB B amatch bmatch q_atoms q_bonds o_atoms o_bonds tcomps comps scope f.
Proof. exact get_mapping_exact. Qed.
Print Assumptions C07_get_mapping_exact.

(* the same, spelled out for the two values of automorphism_filter: with the filter every result is an embedding, every
   embedding has a result with the same SET of image atoms and no two results share their set of image atoms; without it
   the results are exactly the embeddings, each once *)
Theorem C07_get_mapping_filtered_exact : forall (QA A QB B : Type) (amatch : QA -> A -> bool) (bmatch : QB -> B -> bool)
    (q_atoms : list (Z * QA)) (q_bonds : list (Z * list (Z * QB))) (o_atoms : list (Z * A)) (o_bonds : list (Z * list (Z * B)))
    (tcomps : list (list Z)),
  wf_adj q_atoms q_bonds -> wf_adj o_atoms o_bonds -> tcomps_ok A B o_atoms o_bonds tcomps ->
  forall comps clo scope, compile_query q_atoms q_bonds = Ok (comps, clo) ->
  (exists res, mol_get_mapping amatch bmatch q_atoms q_bonds o_atoms o_bonds tcomps true scope = Ok res /\
     (forall m, In m res -> multi_embedding QA A QB B amatch bmatch q_atoms q_bonds o_atoms o_bonds tcomps comps scope m) /\
     (forall f, multi_embedding QA A QB B amatch bmatch q_atoms q_bonds o_atoms o_bonds tcomps comps scope f ->
                exists m, In m res /\ (forall y, In y (image f) <-> In y (image m))) /\
     ForallOrdPairs (fun a b => ~ (forall y, In y (image a) <-> In y (image b))) res) /\
  (exists res, mol_get_mapping amatch bmatch q_atoms q_bonds o_atoms o_bonds tcomps false scope = Ok res /\
     NoDup res /\
     forall f, In f res <-> multi_embedding QA A QB B amatch bmatch q_atoms q_bonds o_atoms o_bonds tcomps comps scope f).
Proof. exact get_mapping_filtered_exact. Qed.
Print Assumptions C07_get_mapping_filtered_exact.

(* several pattern components: nothing is yielded twice (before the filter) *)
Theorem C07_multi_stream_NoDup : forall (QA A QB B : Type) (amatch : QA -> A -> bool) (bmatch : QB -> B -> bool)
    (q_atoms : list (Z * QA)) (q_bonds : list (Z * list (Z * QB))) (o_atoms : list (Z * A)) (o_bonds : list (Z * list (Z * B)))
    (tcomps : list (list Z)) (comps : list (list (lentry QA QB))) (clo : closures_t QB),
  wf_adj q_atoms q_bonds -> wf_adj o_atoms o_bonds -> tcomps_ok A B o_atoms o_bonds tcomps ->
  compiled_ok q_atoms q_bonds comps clo ->
  forall scope, NoDup (multi_stream QA A QB B amatch bmatch o_atoms o_bonds tcomps comps clo scope).
Proof. exact multi_stream_NoDup. Qed.
Print Assumptions C07_multi_stream_NoDup.

Theorem C07_is_substructure_iff : forall (QA A QB B : Type) (amatch : QA -> A -> bool) (bmatch : QB -> B -> bool)
    (q_atoms : list (Z * QA)) (q_bonds : list (Z * list (Z * QB))) (o_atoms : list (Z * A)) (o_bonds : list (Z * list (Z * B)))
    (tcomps : list (list Z)),
  wf_adj q_atoms q_bonds -> wf_adj o_atoms o_bonds -> tcomps_ok A B o_atoms o_bonds tcomps ->
  forall comps clo, compile_query q_atoms q_bonds = Ok (comps, clo) ->
  exists b, is_substructure amatch bmatch q_atoms q_bonds o_atoms o_bonds tcomps = Ok b /\
            (b = true <-> exists f, multi_embedding QA A QB B amatch bmatch q_atoms q_bonds o_atoms o_bonds tcomps comps None f).
Proof. exact is_substructure_iff. Qed.
Print Assumptions C07_is_substructure_iff.

Theorem C07_is_equal_iff : forall (QA A QB B : Type) (amatch : QA -> A -> bool) (bmatch : QB -> B -> bool)
    (q_atoms : list (Z * QA)) (q_bonds : list (Z * list (Z * QB))) (o_atoms : list (Z * A)) (o_bonds : list (Z * list (Z * B)))
    (tcomps : list (list Z)),
  wf_adj q_atoms q_bonds -> wf_adj o_atoms o_bonds -> tcomps_ok A B o_atoms o_bonds tcomps ->
  forall comps clo, compile_query q_atoms q_bonds = Ok (comps, clo) ->
  exists b, is_equal amatch bmatch q_atoms q_bonds o_atoms o_bonds tcomps = Ok b /\
            (b = true <-> length q_atoms = length o_atoms /\
                          exists f, multi_embedding QA A QB B amatch bmatch q_atoms q_bonds o_atoms o_bonds tcomps comps None f).
Proof. exact is_equal_iff. Qed.
Print Assumptions C07_is_equal_iff.

(* self < other; self <= other is is_substructure; self > other and self >= other are other < self and other <= self *)
Theorem C07_lt_iff : forall (QA A QB B : Type) (amatch : QA -> A -> bool) (bmatch : QB -> B -> bool)
    (q_atoms : list (Z * QA)) (q_bonds : list (Z * list (Z * QB))) (o_atoms : list (Z * A)) (o_bonds : list (Z * list (Z * B)))
    (tcomps : list (list Z)),
  wf_adj q_atoms q_bonds -> wf_adj o_atoms o_bonds -> tcomps_ok A B o_atoms o_bonds tcomps ->
  forall comps clo, compile_query q_atoms q_bonds = Ok (comps, clo) ->
  exists b, iso_lt amatch bmatch q_atoms q_bonds o_atoms o_bonds tcomps = Ok b /\
            (b = true <-> (length q_atoms < length o_atoms)%nat /\
                          exists f, multi_embedding QA A QB B amatch bmatch q_atoms q_bonds o_atoms o_bonds tcomps comps None f).
Proof. exact lt_iff. Qed.
Print Assumptions C07_lt_iff.

(* the two boundary inputs that the code got wrong before a6a7a4a / 3d5c51c *)
Theorem C07_empty_scope_no_mapping : forall (QA A QB B : Type) (amatch : QA -> A -> bool) (bmatch : QB -> B -> bool)
    (comps : list (list (lentry QA QB))) clo (o_atoms : list (Z * A)) o_bonds tcomps flt,
  comps <> [] -> iso_get_mapping amatch bmatch comps clo o_atoms o_bonds tcomps flt (Some []) = Ok [].
Proof. exact empty_scope_no_mapping. Qed.
Print Assumptions C07_empty_scope_no_mapping.

Theorem C07_empty_pattern_one_embedding : forall (QA A QB B : Type) (amatch : QA -> A -> bool) (bmatch : QB -> B -> bool)
    (o_atoms : list (Z * A)) (o_bonds : list (Z * list (Z * B))) tcomps flt scope,
  mol_get_mapping amatch bmatch (@nil (Z * QA)) (@nil (Z * list (Z * QB))) o_atoms o_bonds tcomps flt scope = Ok [[]].
Proof. exact empty_pattern_one_embedding. Qed.
Print Assumptions C07_empty_pattern_one_embedding.

(* non-vacuity: pattern C.O on target CCO.O satisfies every hypothesis above; the search yields the two mappings that
   put C and O into different target components (never C1/C2 with O3), one of them under the scope {2,3,4,99} *)
Theorem C07_example_instance :
  wf_adj ex_q_atoms ex_q_bonds /\ wf_adj ex_o_atoms ex_o_bonds /\ tcomps_ok Z Z ex_o_atoms ex_o_bonds ex_tcomps /\
  compile_query ex_q_atoms ex_q_bonds = Ok ([[(1, None, 6, None)]; [(2, None, 8, None)]], []) /\
  mol_get_mapping Z.eqb Z.eqb ex_q_atoms ex_q_bonds ex_o_atoms ex_o_bonds ex_tcomps false None
    = Ok [[(1, 2); (2, 4)]; [(1, 1); (2, 4)]] /\
  mol_get_mapping Z.eqb Z.eqb ex_q_atoms ex_q_bonds ex_o_atoms ex_o_bonds ex_tcomps true (Some [2; 3; 4; 99])
    = Ok [[(1, 2); (2, 4)]] /\
  multi_embedding Z Z Z Z Z.eqb Z.eqb ex_q_atoms ex_q_bonds ex_o_atoms ex_o_bonds ex_tcomps
    [[(1, None, 6, None)]; [(2, None, 8, None)]] None [(1, 2); (2, 4)].
Proof. exact example_instance. Qed.
Print Assumptions C07_example_instance.

(* _compile_query records every pattern bond exactly once: as the tree edge of one of its ends (tree_edge x y: the entry of
   x names y as `back`) or in the closure list of one of its ends (closure_edge x y: y is listed in closures[x]) ... *)
Theorem C07_bond_recorded_once : forall (QA QB : Type) (atoms : list (Z * QA)) (bonds : list (Z * list (Z * QB)))
    (comps : list (list (lentry QA QB))) (clo : closures_t QB),
  wf_adj atoms bonds -> compiled_ok atoms bonds comps clo ->
  forall x y, In y (keys (adj_get bonds x)) ->
    let A := tree_edge QA QB comps x y in let B := tree_edge QA QB comps y x in
    let C := closure_edge QB clo x y in let D := closure_edge QB clo y x in
    (A \/ B \/ C \/ D) /\ ~ (A /\ B) /\ ~ (A /\ C) /\ ~ (A /\ D) /\ ~ (B /\ C) /\ ~ (B /\ D) /\ ~ (C /\ D).
Proof. exact bond_recorded_once. Qed.
Print Assumptions C07_bond_recorded_once.

(* ... and records nothing that is not a bond; closures[x] lists no atom twice *)
Theorem C07_recorded_is_bond : forall (QA QB : Type) (atoms : list (Z * QA)) (bonds : list (Z * list (Z * QB)))
    (comps : list (list (lentry QA QB))) (clo : closures_t QB),
  wf_adj atoms bonds -> compiled_ok atoms bonds comps clo ->
  forall x y,
    (tree_edge QA QB comps x y -> In y (keys (adj_get bonds x))) /\
    (In x (keys atoms) -> closure_edge QB clo x y -> In y (keys (adj_get bonds x))) /\
    (In x (keys atoms) -> NoDup (keys (clo_get clo x))).
Proof. exact recorded_is_bond. Qed.
Print Assumptions C07_recorded_is_bond.

(* _compile_query of a well-formed graph returns: no KeyError, no StopIteration, and the model's loop bound (a termination
   device, S (number of adjacency entries) pops per component) is never reached -- so the hypothesis `compile_query .. = Ok ..`
   of the theorems above always holds for the graphs a container can hold *)
Theorem C07_compile_query_total : forall (QA QB : Type) (atoms : list (Z * QA)) (bonds : list (Z * list (Z * QB))),
  wf_adj atoms bonds -> exists comps clo, compile_query atoms bonds = Ok (comps, clo).
Proof. exact compile_query_total. Qed.
Print Assumptions C07_compile_query_total.

(* ---------------------------------------------------------------------------------------------------------------
   THE PROPERTY IN ITS OWN WORDS.  multi_embedding (a mapping glued from per-component embeddings) is the same as: ONE
   map f of all pattern atoms such that
     - f is injective, every image lies in the scope, every pattern atom matches its image,
     - for EVERY two pattern atoms: a pattern bond goes to a matching target bond and no pattern bond goes to no target bond
       (so no additional bond joins images of atoms of one component -- nor of different ones),
     - two pattern atoms are in one pattern component exactly when their images are in one target component
       (different pattern components lie in different target components).
   --------------------------------------------------------------------------------------------------------------- *)
Theorem C07_multi_embedding_iff_global : forall (QA A QB B : Type) (amatch : QA -> A -> bool) (bmatch : QB -> B -> bool)
    (q_atoms : list (Z * QA)) (q_bonds : list (Z * list (Z * QB))) (o_atoms : list (Z * A)) (o_bonds : list (Z * list (Z * B)))
    (tcomps : list (list Z)) (comps : list (list (lentry QA QB))) (clo : closures_t QB),
  wf_adj q_atoms q_bonds -> wf_adj o_atoms o_bonds -> tcomps_ok A B o_atoms o_bonds tcomps ->
  compiled_ok q_atoms q_bonds comps clo ->
  forall scope f,
    multi_embedding QA A QB B amatch bmatch q_atoms q_bonds o_atoms o_bonds tcomps comps scope f <->
    (map fst f = concat (map (map fst4) comps) /\ NoDup (image f) /\
     (forall x y, In (x, y) f -> In y (scope_list A o_atoms scope) /\
                  exists qa oa, zget q_atoms x = Some qa /\ zget o_atoms y = Some oa /\ amatch qa oa = true) /\
     (forall x1 y1 x2 y2, In (x1, y1) f -> In (x2, y2) f ->
        match bond_get q_bonds x1 x2, bond_get o_bonds y1 y2 with
        | Some qb, Some ob => bmatch qb ob = true
        | None, None => True
        | _, _ => False
        end)) /\
    (forall x1 y1 x2 y2, In (x1, y1) f -> In (x2, y2) f ->
       ((exists c, In c comps /\ In x1 (map fst4 c) /\ In x2 (map fst4 c)) <->
        (exists cand, In cand tcomps /\ In y1 cand /\ In y2 cand))).
Proof. exact multi_embedding_iff_global. Qed.
Print Assumptions C07_multi_embedding_iff_global.

(* the whole call without the filter, for every well-formed pattern and target, no further hypothesis: the query compiles
   (every atom in exactly one component order), and for every scope the result holds exactly those maps, each once *)
Theorem C07_get_mapping_global_exact : forall (QA A QB B : Type) (amatch : QA -> A -> bool) (bmatch : QB -> B -> bool)
    (q_atoms : list (Z * QA)) (q_bonds : list (Z * list (Z * QB))) (o_atoms : list (Z * A)) (o_bonds : list (Z * list (Z * B)))
    (tcomps : list (list Z)),
  wf_adj q_atoms q_bonds -> wf_adj o_atoms o_bonds -> tcomps_ok A B o_atoms o_bonds tcomps ->
  exists comps clo, compile_query q_atoms q_bonds = Ok (comps, clo) /\
    Permutation (concat (map (map fst4) comps)) (keys q_atoms) /\
    forall scope, exists res,
      mol_get_mapping amatch bmatch q_atoms q_bonds o_atoms o_bonds tcomps false scope = Ok res /\
      NoDup res /\
      forall f, In f res <-> global_embedding QA A QB B amatch bmatch q_atoms q_bonds o_atoms o_bonds tcomps comps scope f.
Proof. exact get_mapping_global_exact. Qed.
Print Assumptions C07_get_mapping_global_exact.

(* (C07_is_equal_true_isomorphism_partial of the first round is superseded by C07_is_equal_iff_isomorphic below) *)

(* ---------------------------------------------------------------------------------------------------------------
   is_equal <-> isomorphic, both directions.  tcomps_connected: every list of other.connected_components is connected
   (any two of its atoms are joined by a path of bonds) -- needed for the converse: tcomps_ok alone also admits a
   partition that lumps two components together, for which a two-component pattern would find no embedding.
   isomorphism f: f is a bijection between ALL atoms of pattern and target, atoms match, and for every two atoms
   bond <-> matching bond, no bond <-> no bond.
   --------------------------------------------------------------------------------------------------------------- *)
Theorem C07_is_equal_iff_isomorphic : forall (QA A QB B : Type) (amatch : QA -> A -> bool) (bmatch : QB -> B -> bool)
    (q_atoms : list (Z * QA)) (q_bonds : list (Z * list (Z * QB))) (o_atoms : list (Z * A)) (o_bonds : list (Z * list (Z * B)))
    (tcomps : list (list Z)),
  wf_adj q_atoms q_bonds -> wf_adj o_atoms o_bonds -> tcomps_ok A B o_atoms o_bonds tcomps ->
  (forall cand y1 y2, In cand tcomps -> In y1 cand -> In y2 cand -> reach o_bonds y1 y2) ->
  exists b, is_equal amatch bmatch q_atoms q_bonds o_atoms o_bonds tcomps = Ok b /\
    (b = true <->
     exists f : mapping,
       Permutation (map fst f) (keys q_atoms) /\ Permutation (image f) (keys o_atoms) /\
       (forall x y, In (x, y) f -> exists qa oa, zget q_atoms x = Some qa /\ zget o_atoms y = Some oa /\ amatch qa oa = true) /\
       (forall x1 y1 x2 y2, In (x1, y1) f -> In (x2, y2) f ->
          match bond_get q_bonds x1 x2, bond_get o_bonds y1 y2 with
          | Some qb, Some ob => bmatch qb ob = true
          | None, None => True
          | _, _ => False
          end)).
Proof. exact is_equal_iff_isomorphic. Qed.
Print Assumptions C07_is_equal_iff_isomorphic.

(* non-vacuity of the hypotheses (incl. connectedness): C-C-O . O, renumbered, is_equal to CCO.O, with the isomorphism *)
Theorem C07_example_is_equal :
  wf_adj ex2_q_atoms ex2_q_bonds /\ wf_adj ex_o_atoms ex_o_bonds /\ tcomps_ok Z Z ex_o_atoms ex_o_bonds ex_tcomps /\
  tcomps_connected Z ex_o_bonds ex_tcomps /\
  is_equal Z.eqb Z.eqb ex2_q_atoms ex2_q_bonds ex_o_atoms ex_o_bonds ex_tcomps = Ok true /\
  isomorphism Z Z Z Z Z.eqb Z.eqb ex2_q_atoms ex2_q_bonds ex_o_atoms ex_o_bonds [(9, 4); (7, 1); (5, 2); (6, 3)].
Proof. exact example_is_equal. Qed.
Print Assumptions C07_example_is_equal.

(* ---------------------------------------------------------------------------------------------------------------
   _get_automorphism_mapping(atoms = {atom: class}, bonds)   (mol.get_automorphism_mapping() passes _chiral_morgan).
   class_automorphism comps f (Proofs.IsoAuto): f lists all atoms (component after component), is injective, sends every atom
   to an atom of ITS OWN component and of its own class, and for every two atoms bond <-> equal bond, no bond <-> no bond.
   --------------------------------------------------------------------------------------------------------------- *)
Theorem C07_automorphism_mapping_exact : forall (B : Type) (beq : B -> B -> bool) (atoms : list (Z * Z)) (bonds : list (Z * list (Z * B))),
  wf_adj atoms bonds ->
  exists comps clo res, compile_query atoms bonds = Ok (comps, clo) /\
    get_automorphism_mapping beq atoms bonds = Ok res /\ NoDup res /\
    forall f, In f res <->
      (map fst f = concat (map (map fst4) comps) /\ NoDup (image f) /\
       (forall x y, In (x, y) f -> (exists c, In c comps /\ In x (map fst4 c) /\ In y (map fst4 c)) /\
                                   exists cl, zget atoms x = Some cl /\ zget atoms y = Some cl) /\
       (forall x1 y1 x2 y2, In (x1, y1) f -> In (x2, y2) f ->
          match bond_get bonds x1 x2, bond_get bonds y1 y2 with
          | Some qb, Some ob => beq qb ob = true
          | None, None => True
          | _, _ => False
          end)) /\
      exists x y, In (x, y) f /\ x <> y.
Proof. exact automorphism_mapping_exact. Qed.
Print Assumptions C07_automorphism_mapping_exact.

(* a connected graph: exactly ALL non-identity automorphisms (bijections of the atoms keeping classes and bonds), each once *)
Theorem C07_automorphism_mapping_connected_exact : forall (B : Type) (beq : B -> B -> bool) (atoms : list (Z * Z))
    (bonds : list (Z * list (Z * B))) (c : list (lentry Z B)) clo,
  wf_adj atoms bonds -> compile_query atoms bonds = Ok ([c], clo) ->
  exists res, get_automorphism_mapping beq atoms bonds = Ok res /\ NoDup res /\
    forall f, In f res <-> map fst f = map fst4 c /\ isomorphism Z Z B B Z.eqb beq atoms bonds atoms bonds f /\ exists x y, In (x, y) f /\ x <> y.
Proof. exact automorphism_mapping_connected_exact. Qed.
Print Assumptions C07_automorphism_mapping_connected_exact.

(* "all automorphisms" is FALSE with several components: an automorphism exchanging two identical components is never produced
   (C.C: nothing is yielded, is_automorphic() is False).  Replayed on the real code by the search (finding automorphism-component-swap). *)
Theorem C07_automorphism_mapping_all_refuted :
  exists (atoms : list (Z * Z)) (bonds : list (Z * list (Z * Z))) (f : mapping),
    wf_adj atoms bonds /\
    isomorphism Z Z Z Z Z.eqb Z.eqb atoms bonds atoms bonds f /\ (exists x y, In (x, y) f /\ x <> y) /\
    get_automorphism_mapping Z.eqb atoms bonds = Ok [].
Proof. exact automorphism_mapping_all_refuted. Qed.
Print Assumptions C07_automorphism_mapping_all_refuted.

Theorem C07_example_automorphism :
  wf_adj [(1, 7); (2, 7)] [(1, [(2, 1)]); (2, [(1, 1)])] /\
  compile_query [(1, 7); (2, 7)] [(1, [(2, 1)]); (2, [(1, 1)])] = Ok ([[(1, None, 7, None); (2, Some 1, 7, Some 1)]], []) /\
  get_automorphism_mapping Z.eqb [(1, 7); (2, 7)] [(1, [(2, 1)]); (2, [(1, 1)])] = Ok [[(1, 2); (2, 1)]].
Proof. exact example_automorphism. Qed.
Print Assumptions C07_example_automorphism.

(* ---------------------------------------------------------------------------------------------------------------
   The stereo post-filter of QueryIsomorphism.get_mapping (model: Model.IsoStereo; sign translation: C12's Model.Stereo).
   qstereo_filter t q ms = (what the generator yields, the exception that ended it if any), ms = what Isomorphism._get_mapping
   yields; t / q = the observed stereo registries of the target / the stereo labels and neighbour orders of the query.
   --------------------------------------------------------------------------------------------------------------- *)
(* it is a filter: up to the first exception exactly the accepted mappings, in the order of the underlying search *)
Theorem C07_qstereo_filter_spec : forall t q ms,
  exists pre post, ms = pre ++ post /\
    fst (qstereo_filter t q ms) = filter (accepted t q) pre /\
    (forall mp, In mp pre -> exists b, qstereo_ok t q mp = Ok b) /\
    match snd (qstereo_filter t q ms) with
    | None => post = []
    | Some e => exists mp r, post = mp :: r /\ qstereo_ok t q mp = Err e
    end.
Proof. exact qstereo_filter_spec. Qed.
Print Assumptions C07_qstereo_filter_spec.

(* a query without stereo labels: nothing is removed, so every theorem about Isomorphism._get_mapping above is a theorem
   about QueryIsomorphism.get_mapping(_cython=False) *)
Theorem C07_qstereo_free_identity : forall t q ms,
  (forall n s, In (n, s) (sq_atoms q) -> s = None) -> (forall n m s, In (n, m, s) (sq_bonds q) -> s = None) ->
  qstereo_filter t q ms = (ms, None).
Proof. exact qstereo_free_identity. Qed.
Print Assumptions C07_qstereo_free_identity.

(* the tetrahedral clause is a parity condition: the query atom's neighbours (in the query's order) go to the arrangement p of
   the target's registered neighbour order (all four, or the first three of it): accepted iff query label = target label xor
   parity of p *)
Theorem C07_atom_check_parity4 : forall t q mp n qs m ts a b c d nbs p,
  zget mp n = Some m -> zget (st_atom_stereo t) m = Some (Some ts) ->
  zget (st_th t) m = Some [a; b; c; d] -> NoDup [a; b; c; d] ->
  zget (sq_adj q) n = Some nbs -> In p perms4 ->
  (map_images mp nbs = Ok (sel [a; b; c; d] p) \/ map_images mp nbs = Ok (firstn 3 (sel [a; b; c; d] p))) ->
  atom_check t q mp n qs = Ok (Bool.eqb (xorb ts (odd_perm p)) qs).
Proof. exact atom_check_parity4. Qed.
Print Assumptions C07_atom_check_parity4.

(* target centre with an implicit hydrogen (three registered neighbours): the hydrogen counts as the fourth position *)
Theorem C07_atom_check_parity3 : forall t q mp n qs m ts a b c nbs p,
  zget mp n = Some m -> zget (st_atom_stereo t) m = Some (Some ts) ->
  zget (st_th t) m = Some [a; b; c] -> NoDup [a; b; c] ->
  zget (sq_adj q) n = Some nbs -> In p perms3 -> map_images mp nbs = Ok (sel [a; b; c] p) ->
  atom_check t q mp n qs = Ok (Bool.eqb (xorb ts (odd_perm (p ++ [3]))) qs).
Proof. exact atom_check_parity3. Qed.
Print Assumptions C07_atom_check_parity3.

(* mirror image: inverting the label of the target centre (tetrahedral or allene-type) inverts the verdict; same exceptions *)
Theorem C07_atom_check_mirror : forall t q mp n qs m ts,
  zget mp n = Some m -> zget (st_atom_stereo t) m = Some (Some ts) ->
  atom_check (with_atom_label t m (negb ts)) q mp n qs =
  match atom_check t q mp n qs with Ok v => Ok (negb v) | Err e => Err e end.
Proof. exact atom_check_mirror. Qed.
Print Assumptions C07_atom_check_mirror.

(* an unlabelled target atom / bond never matches a labelled query atom / bond *)
Theorem C07_unlabelled_rejected : forall t q mp,
  (forall n qs m, zget mp n = Some m -> zget (st_atom_stereo t) m = Some None -> atom_check t q mp n qs = Ok false) /\
  (forall n m qs on om, zget mp n = Some on -> zget mp m = Some om -> zget (adj_get (st_bond_stereo t) on) om = Some None ->
                        bond_check t q mp n m qs = Ok false).
Proof. exact unlabelled_rejected. Qed.
Print Assumptions C07_unlabelled_rejected.

(* REFUTED: "with the automorphism filter one mapping per set of image atoms remains" for stereo queries.  The filter on image
   sets runs inside Isomorphism._get_mapping, BEFORE the stereo check: query [C@]([#6])([#6])(F)Cl on C[C@](CC)(F)Cl has two
   mappings onto the same atoms, only the second passes the stereo check, the first one has already consumed the image set:
   nothing is returned (finding stereo-after-automorphism-filter, replayed on the real code by the search) *)
Theorem C07_filter_order_refuted :
  qstereo_filter ex_st ex_sq ex_stream = ([[(1, 2); (2, 1); (3, 3); (4, 5); (5, 6)]], None) /\
  qstereo_filter ex_st ex_sq (auto_filter true [] ex_stream) = ([], None) /\
  auto_filter true [] (fst (qstereo_filter ex_st ex_sq ex_stream)) = [[(1, 2); (2, 1); (3, 3); (4, 5); (5, 6)]].
Proof. exact filter_order_refuted. Qed.
Print Assumptions C07_filter_order_refuted.

Theorem C07_example_parity_instance :
  let mp := [(1, 2); (2, 1); (3, 3); (4, 5); (5, 6)] in
  zget mp 1 = Some 2 /\ zget (st_atom_stereo ex_st) 2 = Some (Some true) /\ zget (st_th ex_st) 2 = Some [1; 3; 5; 6] /\ NoDup [1; 3; 5; 6] /\
  zget (sq_adj ex_sq) 1 = Some [2; 3; 4; 5] /\ In [0; 1; 2; 3] perms4 /\ map_images mp [2; 3; 4; 5] = Ok (sel [1; 3; 5; 6] [0; 1; 2; 3]) /\
  atom_check ex_st ex_sq mp 1 true = Ok true /\
  atom_check (with_atom_label ex_st 2 false) ex_sq mp 1 true = Ok false.
Proof. exact example_parity_instance. Qed.
Print Assumptions C07_example_parity_instance.

(* match_stereo=True of MoleculeIsomorphism.get_mapping, control flow only: WHICH embeddings get a fast mapping is decided by
   get_fast_mapping (canonical stereo SMILES equality, C01) and enters the model as an observed input *)
Theorem C07_ms_one_filtered : forall (B : Type) (beq : B -> B -> bool) fm cl (bd : list (Z * list (Z * B))),
  ms_one beq true fm cl bd = Ok (match fm with Some (p :: r) => [p :: r] | _ => [] end).
Proof. exact ms_one_filtered. Qed.
Print Assumptions C07_ms_one_filtered.

Theorem C07_ms_one_unfiltered : forall (B : Type) (beq : B -> B -> bool) p r cl (bd : list (Z * list (Z * B))) res,
  ms_one beq false (Some (p :: r)) cl bd = Ok res ->
  exists autos, get_automorphism_mapping beq cl bd = Ok autos /\
    forall g, In g res <-> g = p :: r \/ exists a, In a autos /\ compose_fm (p :: r) a = Ok g.
Proof. exact ms_one_unfiltered. Qed.
Print Assumptions C07_ms_one_unfiltered.

(* ---------------------------------------------------------------------------------------------------------------
   Second extension.  Cis/trans query bonds and allene-type centres of the stereo filter as parity conditions (C12's alkene law):
   stereogenic_cis_trans[(ot1, ot2)] = (n0, n1, n2, n3): n0, n2 the substituents at one end, n1, n3 at the other; the stored label s
   refers to (n0, n1).  The filter takes at each end the image of the first query neighbour mapped onto a registered substituent:
   the a-th (0 or 2) and the b-th (1 or 3).  ct_parity a b = (a = 2) xor (b = 3).
   --------------------------------------------------------------------------------------------------------------- *)
Theorem C07_bond_check_parity4 : forall t q mp n m qs on om lbl ot1 ot2 n0 n1 n2 n3 i j s a b,
  zget mp n = Some on -> zget mp m = Some om ->
  zget (adj_get (st_bond_stereo t) on) om = Some (Some lbl) ->
  zget (st_ct_term t) on = Some (ot1, ot2) ->
  zget (adj_get (st_ct t) ot1) ot2 = Some (n0, n1, Some n2, Some n3) -> NoDup [n0; n1; n2; n3] ->
  zget (st_ct_centers t) ot1 = Some (i, j) -> zget (adj_get (st_bond_stereo t) i) j = Some (Some s) ->
  In a [0; 2] -> In b [1; 3] ->
  (opposite_pair q mp ot1 ot2 (n0, n1, Some n2, Some n3) = Ok (pick (n0, n1, n2, n3) a, pick (n0, n1, n2, n3) b) \/
   opposite_pair q mp ot1 ot2 (n0, n1, Some n2, Some n3) = Ok (pick (n0, n1, n2, n3) b, pick (n0, n1, n2, n3) a)) ->
  bond_check t q mp n m qs = Ok (Bool.eqb (xorb s (ct_parity a b)) qs).
Proof. exact bond_check_parity4. Qed.
Print Assumptions C07_bond_check_parity4.

(* second substituents that are hydrogens (explicit ones hA, hB; the registry holds None for them) *)
Theorem C07_bond_check_parityH : forall t q mp n m qs on om lbl ot1 ot2 n0 n1 hA hB i j s a b,
  zget mp n = Some on -> zget mp m = Some om ->
  zget (adj_get (st_bond_stereo t) on) om = Some (Some lbl) ->
  zget (st_ct_term t) on = Some (ot1, ot2) ->
  zget (adj_get (st_ct t) ot1) ot2 = Some (n0, n1, None, None) ->
  n0 <> n1 -> isH t n0 = false -> isH t n1 = false -> isH t hA = true -> isH t hB = true ->
  zget (st_ct_centers t) ot1 = Some (i, j) -> zget (adj_get (st_bond_stereo t) i) j = Some (Some s) ->
  In a [0; 2] -> In b [1; 3] ->
  opposite_pair q mp ot1 ot2 (n0, n1, None, None) = Ok (pick (n0, n1, hA, hB) a, pick (n0, n1, hA, hB) b) ->
  bond_check t q mp n m qs = Ok (Bool.eqb (xorb s (ct_parity a b)) qs).
Proof. exact bond_check_parityH. Qed.
Print Assumptions C07_bond_check_parityH.

Theorem C07_atom_check_allene_parity : forall t q mp n qs m ts ot1 ot2 n0 n1 n2 n3 a b,
  zget mp n = Some m -> zget (st_atom_stereo t) m = Some (Some ts) -> zget (st_th t) m = None ->
  zget (st_al_term t) m = Some (ot1, ot2) -> zget (st_al t) m = Some (n0, n1, Some n2, Some n3) -> NoDup [n0; n1; n2; n3] ->
  In a [0; 2] -> In b [1; 3] ->
  (opposite_pair q mp ot1 ot2 (n0, n1, Some n2, Some n3) = Ok (pick (n0, n1, n2, n3) a, pick (n0, n1, n2, n3) b) \/
   opposite_pair q mp ot1 ot2 (n0, n1, Some n2, Some n3) = Ok (pick (n0, n1, n2, n3) b, pick (n0, n1, n2, n3) a)) ->
  atom_check t q mp n qs = Ok (Bool.eqb (xorb ts (ct_parity a b)) qs).
Proof. exact atom_check_allene_parity. Qed.
Print Assumptions C07_atom_check_allene_parity.

(* mirror image for bonds: inverting the label of the central bond inverts the verdict; same exceptions *)
Theorem C07_bond_check_mirror : forall t q mp n m qs on om lbl ot1 ot2 i j s,
  zget mp n = Some on -> zget mp m = Some om -> zget (adj_get (st_bond_stereo t) on) om = Some (Some lbl) ->
  zget (st_ct_term t) on = Some (ot1, ot2) ->
  zget (st_ct_centers t) ot1 = Some (i, j) -> zget (adj_get (st_bond_stereo t) i) j = Some (Some s) ->
  bond_check (with_bond_label t i j (negb s)) q mp n m qs =
  match bond_check t q mp n m qs with Ok v => Ok (negb v) | Err e => Err e end.
Proof. exact bond_check_mirror. Qed.
Print Assumptions C07_bond_check_mirror.

Theorem C07_example_bond_parity :
  zget ex_ct_mp 2 = Some 2 /\ zget ex_ct_mp 4 = Some 4 /\
  zget (adj_get (st_bond_stereo ex_ct_t) 2) 4 = Some (Some true) /\ zget (st_ct_term ex_ct_t) 2 = Some (2, 4) /\
  zget (adj_get (st_ct ex_ct_t) 2) 4 = Some (1, 5, Some 3, Some 6) /\ NoDup [1; 5; 3; 6] /\
  zget (st_ct_centers ex_ct_t) 2 = Some (2, 4) /\
  opposite_pair ex_ct_q ex_ct_mp 2 4 (1, 5, Some 3, Some 6) = Ok (pick (1, 5, 3, 6) 0, pick (1, 5, 3, 6) 1) /\
  bond_check ex_ct_t ex_ct_q ex_ct_mp 2 4 false = Ok false /\
  bond_check (with_bond_label ex_ct_t 2 4 false) ex_ct_q ex_ct_mp 2 4 false = Ok true.
Proof. exact example_bond_parity. Qed.
Print Assumptions C07_example_bond_parity.

(* ---------------------------------------------------------------------------------------------------------------
   pattern.get_mapping(target, automorphism_filter=flt, searching_scope=scope, match_stereo=True), the whole call
   (IsoStereo.get_mapping_match_stereo): the search runs with the image-set filter on; [oracle] = what substructure() /
   get_fast_mapping() / _chiral_morgan answer for a found embedding (observed; get_fast_mapping is canonical-SMILES equality, C01).
   --------------------------------------------------------------------------------------------------------------- *)
(* every yielded map belongs to a found embedding mp: ms_one says how (C07_ms_one_filtered / _unfiltered / _unfiltered_auto: the fast
   mapping of mp, then -- filter off -- its compositions with the automorphisms of the matched substructure); all of these are yielded *)
Theorem C07_match_stereo_yield : forall (QA A QB B B' : Type) (amatch : QA -> A -> bool) (bmatch : QB -> B -> bool) (beq : B' -> B' -> bool)
    q_atoms q_bonds o_atoms o_bonds tcomps scope (oracle : list (mapping * ms_obs B')) flt res,
  get_mapping_match_stereo amatch bmatch beq q_atoms q_bonds o_atoms o_bonds tcomps flt scope oracle = Ok res ->
  exists found, mol_get_mapping amatch bmatch q_atoms q_bonds o_atoms o_bonds tcomps true scope = Ok found /\
    forall g, In g res <->
      exists mp fm cl bd l, In mp found /\ oracle_get oracle mp = Ok (fm, cl, bd) /\ ms_one beq flt fm cl bd = Ok l /\ In g l.
Proof. exact match_stereo_yield. Qed.
Print Assumptions C07_match_stereo_yield.

(* filter off, matched substructure well-formed: the fast mapping, then exactly its compositions with the non-identity class
   automorphisms of the substructure (same vocabulary as C07_automorphism_mapping_exact) *)
Theorem C07_ms_one_unfiltered_auto : forall (B : Type) (beq : B -> B -> bool) p r cl (bd : list (Z * list (Z * B))) res,
  wf_adj cl bd -> ms_one beq false (Some (p :: r)) cl bd = Ok res ->
  exists comps clo, compile_query cl bd = Ok (comps, clo) /\
    forall g, In g res <->
      g = p :: r \/ exists a, (class_automorphism B beq cl bd comps a /\ exists x y, In (x, y) a /\ x <> y) /\ compose_fm (p :: r) a = Ok g.
Proof. exact ms_one_unfiltered_auto. Qed.
Print Assumptions C07_ms_one_unfiltered_auto.

(* automorphism_filter=True, oracle keeping the image atoms (fm maps the pattern onto the atoms the embedding covers; evaluated on every
   observed oracle by the correspondence): no two yielded maps cover the same atoms -- in particular no duplicates -- and each covers
   the atoms of a found embedding *)
Theorem C07_match_stereo_filtered_distinct : forall (QA A QB B B' : Type) (amatch : QA -> A -> bool) (bmatch : QB -> B -> bool)
    (beq : B' -> B' -> bool) q_atoms q_bonds o_atoms o_bonds tcomps scope (oracle : list (mapping * ms_obs B')),
  (forall mp fm cl bd, oracle_get oracle mp = Ok (Some fm, cl, bd) -> forall y, In y (image fm) <-> In y (image mp)) ->
  forall res, get_mapping_match_stereo amatch bmatch beq q_atoms q_bonds o_atoms o_bonds tcomps true scope oracle = Ok res ->
  ForallOrdPairs (fun a b => ~ (forall y, In y (image a) <-> In y (image b))) res /\ NoDup res /\
  exists found, mol_get_mapping amatch bmatch q_atoms q_bonds o_atoms o_bonds tcomps true scope = Ok found /\
                forall g, In g res -> exists mp, In mp found /\ (forall y, In y (image g) <-> In y (image mp)).
Proof. exact match_stereo_filtered_distinct. Qed.
Print Assumptions C07_match_stereo_filtered_distinct.

(* the found embeddings are the embeddings of the theorems above, one per set of image atoms, none lost *)
Theorem C07_match_stereo_found_embeddings : forall (QA A QB B : Type) (amatch : QA -> A -> bool) (bmatch : QB -> B -> bool)
    q_atoms q_bonds o_atoms o_bonds tcomps scope,
  wf_adj q_atoms q_bonds -> wf_adj o_atoms o_bonds -> tcomps_ok A B o_atoms o_bonds tcomps ->
  forall comps clo, compile_query q_atoms q_bonds = Ok (comps, clo) ->
  exists found, mol_get_mapping amatch bmatch q_atoms q_bonds o_atoms o_bonds tcomps true scope = Ok found /\
    (forall mp, In mp found -> multi_embedding QA A QB B amatch bmatch q_atoms q_bonds o_atoms o_bonds tcomps comps scope mp) /\
    (forall f, multi_embedding QA A QB B amatch bmatch q_atoms q_bonds o_atoms o_bonds tcomps comps scope f ->
               exists mp, In mp found /\ (forall y, In y (image f) <-> In y (image mp))).
Proof. exact match_stereo_found_embeddings. Qed.
Print Assumptions C07_match_stereo_found_embeddings.

(* ---------------------------------------------------------------------------------------------------------------
   Round 3: other.connected_components is no longer a parameter with hypotheses.  cc_of bonds order = the model of
   _connected_components (C06's Model.Rings.components_order on the plain graph of the adjacency) for the pop order [order] of
   the atom set -- ANY order; C06 proves that the result is the partition into connectivity classes.
   --------------------------------------------------------------------------------------------------------------- *)
(* the hypotheses of all wrapper theorems above are consequences *)
Theorem C07_cc_hyps : forall (V W : Type) (atoms : list (Z * V)) (bonds : list (Z * list (Z * W))),
  wf_adj atoms bonds -> forall order, (forall x, In x order <-> In x (keys bonds)) ->
  tcomps_ok V W atoms bonds (cc_of bonds order) /\
  (forall cand y1 y2, In cand (cc_of bonds order) -> In y1 cand -> In y2 cand -> reach bonds y1 y2) /\
  (forall c, In c (cc_of bonds order) -> c <> []).
Proof. exact @cc_hyps. Qed.
Print Assumptions C07_cc_hyps.

(* Python hands the components over as SETS: rearranging the atoms inside every component keeps the hypotheses *)
Theorem C07_hyps_transfer : forall (V W : Type) (atoms : list (Z * V)) (bonds : list (Z * list (Z * W))) tc1 tc2,
  Forall2 (fun a b => forall x, In x a <-> In x b) tc1 tc2 -> tcomps_ok V W atoms bonds tc1 -> tcomps_connected W bonds tc1 ->
  tcomps_ok V W atoms bonds tc2 /\ tcomps_connected W bonds tc2.
Proof. exact @hyps_transfer. Qed.
Print Assumptions C07_hyps_transfer.

(* the whole call, NO hypothesis on the components: tc = the model's components for some pop order, each possibly rearranged
   (the correspondence evaluates exactly this relation, cc_tieb, between the model and what the real code returns) *)
Theorem C07_get_mapping_global_exact_cc : forall (QA A QB B : Type) (amatch : QA -> A -> bool) (bmatch : QB -> B -> bool)
    (q_atoms : list (Z * QA)) (q_bonds : list (Z * list (Z * QB))) (o_atoms : list (Z * A)) (o_bonds : list (Z * list (Z * B))),
  wf_adj q_atoms q_bonds -> wf_adj o_atoms o_bonds ->
  forall order tc,
  (forall x, In x order <-> In x (keys o_bonds)) /\ Forall2 (fun a b => forall x, In x a <-> In x b) (cc_of o_bonds order) tc ->
  exists comps clo, compile_query q_atoms q_bonds = Ok (comps, clo) /\
    Permutation (concat (map (map fst4) comps)) (keys q_atoms) /\
    forall scope, exists res,
      mol_get_mapping amatch bmatch q_atoms q_bonds o_atoms o_bonds tc false scope = Ok res /\
      NoDup res /\
      forall f, In f res <-> global_embedding QA A QB B amatch bmatch q_atoms q_bonds o_atoms o_bonds tc comps scope f.
Proof. exact get_mapping_global_exact_cc. Qed.
Print Assumptions C07_get_mapping_global_exact_cc.

Theorem C07_is_equal_iff_isomorphic_cc : forall (QA A QB B : Type) (amatch : QA -> A -> bool) (bmatch : QB -> B -> bool)
    (q_atoms : list (Z * QA)) (q_bonds : list (Z * list (Z * QB))) (o_atoms : list (Z * A)) (o_bonds : list (Z * list (Z * B))),
  wf_adj q_atoms q_bonds -> wf_adj o_atoms o_bonds ->
  forall order tc,
  (forall x, In x order <-> In x (keys o_bonds)) /\ Forall2 (fun a b => forall x, In x a <-> In x b) (cc_of o_bonds order) tc ->
  exists b, is_equal amatch bmatch q_atoms q_bonds o_atoms o_bonds tc = Ok b /\
    (b = true <-> exists f, isomorphism QA A QB B amatch bmatch q_atoms q_bonds o_atoms o_bonds f).
Proof. exact is_equal_iff_isomorphic_cc. Qed.
Print Assumptions C07_is_equal_iff_isomorphic_cc.

Theorem C07_is_substructure_iff_cc : forall (QA A QB B : Type) (amatch : QA -> A -> bool) (bmatch : QB -> B -> bool)
    (q_atoms : list (Z * QA)) (q_bonds : list (Z * list (Z * QB))) (o_atoms : list (Z * A)) (o_bonds : list (Z * list (Z * B))),
  wf_adj q_atoms q_bonds -> wf_adj o_atoms o_bonds ->
  forall order tc,
  (forall x, In x order <-> In x (keys o_bonds)) /\ Forall2 (fun a b => forall x, In x a <-> In x b) (cc_of o_bonds order) tc ->
  forall comps clo, compile_query q_atoms q_bonds = Ok (comps, clo) ->
  exists b, is_substructure amatch bmatch q_atoms q_bonds o_atoms o_bonds tc = Ok b /\
    (b = true <-> exists f, global_embedding QA A QB B amatch bmatch q_atoms q_bonds o_atoms o_bonds tc comps None f).
Proof. exact is_substructure_iff_cc. Qed.
Print Assumptions C07_is_substructure_iff_cc.

Theorem C07_example_cc :
  cc_of ex_o_bonds [3; 4; 1; 2] = [[3; 2; 1]; [4]] /\ cc_tieb ex_o_bonds [3; 4; 1; 2] [[1; 2; 3]; [4]] = true.
Proof. exact example_cc. Qed.
Print Assumptions C07_example_cc.

(* ---------------------------------------------------------------------------------------------------------------
   Round 3, tie: the control skeleton of chython/algorithms/isomorphism.py that the hand-written model copies is regenerated from
   the source on every run (tools/gen_isoops.py -> Gen.IsoOps, Python ast, fail closed); the model is the instance of a skeleton
   parametrised by the generated constants (Proofs.IsoOpsTie).  Editing an operator, a call direction, a filter argument, the scope
   test, the component split or a loop exit in the source breaks the theorem named after it.
   --------------------------------------------------------------------------------------------------------------- *)
Theorem C07_restrict_generated : forall scope cand,
  restrict scope cand = restrict_gen (negb (gen_scope_truthiness_tests =? 0)%nat) scope cand.
Proof. exact restrict_generated. Qed.
Print Assumptions C07_restrict_generated.

Theorem C07_iso_stream_generated : forall (QA A QB B : Type) (amatch : QA -> A -> bool) (bmatch : QB -> B -> bool) comps clo o_atoms o_bonds tcomps scope,
  iso_stream amatch bmatch comps clo o_atoms o_bonds tcomps scope =
  iso_stream_gen QA A QB B amatch bmatch gen_single_branch_len gen_empty_candidate_exits comps clo o_atoms o_bonds tcomps scope.
Proof. exact iso_stream_generated. Qed.
Print Assumptions C07_iso_stream_generated.

Theorem C07_is_substructure_generated : forall (QA A QB B : Type) (amatch : QA -> A -> bool) (bmatch : QB -> B -> bool) q_atoms q_bonds o_atoms o_bonds tcomps,
  is_substructure amatch bmatch q_atoms q_bonds o_atoms o_bonds tcomps =
  match mol_get_mapping amatch bmatch q_atoms q_bonds o_atoms o_bonds tcomps gen_sub_filter None with
  | Err e => Err e | Ok [] => Ok false | Ok (_ :: _) => Ok true
  end.
Proof. exact is_substructure_generated. Qed.
Print Assumptions C07_is_substructure_generated.

Theorem C07_is_equal_generated : forall (QA A QB B : Type) (amatch : QA -> A -> bool) (bmatch : QB -> B -> bool) q_atoms q_bonds o_atoms o_bonds tcomps,
  is_equal amatch bmatch q_atoms q_bonds o_atoms o_bonds tcomps =
  if cmp_eval gen_equal_guard (length q_atoms) (length o_atoms) then Ok false
  else match mol_get_mapping amatch bmatch q_atoms q_bonds o_atoms o_bonds tcomps gen_equal_filter None with
       | Err e => Err e | Ok [] => Ok false | Ok (_ :: _) => Ok true
       end.
Proof. exact is_equal_generated. Qed.
Print Assumptions C07_is_equal_generated.

Theorem C07_iso_lt_generated : forall (QA A QB B : Type) (amatch : QA -> A -> bool) (bmatch : QB -> B -> bool) q_atoms q_bonds o_atoms o_bonds tcomps,
  iso_lt amatch bmatch q_atoms q_bonds o_atoms o_bonds tcomps =
  if cmp_eval gen_lt_guard (length q_atoms) (length o_atoms) then Ok false
  else is_substructure amatch bmatch q_atoms q_bonds o_atoms o_bonds tcomps.
Proof. exact iso_lt_generated. Qed.
Print Assumptions C07_iso_lt_generated.

Theorem C07_gt_is_mirrored_lt : forall a b, cmp_eval gen_gt_guard a b = cmp_eval gen_lt_guard b a.
Proof. exact gt_is_mirrored_lt. Qed.
Print Assumptions C07_gt_is_mirrored_lt.

Theorem C07_call_directions_generated :
  (gen_lt_swapped, gen_le_swapped, gen_gt_swapped, gen_ge_swapped) = (false, false, true, true) /\ (gen_scope_is_not_none_tests = 3)%nat.
Proof. exact call_directions_generated. Qed.
Print Assumptions C07_call_directions_generated.

Theorem C07_match_stereo_search_filter_generated : forall (QA A QB B B' : Type) (amatch : QA -> A -> bool) (bmatch : QB -> B -> bool)
    (beq : B' -> B' -> bool) q_atoms q_bonds o_atoms o_bonds tcomps flt scope (oracle : list (mapping * ms_obs B')),
  get_mapping_match_stereo amatch bmatch beq q_atoms q_bonds o_atoms o_bonds tcomps flt scope oracle =
  match mol_get_mapping amatch bmatch q_atoms q_bonds o_atoms o_bonds tcomps (if gen_match_stereo_filter_or then flt || true else flt) scope with
  | Err e => Err e
  | Ok ms => match all_ok (map (oracle_get oracle) ms) with
             | Err e => Err e
             | Ok obs => match_stereo_stream beq flt obs
             end
  end.
Proof. exact match_stereo_search_filter_generated. Qed.
Print Assumptions C07_match_stereo_search_filter_generated.

Theorem C07_automorphism_guards_generated : forall (B : Type) (beq : B -> B -> bool) atoms (bonds : list (Z * list (Z * B))),
  get_automorphism_mapping beq atoms bonds =
  if cmp_eval gen_auto_unique_guard (length atoms) (length (zdedup (map snd atoms))) then Ok []
  else match compile_query atoms bonds with
       | Err e => Err e
       | Ok (comps, clo) =>
           let mappers := map (fun order => get_mapping Z.eqb beq order clo atoms bonds (map fst4 order)) comps in
           let nonid := filter (fun mp : mapping => existsb (fun kv => negb (fst kv =? snd kv)) mp) in
           if Z.of_nat (length mappers) =? gen_auto_single_len
           then match mappers with m :: _ => Ok (nonid m) | [] => Err IndexError end
           else Ok (nonid (map merge_copy (lazy_product mappers)))
       end.
Proof. exact automorphism_guards_generated. Qed.
Print Assumptions C07_automorphism_guards_generated.

(* intermediate states of _get_mapping: get_mapping_trace lists what the explicit stack pops -- (node, depth, valid part of the path) --
   and is compared entry by entry with the real loop (sys.settrace) by the correspondence; the mappings yielded are exactly the trace
   entries at full depth, in order *)
Theorem C07_get_mapping_trace_yields : forall (QA A QB B : Type) (amatch : QA -> A -> bool) (bmatch : QB -> B -> bool)
    lq clo (o_atoms : list (Z * A)) (o_bonds : list (Z * list (Z * B))) scope,
  map image (get_mapping amatch bmatch lq clo o_atoms o_bonds scope) =
  map leaf_image (filter (full (Z.of_nat (length lq) - 1)) (get_mapping_trace amatch bmatch lq clo o_atoms o_bonds scope)).
Proof. exact get_mapping_trace_yields. Qed.
Print Assumptions C07_get_mapping_trace_yields.

(* ROUND 4 -- tie by TRANSLATION.  tools/gen_isomatch.py translates, statement by statement and on every run, the decision-carrying loop bodies of
   chython/algorithms/isomorphism.py into Gallina (Gen.IsoMatch): the start test and the candidate test of the reference matcher _get_mapping
   (scope, injectivity, bond match, atom match, closure-SET equality, closure-bond matches), the automorphism-filter block of
   Isomorphism._get_mapping (with the position of `seen = set()`), and the neighbour loop of _compile_query (tree edge / closure / skip).
   The hand-written pieces of Model.Iso on which all theorems above rest are proved EQUAL to the translated functions, for all arguments. *)
Theorem C07_init_ok_generated : forall (QA A : Type) (am : QA -> A -> bool) scope s_atom (na : Z * A),
  g_init_ok am scope s_atom (fst na) (snd na) = zmem (fst na) scope && am s_atom (snd na).
Proof. exact init_ok_generated. Qed.
Print Assumptions C07_init_ok_generated.

Theorem C07_cand_ok_generated : forall (QA A QB B : Type) (am : QA -> A -> bool) (bm : QB -> B -> bool)
    (clo : closures_t QB) o_atoms o_bonds scope (mp : mapping) n s_n s_atom s_bond o_n o_bond,
  g_cand_ok am bm clo o_atoms o_bonds scope mp (swap_mapping mp) n s_n s_atom s_bond o_n o_bond =
  cand_ok am bm (clo_get clo s_n) o_atoms o_bonds scope mp n s_atom s_bond o_n o_bond.
Proof. exact cand_ok_generated. Qed.
Print Assumptions C07_cand_ok_generated.

(* the whole matcher of the model = the same recursion over the TRANSLATED tests (so matcher_exact etc. are statements about them) *)
Theorem C07_get_mapping_generated : forall (QA A QB B : Type) (am : QA -> A -> bool) (bm : QB -> B -> bool)
    lq clo (o_atoms : list (Z * A)) (o_bonds : list (Z * list (Z * B))) scope,
  get_mapping am bm lq clo o_atoms o_bonds scope = get_mapping_gen QA A QB B am bm lq clo o_atoms o_bonds scope.
Proof. exact get_mapping_generated. Qed.
Print Assumptions C07_get_mapping_generated.

Theorem C07_cand_ok_generated_triangle :
  let tb := [(1, [(2, 1); (3, 1)]); (2, [(1, 1); (3, 1)]); (3, [(1, 1); (2, 1)])] in
  let ta := [(1, 6); (2, 6); (3, 6)] in
  g_cand_ok Z.eqb Z.eqb [(3, [(1, 1)])] ta tb [1; 2; 3] [(1, 1); (2, 2)] (swap_mapping [(1, 1); (2, 2)]) 2 3 6 (Some 1) 3 1 = true /\
  g_cand_ok Z.eqb Z.eqb [] ta tb [1; 2; 3] [(1, 1); (2, 2)] (swap_mapping [(1, 1); (2, 2)]) 2 3 6 (Some 1) 3 1 = false.
Proof. exact cand_ok_generated_triangle. Qed.
Print Assumptions C07_cand_ok_generated_triangle.

Theorem C07_auto_filter_generated : forall flt seen ms, auto_filter flt seen ms = filter_stream flt seen ms.
Proof. exact auto_filter_generated. Qed.
Print Assumptions C07_auto_filter_generated.

Theorem C07_cq_scan_generated : forall (QA QB : Type) (atoms : list (Z * QA)) front back seen (nbs : list (Z * QB)) stack clo,
  cq_scan atoms front back seen nbs stack clo = cq_scan_gen atoms front back seen nbs stack clo.
Proof. exact cq_scan_generated. Qed.
Print Assumptions C07_cq_scan_generated.

(* ROUND 4 -- FROM TRACE TO THEOREM.  Model.IsoStack is the reference matcher _get_mapping in its OWN form: the explicit stack, `path`, `mapping`,
   `reversed_mapping` with the lazy clean-up of path[depth:], order_depth and the re-parenting n = path[order_depth[back]], one step per
   `stack.pop()`, with the TRANSLATED start / candidate tests and Python's exceptions.  For every linear query of the shape _compile_query
   produces (non-empty, distinct fronts, every later entry names an earlier front as back) the loop terminates without exception -- some
   fuel suffices, so neither the out-of-fuel value nor an exception is the result -- and yields, IN ORDER, exactly the sequence of the
   recursive Model.Iso.get_mapping about which matcher_sound / matcher_complete / matcher_NoDup / matcher_exact speak. *)
Theorem C07_stack_loop_refines : forall (QA A QB B : Type) (am : QA -> A -> bool) (bm : QB -> B -> bool)
    (lq : list (lentry QA QB)) clo (o_atoms : list (Z * A)) (o_bonds : list (Z * list (Z * B))) scope,
  lq_shape_ok lq ->
  exists fuel, sm_get_mapping am bm lq clo o_atoms o_bonds scope fuel = Ok (get_mapping am bm lq clo o_atoms o_bonds scope).
Proof. exact sm_get_mapping_refines. Qed.
Print Assumptions C07_stack_loop_refines.

(* the shape hypothesis is a consequence of what _compile_query promises *)
Theorem C07_compiled_shape_ok : forall (QA QB : Type) (atoms : list (Z * QA)) (bonds : list (Z * list (Z * QB))) comps clo,
  compiled_ok atoms bonds comps clo -> forall c, In c comps -> lq_shape_ok c.
Proof. exact @compiled_shape_ok. Qed.
Print Assumptions C07_compiled_shape_ok.

(* so for the orders of ANY compiled well-formed pattern, any target dictionaries and any scope: no hypothesis on the linear query is left *)
Theorem C07_stack_loop_refines_compiled : forall (QA A QB B : Type) (am : QA -> A -> bool) (bm : QB -> B -> bool)
    (q_atoms : list (Z * QA)) (q_bonds : list (Z * list (Z * QB))) comps clo,
  wf_adj q_atoms q_bonds -> compile_query q_atoms q_bonds = Ok (comps, clo) ->
  forall c, In c comps -> forall (o_atoms : list (Z * A)) (o_bonds : list (Z * list (Z * B))) scope,
  exists fuel, sm_get_mapping am bm c clo o_atoms o_bonds scope fuel = Ok (get_mapping am bm c clo o_atoms o_bonds scope).
Proof. exact @stack_loop_refines_compiled. Qed.
Print Assumptions C07_stack_loop_refines_compiled.

Theorem C07_stack_loop_example :
  let tb := [(1, [(2, 1); (3, 1)]); (2, [(1, 1); (3, 1); (4, 1)]); (3, [(1, 1); (2, 1)]); (4, [(2, 1)])] in
  let ta := [(1, 6); (2, 6); (3, 6); (4, 6)] in
  let lq := [(1, None, 6, None); (2, Some 1, 6, Some 1); (3, Some 2, 6, Some 1)] in
  zsm_get_mapping lq [] ta tb [1; 2; 3; 4] 100 = Ok (zget_mapping lq [] ta tb [1; 2; 3; 4]) /\
  List.length (zget_mapping lq [] ta tb [1; 2; 3; 4]) = 4%nat /\
  zsm_get_mapping lq [] ta tb [1; 2; 3; 4] 3 = Err OtherError.
Proof. exact stack_loop_example. Qed.
Print Assumptions C07_stack_loop_example.

(* lazy_product (chython/_functions.py): the body of its inner loop is translated from the source on every run (tools/gen_isolazy.py ->
   Gen.IsoLazy.g_lp_step; the skeleton around the body is compared with the expected text); the model's pass over the factors is the fold of
   the translated step, so C07_lazy_product_exact / _In / _NoDup / _empty_iff speak about the translated body *)
Theorem C07_lp_for_generated : forall (X : Type) nargs (fs : list (@fac X)) reached, lp_for nargs fs reached = lp_for_gen nargs fs reached.
Proof. exact @lp_for_generated. Qed.
Print Assumptions C07_lp_for_generated.

(* fuel is monotone, so the refinement holds for ALL sufficiently large fuel: the out-of-fuel value can never be mistaken for a result *)
Theorem C07_stack_loop_refines_all_fuel : forall (QA A QB B : Type) (am : QA -> A -> bool) (bm : QB -> B -> bool)
    (lq : list (lentry QA QB)) clo (o_atoms : list (Z * A)) (o_bonds : list (Z * list (Z * B))) scope,
  lq_shape_ok lq ->
  exists fuel0, forall fuel, (fuel0 <= fuel)%nat ->
    sm_get_mapping am bm lq clo o_atoms o_bonds scope fuel = Ok (get_mapping am bm lq clo o_atoms o_bonds scope).
Proof. exact stack_loop_refines_all_fuel. Qed.
Print Assumptions C07_stack_loop_refines_all_fuel.
