(* C19 -- results are identical across processes, hash seeds and repeated calls.  Statements only; proofs in
   Proofs.DeterminismProofs (self contained) and, for the order_free_* restatements, in the proof files of the
   properties that own the models (Morgan C01, Fingerprint C17, Rings C06, Iso C07), required read-only.

   What is a theorem here:
     (a) the static audit (126 sites in the 62 .py files anchored by any of the 20 properties + standardize/reaction.py):
         every place of the CURRENT source where a set's iteration order (or a hash() value)
         can reach a result is in the hand-written allow-list with its reason, and vice versa (regenerated every run);
     (b) the reasons: a loop with a commuting body, sorted()/min() on a key, a canonical set built by add(), a lookup
         table, deletion of a vertex set, a bit mask - each gives the same value for EVERY enumeration of the set (hence
         for every hash seed and process); the restated per-family theorems say the same for _morgan, _chains,
         _connected_components and lazy_product;
         a dict of lists filled in set order (_fragments) keeps its keys, the members of every list and the hash set computed
         from it; per-member updates, any()/all() scans, sorted()/max() of int sets;
     (c) the memoisation layer is transparent for every history of reads, mutations+flush and flushes, and a copy
         (empty cache) observes the same values.
   What is NOT a theorem: that CPython enumerates a set of ints in an order that depends only on its construction
   history (trusted, exercised by the differential runs); order-freeness of the unmodelled ring heuristics and of the
   writer's tie-breaks between atoms of equal weight (reason IntHistory / KeyedTieBreak: differential runs only).
   The faithful model of `list(v)` / `tmp.extend(v)` over a set of molecules, which hash through their str (remove_reagents; and morgan_hash_smiles
   before fix 59bbd7c, now sorted: C19_sorted_str_perm), is NOT order free: C19_list_of_str_set_refuted (known finding,
   reproduced on the real code under two hash seeds by every run of the check). *)
From Coq Require Import ZArith List String Bool Permutation.
From Model Require Import PyBase Graph Determinism DeterminismKeep DeterminismAlias.
From Model Require Morgan Fingerprint Rings Iso.
From Gen Require Import SetAudit CacheKeys CacheAlias.
From Proofs Require Import DeterminismProofs DeterminismExt DeterminismRings DeterminismKeepProofs DeterminismAliasProofs DeterminismAliasMore.
From Proofs Require MorganProofs FingerprintProofs RingsProofs IsoLazyProofs.
Import ListNotations.
Open Scope list_scope.
Open Scope Z_scope.

(* ---- (a) the audit of the current source ---- *)

Theorem C19_audit_complete : audit_ok audit = true.
Proof. exact audit_complete. Qed.
Print Assumptions C19_audit_complete.

Theorem C19_audit_complete_In : forall s, In s audit -> exists r, In (s, r) allow_list.
Proof. exact audit_complete_In. Qed.
Print Assumptions C19_audit_complete_In.

(* no stale entry: every allow-listed site still exists in the source *)
Theorem C19_audit_tight : forall s r, In (s, r) allow_list -> In s audit.
Proof. exact audit_tight_In. Qed.
Print Assumptions C19_audit_tight.

(* every lemma a reason names is one of the theorems below; no site is listed twice *)
Theorem C19_reasons_are_theorems : reasons_known = true /\ nodup_sites (map fst allow_list) = true.
Proof. exact (conj reasons_are_theorems allow_list_nodup). Qed.
Print Assumptions C19_reasons_are_theorems.

(* ---- (b) generic reasons ---- *)

(* a `for x in S` loop whose body commutes up to an equivalence R of states gives R-equal results for every two
   enumerations of S *)
Theorem C19_loop_perm_R : forall (A X : Type) (R : A -> A -> Prop),
  (forall a, R a a) -> (forall a b c, R a b -> R b c -> R a c) ->
  forall f : A -> X -> A, (forall a b x, R a b -> R (f a x) (f b x)) -> (forall a x y, R (f (f a x) y) (f (f a y) x)) ->
  forall l l', Permutation l l' -> forall a b, R a b -> R (loop f l a) (loop f l' b).
Proof. exact @loop_perm_R. Qed.
Print Assumptions C19_loop_perm_R.

(* read as seed freedom: whatever enumeration each seed / process produces for the same set *)
Theorem C19_seed_free_loop : forall (A X Seed : Type) (f : A -> X -> A) (enum : Seed -> list X),
  (forall a x y, f (f a x) y = f (f a y) x) -> (forall s1 s2, Permutation (enum s1) (enum s2)) ->
  forall s1 s2 a, loop f (enum s1) a = loop f (enum s2) a.
Proof. exact @seed_free_loop. Qed.
Print Assumptions C19_seed_free_loop.

(* sorted(S, key=k): the key sequence never depends on the enumeration; with a separating key nothing does *)
Theorem C19_sort_by_perm : forall (X : Type) (key : X -> Z) (l l' : list X), Permutation l l' ->
  map key (sort_by key l) = map key (sort_by key l') /\
  ((forall x y, In x l -> In y l -> key x = key y -> x = y) -> sort_by key l = sort_by key l').
Proof. exact @sort_by_perm. Qed.
Print Assumptions C19_sort_by_perm.

(* min(S, key=k) *)
Theorem C19_min_by_perm : forall (X : Type) (key : X -> Z) (l l' : list X), Permutation l l' ->
  option_map key (min_by key l) = option_map key (min_by key l') /\
  ((forall x y, In x l -> In y l -> key x = key y -> x = y) -> min_by key l = min_by key l').
Proof. exact @min_by_perm. Qed.
Print Assumptions C19_min_by_perm.

(* sorted() is stable, min() takes the first of the minimal class: the enumeration order INSIDE one key class is all
   that can reach the result, and the result is a function of these per-class orders alone (this is what the tie-break
   input `tb` of the writer model captures) *)
Theorem C19_sort_by_stable : forall (X : Type) (key : X -> Z) k (l : list X),
  filter (same_key key k) (sort_by key l) = filter (same_key key k) l.
Proof. exact @sort_by_stable. Qed.
Print Assumptions C19_sort_by_stable.

Theorem C19_sort_by_determined : forall (X : Type) (key : X -> Z) (l l' : list X),
  (forall k, filter (same_key key k) l = filter (same_key key k) l') -> sort_by key l = sort_by key l'.
Proof. exact @sort_by_determined. Qed.
Print Assumptions C19_sort_by_determined.

Theorem C19_min_by_first : forall (X : Type) (key : X -> Z) (l : list X) x,
  min_by key l = Some x -> hd_error (filter (same_key key (key x)) l) = Some x.
Proof. exact @min_by_first. Qed.
Print Assumptions C19_min_by_first.

(* sorted(S) under a total order (no key): order free; instance: a set of str (morgan_hash_smiles / linear_hash_smiles) *)
Theorem C19_sort_leb_perm : forall (X : Type) (leb : X -> X -> bool),
  (forall a b, leb a b = true \/ leb b a = true) -> (forall a b, leb a b = true -> leb b a = true -> a = b) ->
  (forall a b c, leb a b = true -> leb b c = true -> leb a c = true) ->
  forall l l', Permutation l l' -> sort_leb leb l = sort_leb leb l'.
Proof. exact @sort_leb_perm. Qed.
Print Assumptions C19_sort_leb_perm.

Theorem C19_sorted_str_perm : forall l l' : list string, Permutation l l' -> sorted_str l = sorted_str l'.
Proof. exact sorted_str_perm. Qed.
Print Assumptions C19_sorted_str_perm.

Theorem C19_singleton_enum : forall (X : Type) (e e' : list X), Permutation e e' -> List.length e = 1%nat -> e = e'.
Proof. exact @singleton_enum. Qed.
Print Assumptions C19_singleton_enum.

Theorem C19_unpack2_sym : forall (X R : Type) (f : X -> X -> R) (e e' : list X),
  (forall a b, f a b = f b a) -> Permutation e e' -> unpack2 f e = unpack2 f e'.
Proof. exact @unpack2_sym. Qed.
Print Assumptions C19_unpack2_sym.

(* a set accumulated by add() is the same canonical set for every enumeration, and it is exactly the image *)
Theorem C19_set_of_map_perm : forall (g : Z -> list Z) (e e' : list Z), Permutation e e' -> set_of_map g e = set_of_map g e'.
Proof. exact set_of_map_perm. Qed.
Print Assumptions C19_set_of_map_perm.

Theorem C19_set_of_map_spec : forall (g : Z -> list Z) (e : list Z) y, In y (set_of_map g e) <-> exists x, In x e /\ In y (g x).
Proof. exact set_of_map_spec. Qed.
Print Assumptions C19_set_of_map_spec.

Theorem C19_filter_set_perm : forall (p : Z -> bool) (e e' : list Z), Permutation e e' -> filter_set p e = filter_set p e'.
Proof. exact filter_set_perm. Qed.
Print Assumptions C19_filter_set_perm.

(* ---- (b) the loop bodies of the audited sites ---- *)

Theorem C19_ring_mask_perm : forall e e' : list Z, Permutation e e' -> ring_mask e = ring_mask e'.
Proof. exact ring_mask_perm. Qed.
Print Assumptions C19_ring_mask_perm.

Theorem C19_group_sizes_perm : forall (weights : Z -> Z) (e e' : list Z), Permutation e e' ->
  forall w, glookup (group_sizes weights e) w = glookup (group_sizes weights e') w.
Proof. exact group_sizes_perm. Qed.
Print Assumptions C19_group_sizes_perm.

Theorem C19_bfs_level_perm : forall (d : Z) (e e' : list Z) (seen : list (Z * Z)), Permutation e e' ->
  forall k, first_value (bfs_levels d e seen) k = first_value (bfs_levels d e' seen) k.
Proof. exact bfs_level_perm. Qed.
Print Assumptions C19_bfs_level_perm.

Theorem C19_lookup_table_perm : forall (V : Type) (f : Z -> V) (e e' : list Z), Permutation e e' ->
  forall k, tlookup (table_of f e) k = tlookup (table_of f e') k.
Proof. exact @lookup_table_perm. Qed.
Print Assumptions C19_lookup_table_perm.

Theorem C19_lookup_table_spec : forall (V : Type) (f : Z -> V) (e : list Z) k,
  tlookup (table_of f e) k = if existsb (Z.eqb k) e then Some (f k) else None.
Proof. exact @lookup_table_spec. Qed.
Print Assumptions C19_lookup_table_spec.

Theorem C19_discard_all_perm : forall (n : Z) (d : list (Z * list Z)) (e e' : list Z), Permutation e e' ->
  discard_all n d e = discard_all n d e'.
Proof. exact discard_all_perm. Qed.
Print Assumptions C19_discard_all_perm.

Theorem C19_remove_vertices_perm : forall (d : list (Z * list Z)) (e e' : list Z), Permutation e e' ->
  remove_vertices d e = remove_vertices d e'.
Proof. exact remove_vertices_perm. Qed.
Print Assumptions C19_remove_vertices_perm.

Theorem C19_index_set_perm : forall (e e' : list Z) (len : nat), Permutation e e' -> index_assign e len = index_assign e' len.
Proof. exact index_set_perm. Qed.
Print Assumptions C19_index_set_perm.

(* ... and the array is exactly the characteristic vector of the set *)
Theorem C19_index_assign_spec : forall (e : list Z) (len k : nat), (k < len)%nat ->
  nth k (index_assign e len) false = existsb (Z.eqb (Z.of_nat k)) e.
Proof. exact index_assign_spec. Qed.
Print Assumptions C19_index_assign_spec.

(* ---- (b') a dict of lists filled in set order: LinearFingerprint._fragments and its consumer linear_hash_set ---- *)

(* out[key(x)].append(val(x)) for x in S: every list of the finished dict has the same members for every enumeration *)
Theorem C19_multi_table_perm : forall (K V : Type) (keqb : K -> K -> bool), (forall a b, keqb a b = true <-> a = b) ->
  forall (X : Type) (key : X -> K) (val : X -> V) (e e' : list X), Permutation e e' ->
  forall k, Permutation (mget keqb (multi_table keqb key val e) k) (mget keqb (multi_table keqb key val e') k).
Proof. exact @multi_table_perm. Qed.
Print Assumptions C19_multi_table_perm.

(* ... its keys are exactly the keys of the members and each list holds exactly the values of the members of that key *)
Theorem C19_multi_table_keys : forall (K V : Type) (keqb : K -> K -> bool), (forall a b, keqb a b = true <-> a = b) ->
  forall (X : Type) (key : X -> K) (val : X -> V) (e : list X) k,
  In k (map fst (multi_table keqb key val e)) <-> exists x, In x e /\ key x = k.
Proof. exact @multi_table_keys. Qed.
Print Assumptions C19_multi_table_keys.

Theorem C19_multi_table_members : forall (K V : Type) (keqb : K -> K -> bool), (forall a b, keqb a b = true <-> a = b) ->
  forall (X : Type) (key : X -> K) (val : X -> V) (e : list X) k v,
  In v (mget keqb (multi_table keqb key val e) k) <-> exists x, In x e /\ key x = k /\ val x = v.
Proof. exact @multi_table_members. Qed.
Print Assumptions C19_multi_table_members.

(* {hash(key, cnt) for key, list in items() for cnt in range(min(len(list), nbp))}: the same set for every enumeration *)
Theorem C19_frag_hash_set_perm : forall (K V : Type) (keqb : K -> K -> bool), (forall a b, keqb a b = true <-> a = b) ->
  forall (X : Type) (key : X -> K) (val : X -> V) (h : K -> Z -> Z) (nbp : Z) (e e' : list X), Permutation e e' ->
  frag_hash_set keqb key val h nbp e = frag_hash_set keqb key val h nbp e'.
Proof. exact @frag_hash_set_perm. Qed.
Print Assumptions C19_frag_hash_set_perm.

(* the instance that mirrors _fragments (keys = the larger of the identifier tuple and its reverse) *)
Theorem C19_fragments_of_perm : forall (idf : Z -> Z) (ord : Z -> Z -> Z) (e e' : list (list Z)), Permutation e e' ->
  (forall k, In k (map fst (fragments_of idf ord e)) <-> In k (map fst (fragments_of idf ord e'))) /\
  (forall k, Permutation (mget zlist_eqb (fragments_of idf ord e) k) (mget zlist_eqb (fragments_of idf ord e') k)).
Proof. exact fragments_of_perm. Qed.
Print Assumptions C19_fragments_of_perm.

Theorem C19_fragments_hash_set_perm : forall (idf : Z -> Z) (ord : Z -> Z -> Z) (h : list Z -> Z -> Z) (nbp : Z) (e e' : list (list Z)),
  Permutation e e' ->
  frag_hash_set zlist_eqb (frag_key idf ord) (frag_val idf ord) h nbp e =
  frag_hash_set zlist_eqb (frag_key idf ord) (frag_val idf ord) h nbp e'.
Proof. exact fragments_hash_set_perm. Qed.
Print Assumptions C19_fragments_hash_set_perm.

(* what the equivalence forgets IS visible to linear_hash_smiles (chains[0]): the first chain of a key depends on the
   enumeration - an int-tuple set, so not on the hash seed (differential runs), but not order free either *)
Theorem C19_fragments_first_chain_refuted :
  let idf := fun _ : Z => 6 in let ord := fun _ _ : Z => 1 in
  let e := [[2; 1]; [3; 2]] in let e' := [[3; 2]; [2; 1]] in
  Permutation e e' /\
  hd [] (mget zlist_eqb (fragments_of idf ord e) [6; 1; 6]) = [1; 2] /\
  hd [] (mget zlist_eqb (fragments_of idf ord e') [6; 1; 6]) = [2; 3].
Proof. exact fragments_first_chain_order_dependent. Qed.
Print Assumptions C19_fragments_first_chain_refuted.

Theorem C19_fragments_example :
  let idf := fun x : Z => if x =? 3 then 8 else 6 in let ord := fun _ _ : Z => 1 in
  fragments_of idf ord [[1]; [2]; [3]; [2; 1]; [3; 2]; [3; 2; 1]] =
    [([6], [[1]; [2]]); ([8], [[3]]); ([6; 1; 6], [[1; 2]]); ([8; 1; 6], [[3; 2]]); ([8; 1; 6; 1; 6], [[3; 2; 1]])] /\
  frag_hash_set zlist_eqb (frag_key idf ord) (frag_val idf ord) (fun k c => fold_left Z.add k c) 4 [[1]; [2]; [3]; [2; 1]] =
  frag_hash_set zlist_eqb (frag_key idf ord) (frag_val idf ord) (fun k c => fold_left Z.add k c) 4 [[2; 1]; [3]; [2]; [1]].
Proof. exact fragments_example. Qed.
Print Assumptions C19_fragments_example.

(* ---- (b'') generic reasons used for the files anchored by the other properties ---- *)

(* `for n in S: state[n] = g(n, state[n])` (calc_implicit(n), a._charge += 1, new_molecules[x] = ...) *)
Theorem C19_pointwise_update_perm : forall (V : Type) (g : Z -> V -> V) (e e' : list Z) (s : Z -> V), Permutation e e' ->
  forall k, loop (upd_at g) e s k = loop (upd_at g) e' s k.
Proof. exact @pointwise_update_perm. Qed.
Print Assumptions C19_pointwise_update_perm.

Theorem C19_existsb_perm : forall (X : Type) (p : X -> bool) (e e' : list X), Permutation e e' -> existsb p e = existsb p e'.
Proof. exact @existsb_perm. Qed.
Print Assumptions C19_existsb_perm.

Theorem C19_forallb_perm : forall (X : Type) (p : X -> bool) (e e' : list X), Permutation e e' -> forallb p e = forallb p e'.
Proof. exact @forallb_perm. Qed.
Print Assumptions C19_forallb_perm.

Theorem C19_sorted_ints_perm : forall e e' : list Z, Permutation e e' -> sort_by (fun z => z) e = sort_by (fun z => z) e'.
Proof. exact sorted_ints_perm. Qed.
Print Assumptions C19_sorted_ints_perm.

Theorem C19_max_perm : forall (e e' : list Z) (d : Z), Permutation e e' -> loop Z.max e d = loop Z.max e' d.
Proof. exact max_perm. Qed.
Print Assumptions C19_max_perm.

Theorem C19_ext_examples :
  loop (upd_at (fun n v => v + n)) [3; 1; 3] (fun _ => 0) 3 = 6 /\
  existsb (fun x => x >? 2) [1; 3] = existsb (fun x => x >? 2) [3; 1] /\
  sort_by (fun z => z) [8; 1; 4] = [1; 4; 8].
Proof. exact ext_examples. Qed.
Print Assumptions C19_ext_examples.

(* ---- (b3) the two-element unpack of rings.py:
        n, m = common;  c = _canonic_ring(( *_ring_scissors(c, n, m), *_ring_scissors(r, m, n)[1:-1])) ---- *)

(* _ring_scissors on a ring bond a-b: the spelling from a to b; arguments exchanged: the same walk backwards *)
Theorem C19_scissors_pair : forall ring a b, NoDup ring -> (3 <= List.length ring)%nat -> cyc_adj ring a b ->
  exists I, Rings.ring_scissors ring a b = Ok (a :: I ++ [b]) /\ Rings.ring_scissors ring b a = Ok (b :: rev I ++ [a]) /\
            Permutation ring (a :: I ++ [b]).
Proof. exact scissors_pair. Qed.
Print Assumptions C19_scissors_pair.

(* both enumerations of the two-member set give the same merged ring (and it is computed without error) *)
Theorem C19_merged_ring_sym : forall c r n m,
  NoDup c -> NoDup r -> (3 <= List.length c)%nat -> (3 <= List.length r)%nat ->
  cyc_adj c n m -> cyc_adj r n m ->
  (forall x, In x c -> In x r -> x = n \/ x = m) ->
  merged_ring c r n m = merged_ring c r m n /\ exists ring, merged_ring c r n m = Ok ring.
Proof. exact merged_ring_sym. Qed.
Print Assumptions C19_merged_ring_sym.

Theorem C19_unpack_merged_ring : forall c r n m e,
  NoDup c -> NoDup r -> (3 <= List.length c)%nat -> (3 <= List.length r)%nat -> cyc_adj c n m -> cyc_adj r n m ->
  (forall x, In x c -> In x r -> x = n \/ x = m) -> Permutation [n; m] e ->
  unpack2 (merged_ring c r) e = unpack2 (merged_ring c r) [n; m].
Proof. exact unpack_merged_ring. Qed.
Print Assumptions C19_unpack_merged_ring.

(* without the guard the expression is NOT order free: the `n, m = common` of _is_condensed_ring (two common atoms that need
   not be neighbours) stays a differential-only site; replayed on the real _canonic_ring / _ring_scissors by the check *)
Theorem C19_merged_ring_unguarded_refuted :
  let c := [1; 2; 3; 4] in let r := [1; 5; 3; 6] in
  NoDup c /\ NoDup r /\ (forall x, In x c -> In x r -> x = 1 \/ x = 3) /\
  merged_ring c r 1 3 = Ok [1; 1; 6; 4; 3; 2] /\ merged_ring c r 3 1 = Ok [1; 2; 5; 3; 3; 4].
Proof. exact merged_ring_unguarded_order_dependent. Qed.
Print Assumptions C19_merged_ring_unguarded_refuted.

Theorem C19_merged_ring_example :
  merged_ring [1; 2; 3; 4] [3; 4; 5; 6; 7] 3 4 = Ok [1; 2; 3; 7; 6; 5; 4] /\
  merged_ring [1; 2; 3; 4] [3; 4; 5; 6; 7] 4 3 = Ok [1; 2; 3; 7; 6; 5; 4] /\
  cyc_adj [1; 2; 3; 4] 3 4 /\ cyc_adj [3; 4; 5; 6; 7] 3 4.
Proof. exact merged_ring_example. Qed.
Print Assumptions C19_merged_ring_example.

(* ---- (b) order_free_*: restated from the proof files of the owning properties ---- *)

(* C01: the Morgan ranks do not depend on the insertion order of atoms / adjacency rows / neighbours, for ANY hash *)
Theorem C19_morgan_order_independent : forall (h : list Z -> Z) (ring : Z -> bool) (g g' : mol),
  NoDup (ids g) -> NoDup (keys (m_adj g)) -> Morgan.mol_perm g g' ->
  forall n, Morgan.rank_of (Morgan.atoms_order h ring g) n = Morgan.rank_of (Morgan.atoms_order h ring g') n.
Proof. exact MorganProofs.morgan_order_independent. Qed.
Print Assumptions C19_morgan_order_independent.

(* C17: the set of linear fragments does not depend on any insertion order *)
Theorem C19_chains_insertion_order_free : forall g g' lo hi, wf_mol g = true -> wf_mol g' = true ->
  (forall x, In x (ids g) <-> In x (ids g')) -> (forall x y, Fingerprint.edge g x y <-> Fingerprint.edge g' x y) ->
  forall p, In p (Fingerprint.chains g lo hi) <-> In p (Fingerprint.chains g' lo hi).
Proof. exact FingerprintProofs.chains_insertion_order_free. Qed.
Print Assumptions C19_chains_insertion_order_free.

(* C06: _connected_components for ANY pop order of the atom set *)
Theorem C19_components_partition : forall g order, RingsProofs.gwf g -> (forall x, In x order <-> In x (keys g)) ->
  exists cs, Rings.connected_components_order g order = Ok cs /\
  (forall v, In v (keys g) -> exists c, In c cs /\ In v c) /\
  NoDup (List.concat cs) /\
  (forall c, In c cs -> c <> [] /\
     forall u, In u c -> In u (keys g) /\ forall v, In v c <-> RingsProofs.reach g u v).
Proof. exact RingsProofs.components_partition. Qed.
Print Assumptions C19_components_partition.

(* C07: lazy_product yields the cartesian product, each tuple once *)
Theorem C19_lazy_product_exact : forall (X : Type) (ls : list (list X)), Permutation (Iso.lazy_product ls) (Iso.cartesian ls).
Proof. exact @IsoLazyProofs.lazy_product_exact. Qed.
Print Assumptions C19_lazy_product_exact.

(* ---- the one audited site that is NOT order free (known finding) ---- *)
Theorem C19_list_of_str_set_refuted :
  exists e e' : list string, Permutation e e' /\ List.length e = 2%nat /\ e <> e'.
Proof. exact list_of_set_order_dependent. Qed.
Print Assumptions C19_list_of_str_set_refuted.

(* ---- (c) the memoisation layer ---- *)

Theorem C19_read_transparent : forall (S K V : Type) (keqb : K -> K -> bool), (forall a b, keqb a b = true -> a = b) ->
  forall (derive : K -> S -> V) s c k, cache_ok keqb derive s c ->
  fst (read keqb derive s c k) = derive k s /\ cache_ok keqb derive s (snd (read keqb derive s c k)).
Proof. exact @read_transparent. Qed.
Print Assumptions C19_read_transparent.

Theorem C19_cache_transparent : forall (S K V : Type) (keqb : K -> K -> bool), (forall a b, keqb a b = true -> a = b) ->
  forall (derive : K -> S -> V) ops s c, cache_ok keqb derive s c -> run keqb derive s c ops = run_uncached derive s ops.
Proof. exact @cache_transparent. Qed.
Print Assumptions C19_cache_transparent.

Theorem C19_cached_equals_copy : forall (S K V : Type) (keqb : K -> K -> bool), (forall a b, keqb a b = true -> a = b) ->
  forall (derive : K -> S -> V) ops s c, cache_ok keqb derive s c -> run keqb derive s c ops = run keqb derive s [] ops.
Proof. exact @cached_equals_copy. Qed.
Print Assumptions C19_cached_equals_copy.

(* ---- (c') the memoisation layer with PARTIAL flushes: flush_cache(keep_sssr=..., keep_components=...) ---- *)

(* a partial flush after an edit keeps the cache invariant exactly when the kept attributes did not change *)
Theorem C19_restrict_ok : forall (S K V : Type) (keqb : K -> K -> bool), (forall a b, keqb a b = true <-> a = b) ->
  forall (derive : K -> S -> V) (f : S -> S) keep s c, cache_ok keqb derive s c ->
  (forall k, In k keep -> derive k (f s) = derive k s) -> cache_ok keqb derive (f s) (restrict keqb keep c).
Proof. exact @restrict_ok. Qed.
Print Assumptions C19_restrict_ok.

(* every history of reads, cross-storing reads, edits followed by a partial flush and partial flushes alone returns what an
   uncached evaluation returns, provided every partial flush keeps only attributes its edit left unchanged (the comment
   in the source: "good to keep if no new bonds or bonds deletions ...") *)
Theorem C19_cache_transparent_keep : forall (S K V : Type) (keqb : K -> K -> bool), (forall a b, keqb a b = true <-> a = b) ->
  forall (derive : K -> S -> V) ops s c, cache_ok keqb derive s c -> keeps_sound derive s ops ->
  run_keep keqb derive s c ops = run_uncached_keep derive s ops.
Proof. exact @cache_transparent_keep. Qed.
Print Assumptions C19_cache_transparent_keep.

(* a copy made with keep flags (copy(keep_sssr=.., keep_components=..), the backup of a transaction) observes what the
   original observes *)
Theorem C19_copy_keep_transparent : forall (S K V : Type) (keqb : K -> K -> bool), (forall a b, keqb a b = true <-> a = b) ->
  forall (derive : K -> S -> V) ops s c keep, cache_ok keqb derive s c -> keeps_sound derive s ops ->
  run_keep keqb derive s (restrict keqb keep c) ops = run_keep keqb derive s c ops.
Proof. exact @copy_keep_transparent. Qed.
Print Assumptions C19_copy_keep_transparent.

(* the side condition is necessary: keeping an attribute that the edit changes returns the stale value (the shape of the
   delete_bond / rolled back transaction / explicify_hydrogens defects this property found in /repo) *)
Theorem C19_partial_flush_without_side_condition_refuted :
  let ops := [KRead true; KRead false; KMutateKeep (cons 9) [true; false]; KRead false; KRead true] in
  run_keep Bool.eqb kex_derive [1; 2] [] ops = [2; 7; 7; 2] /\
  run_uncached_keep kex_derive [1; 2] ops = [2; 7; 7; 3] /\
  ~ keeps_sound kex_derive [1; 2] ops.
Proof. exact partial_flush_needs_side_condition. Qed.
Print Assumptions C19_partial_flush_without_side_condition_refuted.

Theorem C19_partial_flush_example :
  let ops := [KReadStoring true [false]; KRead false; KMutateKeep (cons 9) [false]; KRead false; KRead true;
              KFlushKeep [true]; KRead true; KMutateKeep (cons 4) []; KRead true] in
  keeps_sound kex_derive [1; 2] ops /\
  run_keep Bool.eqb kex_derive [1; 2] [] ops = [2; 7; 7; 3; 3; 4] /\
  run_uncached_keep kex_derive [1; 2] ops = [2; 7; 7; 3; 3; 4].
Proof. exact partial_flush_example. Qed.
Print Assumptions C19_partial_flush_example.

(* ---- ties of hand-written constants to the CURRENT source (Gen.CacheKeys, regenerated every run) ---- *)

(* flush_cache and copy keep the same keys, and they are the ones the model and the check assume *)
Theorem C19_kept_keys_agree :
  flush_keep_sssr = sssr_family /\ copy_keep_sssr = sssr_family /\
  flush_keep_components = components_family /\ copy_keep_components = components_family.
Proof. exact kept_keys_agree. Qed.
Print Assumptions C19_kept_keys_agree.

(* the self.__dict__ entries a Smiles read stores besides its own memo entry (the ReadStoring operations of the histories) *)
Theorem C19_cross_stores_agree : smiles_cross_stores = cross_stored.
Proof. exact cross_stores_agree. Qed.
Print Assumptions C19_cross_stores_agree.

(* the ring-size mask loop of both isomorphism encoders uses the constants of Model.Determinism.ring_mask_step / ring_mask *)
Theorem C19_ring_mask_consts_agree :
  ring_mask_structure = (ring_size_limit, ring_size_limit, ring_free_mask) /\ ring_mask_query = ring_mask_structure /\
  (forall v r, ring_mask_step v r = ring_mask_step_gen (fst (fst ring_mask_structure)) (snd (fst ring_mask_structure)) v r) /\
  (forall e, ring_mask e = let v4 := loop ring_mask_step e 0 in if v4 =? 0 then snd ring_mask_structure else v4).
Proof. exact ring_mask_consts_agree. Qed.
Print Assumptions C19_ring_mask_consts_agree.

(* every flush_cache(keep...) call of the audited files passes only the documented flags *)
Theorem C19_partial_flush_keywords_known :
  forallb (fun c => existsb (String.eqb (snd c)) known_flush_keywords) partial_flush_calls = true.
Proof. exact partial_flush_keywords_known. Qed.
Print Assumptions C19_partial_flush_keywords_known.

(* ---- round 4: cached values taken as working variables (Model.DeterminismAlias) ----
   A body may start from the cached value of ANOTHER attribute and update its working variable in place (MoleculeStereo._chiral_morgan:
   `morgan = self.atoms_order.copy()` ... `morgan[n] = -morgan[n]`).  If every such body binds a COPY, every history of reads of plain and
   derived attributes, edits and flushes returns what a cache-free copy returns - for all attribute bodies, step lists and histories. *)
Theorem C19_alias_copy_transparent : forall (S K V : Type) (keqb : K -> K -> bool), (forall a b, keqb a b = true <-> a = b) ->
  forall (base : K -> S -> V) (spec : K -> option (@derived S K V)),
  (forall k d, spec k = Some d -> d_copied d = true /\ spec (d_src d) = None) ->
  forall ops s c, acache_ok keqb base spec s c ->
  run_alias keqb base spec s c ops = run_alias_uncached base spec s ops.
Proof. exact @alias_copy_transparent. Qed.
Print Assumptions C19_alias_copy_transparent.

Theorem C19_alias_cached_equals_copy : forall (S K V : Type) (keqb : K -> K -> bool), (forall a b, keqb a b = true <-> a = b) ->
  forall (base : K -> S -> V) (spec : K -> option (@derived S K V)),
  (forall k d, spec k = Some d -> d_copied d = true /\ spec (d_src d) = None) ->
  forall ops s c, acache_ok keqb base spec s c ->
  run_alias keqb base spec s c ops = run_alias keqb base spec s [] ops.
Proof. exact @alias_cached_equals_copy. Qed.
Print Assumptions C19_alias_cached_equals_copy.

(* the general discipline: a body may also bind the cache entry ITSELF as long as no step updates it in place (the 46 read-only aliases of the
   audited files: Gen.CacheAlias.read_only_aliases); copies may be updated freely *)
Theorem C19_alias_discipline_transparent : forall (S K V : Type) (keqb : K -> K -> bool), (forall a b, keqb a b = true <-> a = b) ->
  forall (base : K -> S -> V) (spec : K -> option (@derived S K V)),
  (forall k d, spec k = Some d -> spec (d_src d) = None /\ (d_copied d = true \/ no_inplace (d_steps d) = true)) ->
  forall ops s c, acache_ok keqb base spec s c ->
  run_alias keqb base spec s c ops = run_alias_uncached base spec s ops.
Proof. exact @alias_discipline_transparent. Qed.
Print Assumptions C19_alias_discipline_transparent.

(* the copy is NECESSARY: a body that binds the cache entry itself and really changes it in place is observable by reading the derived
   attribute and then its source (what the first run of the isolated-read oracle shows on the real code when the copy is removed) *)
Theorem C19_alias_in_place_observable : forall (S K V : Type) (keqb : K -> K -> bool), (forall a b, keqb a b = true <-> a = b) ->
  forall (base : K -> S -> V) (spec : K -> option (@derived S K V)) s k d,
  spec k = Some d -> d_copied d = false -> spec (d_src d) = None -> k <> d_src d ->
  snd (steps_shared s (base (d_src d) s) true (base (d_src d) s) (d_steps d)) <> base (d_src d) s ->
  run_alias keqb base spec s [] [ARead k; ARead (d_src d)] <> run_alias_uncached base spec s [ARead k; ARead (d_src d)].
Proof. exact @alias_in_place_observable. Qed.
Print Assumptions C19_alias_in_place_observable.

(* REGENERATED from the source on every run (tools/gen_cachealias.py -> Gen.CacheAlias): how _chiral_morgan binds its working variable.
   With the start mode of the CURRENT source, whatever the attribute bodies and the steps compute, every history is transparent *)
Theorem C19_chiral_morgan_start_is_copy : chiral_morgan_start = ("atoms_order"%string, true).
Proof. exact chiral_morgan_start_is_copy. Qed.
Print Assumptions C19_chiral_morgan_start_is_copy.

Theorem C19_chiral_morgan_transparent : forall (S V : Type) (base : string -> S -> V) (steps : list (@step S V)) ops s,
  run_alias String.eqb base (chiral_spec chiral_morgan_start steps) s [] ops =
  run_alias_uncached base (chiral_spec chiral_morgan_start steps) s ops.
Proof. exact @chiral_morgan_transparent. Qed.
Print Assumptions C19_chiral_morgan_transparent.

(* in the 63 audited files no name bound to a cache entry itself (and no cache entry directly) is updated in place; names bound to cache
   entries exist (read-only use), and the one working variable that is updated in place is the copy in _chiral_morgan *)
Theorem C19_no_cached_value_updated_in_place :
  mutated_aliases = [] /\ read_only_aliases <> [] /\
  In ("chython/algorithms/stereo.py", "MoleculeStereo._chiral_morgan", "morgan", "atoms_order")%string working_copies.
Proof. exact (conj no_mutated_aliases (conj read_only_aliases_exist chiral_morgan_is_a_working_copy)). Qed.
Print Assumptions C19_no_cached_value_updated_in_place.

(* the faithful model of the same body WITHOUT the copy (`morgan = self.atoms_order`): after _chiral_morgan was read, atoms_order returns
   the dict with the rank of atom 2 negated; and the same history with the copy *)
Theorem C19_alias_without_copy_refuted :
  run_alias String.eqb ex_base (chiral_spec ("atoms_order"%string, false) ex_steps) tt [] [ARead chiral_key; ARead "atoms_order"%string]
  <> run_alias_uncached ex_base (chiral_spec ("atoms_order"%string, false) ex_steps) tt [ARead chiral_key; ARead "atoms_order"%string]
  /\ nth 1 (run_alias String.eqb ex_base (chiral_spec ("atoms_order"%string, false) ex_steps) tt [] [ARead chiral_key; ARead "atoms_order"%string]) []
     = [(2, -1); (4, 1); (1, 2); (5, 2); (3, 3); (6, 3)].
Proof. exact alias_without_copy_refuted. Qed.
Print Assumptions C19_alias_without_copy_refuted.

Theorem C19_alias_with_copy_example :
  run_alias String.eqb ex_base (chiral_spec chiral_morgan_start ex_steps) tt [] [ARead chiral_key; ARead "atoms_order"%string; ARead chiral_key]
  = [[(2, 2); (4, 3); (1, 5); (5, 5); (3, 7); (6, 7)]; ex_ranks; [(2, 2); (4, 3); (1, 5); (5, 5); (3, 7); (6, 7)]].
Proof. exact alias_with_copy_example. Qed.
Print Assumptions C19_alias_with_copy_example.

(* TRANSLATED from the source on every run (statement by statement, fail closed): the three loops of _chiral_morgan that update the working
   variable in place (`for group in atoms_groups / cis_trans_groups / allenes_groups: for n in group[:len(group) // 2]: morgan[n] = -morgan[n]`).
   The translation IS the step the model and the correspondence use: the ranks of the first half of every group negated, in this order *)
Theorem C19_chiral_inplace_is_model : forall (X : Type) ag (cg : list (list (Z * X))) lg w,
  chiral_inplace ag cg lg w = negate_seq (halves ag ++ map fst (halves cg) ++ halves lg) w.
Proof. exact chiral_inplace_is_model. Qed.
Print Assumptions C19_chiral_inplace_is_model.

(* what the translated loops preserve, for all group lists and dicts: no key is added, dropped or moved (the insertion order of the working dict,
   which every later iteration over it follows, stays the one of atoms_order); only the listed atoms change their rank; every rank keeps its absolute value *)
Theorem C19_chiral_inplace_keeps_keys : forall (X : Type) ag (cg : list (list (Z * X))) lg w,
  map fst (chiral_inplace ag cg lg w) = map fst w.
Proof. exact chiral_inplace_keeps_keys. Qed.
Print Assumptions C19_chiral_inplace_keeps_keys.

Theorem C19_chiral_inplace_only_listed : forall (X : Type) ag (cg : list (list (Z * X))) lg w k,
  ~ In k (halves ag ++ map fst (halves cg) ++ halves lg) -> zget (chiral_inplace ag cg lg w) k = zget w k.
Proof. exact chiral_inplace_only_listed. Qed.
Print Assumptions C19_chiral_inplace_only_listed.

Theorem C19_chiral_inplace_keeps_abs : forall (X : Type) ag (cg : list (list (Z * X))) lg w,
  map (fun kv : Z * Z => Z.abs (snd kv)) (chiral_inplace ag cg lg w) = map (fun kv : Z * Z => Z.abs (snd kv)) w.
Proof. exact chiral_inplace_keeps_abs. Qed.
Print Assumptions C19_chiral_inplace_keeps_abs.

Theorem C19_chiral_inplace_example :
  chiral_inplace [[2; 4]] [[(7, 8); (9, 10)]] [[5]] [(2, 1); (4, 1); (7, 3); (9, 3); (5, 6)] = [(2, -1); (4, 1); (7, -3); (9, 3); (5, 6)].
Proof. exact chiral_inplace_example. Qed.
Print Assumptions C19_chiral_inplace_example.

(* the invariant is not for free: a mutation without flush breaks it *)
Theorem C19_stale_without_flush :
  let s := [1; 2; 3] in
  let c := snd (read Bool.eqb ex_derive s [] true) in
  cache_ok Bool.eqb ex_derive s c /\ ~ cache_ok Bool.eqb ex_derive (4 :: s) c.
Proof. exact stale_without_flush. Qed.
Print Assumptions C19_stale_without_flush.

(* ---- non-vacuity ---- *)
Theorem C19_memo_example :
  let ops := [ReadStoring true [false]; Read false; Read true; Mutate (cons 10); Read false; Flush; Read true] in
  run Bool.eqb ex_derive [1; 2; 3] [] ops = [3; 6; 3; 16; 4] /\
  run_uncached ex_derive [1; 2; 3] ops = [3; 6; 3; 16; 4].
Proof. exact memo_example. Qed.
Print Assumptions C19_memo_example.

Theorem C19_order_examples :
  ring_mask [6; 5; 70] = ring_mask [70; 6; 5] /\ ring_mask [6; 5; 70] = Z.lor (Z.shiftl 1 59) (Z.shiftl 1 60) /\
  ring_mask [70] = 9223372036854775808 /\
  sort_by (fun x => x mod 10) [13; 21; 42] = sort_by (fun x => x mod 10) [42; 13; 21] /\
  sort_by (fun x => x mod 10) [11; 21] <> sort_by (fun x => x mod 10) [21; 11] /\
  min_by (fun x => x mod 10) [11; 21; 5] = Some 11 /\ min_by (fun x => x mod 10) [21; 5; 11] = Some 21 /\
  set_of_map (two_bits 1023 10) [5000; 3; 1027] = set_of_map (two_bits 1023 10) [1027; 5000; 3] /\
  set_of_map (two_bits 1023 10) [5000; 3; 1027] = [0; 1; 3; 4; 904] /\
  index_assign [3; 1] 5 = [false; true; false; true; false] /\ index_assign [1; 3] 5 = index_assign [3; 1] 5 /\
  remove_vertices [(1, [2; 3]); (2, [1; 3]); (3, [1; 2])] [1; 2] = [(3, [])].
Proof. exact order_examples. Qed.
Print Assumptions C19_order_examples.
