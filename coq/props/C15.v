(* C15 -- reactions: role-preserving I/O, order-free identity, exact condensed graph.
   Statements only; proofs in Proofs.ComposeProofs and Proofs.RxnSmilesProofs.
   compose_ord o1 o2 o3 r p is MoleculeContainer.compose with the iteration orders of its three Python sets
   (reactant-only, product-only, common atoms) as explicit inputs; orders_ok says they are permutations of the sets,
   so every theorem below holds for EVERY iteration order CPython may choose. *)
From Coq Require Import ZArith List String Bool Permutation.
From Model Require Import PyBase PyHash Graph Morgan Writer Compose RxnSmiles CgrMorgan CgrWriter RxnCache.
From Gen Require CgrTables.
From Gen Require Import ComposeGen RxnFormatGen CgrTokensGen RxnComposeGen RxnCacheGen UnionGen.
From Proofs Require Import WriterInvProofs ComposeProofs RxnComposeProofs RxnSmilesProofs RxnCxProofs RxnEqProofs RxnCacheProofs CgrMorganProofs CgrMorganOrderProofs CgrWriterProofs CgrTablesProofs ComposeGenTie RxnFormatGenTie CgrTokensGenTie RxnComposeGenTie RxnCacheGenTie UnionGenTie.
Import ListNotations.
Open Scope Z_scope.

(* exact content of the condensed graph: every atom and every bond, looked up *)
Theorem C15_compose_lookup : forall r p o1 o2 o3 h,
  wf_mol r = true -> wf_mol p = true -> orders_ok r p o1 o2 o3 -> compose_ord o1 o2 o3 r p = Ok h ->
  keys (c_atoms h) = o1 ++ o2 ++ o3 /\ keys (c_adj h) = o1 ++ o2 ++ o3 /\
  (forall n, catom h n = spec_atom r p n) /\ (forall n m, cbond h n m = spec_bond r p n m).
Proof. exact compose_lookup. Qed.
Print Assumptions C15_compose_lookup.

(* compose succeeds iff the atoms present on both sides agree in element and isotope; otherwise ValueError *)
Theorem C15_compose_ok : forall r p o1 o2 o3,
  wf_mol r = true -> wf_mol p = true -> orders_ok r p o1 o2 o3 ->
  (forall n a b, atom_of r n = Some a -> atom_of p n = Some b -> compatible a b) ->
  exists h, compose_ord o1 o2 o3 r p = Ok h.
Proof. exact compose_ok. Qed.
Print Assumptions C15_compose_ok.

Theorem C15_compose_value_error : forall r p o1 o2 o3,
  wf_mol r = true -> wf_mol p = true -> orders_ok r p o1 o2 o3 ->
  (exists n a b, atom_of r n = Some a /\ atom_of p n = Some b /\ ~ compatible a b) ->
  compose_ord o1 o2 o3 r p = Err ValueError.
Proof. exact compose_value_error. Qed.
Print Assumptions C15_compose_value_error.

(* the result does not depend on the set iteration orders (as a dict of dicts; only the insertion order differs) *)
Theorem C15_compose_order_independent : forall r p o1 o2 o3 o1' o2' o3' h h',
  wf_mol r = true -> wf_mol p = true -> orders_ok r p o1 o2 o3 -> orders_ok r p o1' o2' o3' ->
  compose_ord o1 o2 o3 r p = Ok h -> compose_ord o1' o2' o3' r p = Ok h' ->
  Permutation (keys (c_atoms h)) (keys (c_atoms h')) /\
  (forall n, catom h n = catom h' n) /\ (forall n m, cbond h n m = cbond h' n m).
Proof. exact compose_order_independent. Qed.
Print Assumptions C15_compose_order_independent.

(* a bond of the CGR is dynamic <-> its order in reactants and products differs (absent = None) AND at least one end
   exists on both sides; an atom is dynamic <-> it is on both sides and charge or radical state differ *)
Theorem C15_compose_dynamic_iff : forall r p o1 o2 o3 h,
  wf_mol r = true -> wf_mol p = true -> orders_ok r p o1 o2 o3 -> compose_ord o1 o2 o3 r p = Ok h ->
  (forall n m, is_dynamic_bond h n m <->
               ord_in r n m <> ord_in p n m /\ (is_common r p n = true \/ is_common r p m = true)) /\
  (forall n, is_dynamic_atom h n <->
             exists a b, atom_of r n = Some a /\ atom_of p n = Some b /\ (a_chg a <> a_chg b \/ a_rad a <> a_rad b)).
Proof. exact compose_dynamic_iff. Qed.
Print Assumptions C15_compose_dynamic_iff.

(* same atom set on both sides (every reaction of the property's quantifier): the statement of DESIGN Appendix A *)
Theorem C15_compose_dynamic_balanced : forall r p o1 o2 o3 h,
  wf_mol r = true -> wf_mol p = true -> orders_ok r p o1 o2 o3 -> compose_ord o1 o2 o3 r p = Ok h ->
  (forall x, In x (ids r) <-> In x (ids p)) ->
  forall n m, is_dynamic_bond h n m <-> ord_in r n m <> ord_in p n m.
Proof. exact compose_dynamic_balanced. Qed.
Print Assumptions C15_compose_dynamic_balanced.

(* ... which is false without that restriction (documented convention of compose: bonds between two atoms that exist
   on one side only are copied unchanged) *)
Theorem C15_compose_unbalanced_convention :
  exists r p h n m, wf_mol r = true /\ wf_mol p = true /\ compose r p = Ok h /\
    ord_in r n m <> ord_in p n m /\ ~ is_dynamic_bond h n m.
Proof. exact compose_unbalanced_convention. Qed.
Print Assumptions C15_compose_unbalanced_convention.

(* the result is a well-formed symmetric dict of dicts *)
Theorem C15_compose_symmetric_wf : forall r p o1 o2 o3 h,
  wf_mol r = true -> wf_mol p = true -> orders_ok r p o1 o2 o3 -> compose_ord o1 o2 o3 r p = Ok h ->
  wf_cgr h = true /\ (forall n m, cbond h n m = cbond h m n).
Proof. exact compose_symmetric_wf. Qed.
Print Assumptions C15_compose_symmetric_wf.

(* center_atoms = dynamic atoms + ends of dynamic bonds *)
Theorem C15_compose_center_atoms : forall r p o1 o2 o3 h,
  wf_mol r = true -> wf_mol p = true -> orders_ok r p o1 o2 o3 -> compose_ord o1 o2 o3 r p = Ok h ->
  forall n, In n (center_atoms h) <-> is_dynamic_atom h n \/ exists m, is_dynamic_bond h n m.
Proof. exact compose_center_atoms. Qed.
Print Assumptions C15_compose_center_atoms.

(* identical sides: compose succeeds and there is no reaction centre *)
Theorem C15_compose_identity_no_center : forall g o1 o2 o3,
  wf_mol g = true -> orders_ok g g o1 o2 o3 ->
  exists h, compose_ord o1 o2 o3 g g = Ok h /\ center_atoms h = [] /\
            (forall n, ~ is_dynamic_atom h n) /\ (forall n m, ~ is_dynamic_bond h n m).
Proof. exact compose_identity_no_center. Qed.
Print Assumptions C15_compose_identity_no_center.

(* renumbering both sides by the same map, injective on the atom numbers in use, renumbers the CGR *)
Theorem C15_compose_equivariant : forall f r p o1 o2 o3,
  wf_mol r = true -> wf_mol p = true -> orders_ok r p o1 o2 o3 -> inj_on (ids r ++ ids p) f ->
  compose_ord (map f o1) (map f o2) (map f o3) (rename f r) (rename f p) = map_res (rename_cgr f) (compose_ord o1 o2 o3 r p).
Proof. exact compose_equivariant. Qed.
Print Assumptions C15_compose_equivariant.

Theorem C15_orders_ok_rename : forall f r p o1 o2 o3,
  inj_on (ids r ++ ids p) f -> orders_ok r p o1 o2 o3 ->
  orders_ok (rename f r) (rename f p) (map f o1) (map f o2) (map f o3).
Proof. exact orders_ok_rename. Qed.
Print Assumptions C15_orders_ok_rename.

(* non-vacuity of the compose theorems: ethanol -> ethoxide-like edit, one dynamic atom and one dynamic bond *)
Theorem C15_compose_example :
  wf_mol example_r = true /\ wf_mol example_p = true /\
  (exists h, compose example_r example_p = Ok h /\ is_dynamic_bond h 1 2 /\ is_dynamic_atom h 3 /\ ~ is_dynamic_bond h 2 3 /\
             list_eqb Z.eqb (center_atoms h) [3; 1; 2] = true).
Proof. exact compose_example. Qed.
Print Assumptions C15_compose_example.

(* ---- ReactionContainer.compose ---- *)
(* mapped_reaction rs gs ps: every molecule is well formed and, within each side (reagents + reactants / products), the
   molecules carry pairwise disjoint atom numbers.  Then reduce(or_, ...) never renumbers: each side is the plain
   concatenation of the atom and adjacency dicts (left_side / right_side), it is well formed, and
   ReactionContainer.compose is MoleculeContainer.compose of the two concatenations *)
Theorem C15_union_all_disjoint : forall l, all_wf l -> pairwise_disjoint l -> union_all l = cat_mols l /\ wf_mol (cat_mols l) = true.
Proof. exact union_all_disjoint. Qed.
Print Assumptions C15_union_all_disjoint.

(* an atom / bond of a side is the atom / bond of the molecule that holds it *)
Theorem C15_cat_mols_lookup : forall l, all_wf l -> pairwise_disjoint l -> forall g n, In g l -> In n (ids g) ->
  atom_of (cat_mols l) n = atom_of g n /\ forall m, bond_of (cat_mols l) n m = bond_of g n m.
Proof. exact cat_mols_lookup. Qed.
Print Assumptions C15_cat_mols_lookup.

Theorem C15_rxn_compose_is_compose : forall rs gs ps o1 o2 o3, mapped_reaction rs gs ps ->
  rxn_compose_ord o1 o2 o3 rs gs ps = compose_ord o1 o2 o3 (left_side rs gs) (right_side ps) /\
  wf_mol (left_side rs gs) = true /\ wf_mol (right_side ps) = true.
Proof. exact rxn_compose_is_compose. Qed.
Print Assumptions C15_rxn_compose_is_compose.

(* the condensed graph of a reaction marks a bond / an atom as dynamic exactly where the two sides differ, and its centre is
   the dynamic atoms plus the ends of the dynamic bonds *)
Theorem C15_rxn_compose_dynamic_iff : forall rs gs ps o1 o2 o3 h, mapped_reaction rs gs ps ->
  orders_ok (left_side rs gs) (right_side ps) o1 o2 o3 -> rxn_compose_ord o1 o2 o3 rs gs ps = Ok h ->
  (forall n m, is_dynamic_bond h n m <->
               ord_in (left_side rs gs) n m <> ord_in (right_side ps) n m /\
               (is_common (left_side rs gs) (right_side ps) n = true \/ is_common (left_side rs gs) (right_side ps) m = true)) /\
  (forall n, is_dynamic_atom h n <->
             exists a b, atom_of (left_side rs gs) n = Some a /\ atom_of (right_side ps) n = Some b /\ (a_chg a <> a_chg b \/ a_rad a <> a_rad b)) /\
  (forall n, In n (center_atoms h) <-> is_dynamic_atom h n \/ exists m, is_dynamic_bond h n m).
Proof. exact rxn_compose_dynamic_iff. Qed.
Print Assumptions C15_rxn_compose_dynamic_iff.

(* a reaction with identical sides (any number of molecules, no reagents) has no reaction centre *)
Theorem C15_rxn_compose_identity_no_center : forall ms o1 o2 o3, all_wf ms -> pairwise_disjoint ms ->
  orders_ok (cat_mols ms) (cat_mols ms) o1 o2 o3 ->
  exists h, rxn_compose_ord o1 o2 o3 ms [] ms = Ok h /\ center_atoms h = [] /\
            (forall n, ~ is_dynamic_atom h n) /\ (forall n m, ~ is_dynamic_bond h n m).
Proof. exact rxn_compose_identity_no_center. Qed.
Print Assumptions C15_rxn_compose_identity_no_center.

Theorem C15_rxn_compose_example :
  mapped_reaction [ex_etoh; ex_water] [] [ex_eto; ex_water] /\
  exists h, rxn_compose [ex_etoh; ex_water] [] [ex_eto; ex_water] = Ok h /\ list_eqb Z.eqb (center_atoms h) [3] = true.
Proof. exact rxn_compose_example. Qed.
Print Assumptions C15_rxn_compose_example.

(* the sorted list views the check compares with its ground truth are exactly the dynamic atoms / bonds *)
Theorem C15_dynamic_lists_spec : forall h, wf_cgr h = true ->
  (forall n, In n (dynamic_atoms h) <-> is_dynamic_atom h n) /\
  (forall n m, In (n, m) (dynamic_bonds h) <-> n < m /\ is_dynamic_bond h n m).
Proof. exact dynamic_lists_spec. Qed.
Print Assumptions C15_dynamic_lists_spec.

(* ---- Morgan order of a condensed graph (the weights CGRSmiles._smiles_order hands to the SMILES traversal) ---- *)
(* cgr_atoms_order h c is Morgan.atoms_order on a CGRContainer: _morgan (Model.Morgan, C01) applied to the hashes of the
   dynamic atoms and dynamic bonds; h is the tuple hash, the theorems hold for ANY h.  Renumbering a well-formed condensed
   graph by a map injective on its atoms renumbers the result and changes nothing else *)
Theorem C15_cgr_atoms_order_equivariant : forall h c s, wf_cgr c = true -> Morgan.inj_on (keys (c_atoms c)) s ->
  cgr_atoms_order h (rename_cgr s c) = ren_res s (cgr_atoms_order h c).
Proof. exact cgr_atoms_order_equivariant. Qed.
Print Assumptions C15_cgr_atoms_order_equivariant.

Theorem C15_cgr_atoms_order_total : forall h c, wf_cgr c = true ->
  exists l, cgr_atoms_order h c = Ok l /\ Permutation (keys l) (keys (c_atoms c)).
Proof. exact cgr_atoms_order_total. Qed.
Print Assumptions C15_cgr_atoms_order_total.

(* consistent renumbering of BOTH SIDES of a reaction: the Morgan order of the condensed graph is the renumbered one *)
Theorem C15_compose_atoms_order_equivariant : forall h s r p o1 o2 o3,
  wf_mol r = true -> wf_mol p = true -> orders_ok r p o1 o2 o3 -> Compose.inj_on (ids r ++ ids p) s ->
  order_of h (compose_ord (map s o1) (map s o2) (map s o3) (rename s r) (rename s p)) =
  ren_res s (order_of h (compose_ord o1 o2 o3 r p)).
Proof. exact compose_atoms_order_equivariant. Qed.
Print Assumptions C15_compose_atoms_order_equivariant.

(* ... atom by atom: atom s n of the renumbered reaction has the rank of atom n *)
Theorem C15_compose_rank_equivariant : forall h s r p o1 o2 o3 c,
  wf_mol r = true -> wf_mol p = true -> orders_ok r p o1 o2 o3 -> Compose.inj_on (ids r ++ ids p) s ->
  compose_ord o1 o2 o3 r p = Ok c ->
  forall n, In n (keys (c_atoms c)) ->
  rank_of (order_of h (compose_ord (map s o1) (map s o2) (map s o3) (rename s r) (rename s p))) (s n) = rank_of (cgr_atoms_order h c) n.
Proof. exact compose_rank_equivariant. Qed.
Print Assumptions C15_compose_rank_equivariant.

(* the ranks do not depend on the insertion orders of the dicts of the condensed graph ... *)
Theorem C15_cgr_atoms_order_perm : forall h c c', wf_cgr c = true -> wf_cgr c' = true ->
  (forall n, catom c n = catom c' n) -> (forall n m, cbond c n m = cbond c' n m) ->
  res_perm (cgr_atoms_order h c) (cgr_atoms_order h c').
Proof. exact cgr_atoms_order_perm. Qed.
Print Assumptions C15_cgr_atoms_order_perm.

(* ... in particular not on the iteration orders CPython chooses for the three sets compose walks: the same (atom, rank) pairs *)
Theorem C15_compose_atoms_order_set_order_free : forall h r p o1 o2 o3 o1' o2' o3' c c',
  wf_mol r = true -> wf_mol p = true -> orders_ok r p o1 o2 o3 -> orders_ok r p o1' o2' o3' ->
  compose_ord o1 o2 o3 r p = Ok c -> compose_ord o1' o2' o3' r p = Ok c' ->
  res_perm (cgr_atoms_order h c) (cgr_atoms_order h c').
Proof. exact compose_atoms_order_set_order_free. Qed.
Print Assumptions C15_compose_atoms_order_set_order_free.

Theorem C15_compose_atoms_order_set_order_example :
  exists c c', compose_ord [] [] [1; 2; 3] example_r example_p = Ok c /\ compose_ord [] [] [3; 1; 2] example_r example_p = Ok c' /\
    keys (c_atoms c) = [1; 2; 3] /\ keys (c_atoms c') = [3; 1; 2] /\
    z_cgr_atoms_order c = Ok [(3, 1); (2, 2); (1, 3)] /\ z_cgr_atoms_order c' = Ok [(3, 1); (2, 2); (1, 3)].
Proof. exact compose_atoms_order_set_order_example. Qed.
Print Assumptions C15_compose_atoms_order_set_order_example.

Theorem C15_cgr_atoms_order_example :
  exists c, compose example_r example_p = Ok c /\
    z_cgr_atoms_order c = Ok [(3, 1); (2, 2); (1, 3)] /\
    z_cgr_atoms_order (rename_cgr (fun n => 10 - n) c) = Ok [(7, 1); (8, 2); (9, 3)].
Proof. exact cgr_atoms_order_example. Qed.
Print Assumptions C15_cgr_atoms_order_example.

(* the tie-break value of the SMILES traversal between neighbours of equal Morgan class, DynamicBond.__int__, is the hash of BOTH
   orders: equal values mean the same (order or 0, p_order or 0) pair, or a collision of the tuple hash *)
Theorem C15_dbond_int_separates : forall h a b, dbond_int h a = dbond_int h b ->
  (oz (db_ord a) = oz (db_ord b) /\ oz (db_pord a) = oz (db_pord b)) \/
  (h [oz (db_ord a); oz (db_pord a)] = h [oz (db_ord b); oz (db_pord b)] /\ [oz (db_ord a); oz (db_pord a)] <> [oz (db_ord b); oz (db_pord b)]).
Proof. exact dbond_int_separates. Qed.
Print Assumptions C15_dbond_int_separates.

(* ---- the reaction-level cache across the in-place standardisation methods (thiele, kekule, clean_isotopes, implicify / explicify) ---- *)
(* the 'something changed' flag is raised iff SOME molecule reported a change *)
Theorem C15_flag_any_spec : forall results, flag_any results = true <-> exists r, In r results /\ r = true.
Proof. exact flag_any_spec. Qed.
Print Assumptions C15_flag_any_spec.

Theorem C15_flag_count_spec : forall counts, Forall (fun n => 0 <= n) counts -> (flag_count counts = false <-> Forall (fun n => n = 0) counts).
Proof. exact flag_count_spec. Qed.
Print Assumptions C15_flag_count_spec.

(* if the value (string, hash, condensed graph) can only change when some molecule reports a change, then after the method the
   cached_method returns the value of the CURRENT molecules, whatever was cached before *)
Theorem C15_cache_coherent_flag : forall (V : Type) results (cell : option V) (old new : V),
  (cell = None \/ cell = Some old) -> ((forall r, In r results -> r = false) -> new = old) ->
  fst (cached_read (flush_if (flag_any results) cell) new) = new.
Proof. exact @cache_coherent_flag. Qed.
Print Assumptions C15_cache_coherent_flag.

Theorem C15_cache_coherent_count : forall (V : Type) counts (cell : option V) (old new : V),
  Forall (fun n => 0 <= n) counts -> (cell = None \/ cell = Some old) -> (Forall (fun n => n = 0) counts -> new = old) ->
  fst (cached_read (flush_if (flag_count counts) cell) new) = new.
Proof. exact @cache_coherent_count. Qed.
Print Assumptions C15_cache_coherent_count.

Theorem C15_cache_example :
  flag_any [true; false] = true /\ flag_any [false; false] = false /\ flag_count [0; 2; 0] = true /\
  fst (cached_read (flush_if (flag_any [true; false]) (Some 1)) 2) = 2 /\
  fst (cached_read (flush_if (flag_any [false; false]) (Some 1)) 1) = 1.
Proof. exact cache_example. Qed.
Print Assumptions C15_cache_example.

(* ---- str() of a condensed graph (Smiles._smiles with CGRSmiles' weights and token functions) ---- *)
(* cgr_smiles_text h c w tb is the traversal model of C02 (Model.Writer: start atom, BFS labels, DFS with ring closures, flattening,
   closure numbers, emission) run on the skeleton [enc h c] of the condensed graph -- adjacency + int(DynamicBond) as the tie-break
   towards the parent -- with CGRSmiles._format_atom / _format_bond as token functions; w = weights, tb = tie-break priorities
   standing for CPython's set iteration order.  cgr_str takes w from Morgan.atoms_order.  map_order s maps the written order. *)
Theorem C15_wf_enc : forall h c, wf_cgr c = true -> wf_mol (enc h c) = true.
Proof. exact wf_enc. Qed.
Print Assumptions C15_wf_enc.

(* for ANY injective weights and ANY tie-break priorities on the two sides: renumbering (remap()) keeps the text *)
Theorem C15_cgr_smiles_text_ren : forall h c s w w' tb tb',
  wf_cgr c = true -> (forall x y, s x = s y -> x = y) -> Morgan.inj_on (keys (c_atoms c)) w ->
  (forall n, In n (keys (c_atoms c)) -> w' (s n) = w n) ->
  cgr_smiles_text h (rename_cgr s c) w' tb' = map_order s (cgr_smiles_text h c w tb).
Proof. exact cgr_smiles_text_ren. Qed.
Print Assumptions C15_cgr_smiles_text_ren.

(* str(cgr): when the Morgan ranks of the condensed graph are all different, the string does not depend on the numbering *)
Theorem C15_cgr_str_invariant_discrete : forall h c s tb tb' l,
  wf_cgr c = true -> (forall x y, s x = s y -> x = y) -> cgr_atoms_order h c = Ok l -> NoDup (map snd l) ->
  cgr_str h (rename_cgr s c) tb' = map_order s (cgr_str h c tb).
Proof. exact cgr_str_invariant_discrete. Qed.
Print Assumptions C15_cgr_str_invariant_discrete.

(* ... through compose: consistent renumbering of BOTH SIDES of a reaction, discrete Morgan ranks: the same str(r ^ p) *)
Theorem C15_compose_str_invariant_discrete : forall h s r p o1 o2 o3 c l tb tb',
  wf_mol r = true -> wf_mol p = true -> orders_ok r p o1 o2 o3 -> (forall x y, s x = s y -> x = y) ->
  compose_ord o1 o2 o3 r p = Ok c -> cgr_atoms_order h c = Ok l -> NoDup (map snd l) ->
  exists c', compose_ord (map s o1) (map s o2) (map s o3) (rename s r) (rename s p) = Ok c' /\
             cgr_str h c' tb' = map_order s (cgr_str h c tb).
Proof. exact compose_str_invariant_discrete. Qed.
Print Assumptions C15_compose_str_invariant_discrete.

Theorem C15_cgr_str_example :
  exists c l, compose example_r example_p = Ok c /\ cgr_atoms_order hash_ztuple c = Ok l /\ NoDup (map snd l) /\
    cgr_str hash_ztuple c (fun n => n) = Ok ("[O0>-]C[->=]C"%string, [3; 2; 1]) /\
    cgr_str hash_ztuple (rename_cgr (fun n => 10 - n) c) (fun n => - n) = Ok ("[O0>-]C[->=]C"%string, [7; 8; 9]).
Proof. exact cgr_str_example. Qed.
Print Assumptions C15_cgr_str_example.

(* ---- reaction string ---- *)
(* any permutation of the molecules inside the roles gives the same string.  ncomp_det l: two molecules of l with the
   same SMILES have the same number of components (true of every molecule the writer produces, see
   C15_fmol_ok_ncomp_det); the sort key is (SMILES without CX part, radical flags in SMILES order) *)
Theorem C15_rxn_string_role_order_free : forall no_cx rs rs' gs gs' ps ps',
  Permutation rs rs' -> Permutation gs gs' -> Permutation ps ps' -> ncomp_det rs -> ncomp_det gs -> ncomp_det ps ->
  rxn_format false no_cx rs gs ps = rxn_format false no_cx rs' gs' ps'.
Proof. exact rxn_string_role_order_free. Qed.
Print Assumptions C15_rxn_string_role_order_free.

Theorem C15_fmol_ok_ncomp_det : forall l, Forall fmol_ok l -> ncomp_det l.
Proof. exact fmol_ok_ncomp_det. Qed.
Print Assumptions C15_fmol_ok_ncomp_det.

(* molecules that differ in radical state only ([Na] and [Na] |^1:0|) are ordered by the radical flags *)
Theorem C15_rxn_string_radical_tie :
  rxn_format false false [na_radical; na_plain] [] [mkF "C" 1 [false]] = "[Na].[Na]>>C |^1:1|"%string /\
  rxn_format false false [na_plain; na_radical] [] [mkF "C" 1 [false]] = "[Na].[Na]>>C |^1:1|"%string.
Proof. exact rxn_string_radical_tie. Qed.
Print Assumptions C15_rxn_string_radical_tie.

Theorem C15_rxn_string_role_order_free_example :
  let a := mkF "CCO" 1 [false; false; false] in let b := mkF "[Na+].[Cl-]" 2 [false; false] in let c := mkF "[CH3]" 1 [true] in
  ncomp_det [a; b; c] /\
  forallb (fun l => String.eqb (rxn_format false false l [] [a]) "CCO.[CH3].[Na+].[Cl-]>>CCO |^1:3,f:2.3|")
          [[a; b; c]; [a; c; b]; [b; a; c]; [b; c; a]; [c; a; b]; [c; b; a]] = true.
Proof. exact rxn_string_role_order_free_example. Qed.
Print Assumptions C15_rxn_string_role_order_free_example.

(* the sort is a stable sort by the key order: the same list for every arrangement of the input *)
Theorem C15_sort_by_perm_invariant : forall (l l' : list fmol),
  Permutation l l' -> (forall a b, In a l -> In b l -> key_leb a b = true -> key_leb b a = true -> a = b) ->
  sort_by key_leb l = sort_by key_leb l'.
Proof. exact (sort_by_perm_invariant key_leb key_leb_total key_leb_trans). Qed.
Print Assumptions C15_sort_by_perm_invariant.

(* splitting the written string on '>' and '.', then contracting by the written f: groups, hands exactly the molecule
   strings, role by role (empty roles included), to the molecule parser.  fmol_ok m: the SMILES of m has one non-empty
   '.'-separated piece per connected component and no '>' *)
Theorem C15_rxn_split_roundtrip : forall ignore keep_order rs gs ps,
  Forall fmol_ok rs -> Forall fmol_ok gs -> Forall fmol_ok ps ->
  read_core ignore (w_sig (rxn_write keep_order rs gs ps))
            (match w_contract (rxn_write keep_order rs gs ps) with [] => None | c => Some c end) =
  Ok (Some (map f_smi (prep keep_order rs), map f_smi (prep keep_order gs), map f_smi (prep keep_order ps))).
Proof. exact rxn_split_roundtrip. Qed.
Print Assumptions C15_rxn_split_roundtrip.

(* no products + a multi-component molecule (read back wrongly before the fix of the slices in smiles.py) *)
Theorem C15_rxn_split_roundtrip_no_products :
  Forall fmol_ok [nacl] /\
  read_core true (w_sig (rxn_write false [nacl] [] [])) (Some (w_contract (rxn_write false [nacl] [] []))) =
    Ok (Some (["[Na+].[Cl-]"%string], [], [])) /\
  read_core true (w_sig (rxn_write false [] [nacl] [])) (Some (w_contract (rxn_write false [] [nacl] []))) =
    Ok (Some ([], ["[Na+].[Cl-]"%string], [])).
Proof. exact rxn_split_roundtrip_no_products. Qed.
Print Assumptions C15_rxn_split_roundtrip_no_products.

Theorem C15_rxn_split_roundtrip_example :
  let rs := [mkF "CCO" 1 [false; false; false]; nacl] in let ps := [mkF "[K+].[OH-]" 2 [false; false]; mkF "O" 1 [false]] in
  Forall fmol_ok rs /\ Forall fmol_ok ps /\ w_sig (rxn_write false rs [] ps) = "CCO.[Na+].[Cl-]>>O.[K+].[OH-]"%string /\
  w_contract (rxn_write false rs [] ps) = [[1; 2]; [4; 5]] /\
  read_core true "CCO.[Na+].[Cl-]>>O.[K+].[OH-]" (Some [[1; 2]; [4; 5]]) =
    Ok (Some (["CCO"%string; "[Na+].[Cl-]"%string], [], ["O"%string; "[K+].[OH-]"%string])).
Proof. exact rxn_split_roundtrip_example. Qed.
Print Assumptions C15_rxn_split_roundtrip_example.

(* ---- the textual CXSMILES block and the string-level round trip ---- *)
(* cx_token r c = "|" + ",".join(cx) + "|" as __format__ prints it for radical indices r and fragment groups c.
   parse_cx is the reader's CX parser: the two regular expressions cx_radicals / cx_fragments as explicit matchers,
   int() of the digit runs, sorted() of each group and the two collision tests.  For ALL index lists (non-negative; groups of
   at least two numbers, as the regex demands) the printed block is parsed back to what smiles() makes of these indices *)
Theorem C15_parse_cx_print : forall r c rest, nonneg r -> Forall group_ok c -> r <> [] \/ c <> [] ->
  parse_cx (cx_token r c :: rest) =
  ((if nodup_z r then r else []),
   match c with
   | [] => None
   | _ => if nodup_z (List.concat (map zsort c)) then Some (map zsort c) else None
   end).
Proof. exact parse_cx_print. Qed.
Print Assumptions C15_parse_cx_print.

(* ... hence unchanged for lists without collisions and with sorted groups (everything the writer prints) *)
Theorem C15_parse_cx_print_exact : forall r c rest, nonneg r -> Forall group_ok c -> r <> [] \/ c <> [] ->
  nodup_z r = true -> Forall sorted_z c -> nodup_z (List.concat c) = true ->
  parse_cx (cx_token r c :: rest) = (r, match c with [] => None | c' => Some c' end).
Proof. exact parse_cx_print_exact. Qed.
Print Assumptions C15_parse_cx_print_exact.

(* decimal printing and parsing: str(n) followed by a non-digit is read back by [0-9]+ and int() *)
Theorem C15_p_num_dec : forall n r, 0 <= n -> sd r = false -> p_num (dec n ++ r) = Some (n, r).
Proof. exact p_num_dec. Qed.
Print Assumptions C15_p_num_dec.

Theorem C15_parse_cx_print_example :
  parse_cx [cx_token [0; 12; 7] [[3; 4]; [10; 11; 12]]] = ([0; 12; 7], Some [[3; 4]; [10; 11; 12]]) /\
  cx_token [0; 12; 7] [[3; 4]; [10; 11; 12]] = "|^1:0,12,7,f:3.4,10.11.12|"%string.
Proof. exact parse_cx_print_example. Qed.
Print Assumptions C15_parse_cx_print_example.

(* writer text -> reader, for every reaction with at least one molecule: the whole line format(reaction, '' or '!c') --
   signature, blank, CX block -- goes through str.split(), the CX parser, the '>' / '.' splitting, the f: contraction and
   the radical range test, and hands the written molecule strings, role by role and in written order, to the molecule
   parser; the radical marks are the written atom positions.  Hypotheses on the molecule-level writer / parser (C01-C03, not
   modelled): fmol_ok (one non-empty '.'-piece per component, no '>'), fmol_nows (no white space in a SMILES), atoms_cover
   (the parser returns at least as many atoms for a molecule string as the writer listed radical flags for it) *)
Theorem C15_rxn_roundtrip : forall natoms ignore keep_order rs gs ps,
  Forall fmol_ok rs -> Forall fmol_ok gs -> Forall fmol_ok ps ->
  Forall fmol_nows rs -> Forall fmol_nows gs -> Forall fmol_nows ps ->
  Forall (atoms_cover natoms) rs -> Forall (atoms_cover natoms) gs -> Forall (atoms_cover natoms) ps ->
  (rs ++ gs ++ ps)%list <> [] ->
  read_rxn natoms ignore (rxn_format keep_order false rs gs ps) =
  Ok (Some (map f_smi (prep keep_order rs), map f_smi (prep keep_order gs), map f_smi (prep keep_order ps)),
      w_radicals (rxn_write keep_order rs gs ps)).
Proof. exact rxn_roundtrip. Qed.
Print Assumptions C15_rxn_roundtrip.

Theorem C15_rxn_roundtrip_example :
  let natoms := fun x => Z.of_nat (String.length x) in
  let a := mkF "CCO" 1 [false; false; false] in let c := mkF "[CH3]" 1 [true] in
  Forall fmol_ok [a; nacl; c] /\ Forall fmol_nows [a; nacl; c] /\ Forall (atoms_cover natoms) [a; nacl; c] /\
  rxn_format false false [a; nacl; c] [] [a] = "CCO.[CH3].[Na+].[Cl-]>>CCO |^1:3,f:2.3|"%string /\
  read_rxn natoms true "CCO.[CH3].[Na+].[Cl-]>>CCO |^1:3,f:2.3|" =
    Ok (Some (["CCO"%string; "[CH3]"%string; "[Na+].[Cl-]"%string], [], ["CCO"%string]), [3]).
Proof. exact rxn_roundtrip_example. Qed.
Print Assumptions C15_rxn_roundtrip_example.

(* ---- ReactionContainer.__eq__ / __hash__ ---- *)
(* rxn_eq a b is str(a) == str(b); rxn_hash sh a is hash(str(a)) with sh the (seed dependent, opaque) hash of a str:
   every statement holds for ANY sh *)
Theorem C15_rxn_eq_hash_coherent : forall sh a b, rxn_eq a b = true -> rxn_hash sh a = rxn_hash sh b.
Proof. exact rxn_eq_hash_coherent. Qed.
Print Assumptions C15_rxn_eq_hash_coherent.

Theorem C15_rxn_eq_equivalence :
  (forall a, rxn_eq a a = true) /\ (forall a b, rxn_eq a b = rxn_eq b a) /\
  (forall a b c, rxn_eq a b = true -> rxn_eq b c = true -> rxn_eq a c = true).
Proof. exact rxn_eq_equivalence. Qed.
Print Assumptions C15_rxn_eq_equivalence.

(* the same molecules in any order within each role: the same string, equal, and the same hash *)
Theorem C15_rxn_eq_hash_role_order_free : forall sh a b, same_roles a b -> rxn_ncomp_det a ->
  rxn_str a = rxn_str b /\ rxn_eq a b = true /\ rxn_hash sh a = rxn_hash sh b.
Proof. exact rxn_eq_hash_role_order_free. Qed.
Print Assumptions C15_rxn_eq_hash_role_order_free.

(* == is not too coarse: equal reactions have, role by role, the same molecule strings (in canonical order) and the same
   radical positions (through the string-level round trip).  rxn_ok: fmol_ok, no white space, at most one atom per character
   of a molecule SMILES, at least one molecule *)
Theorem C15_rxn_eq_sound : forall a b, rxn_ok a -> rxn_ok b -> rxn_eq a b = true ->
  canon_roles a = canon_roles b /\ canon_radicals a = canon_radicals b.
Proof. exact rxn_eq_sound. Qed.
Print Assumptions C15_rxn_eq_sound.

Theorem C15_rxn_eq_example :
  let a := mkF "CCO" 1 [false; false; false] in let c := mkF "[CH3]" 1 [true] in let c' := mkF "[CH3]" 1 [false] in
  rxn_ok ([a; nacl; c], [], [a]) /\ same_roles ([a; nacl; c], [], [a]) ([c; a; nacl], [], [a]) /\
  rxn_eq ([a; nacl; c], [], [a]) ([c; a; nacl], [], [a]) = true /\
  rxn_eq ([a; nacl; c], [], [a]) ([a; nacl; c'], [], [a]) = false.
Proof. exact rxn_eq_example. Qed.
Print Assumptions C15_rxn_eq_example.

(* ---- the hand-written tables and patterns of the models == what tools/gen_cgr.py reads from the source on every run ---- *)
(* dyn_order_str (all 35 keys, undefined elsewhere on the grid of orders), order_str, dyn_radical_str *)
Theorem C15_src_dyn_tables_agree : dyn_tables_ok = true.
Proof. exact dyn_tables_agree. Qed.
Print Assumptions C15_src_dyn_tables_agree.

(* charge_str and dyn_charge_str (the comprehension over range(-4, 5)^2 with (0, 0) -> '', undefined outside) *)
Theorem C15_src_charge_tables_agree : charge_tables_ok = true.
Proof. exact charge_tables_agree. Qed.
Print Assumptions C15_src_charge_tables_agree.

Theorem C15_src_organic_set_agrees : organic_ok = true.
Proof. exact organic_set_agrees. Qed.
Print Assumptions C15_src_organic_set_agrees.

(* the regular expressions cx_fragments / cx_radicals are the ones the matchers implement *)
Theorem C15_src_cx_regexes_agree : String.eqb CgrTables.src_cx_fragments modelled_cx_fragments && String.eqb CgrTables.src_cx_radicals modelled_cx_radicals = true.
Proof. exact cx_regexes_agree. Qed.
Print Assumptions C15_src_cx_regexes_agree.

(* sort key and flags of __format__, __eq__ / __hash__, DynamicBond.__hash__ / __int__, DynamicElement.__hash__ as source text *)
Theorem C15_src_fragments_agree : source_fragments_ok = true.
Proof. exact source_fragments_agree. Qed.
Print Assumptions C15_src_fragments_agree.

(* ---- CGR SMILES tokens (finite, complete sweeps) ---- *)
(* the bond token shows '>' exactly for a dynamic bond and determines (order, p_order) *)
Theorem C15_dyn_order_str_faithful : forall o p o' p' s,
  In o orders6 -> In p orders6 -> In o' orders6 -> In p' orders6 -> dyn_order_str o p = Some s ->
  (has_gt s = dbond_dynamic (mkDBond o p)) /\ (dyn_order_str o' p' = Some s -> o = o' /\ p = p').
Proof. exact dyn_order_str_faithful. Qed.
Print Assumptions C15_dyn_order_str_faithful.

Theorem C15_dyn_order_str_total : forall o p,
  In o orders6 -> In p orders6 -> (o <> None \/ p <> None) -> exists s, dyn_order_str o p = Some s.
Proof. exact dyn_order_str_total. Qed.
Print Assumptions C15_dyn_order_str_total.

(* the charge token shows '>' exactly for a changed charge and determines (charge, p_charge) *)
Theorem C15_dyn_charge_str_faithful : forall i j i' j',
  -4 <= i <= 4 -> -4 <= j <= 4 -> -4 <= i' <= 4 -> -4 <= j' <= 4 ->
  exists s, dyn_charge_str i j = Some s /\ (has_gt s = negb (i =? j)) /\ (dyn_charge_str i' j' = Some s -> i = i' /\ j = j').
Proof. exact dyn_charge_str_faithful. Qed.
Print Assumptions C15_dyn_charge_str_faithful.

(* ---- TIE BY TRANSLATION: the bodies below are REGENERATED from /repo's source on every run (tools/gen_compose.py ->
   Gen.ComposeGen, statement by statement, fail closed) and proved equal to the hand-written model the theorems above are about.
   g_compose_ord ord1 ord2 ord3 takes the iteration orders of the sets in SOURCE order: common, self-only, other-only. ---- *)
(* DynamicElement.from_atom / from_atoms / is_dynamic, DynamicBond.from_bond / is_dynamic *)
Theorem C15_src_from_atom : forall a, g_from_atom a = from_atom a.
Proof. exact g_from_atom_eq. Qed.
Print Assumptions C15_src_from_atom.
Theorem C15_src_from_atoms : forall a b, g_from_atoms a b = from_atoms a b.
Proof. exact g_from_atoms_eq. Qed.
Print Assumptions C15_src_from_atoms.
Theorem C15_src_from_bond : forall b, g_from_bond b = from_bond b.
Proof. exact g_from_bond_eq. Qed.
Print Assumptions C15_src_from_bond.
Theorem C15_src_datom_is_dynamic : forall a, g_datom_is_dynamic a = datom_dynamic a.
Proof. exact g_datom_is_dynamic_eq. Qed.
Print Assumptions C15_src_datom_is_dynamic.
Theorem C15_src_dbond_is_dynamic : forall b, g_dbond_is_dynamic b = dbond_dynamic b.
Proof. exact g_dbond_is_dynamic_eq. Qed.
Print Assumptions C15_src_dbond_is_dynamic.

(* DynamicBond.__init__ (not modelled by hand: "unreachable inside compose"): its whole validation, for ALL argument pairs,
   and the fact that the three call sites inside compose never trip it on orders a Bond can carry *)
Theorem C15_src_dbond_init_spec : forall o p,
  g_dbond_init o p = match o, p with
                     | None, None => Err TypeError
                     | _, _ => if order_valid o && order_valid p then Ok (mkDBond o p) else Err ValueError
                     end.
Proof. exact g_dbond_init_spec. Qed.
Print Assumptions C15_src_dbond_init_spec.
Theorem C15_src_dbond_init_call_sites : forall z w, bond_order_ok z -> bond_order_ok w ->
  g_dbond_init (Some z) None = Ok (mkDBond (Some z) None) /\ g_dbond_init None (Some z) = Ok (mkDBond None (Some z)) /\ g_dbond_init (Some z) (Some w) = Ok (mkDBond (Some z) (Some w)).
Proof. exact g_dbond_init_call_sites. Qed.
Print Assumptions C15_src_dbond_init_call_sites.

(* CGRContainer.center_atoms (set comprehension + set.update) on a condensed graph with duplicate-free keys *)
Theorem C15_src_center_atoms : forall h, NoDup (keys (c_atoms h)) -> NoDup (keys (c_adj h)) -> g_center_atoms h = center_atoms h.
Proof. exact g_center_atoms_eq. Qed.
Print Assumptions C15_src_center_atoms.

(* the three set expressions compose iterates: "ord_i is an iteration order of the i-th set of the SOURCE" is orders_ok *)
Theorem C15_src_orders_ok : forall r p o1 o2 o3, g_orders_ok r p o3 o1 o2 <-> orders_ok r p o1 o2 o3.
Proof. exact g_orders_ok_iff. Qed.
Print Assumptions C15_src_orders_ok.

(* the whole body of MoleculeContainer.compose: the locals (bonds, adj, ha, hb) at `return h` and the returned graph *)
Theorem C15_src_compose_state : forall r p o1 o2 o3,
  wf_mol r = true -> wf_mol p = true -> orders_ok r p o1 o2 o3 ->
  g_compose_state o3 o1 o2 r p =
  match compose_trace o1 o2 o3 r p with
  | Ok (ha, bs, adjd) => Ok (bs, adjd, ha, fold_left assign bs (map0 ha))
  | Err e => Err e
  end.
Proof. exact g_compose_state_eq. Qed.
Print Assumptions C15_src_compose_state.
Theorem C15_src_compose : forall r p o1 o2 o3,
  wf_mol r = true -> wf_mol p = true -> orders_ok r p o1 o2 o3 ->
  g_compose_ord o3 o1 o2 r p = compose_ord o1 o2 o3 r p.
Proof. exact g_compose_ord_eq. Qed.
Print Assumptions C15_src_compose.

(* the property itself, stated about the translated source only (translated compose, translated is_dynamic, translated
   center_atoms, translated set expressions): exact content, dynamic marks, reaction centre, identical sides *)
Theorem C15_src_compose_lookup : forall r p oc o1 o2 h,
  wf_mol r = true -> wf_mol p = true -> g_orders_ok r p oc o1 o2 -> g_compose_ord oc o1 o2 r p = Ok h ->
  keys (c_atoms h) = o1 ++ o2 ++ oc /\ keys (c_adj h) = o1 ++ o2 ++ oc /\ (forall n, catom h n = spec_atom r p n) /\ (forall n m, cbond h n m = spec_bond r p n m).
Proof. exact g_compose_lookup. Qed.
Print Assumptions C15_src_compose_lookup.
Theorem C15_src_compose_dynamic_iff : forall r p oc o1 o2 h,
  wf_mol r = true -> wf_mol p = true -> g_orders_ok r p oc o1 o2 -> g_compose_ord oc o1 o2 r p = Ok h ->
  (forall n m, (exists b, cbond h n m = Some b /\ g_dbond_is_dynamic b = true) <->
               ord_in r n m <> ord_in p n m /\ (is_common r p n = true \/ is_common r p m = true)) /\
  (forall n, (exists a, catom h n = Some a /\ g_datom_is_dynamic a = true) <->
             exists a b, atom_of r n = Some a /\ atom_of p n = Some b /\ (a_chg a <> a_chg b \/ a_rad a <> a_rad b)) /\
  (forall n, In n (g_center_atoms h) <->
             (exists a, catom h n = Some a /\ g_datom_is_dynamic a = true) \/
             exists m b, cbond h n m = Some b /\ g_dbond_is_dynamic b = true).
Proof. exact g_compose_dynamic_iff. Qed.
Print Assumptions C15_src_compose_dynamic_iff.
Theorem C15_src_compose_identity_no_center : forall g oc o1 o2,
  wf_mol g = true -> g_orders_ok g g oc o1 o2 ->
  exists h, g_compose_ord oc o1 o2 g g = Ok h /\ g_center_atoms h = [] /\
            (forall n a, catom h n = Some a -> g_datom_is_dynamic a = false) /\
            (forall n m b, cbond h n m = Some b -> g_dbond_is_dynamic b = false).
Proof. exact g_compose_identity_no_center. Qed.
Print Assumptions C15_src_compose_identity_no_center.
Theorem C15_src_compose_example :
  g_orders_ok example_r example_p [1; 2; 3] [] [] /\
  exists h, g_compose_ord [1; 2; 3] [] [] example_r example_p = Ok h /\ compose example_r example_p = Ok h /\
            list_eqb Z.eqb (g_center_atoms h) [3; 1; 2] = true /\
            g_dbond_init (Some 2) (Some 1) = Ok (mkDBond (Some 2) (Some 1)) /\ g_dbond_init None None = Err TypeError /\
            g_dbond_init (Some 5) None = Err ValueError.
Proof. exact g_compose_example. Qed.
Print Assumptions C15_src_compose_example.

(* the whole body of ReactionContainer.__format__ (tools/gen_rxnformat.py -> Gen.RxnFormatGen: both loops, the sort with its key,
   the CX block with its three tests, the two flags) is the hand-written rxn_format, for ALL lists of written molecules *)
Theorem C15_src_rxn_format : forall has_c has_x rs gs ps, g_rxn_format has_c has_x rs gs ps = rxn_format has_c has_x rs gs ps.
Proof. exact g_rxn_format_eq. Qed.
Print Assumptions C15_src_rxn_format.
Theorem C15_src_rxn_string_role_order_free : forall has_x rs rs' gs gs' ps ps',
  Permutation rs rs' -> Permutation gs gs' -> Permutation ps ps' -> ncomp_det rs -> ncomp_det gs -> ncomp_det ps ->
  g_rxn_format false has_x rs gs ps = g_rxn_format false has_x rs' gs' ps'.
Proof. exact g_rxn_string_role_order_free. Qed.
Print Assumptions C15_src_rxn_string_role_order_free.
Theorem C15_src_rxn_format_example :
  g_rxn_format false false [mkF "[CH3]" 1 [true]; mkF "C" 1 [false]] [] [mkF "[Na+].[Cl-]" 2 [false; false]] = "C.[CH3]>>[Na+].[Cl-] |^1:1,f:2.3|"%string /\
  g_rxn_format true true [mkF "[CH3]" 1 [true]; mkF "C" 1 [false]] [] [mkF "[Na+].[Cl-]" 2 [false; false]] = "[CH3].C>>[Na+].[Cl-]"%string.
Proof. exact g_rxn_format_example. Qed.
Print Assumptions C15_src_rxn_format_example.

(* the token functions of the condensed-graph writer, CGRSmiles._format_atom / _format_bond (tools/gen_cgrtokens.py ->
   Gen.CgrTokensGen), are the hand-written cgr_atom_str / cgr_bond_str that the string theorems above use, for ALL dynamic atoms,
   bonds and symbols; organic_set is the regenerated Gen.CgrTables.src_organic_set, str(isotope) appears iff the isotope is truthy *)
Theorem C15_src_format_atom : forall symbol a,
  g_format_atom symbol a = cgr_atom_str symbol (smem symbol CgrTables.src_organic_set) (iso_text a) a.
Proof. exact g_format_atom_eq. Qed.
Print Assumptions C15_src_format_atom.
Theorem C15_src_format_bond : forall b, g_format_bond b = cgr_bond_str b.
Proof. exact g_format_bond_eq. Qed.
Print Assumptions C15_src_format_bond.
Theorem C15_src_format_atom_example :
  g_format_atom "C" (mkDAtom 6 (Some 13) 0 false (-1) true) = Some "[13C0>-^>*]"%string /\
  g_format_atom "C" (mkDAtom 6 None 0 false 0 false) = Some "C"%string /\ g_format_atom "Fe" (mkDAtom 26 None 5 false 0 false) = None /\
  g_format_bond (mkDBond (Some 2) None) = Some "[=>.]"%string.
Proof. exact g_format_atom_example. Qed.
Print Assumptions C15_src_format_atom_example.

(* the body of ReactionContainer.compose (= ~reaction; tools/gen_rxncompose.py -> Gen.RxnComposeGen: reagents + reactants, the two
   empty-side fallbacks, reduce(or_, ...), r ^ p with `^` = the TRANSLATED MoleculeContainer.compose; __invert__, __xor__, __or__ and
   MoleculeContainer.union are checked to be the one-line delegations; Graph.union itself stays the hand-written union_remap) *)
Theorem C15_src_rxn_compose_unfold : forall oc o1 o2 rs gs ps,
  g_rxn_compose_ord oc o1 o2 rs gs ps = g_compose_ord oc o1 o2 (union_all (gs ++ rs)) (union_all ps).
Proof. exact g_rxn_compose_unfold. Qed.
Print Assumptions C15_src_rxn_compose_unfold.
Theorem C15_src_rxn_compose : forall rs gs ps o1 o2 o3,
  wf_mol (union_all (gs ++ rs)) = true -> wf_mol (union_all ps) = true ->
  orders_ok (union_all (gs ++ rs)) (union_all ps) o1 o2 o3 ->
  g_rxn_compose_ord o3 o1 o2 rs gs ps = rxn_compose_ord o1 o2 o3 rs gs ps.
Proof. exact g_rxn_compose_eq. Qed.
Print Assumptions C15_src_rxn_compose.
Theorem C15_src_rxn_compose_mapped : forall rs gs ps o1 o2 o3, mapped_reaction rs gs ps ->
  orders_ok (left_side rs gs) (right_side ps) o1 o2 o3 ->
  g_rxn_compose_ord o3 o1 o2 rs gs ps = compose_ord o1 o2 o3 (left_side rs gs) (right_side ps).
Proof. exact g_rxn_compose_mapped. Qed.
Print Assumptions C15_src_rxn_compose_mapped.

(* the in-place standardisation methods of a reaction (chython/algorithms/standardize/reaction.py; tools/gen_rxncache.py ->
   Gen.RxnCacheGen): returned flag / count and the reaction-level cache cell afterwards, for ALL lists of molecule-level results *)
Theorem C15_src_thiele : forall (V : Type) results (cell : option V), g_thiele results cell = (flag_any results, flush_if (flag_any results) cell).
Proof. exact @g_thiele_eq. Qed.
Print Assumptions C15_src_thiele.
Theorem C15_src_kekule : forall (V : Type) results (cell : option V), g_kekule results cell = (flag_any results, flush_if (flag_any results) cell).
Proof. exact @g_kekule_eq. Qed.
Print Assumptions C15_src_kekule.
Theorem C15_src_clean_isotopes : forall (V : Type) results (cell : option V),
  g_clean_isotopes results cell = (flag_any results, flush_if (flag_any results) cell).
Proof. exact @g_clean_isotopes_eq. Qed.
Print Assumptions C15_src_clean_isotopes.
Theorem C15_src_implicify_hydrogens : forall (V : Type) counts (cell : option V),
  g_implicify_hydrogens counts cell = (fold_left Z.add counts 0, flush_if (flag_count counts) cell).
Proof. exact @g_implicify_hydrogens_eq. Qed.
Print Assumptions C15_src_implicify_hydrogens.
Theorem C15_src_clean_stereo : forall (V : Type) results (cell : option V), g_clean_stereo results cell = (tt, None).
Proof. exact @g_clean_stereo_eq. Qed.
Print Assumptions C15_src_clean_stereo.
(* the cache clause about the translated methods *)
Theorem C15_src_cache_coherent : forall (V : Type) results (cell : option V) (old new : V),
  (cell = None \/ cell = Some old) -> ((forall r, In r results -> r = false) -> new = old) ->
  fst (cached_read (snd (g_thiele results cell)) new) = new /\
  fst (cached_read (snd (g_kekule results cell)) new) = new /\
  fst (cached_read (snd (g_clean_isotopes results cell)) new) = new /\
  (forall us, fst (cached_read (snd (g_clean_stereo us cell)) new) = new).
Proof. exact @g_cache_coherent. Qed.
Print Assumptions C15_src_cache_coherent.
Theorem C15_src_cache_coherent_count : forall (V : Type) counts (cell : option V) (old new : V),
  Forall (fun n => 0 <= n) counts -> (cell = None \/ cell = Some old) -> (Forall (fun n => n = 0) counts -> new = old) ->
  fst (cached_read (snd (g_implicify_hydrogens counts cell)) new) = new.
Proof. exact @g_cache_coherent_count. Qed.
Print Assumptions C15_src_cache_coherent_count.
Theorem C15_src_cache_example :
  g_thiele [true; false] (Some 1) = (true, None) /\ g_thiele [false; false] (Some 1) = (false, Some 1) /\
  g_implicify_hydrogens [0; 2; 0] (Some 1) = (2, None) /\ g_implicify_hydrogens [0; 0] (Some 1) = (0, Some 1).
Proof. exact g_cache_example. Qed.
Print Assumptions C15_src_cache_example.

(* the body of Graph.union as called by `|` (remap=True, copy=True; tools/gen_union.py -> Gen.UnionGen: collision test, new numbers
   max(self) + 1 ... in the atom order of other, the two dict updates) is the union_remap that ReactionContainer.compose folds over
   its molecules, for all pairs with duplicate-free, non-negative atom numbers (Graph.copy and Graph.remap are primitives of the
   translation: same dicts / renaming by mapping.get(n, n)) *)
Theorem C15_src_union : forall a b, NoDup (ids b) -> (forall n, In n (ids a) -> 0 <= n) -> g_union a b = Ok (union_remap a b).
Proof. exact g_union_eq. Qed.
Print Assumptions C15_src_union.
Theorem C15_src_union_example :
  g_union (mkMol [(1, mkAtom 6 None 0 false None None); (2, mkAtom 8 None 0 false None None)] [(1, [(2, mkBond 1 None)]); (2, [(1, mkBond 1 None)])])
          (mkMol [(2, mkAtom 7 None 0 false None None)] [(2, [])]) =
  Ok (mkMol [(1, mkAtom 6 None 0 false None None); (2, mkAtom 8 None 0 false None None); (3, mkAtom 7 None 0 false None None)]
            [(1, [(2, mkBond 1 None)]); (2, [(1, mkBond 1 None)]); (3, [])]).
Proof. exact g_union_example. Qed.
Print Assumptions C15_src_union_example.
