(* C12 -- stereo signs are permutation-consistent.  Statements only; proofs in Proofs.StereoProofs.
   The two translation tables are regenerated from chython/algorithms/stereo.py on every run. *)
From Coq Require Import ZArith List Bool.
From Model Require Import PyBase Stereo.
From Gen Require Import StereoTables.
From Proofs Require Import StereoProofs.
Import ListNotations.
Open Scope Z_scope.

(* the 24-entry table is exactly the parity of the index triple completed by the missing index *)
Theorem C12_th_table_is_parity :
  List.length tetrahedron_translate = 24%nat /\
  forallb th_entry_ok perms4 = true /\
  forallb (fun a => forallb (fun b => forallb (fun c =>
     implb ((a =? b) || (a =? c) || (b =? c)) (match th_lookup a b c with None => true | Some _ => false end)) r4) r4) r4 = true /\
  forallb (fun e => let '(a, b, c, v) := e in option_eqb Bool.eqb (th_lookup a b c) (Some v)) tetrahedron_translate = true.
Proof. exact th_table_is_parity. Qed.
Print Assumptions C12_th_table_is_parity.

Theorem C12_perms4_complete : forall a b c d,
  0 <= a < 4 -> 0 <= b < 4 -> 0 <= c < 4 -> 0 <= d < 4 -> NoDup [a; b; c; d] -> In [a; b; c; d] perms4.
Proof. exact perms4_complete. Qed.
Print Assumptions C12_perms4_complete.

Theorem C12_parity_compose : forall p q, In p perms4 -> In q perms4 ->
  In (compose p q) perms4 /\ odd_perm (compose p q) = xorb (odd_perm p) (odd_perm q).
Proof. exact parity_compose. Qed.
Print Assumptions C12_parity_compose.

Theorem C12_transposition_odd :
  forallb (fun i => forallb (fun j => implb (negb (i =? j)) (in_perms perms4 (swap_pos i j) && odd_perm (swap_pos i j))) r4) r4 = true.
Proof. exact transposition_odd. Qed.
Print Assumptions C12_transposition_odd.

(* for ANY four distinct neighbour numbers and ANY arrangement p of them (all four, or its first three):
   the reported sign is the stored one xor the parity of p *)
Theorem C12_translate_th_parity4 : forall (isH : Z -> bool) a b c d p s,
  NoDup [a; b; c; d] -> In p perms4 ->
  translate_th isH [a; b; c; d] (sel [a; b; c; d] p) s = Ok (xorb s (odd_perm p)) /\
  translate_th isH [a; b; c; d] (firstn 3 (sel [a; b; c; d] p)) s = Ok (xorb s (odd_perm p)).
Proof. exact translate_th_parity4. Qed.
Print Assumptions C12_translate_th_parity4.

(* explicit hydrogen in any position *)
Theorem C12_translate_th_parity3H : forall (isH : Z -> bool) a b c h p s,
  NoDup [a; b; c; h] -> isH a = false -> isH b = false -> isH c = false -> isH h = true -> In p perms4 ->
  translate_th isH [a; b; c] (sel [a; b; c; h] p) s = Ok (xorb s (odd_perm p)).
Proof. exact translate_th_parity3H. Qed.
Print Assumptions C12_translate_th_parity3H.

(* implicit hydrogen = last position *)
Theorem C12_translate_th_parity3 : forall (isH : Z -> bool) a b c q s,
  NoDup [a; b; c] -> In q perms3 ->
  translate_th isH [a; b; c] (sel [a; b; c] q) s = Ok (xorb s (odd_perm (q ++ [3]))).
Proof. exact translate_th_parity3. Qed.
Print Assumptions C12_translate_th_parity3.

(* re-ordering form: the sign changes exactly when the re-ordering q is odd *)
Theorem C12_translate_th_reorder : forall (isH : Z -> bool) a b c d p q s,
  NoDup [a; b; c; d] -> In p perms4 -> In q perms4 ->
  exists r, translate_th isH [a; b; c; d] (sel [a; b; c; d] p) s = Ok r /\
            translate_th isH [a; b; c; d] (sel [a; b; c; d] (compose p q)) s = Ok (xorb r (odd_perm q)).
Proof. exact translate_th_reorder. Qed.
Print Assumptions C12_translate_th_reorder.

Theorem C12_translate_th_involutive : forall (isH : Z -> bool) a b c d p s r,
  NoDup [a; b; c; d] -> In p perms4 ->
  translate_th isH [a; b; c; d] (sel [a; b; c; d] p) s = Ok r ->
  translate_th isH [a; b; c; d] (sel [a; b; c; d] p) r = Ok s.
Proof. exact translate_th_involutive. Qed.
Print Assumptions C12_translate_th_involutive.

(* double bonds and allenes *)
Theorem C12_alkene_table_law :
  List.length alkene_translate = 8%nat /\
  forallb (fun a => forallb (fun b =>
      option_eqb Bool.eqb (ct_lookup a b) (Some (ct_parity a b)) &&
      option_eqb Bool.eqb (ct_lookup b a) (Some (ct_parity a b))) [1; 3]) [0; 2] = true /\
  forallb (fun a => forallb (fun b =>
      implb (Z.even a && Z.even b || Z.odd a && Z.odd b) (match ct_lookup a b with None => true | _ => false end)) r4) r4 = true /\
  forallb (fun e => let '(a, b, v) := e in option_eqb Bool.eqb (ct_lookup a b) (Some v)) alkene_translate = true.
Proof. exact alkene_table_law. Qed.
Print Assumptions C12_alkene_table_law.

Theorem C12_translate_env_law4 : forall (isH : Z -> bool) n0 n1 n2 n3 a b s,
  NoDup [n0; n1; n2; n3] -> In a [0; 2] -> In b [1; 3] ->
  translate_env isH (n0, n1, Some n2, Some n3) (pick (n0, n1, n2, n3) a) (pick (n0, n1, n2, n3) b) s
    = Ok (xorb s (ct_parity a b)) /\
  translate_env isH (n0, n1, Some n2, Some n3) (pick (n0, n1, n2, n3) b) (pick (n0, n1, n2, n3) a) s
    = Ok (xorb s (ct_parity a b)).
Proof. exact translate_env_law4. Qed.
Print Assumptions C12_translate_env_law4.

Theorem C12_translate_env_lawH : forall (isH : Z -> bool) n0 n1 hA hB a b s,
  n0 <> n1 -> isH n0 = false -> isH n1 = false -> isH hA = true -> isH hB = true -> In a [0; 2] -> In b [1; 3] ->
  translate_env isH (n0, n1, None, None) (pick (n0, n1, hA, hB) a) (pick (n0, n1, hA, hB) b) s
    = Ok (xorb s (ct_parity a b)).
Proof. exact translate_env_lawH. Qed.
Print Assumptions C12_translate_env_lawH.

Theorem C12_exchange_at_one_end_flips : forall (isH : Z -> bool) n0 n1 n2 n3 b s,
  NoDup [n0; n1; n2; n3] -> In b [1; 3] ->
  exists r, translate_env isH (n0, n1, Some n2, Some n3) (pick (n0, n1, n2, n3) 0) (pick (n0, n1, n2, n3) b) s = Ok r /\
            translate_env isH (n0, n1, Some n2, Some n3) (pick (n0, n1, n2, n3) 2) (pick (n0, n1, n2, n3) b) s = Ok (negb r).
Proof. exact exchange_at_one_end_flips. Qed.
Print Assumptions C12_exchange_at_one_end_flips.

Theorem C12_exchange_of_ends_keeps : forall (isH : Z -> bool) n0 n1 n2 n3 a b s,
  NoDup [n0; n1; n2; n3] -> In a [0; 2] -> In b [1; 3] ->
  translate_env isH (n0, n1, Some n2, Some n3) (pick (n0, n1, n2, n3) a) (pick (n0, n1, n2, n3) b) s =
  translate_env isH (n0, n1, Some n2, Some n3) (pick (n0, n1, n2, n3) b) (pick (n0, n1, n2, n3) a) s.
Proof. exact exchange_of_ends_keeps. Qed.
Print Assumptions C12_exchange_of_ends_keeps.

(* geometry: wedge / 2D sign functions over exact integers *)
Theorem C12_pyramid_sign_antisymmetric : forall n u v w,
  pyramid_sign n v u w = - pyramid_sign n u v w /\ pyramid_sign n u w v = - pyramid_sign n u v w /\
  pyramid_sign n w v u = - pyramid_sign n u v w /\ pyramid_sign n v w u = pyramid_sign n u v w.
Proof.
  exact (fun n u v w => conj (pyramid_sign_swap_uv n u v w) (conj (pyramid_sign_swap_vw n u v w)
          (conj (pyramid_sign_swap_uw n u v w) (pyramid_sign_rotate n u v w)))).
Qed.
Print Assumptions C12_pyramid_sign_antisymmetric.

Theorem C12_mirror_images : forall nx ny nz ux uy uz vx vy vz wx wy wz,
  pyramid_sign (nx, ny, - nz) (ux, uy, - uz) (vx, vy, - vz) (wx, wy, - wz)
    = - pyramid_sign (nx, ny, nz) (ux, uy, uz) (vx, vy, vz) (wx, wy, wz) /\
  cis_trans_sign (nx, - ny) (ux, - uy) (vx, - vy) (wx, - wy) = cis_trans_sign (nx, ny) (ux, uy) (vx, vy) (wx, wy).
Proof.
  exact (fun nx ny nz ux uy uz vx vy vz wx wy wz =>
           conj (pyramid_sign_mirror nx ny nz ux uy uz vx vy vz wx wy wz) (cis_trans_sign_mirror nx ny ux uy vx vy wx wy)).
Qed.
Print Assumptions C12_mirror_images.

Theorem C12_cis_trans_sign_reverse : forall n u v w, cis_trans_sign w v u n = cis_trans_sign n u v w.
Proof. exact cis_trans_sign_reverse. Qed.
Print Assumptions C12_cis_trans_sign_reverse.

Theorem C12_allene_sign_mark : forall mark u v w, allene_sign (- mark) u v w = - allene_sign mark u v w.
Proof. exact allene_sign_mark. Qed.
Print Assumptions C12_allene_sign_mark.
