(* C12 -- stereo signs are permutation-consistent.  Statements only; proofs in Proofs.StereoProofs.
   The two translation tables are regenerated from chython/algorithms/stereo.py on every run. *)
From Coq Require Import ZArith List Bool.
From Model Require Import PyBase Graph Stereo StereoRegistry StereoSmiles StereoFix StereoWedge StereoParse StereoChiral.
From Gen Require Import StereoTables StereoConsts StereoBody StereoRegBody.
From Proofs Require Import StereoProofs StereoRegistryProofs StereoRegistryDisjoint StereoSmilesProofs StereoFixProofs StereoWedgeProofs StereoParseProofs StereoChiralProofs StereoConstsProofs StereoBodyTie StereoRenumber StereoRegBodyTie StereoBodyTie2 StereoFixFuel StereoRingSize.
Import ListNotations.
Open Scope Z_scope.

(* the 24-entry table is exactly the parity of the index triple completed by the missing index *)
Theorem C12_th_table_is_parity :
  List.length tetrahedron_translate = 24%nat /\
  forallb th_entry_ok perms4 = true /\
  forallb (fun a => forallb (fun b => forallb (fun c =>
     implb ((a =? b) || (a =? c) || (b =? c)) (match th_lookup a b c with None => true | Some _ => false end)) r4) r4) r4 = true /\
  forallb (fun e => let '(a, b, c, v) := e in option_eqb Bool.eqb (th_lookup a b c) (Some v)) tetrahedron_translate = true.
Proof. exact th_table_is_parity. Qed.
Print Assumptions C12_th_table_is_parity.

Theorem C12_perms4_complete : forall a b c d,
  0 <= a < 4 -> 0 <= b < 4 -> 0 <= c < 4 -> 0 <= d < 4 -> NoDup [a; b; c; d] -> In [a; b; c; d] perms4.
Proof. exact perms4_complete. Qed.
Print Assumptions C12_perms4_complete.

Theorem C12_parity_compose : forall p q, In p perms4 -> In q perms4 ->
  In (compose p q) perms4 /\ odd_perm (compose p q) = xorb (odd_perm p) (odd_perm q).
Proof. exact parity_compose. Qed.
Print Assumptions C12_parity_compose.

Theorem C12_transposition_odd :
  forallb (fun i => forallb (fun j => implb (negb (i =? j)) (in_perms perms4 (swap_pos i j) && odd_perm (swap_pos i j))) r4) r4 = true.
Proof. exact transposition_odd. Qed.
Print Assumptions C12_transposition_odd.

(* for ANY four distinct neighbour numbers and ANY arrangement p of them (all four, or its first three):
   the reported sign is the stored one xor the parity of p *)
Theorem C12_translate_th_parity4 : forall (isH : Z -> bool) a b c d p s,
  NoDup [a; b; c; d] -> In p perms4 ->
  translate_th isH [a; b; c; d] (sel [a; b; c; d] p) s = Ok (xorb s (odd_perm p)) /\
  translate_th isH [a; b; c; d] (firstn 3 (sel [a; b; c; d] p)) s = Ok (xorb s (odd_perm p)).
Proof. exact translate_th_parity4. Qed.
Print Assumptions C12_translate_th_parity4.

(* explicit hydrogen in any position *)
Theorem C12_translate_th_parity3H : forall (isH : Z -> bool) a b c h p s,
  NoDup [a; b; c; h] -> isH a = false -> isH b = false -> isH c = false -> isH h = true -> In p perms4 ->
  translate_th isH [a; b; c] (sel [a; b; c; h] p) s = Ok (xorb s (odd_perm p)).
Proof. exact translate_th_parity3H. Qed.
Print Assumptions C12_translate_th_parity3H.

(* implicit hydrogen = last position *)
Theorem C12_translate_th_parity3 : forall (isH : Z -> bool) a b c q s,
  NoDup [a; b; c] -> In q perms3 ->
  translate_th isH [a; b; c] (sel [a; b; c] q) s = Ok (xorb s (odd_perm (q ++ [3]))).
Proof. exact translate_th_parity3. Qed.
Print Assumptions C12_translate_th_parity3.

(* re-ordering form: the sign changes exactly when the re-ordering q is odd *)
Theorem C12_translate_th_reorder : forall (isH : Z -> bool) a b c d p q s,
  NoDup [a; b; c; d] -> In p perms4 -> In q perms4 ->
  exists r, translate_th isH [a; b; c; d] (sel [a; b; c; d] p) s = Ok r /\
            translate_th isH [a; b; c; d] (sel [a; b; c; d] (compose p q)) s = Ok (xorb r (odd_perm q)).
Proof. exact translate_th_reorder. Qed.
Print Assumptions C12_translate_th_reorder.

Theorem C12_translate_th_involutive : forall (isH : Z -> bool) a b c d p s r,
  NoDup [a; b; c; d] -> In p perms4 ->
  translate_th isH [a; b; c; d] (sel [a; b; c; d] p) s = Ok r ->
  translate_th isH [a; b; c; d] (sel [a; b; c; d] p) r = Ok s.
Proof. exact translate_th_involutive. Qed.
Print Assumptions C12_translate_th_involutive.

(* double bonds and allenes *)
Theorem C12_alkene_table_law :
  List.length alkene_translate = 8%nat /\
  forallb (fun a => forallb (fun b =>
      option_eqb Bool.eqb (ct_lookup a b) (Some (ct_parity a b)) &&
      option_eqb Bool.eqb (ct_lookup b a) (Some (ct_parity a b))) [1; 3]) [0; 2] = true /\
  forallb (fun a => forallb (fun b =>
      implb (Z.even a && Z.even b || Z.odd a && Z.odd b) (match ct_lookup a b with None => true | _ => false end)) r4) r4 = true /\
  forallb (fun e => let '(a, b, v) := e in option_eqb Bool.eqb (ct_lookup a b) (Some v)) alkene_translate = true.
Proof. exact alkene_table_law. Qed.
Print Assumptions C12_alkene_table_law.

Theorem C12_translate_env_law4 : forall (isH : Z -> bool) n0 n1 n2 n3 a b s,
  NoDup [n0; n1; n2; n3] -> In a [0; 2] -> In b [1; 3] ->
  translate_env isH (n0, n1, Some n2, Some n3) (pick (n0, n1, n2, n3) a) (pick (n0, n1, n2, n3) b) s
    = Ok (xorb s (ct_parity a b)) /\
  translate_env isH (n0, n1, Some n2, Some n3) (pick (n0, n1, n2, n3) b) (pick (n0, n1, n2, n3) a) s
    = Ok (xorb s (ct_parity a b)).
Proof. exact translate_env_law4. Qed.
Print Assumptions C12_translate_env_law4.

Theorem C12_translate_env_lawH : forall (isH : Z -> bool) n0 n1 hA hB a b s,
  n0 <> n1 -> isH n0 = false -> isH n1 = false -> isH hA = true -> isH hB = true -> In a [0; 2] -> In b [1; 3] ->
  translate_env isH (n0, n1, None, None) (pick (n0, n1, hA, hB) a) (pick (n0, n1, hA, hB) b) s
    = Ok (xorb s (ct_parity a b)).
Proof. exact translate_env_lawH. Qed.
Print Assumptions C12_translate_env_lawH.

Theorem C12_exchange_at_one_end_flips : forall (isH : Z -> bool) n0 n1 n2 n3 b s,
  NoDup [n0; n1; n2; n3] -> In b [1; 3] ->
  exists r, translate_env isH (n0, n1, Some n2, Some n3) (pick (n0, n1, n2, n3) 0) (pick (n0, n1, n2, n3) b) s = Ok r /\
            translate_env isH (n0, n1, Some n2, Some n3) (pick (n0, n1, n2, n3) 2) (pick (n0, n1, n2, n3) b) s = Ok (negb r).
Proof. exact exchange_at_one_end_flips. Qed.
Print Assumptions C12_exchange_at_one_end_flips.

Theorem C12_exchange_of_ends_keeps : forall (isH : Z -> bool) n0 n1 n2 n3 a b s,
  NoDup [n0; n1; n2; n3] -> In a [0; 2] -> In b [1; 3] ->
  translate_env isH (n0, n1, Some n2, Some n3) (pick (n0, n1, n2, n3) a) (pick (n0, n1, n2, n3) b) s =
  translate_env isH (n0, n1, Some n2, Some n3) (pick (n0, n1, n2, n3) b) (pick (n0, n1, n2, n3) a) s.
Proof. exact exchange_of_ends_keeps. Qed.
Print Assumptions C12_exchange_of_ends_keeps.

(* geometry: wedge / 2D sign functions over exact integers *)
Theorem C12_pyramid_sign_antisymmetric : forall n u v w,
  pyramid_sign n v u w = - pyramid_sign n u v w /\ pyramid_sign n u w v = - pyramid_sign n u v w /\
  pyramid_sign n w v u = - pyramid_sign n u v w /\ pyramid_sign n v w u = pyramid_sign n u v w.
Proof.
  exact (fun n u v w => conj (pyramid_sign_swap_uv n u v w) (conj (pyramid_sign_swap_vw n u v w)
          (conj (pyramid_sign_swap_uw n u v w) (pyramid_sign_rotate n u v w)))).
Qed.
Print Assumptions C12_pyramid_sign_antisymmetric.

Theorem C12_mirror_images : forall nx ny nz ux uy uz vx vy vz wx wy wz,
  pyramid_sign (nx, ny, - nz) (ux, uy, - uz) (vx, vy, - vz) (wx, wy, - wz)
    = - pyramid_sign (nx, ny, nz) (ux, uy, uz) (vx, vy, vz) (wx, wy, wz) /\
  cis_trans_sign (nx, - ny) (ux, - uy) (vx, - vy) (wx, - wy) = cis_trans_sign (nx, ny) (ux, uy) (vx, vy) (wx, wy).
Proof.
  exact (fun nx ny nz ux uy uz vx vy vz wx wy wz =>
           conj (pyramid_sign_mirror nx ny nz ux uy uz vx vy vz wx wy wz) (cis_trans_sign_mirror nx ny ux uy vx vy wx wy)).
Qed.
Print Assumptions C12_mirror_images.

Theorem C12_cis_trans_sign_reverse : forall n u v w, cis_trans_sign w v u n = cis_trans_sign n u v w.
Proof. exact cis_trans_sign_reverse. Qed.
Print Assumptions C12_cis_trans_sign_reverse.

Theorem C12_allene_sign_mark : forall mark u v w, allene_sign (- mark) u v w = - allene_sign mark u v w.
Proof. exact allene_sign_mark. Qed.
Print Assumptions C12_allene_sign_mark.

(* ====================================================================================================================== *)
(* EXTENSION 1: the stereo registries of chython/algorithms/stereo.py (Model.StereoRegistry), for ALL molecules.
   fs / fd stand for the element tables is_forming_single_bonds / is_forming_double_bonds (any table). *)

(* every registry (tetrahedrons, cumulenes, stereogenic_tetrahedrons / cumulenes / allenes / cis_trans, _stereo_allenes_terminals /
   centers, _stereo_cis_trans_centers / terminals / counterpart) of the renumbered molecule is the renumbered registry, with the
   same dict insertion orders, for every injective renumbering (Graph.remap) *)
Theorem C12_registries_equivariant : forall (s : Z -> Z), (forall x y, s x = s y -> x = y) ->
  forall (fs fd : Z -> bool) (g : mol),
  registries_of fs fd (rn_mol s g) = match registries_of fs fd g with Ok r => Ok (rn_reg s r) | Err e => Err e end.
Proof. exact registries_rn. Qed.
Print Assumptions C12_registries_equivariant.

(* a tetrahedron is an uncharged non-radical carbon with at most four neighbours, all single-bonded *)
Theorem C12_tetrahedrons_spec : forall g n, In n (tetrahedrons g) ->
  exists a, In (n, a) (m_atoms g) /\ a_num a = 6 /\ a_chg a = 0 /\ a_rad a = false /\
            (forall m b, In (m, b) (nbrs g n) -> b_ord b = 1) /\ zlen (nbr_ids g n) <= 4.
Proof. exact tetrahedrons_spec. Qed.
Print Assumptions C12_tetrahedrons_spec.

(* stereogenic_tetrahedrons[n] exists iff n is a tetrahedron without metal neighbour with 3 or 4 non-hydrogen neighbours, and it
   is exactly the list of the non-hydrogen neighbours in _bonds[n] order *)
Theorem C12_sg_tetrahedron_env : forall (fs : Z -> bool) g n env, In (n, env) (sg_tetrahedrons fs g) <->
  In n (tetrahedrons g) /\ existsb (fun x => negb (fs (anum g x))) (nbr_ids g n) = false /\
  env = th_env g n /\ (zlen env = 3 \/ zlen env = 4).
Proof. exact sg_th_spec. Qed.
Print Assumptions C12_sg_tetrahedron_env.

(* the neighbours are the environment plus the explicit hydrogens; with 4 listed neighbours there is no hydrogen neighbour,
   with 3 listed neighbours every other neighbour is an explicit hydrogen and there is at most one *)
Theorem C12_sg_tetrahedron_hydrogens : forall (fs : Z -> bool) g n env, In (n, env) (sg_tetrahedrons fs g) ->
  Permutation.Permutation (nbr_ids g n) (env ++ filter (is_h g) (nbr_ids g n)) /\
  (zlen env = 4 -> env = nbr_ids g n /\ filter (is_h g) (nbr_ids g n) = []) /\
  (zlen env = 3 -> (List.length (filter (is_h g) (nbr_ids g n)) <= 1)%nat /\
                   forall x, In x (nbr_ids g n) -> In x env \/ is_h g x = true).
Proof.
  exact (fun fs g n env H =>
           conj (eq_ind_r (fun e => Permutation.Permutation (nbr_ids g n) (e ++ filter (is_h g) (nbr_ids g n)))
                          (th_env_neighbours g n) (proj1 (proj2 (proj2 (proj1 (sg_th_spec fs g n env) H)))))
                (sg_th_hydrogens fs g n env H)).
Qed.
Print Assumptions C12_sg_tetrahedron_hydrogens.

(* stereogenic_cumulenes[path] = (n0, n1, n2, n3): n0 / n1 = first substituent of the first / last path atom, n2 / n3 = the second
   one iff there are exactly two (None otherwise); a substituent is a neighbour other than the next chain atom that is not a
   hydrogen and not bound by an order-8 bond *)
Theorem C12_sg_cumulene_env : forall (fs : Z -> bool) g ps path n0 n1 n2 n3,
  In (path, (n0, n1, n2, n3)) (sg_cumulenes_of fs g ps) ->
  In path ps /\
  exists t1 x1 r t2 y1 r', path = t1 :: x1 :: r /\ rev path = t2 :: y1 :: r' /\
    end_blocked fs g t1 x1 = false /\ end_blocked fs g t2 y1 = false /\
    end_more_double g t1 x1 = false /\ end_more_double g t2 y1 = false /\
    end_crowded g t1 = false /\ end_crowded g t2 = false /\
    (exists ra, end_subst g t1 x1 = n0 :: ra /\ n2 = second_of (n0 :: ra)) /\
    (exists rc, end_subst g t2 y1 = n1 :: rc /\ n3 = second_of (n1 :: rc)).
Proof. exact sg_cum_spec. Qed.
Print Assumptions C12_sg_cumulene_env.

Theorem C12_substituents_spec : forall g t k x,
  (In x (end_subst g t k) <-> exists b, In (x, b) (nbrs g t) /\ x <> k /\ is_h g x = false /\ b_ord b <> 8) /\
  (forall l y, second_of l = Some y <-> exists x', l = [x'; y]) /\
  (forall l, second_of l = None <-> List.length l <> 2%nat).
Proof. exact (fun g t k x => conj (end_subst_In g t k x) (conj second_of_Some second_of_None)). Qed.
Print Assumptions C12_substituents_spec.

(* every path of `cumulenes`: at least two atoms, consecutive atoms joined by a double bond between double-bond-forming
   elements, and a path with more than two atoms runs from a terminal to a terminal of the double-bond graph (maximal chain) *)
Theorem C12_cumulenes_chains : forall (fd : Z -> bool) g ps, cumulenes fd g = Ok ps -> forall p, In p ps ->
  (2 <= List.length p)%nat /\ chain (dbl_adj fd g) p /\
  (List.length p = 2%nat \/ (In (first_z p) (terminals_of (dbl_adj fd g)) /\ In (last_z p) (terminals_of (dbl_adj fd g)))).
Proof. exact cumulenes_chains. Qed.
Print Assumptions C12_cumulenes_chains.

Theorem C12_cumulenes_double_bonds : forall (fd : Z -> bool) g ps, cumulenes fd g = Ok ps ->
  forall p x y, In p ps -> In [x; y] (pairs p) -> exists b, In (y, b) (nbrs g x) /\ b_ord b = 2.
Proof. exact cumulenes_double_bonds. Qed.
Print Assumptions C12_cumulenes_double_bonds.

(* derived registries: entries come from stereogenic paths of the right parity, and every such path has an entry *)
Theorem C12_allene_registry : forall sc,
  (forall c e, In (c, e) (sg_allenes_of sc) -> exists p, In (p, e) sc /\ odd_len p = true /\ c = centre_of p) /\
  (forall p e, In (p, e) sc -> odd_len p = true -> exists e', In (centre_of p, e') (sg_allenes_of sc)) /\
  (forall c ab, In (c, ab) (allenes_terminals_of sc) ->
     exists p e, In (p, e) sc /\ odd_len p = true /\ c = centre_of p /\ ab = (first_z p, last_z p)).
Proof. exact (fun sc => conj (sg_allenes_sound sc) (conj (sg_allenes_complete sc) (allenes_terminals_sound sc))). Qed.
Print Assumptions C12_allene_registry.

Theorem C12_cis_trans_registry : forall sc,
  (forall k e, In (k, e) (sg_cis_trans_of sc) -> exists p, In (p, e) sc /\ odd_len p = false /\ k = (first_z p, last_z p)) /\
  (forall p e, In (p, e) sc -> odd_len p = false -> exists e', In ((first_z p, last_z p), e') (sg_cis_trans_of sc)) /\
  (forall a b, In (a, b) (ct_counterpart_of sc) ->
     exists p e, In (p, e) sc /\ odd_len p = false /\ ((a, b) = (first_z p, last_z p) \/ (a, b) = (last_z p, first_z p))) /\
  (forall x ab, In (x, ab) (ct_terminals_of sc) ->
     exists p e, In (p, e) sc /\ odd_len p = false /\ ab = (first_z p, last_z p) /\
                 (x = first_z p \/ x = last_z p \/ x = centre_of p \/ x = centre_lo p)) /\
  (forall x ij, In (x, ij) (ct_centers_of sc) ->
     exists p e, In (p, e) sc /\ odd_len p = false /\ ij = (centre_lo p, centre_of p) /\ (x = first_z p \/ x = last_z p)).
Proof.
  exact (fun sc => conj (sg_cis_trans_sound sc) (conj (sg_cis_trans_complete sc) (conj (ct_counterpart_sound sc)
           (conj (ct_terminals_sound sc) (ct_centers_sound sc))))).
Qed.
Print Assumptions C12_cis_trans_registry.

(* allene terminals are the ends of a maximal odd chain of double bonds whose middle atom is the centre *)
Theorem C12_allene_terminals_maximal : forall (fs fd : Z -> bool) g ps c a b,
  cumulenes fd g = Ok ps -> In (c, (a, b)) (allenes_terminals_of (sg_cumulenes_of fs g ps)) ->
  exists p, In p ps /\ odd_len p = true /\ (3 <= List.length p)%nat /\ chain (dbl_adj fd g) p /\
            a = first_z p /\ b = last_z p /\ c = centre_of p /\
            In a (terminals_of (dbl_adj fd g)) /\ In b (terminals_of (dbl_adj fd g)).
Proof. exact allene_terminals_maximal. Qed.
Print Assumptions C12_allene_terminals_maximal.

(* cis/trans terminals are the ends of a maximal even chain of double bonds: IN FULL for every well-formed molecule (before fix
   2e29c31 this was false: the pieces of a chain cut at a hypervalent atom were registered; the witness FC=C=S(=O)=NC is now
   part of C12_registries_example with an empty registry) *)
Theorem C12_cis_trans_terminals_maximal : forall (fs fd : Z -> bool) g ps a b e, wf_mol g = true ->
  cumulenes fd g = Ok ps -> In ((a, b), e) (sg_cis_trans_of (sg_cumulenes_of fs g ps)) ->
  exists p, In p ps /\ odd_len p = false /\ chain (dbl_adj fd g) p /\ a = first_z p /\ b = last_z p /\
            In a (terminals_of (dbl_adj fd g)) /\ In b (terminals_of (dbl_adj fd g)).
Proof. exact cis_trans_terminals_maximal. Qed.
Print Assumptions C12_cis_trans_terminals_maximal.

(* the ends of every registered path (cis/trans or allene) are terminals of the double-bond graph *)
Theorem C12_registered_ends_terminal : forall (fs fd : Z -> bool) g, wf_mol g = true -> forall ps p e,
  cumulenes fd g = Ok ps -> In (p, e) (sg_cumulenes_of fs g ps) ->
  In (first_z p) (terminals_of (dbl_adj fd g)) /\ In (last_z p) (terminals_of (dbl_adj fd g)).
Proof. exact sg_ends_terminal. Qed.
Print Assumptions C12_registered_ends_terminal.

(* registered end atoms are planar: no second double bond, at most three non-special neighbours (part of C12_sg_cumulene_env) *)

(* DISJOINTNESS: two different entries of stereogenic_cumulenes of a well-formed molecule share no atom; so the derived registries
   (_stereo_cis_trans_terminals / centers / counterpart, _stereo_allenes_centers) never assign one key from two paths *)
Theorem C12_registered_paths_disjoint : forall (fs fd : Z -> bool) g, wf_mol g = true -> forall ps,
  cumulenes fd g = Ok ps ->
  ForallOrdPairs (fun e1 e2 => forall v, In v (fst e1) -> In v (fst e2) -> False) (sg_cumulenes_of fs g ps).
Proof. exact sg_cumulenes_disjoint. Qed.
Print Assumptions C12_registered_paths_disjoint.

Theorem C12_disjoint_example :
  wf_mol ex_two = true /\ cumulenes el_double ex_two = Ok [[2; 3]; [4; 5; 6]] /\
  sg_cumulenes_of el_single ex_two [[2; 3]; [4; 5; 6]] = [([2; 3], (1, 4, None, None)); ([4; 5; 6], (3, 7, None, Some 8))] /\
  terminals_of (dbl_adj el_double ex_two) = [2; 3; 4; 6].
Proof. exact disjoint_example. Qed.
Print Assumptions C12_disjoint_example.

(* non-vacuity: a tetrasubstituted allene renumbered by n -> 2n + 10, a tetrahedral centre, the cut chain *)
Theorem C12_registries_example :
  (forall x y, ex_s x = ex_s y -> x = y) /\ wf_mol ex_allene = true /\ wf_mol ex_th = true /\
  (exists r, registries_real ex_allene = Ok r /\ r_cumulenes r = [[2; 4; 5]] /\ r_sg_al r = [(4, (1, 6, Some 3, Some 7))] /\
             r_al_terminals r = [(4, (2, 5))] /\
             registries_real (rn_mol ex_s ex_allene) = Ok (rn_reg ex_s r) /\
             r_sg_al (rn_reg ex_s r) = [(18, (12, 22, Some 16, Some 24))]) /\
  (exists r, registries_real ex_th = Ok r /\ r_tetrahedrons r = [2; 3] /\ r_sg_th r = [(2, [1; 3; 4])]) /\
  (exists r, registries_real ex_cut = Ok r /\
             r_cumulenes r = [[2; 3]; [3; 4]; [5; 4]; [6; 4]] /\ r_sg_cum r = [] /\ r_sg_ct r = []).
Proof. exact registries_example. Qed.
Print Assumptions C12_registries_example.

(* ====================================================================================================================== *)
(* EXTENSION 2: SMILES stereo marks (Model.StereoSmiles): writer _format_atom / __ct_map rule, reader postprocess_molecule *)

(* the translations flip the sign by an amount that does not depend on the sign: involution for EVERY order and neighbour list *)
Theorem C12_translate_involutive_any : forall (isH : Z -> bool),
  (forall order adj s r, translate_th isH order adj s = Ok r -> translate_th isH order adj r = Ok s) /\
  (forall e nn nm s r, translate_env isH e nn nm s = Ok r -> translate_env isH e nn nm r = Ok s).
Proof. exact (fun isH => conj (translate_th_involutive_any isH) (translate_env_involutive_any isH)). Qed.
Print Assumptions C12_translate_involutive_any.

(* writer and reader agree on which atom is "first" (start atom of a component = atom without preceding neighbour) *)
Theorem C12_first_atom_inversion_coherent : forall (pos : Z -> Z) n adj (is_start : bool),
  (is_start = true -> forall m, In m adj -> pos n < pos m) ->
  (is_start = false -> exists parent rest, adj = parent :: rest /\ pos parent < pos n) ->
  nopred pos n adj = is_start.
Proof. exact first_atom_inversion_coherent. Qed.
Print Assumptions C12_first_atom_inversion_coherent.

(* tetrahedral round trip: for every written neighbour order (preceding atom, ring-closure digits, branches, explicit H anywhere,
   implicit H; first atom or not) the mark the writer emits is read back as the stored sign *)
Theorem C12_smiles_stereo_roundtrip_th : forall (isH : Z -> bool) order (pos : Z -> Z) n adj s hasH (is_start : bool) w,
  (is_start = true -> forall m, In m adj -> pos n < pos m) ->
  (is_start = false -> exists parent rest, adj = parent :: rest /\ pos parent < pos n) ->
  write_th isH order adj s hasH is_start = Ok w -> read_th isH order adj w hasH (nopred pos n adj) = Ok s.
Proof. exact smiles_stereo_roundtrip_th. Qed.
Print Assumptions C12_smiles_stereo_roundtrip_th.

(* and a reader that disagrees on "first" reads the enantiomer (the defect fixed by 2fd6cc9) *)
Theorem C12_smiles_th_first_mismatch : forall (isH : Z -> bool) order adj s w,
  write_th isH order adj s true true = Ok w -> read_th isH order adj w true false = Ok (negb s).
Proof. exact smiles_th_first_mismatch. Qed.
Print Assumptions C12_smiles_th_first_mismatch.

(* the written mark is the stored sign xor the parity of the written arrangement xor the first-atom inversion *)
Theorem C12_write_th_parity : forall (isH : Z -> bool) s hasH first,
  (forall a b c d p, NoDup [a; b; c; d] -> In p perms4 ->
     write_th isH [a; b; c; d] (sel [a; b; c; d] p) s hasH first = Ok (xorb (xorb s (odd_perm p)) (hasH && first))) /\
  (forall a b c q, NoDup [a; b; c] -> In q perms3 ->
     write_th isH [a; b; c] (sel [a; b; c] q) s hasH first = Ok (xorb (xorb s (odd_perm (q ++ [3]))) (hasH && first))).
Proof.
  exact (fun isH s hasH first => conj (fun a b c d p => write_th_parity4 isH a b c d p s hasH first)
                                      (fun a b c q => write_th_parity3 isH a b c q s hasH first)).
Qed.
Print Assumptions C12_write_th_parity.

(* allene round trip; the reference of a terminal is its first written substituent, explicit hydrogen included (e4fb73d) *)
Theorem C12_smiles_stereo_roundtrip_allene : forall (isH : Z -> bool) e adj1 adj2 s np w,
  write_al isH e adj1 adj2 s = Ok w -> read_al isH e adj1 adj2 w false np = Ok s.
Proof. exact smiles_al_roundtrip. Qed.
Print Assumptions C12_smiles_stereo_roundtrip_allene.

Theorem C12_first_ref_spec : forall (isH : Z -> bool) e l x, first_ref isH e l = Some x <->
  exists l1 l2, l = l1 ++ x :: l2 /\ (in_env x e || isH x) = true /\ forall y, In y l1 -> (in_env y e || isH y) = false.
Proof. exact first_ref_spec. Qed.
Print Assumptions C12_first_ref_spec.

(* cis/trans round trip: the two marks written for a double bond are read back as the stored sign from either end, whatever the
   inherited mark of the first end; popitem may return either marked substituent of an end *)
Theorem C12_smiles_stereo_roundtrip_ct : forall (isH : Z -> bool) e kf v on base s mo mk,
  write_ct isH e kf v on base s = Ok (mo, mk) ->
  read_ct isH e (negb kf) on v mo mk = Ok s /\ read_ct isH e kf v on mk mo = Ok s.
Proof. exact smiles_ct_roundtrip. Qed.
Print Assumptions C12_smiles_stereo_roundtrip_ct.

Theorem C12_smiles_ct_popitem_independent : forall (isH : Z -> bool) n0 n1 n2 n3 b m mb r,
  NoDup [n0; n1; n2; n3] -> In b [1; 3] ->
  translate_env isH (n0, n1, Some n2, Some n3) (pick (n0, n1, n2, n3) 0) (pick (n0, n1, n2, n3) b) (Bool.eqb m mb) = Ok r ->
  translate_env isH (n0, n1, Some n2, Some n3) (pick (n0, n1, n2, n3) 2) (pick (n0, n1, n2, n3) b) (Bool.eqb (negb m) mb) = Ok r.
Proof. exact smiles_ct_popitem_independent. Qed.
Print Assumptions C12_smiles_ct_popitem_independent.

Theorem C12_smiles_marks_example :
  write_th (fun _ => false) [2; 3; 4] [2; 3; 4] true true true = Ok false /\
  read_th (fun _ => false) [2; 3; 4] [2; 3; 4] false true true = Ok true /\
  write_th (fun _ => false) [2; 3; 4] [3; 2; 4] true true false = Ok false /\
  write_ct (fun _ => false) (1, 4, None, None) false 4 1 false false = Ok (false, true) /\
  read_ct (fun _ => false) (1, 4, None, None) true 1 4 false true = Ok false /\
  write_al (fun x => x =? 9) (1, 6, Some 3, None) [1; 3; 4] [4; 9; 6] true = Ok false /\
  read_al (fun x => x =? 9) (1, 6, Some 3, None) [1; 3; 4] [4; 9; 6] false false true = Ok true.
Proof. exact smiles_marks_example. Qed.
Print Assumptions C12_smiles_marks_example.

(* ====================================================================================================================== *)
(* EXTENSION 3: the retry loop of fix_stereo (Model.StereoFix), for EVERY chirality function `chiral restored centre`
   (__chiral_centers / _chiral_morgan are NOT modelled: they are this parameter) *)

(* the result consists of saved labels only, and each was chiral at the moment it was restored (given the labels before it) *)
Theorem C12_fix_loop_justified : forall (chiral : list label -> centre -> bool) fuel restored pending,
  exists kept, fix_loop chiral fuel restored pending = restored ++ kept /\ incl kept pending /\
    forall cs, In cs kept -> exists pre tail, kept = pre ++ tail /\ In cs tail /\ chiral (restored ++ pre) (fst cs) = true.
Proof. exact fix_loop_justified. Qed.
Print Assumptions C12_fix_loop_justified.

(* the loop runs to its fixpoint: a saved label that was not restored is not chiral given the final labels *)
Theorem C12_fix_loop_stable : forall (chiral : list label -> centre -> bool) fuel restored pending,
  (List.length pending <= fuel)%nat -> forall cs, In cs pending ->
  In cs (fix_loop chiral fuel restored pending) \/ chiral (fix_loop chiral fuel restored pending) (fst cs) = false.
Proof. exact fix_loop_stable. Qed.
Print Assumptions C12_fix_loop_stable.

(* THE SPECIFICATION: if chirality is monotone in the labels present, a saved label survives fix_stereo IFF its centre is chiral
   after the labels of the other surviving centres are restored *)
Theorem C12_fix_stereo_spec : forall (chiral : list label -> centre -> bool),
  (forall R R' c, incl R R' -> (forall s, ~ In (c, s) R') -> chiral R c = true -> chiral R' c = true) ->
  forall saved, NoDup (map fst saved) ->
  let result := fix_loop chiral (S (List.length saved)) [] saved in
  forall cs, In cs saved -> (In cs result <-> chiral (others cs result) (fst cs) = true).
Proof. exact fix_stereo_spec. Qed.
Print Assumptions C12_fix_stereo_spec.

(* non-vacuity: a pseudo-asymmetric centre 3 between chiral centres 1 and 2 (restored in the second round iff 1 and 2 differ) *)
Theorem C12_fix_loop_example :
  fix_loop ex_chiral 5 [] [(CT 1, true); (CT 2, false); (CT 3, true); (CT 4, true)] = [(CT 1, true); (CT 2, false); (CT 3, true)] /\
  fix_loop ex_chiral 5 [] [(CT 1, true); (CT 2, true); (CT 3, true); (CT 4, true)] = [(CT 1, true); (CT 2, true)] /\
  fix_loop ex_chiral 5 [] [(CT 3, true); (CT 4, false)] = [].
Proof. exact fix_loop_example. Qed.
Print Assumptions C12_fix_loop_example.

Theorem C12_fix_stereo_spec_example :
  (forall R R' c, incl R R' -> (forall s, ~ In (c, s) R') -> ex_mono R c = true -> ex_mono R' c = true) /\
  NoDup (map fst [(CT 2, false); (CT 1, true); (CT 3, true)]) /\
  fix_loop ex_mono 4 [] [(CT 2, false); (CT 1, true); (CT 3, true)] = [(CT 1, true); (CT 2, false)].
Proof. exact fix_stereo_spec_example. Qed.
Print Assumptions C12_fix_stereo_spec_example.

(* ====================================================================================================================== *)
(* add_wedge on allenes (Model.StereoWedge): wedge to the second substituent of a terminal atom = hash to the first one (one spatial
   arrangement), for both terminal atoms; wedge and hash on one bond give opposite labels *)
Theorem C12_wedge_allene_geminal : forall (isH : Z -> bool) n0 n1 n2 n3 t1 t2 c mark,
  NoDup [n0; n1; n2; n3] -> isH n0 = false -> isH n1 = false -> isH n2 = false -> isH n3 = false ->
  wedge_al isH (n0, n1, Some n2, Some n3) t1 t2 t1 n2 c mark = wedge_al isH (n0, n1, Some n2, Some n3) t1 t2 t1 n0 c (- mark) /\
  wedge_al isH (n0, n1, Some n2, Some n3) t1 t2 t2 n3 c mark = wedge_al isH (n0, n1, Some n2, Some n3) t1 t2 t2 n1 c (- mark).
Proof. exact wedge_al_geminal. Qed.
Print Assumptions C12_wedge_allene_geminal.

Theorem C12_wedge_allene_mark : forall (isH : Z -> bool) e t1 t2 n m c mark,
  wedge_al isH e t1 t2 n m c (- mark) =
  match wedge_al isH e t1 t2 n m c mark with Ok (Some b) => Ok (Some (negb b)) | r => r end.
Proof. exact wedge_al_mark. Qed.
Print Assumptions C12_wedge_allene_mark.

Theorem C12_wedge_example :
  let c := [(1, (-3, 2)); (2, (-2, 0)); (3, (-3, -2)); (4, (0, 0)); (5, (2, 0)); (6, (3, 2)); (7, (3, -2))] in
  wedge_al (fun _ => false) (1, 6, Some 3, Some 7) 2 5 5 7 c 1 = Ok (Some false) /\
  wedge_al (fun _ => false) (1, 6, Some 3, Some 7) 2 5 5 6 c (-1) = Ok (Some false) /\
  wedge_al (fun _ => false) (1, 6, Some 3, Some 7) 2 5 5 6 c 1 = Ok (Some true) /\
  wedge_al (fun _ => false) (1, 6, Some 3, Some 7) 2 5 2 1 c 1 = Ok (Some false) /\
  api_drops_smiles_cache true = true.
Proof. exact wedge_example. Qed.
Print Assumptions C12_wedge_example.

(* ====================================================================================================================== *)
(* direction marks of the SMILES parser (Model.StereoParse): the two atoms of a marked bond hold opposite views of one mark -- for
   chain bonds and for EVERY spelling of a ring-closure bond with one mark (at the opening or closing digit, the other digit bare or
   with an explicit '-'); with marks at both digits each atom keeps its own *)
Theorem C12_closure_marks_single : forall (v : Z) (plain : option btok), plain = None \/ plain = Some (1, 1) ->
  closure_marks (Some (9, v)) plain = Ok (Some (mark_of (9, v)), Some (negb (mark_of (9, v)))) /\
  closure_marks plain (Some (9, v)) = Ok (Some (negb (mark_of (9, v))), Some (mark_of (9, v))).
Proof. exact closure_marks_single. Qed.
Print Assumptions C12_closure_marks_single.

Theorem C12_parser_marks_opposite :
  (forall ob cb x y, marked ob && marked cb = false -> closure_marks ob cb = Ok (Some x, Some y) -> y = negb x) /\
  (forall t x y, chain_marks t = (Some x, Some y) -> y = negb x).
Proof. exact (conj closure_marks_opposite chain_marks_opposite). Qed.
Print Assumptions C12_parser_marks_opposite.

(* the reference substituent of __differentiation is chosen by Morgan class only: equivariant under renumbering, independent of the
   order of the two substituents when their classes differ, and it is a minimum *)
Theorem C12_differentiation_reference : forall (w : Z -> Z) n1 n2,
  (forall (s : Z -> Z) (w' : Z -> Z), w' (s n1) = w n1 -> w' (s n2) = w n2 -> ct_ref w' (s n1) (s n2) = s (ct_ref w n1 n2)) /\
  (w n1 <> w n2 -> ct_ref w n1 n2 = ct_ref w n2 n1) /\
  (ct_ref w n1 n2 = n1 \/ ct_ref w n1 n2 = n2) /\ w (ct_ref w n1 n2) <= w n1 /\ w (ct_ref w n1 n2) <= w n2.
Proof.
  exact (fun w n1 n2 => conj (fun s w' => ct_ref_equivariant s w w' n1 n2) (conj (ct_ref_order_independent w n1 n2) (ct_ref_is_min w n1 n2))).
Qed.
Print Assumptions C12_differentiation_reference.

Theorem C12_parse_marks_example :
  closure_marks (Some (1, 1)) (Some (9, 1)) = Ok (Some false, Some true) /\
  closure_marks (Some (9, 1)) (Some (9, 0)) = Ok (Some true, Some false) /\
  closure_marks (Some (1, 2)) (Some (9, 1)) = Err IncorrectSmiles /\
  ct_ref (fun x => if x =? 7 then 1 else 5) 3 7 = 7 /\ ct_ref (fun _ => 2) 3 7 = 3.
Proof. exact parse_marks_example. Qed.
Print Assumptions C12_parse_marks_example.

(* ====================================================================================================================== *)
(* EXTENSION ROUND 3: __chiral_centers inside the model (Model.StereoChiral).  Inputs that stay parameters: atoms_rings (SSSR, C06) and
   the classes w of _chiral_morgan (C01: Model.ChiralMorgan). *)

(* molecules without rings: the chiral tetrahedrons are EXACTLY the stereogenic tetrahedrons whose listed neighbours have pairwise
   different classes; the chiral cis/trans bonds / allenes EXACTLY the registered even / odd paths whose two ends each carry
   substituents of different classes (missing second substituent = class 0) *)
Theorem C12_acyclic_chiral_tetrahedrons : forall r (w : Z -> Z) n,
  In n (c_t (acyclic_state r w)) <-> exists env, In (n, env) (r_sg_th r) /\ distinct_classes w env = true.
Proof. exact acyclic_chiral_tetrahedrons. Qed.
Print Assumptions C12_acyclic_chiral_tetrahedrons.

Theorem C12_acyclic_chiral_cumulenes : forall r (w : Z -> Z),
  (forall n, In n (c_c (acyclic_state r w)) <->
     exists pe, In pe (r_sg_cum r) /\ ends_distinct w (snd pe) = true /\ odd_len (fst pe) = false /\ n = first_z (fst pe)) /\
  (forall c, In c (c_a (acyclic_state r w)) <->
     exists pe, In pe (r_sg_cum r) /\ ends_distinct w (snd pe) = true /\ odd_len (fst pe) = true /\ c = centre_of (fst pe)).
Proof. exact acyclic_chiral_cumulenes. Qed.
Print Assumptions C12_acyclic_chiral_cumulenes.

Theorem C12_acyclic_final_state : forall g r (w : Z -> Z), final_state g r [] w = Ok (acyclic_state r w).
Proof. exact acyclic_final. Qed.
Print Assumptions C12_acyclic_final_state.

(* ALL molecules (any rings, any classes): a chiral tetrahedron is a stereogenic tetrahedron without label, a chiral cis/trans entry
   is the terminal pair of a registered path whose central bond has no label, a chiral allene centre has no label *)
Theorem C12_chiral_centres_sound : forall g r ar (w : Z -> Z) l, chiral_centres g r ar w = Ok l ->
  (forall n, In (CT n) l -> In n (keys (r_sg_th r)) /\ labelled g n = false) /\
  (forall a b, In (CC a b) l -> exists n ij, zget (r_ct_terminals r) n = Some (a, b) /\ zget (r_ct_centers r) n = Some ij /\
                                             bond_labelled g ij = false) /\
  (forall c, In (CA c) l -> labelled g c = false).
Proof. exact chiral_centres_sound. Qed.
Print Assumptions C12_chiral_centres_sound.

(* no rings: refining the classes never loses a chiral centre *)
Theorem C12_acyclic_chiral_mono : forall r (w w' : Z -> Z),
  (forall x y, w x <> w y -> w' x <> w' y) -> (forall x, w x <> 0 -> w' x <> 0) ->
  (forall n, In n (c_t (acyclic_state r w)) -> In n (c_t (acyclic_state r w'))) /\
  (forall n, In n (c_c (acyclic_state r w)) -> In n (c_c (acyclic_state r w'))) /\
  (forall c, In c (c_a (acyclic_state r w)) -> In c (c_a (acyclic_state r w'))).
Proof. exact acyclic_chiral_mono. Qed.
Print Assumptions C12_acyclic_chiral_mono.

(* fix_stereo with the chirality MODEL in place of the parameter (no rings): the monotonicity hypothesis of C12_fix_stereo_spec is
   discharged; what remains a hypothesis is that restoring labels only refines the classes W (C01 territory) *)
Theorem C12_fix_stereo_acyclic_spec : forall r (W : list label -> Z -> Z),
  (forall R R', incl R R' -> (forall x y, W R x <> W R y -> W R' x <> W R' y) /\ (forall x, W R x <> 0 -> W R' x <> 0)) ->
  forall saved, NoDup (map fst saved) ->
  let result := fix_loop (chiral_model r W) (S (List.length saved)) [] saved in
  forall cs, In cs saved -> (In cs result <-> chiral_model r W (others cs result) (fst cs) = true).
Proof. exact fix_stereo_acyclic_spec. Qed.
Print Assumptions C12_fix_stereo_acyclic_spec.

Theorem C12_chiral_example :
  (exists r, registries_real ex_triol = Ok r /\
     chiral_centres ex_triol r [] ex_w_sym = Ok [CT 2; CT 6] /\ chiral_centres ex_triol r [] ex_w_ref = Ok [CT 2; CT 4; CT 6]) /\
  (forall x y, ex_w_sym x <> ex_w_sym y -> ex_w_ref x <> ex_w_ref y).
Proof. exact chiral_example. Qed.
Print Assumptions C12_chiral_example.

Theorem C12_fix_acyclic_example :
  (forall (R R' : list label), incl R R' ->
     (forall x y, ex_W_id R x <> ex_W_id R y -> ex_W_id R' x <> ex_W_id R' y) /\ (forall x, ex_W_id R x <> 0 -> ex_W_id R' x <> 0)) /\
  (exists r, registries_real ex_triol = Ok r /\
     (fix_loop (chiral_model r ex_W_id) 4 [] ex_saved = ex_saved) /\
     (fix_loop (chiral_model r ex_W_sym) 4 [] ex_saved = [(CT 2, true); (CT 6, false)])).
Proof. exact fix_acyclic_example. Qed.
Print Assumptions C12_fix_acyclic_example.

(* ====================================================================================================================== *)
(* constants copied from the source are regenerated (Gen.StereoConsts) and pinned *)
Theorem C12_constants_pinned :
  src_H = 1 /\ src_C = 6 /\
  src_cmp_tetrahedrons = [1; 4] /\ src_cmp_cumulenes = [2; 1; 2] /\ src_cmp_stereogenic_tetrahedrons = [3; 4] /\
  src_cmp_stereogenic_cumulenes = [3; 8; 3; 8; 2; 2; 3; 8; 3; 8; 8; 8; 2; 2] /\
  src_cmp_chiral_centers = [8; 2; 2; 1; 1] /\ src_cmp_add_wedge = [0; 1; 2; 0; 0; 3; 4; 0] /\ src_cmp_rings_linker_tetrahedrons = [1] /\
  src_slash_is_true = true /\ src_at_is_true = true.
Proof. exact constants_pinned. Qed.
Print Assumptions C12_constants_pinned.

Theorem C12_model_uses_source_constants :
  (forall g n, is_h g n = (anum g n =? src_H)) /\
  (forall g na, is_tetra g na =
     ((a_num (snd na) =? src_C) && (a_chg (snd na) =? 0) && negb (a_rad (snd na)) &&
      forallb (fun mb => b_ord (snd mb) =? nth 0 src_cmp_tetrahedrons 0) (nbrs g (fst na)) &&
      negb (nth 1 src_cmp_tetrahedrons 0 <? zlen (nbrs g (fst na))))) /\
  (forall fs g n, sg_th_entry fs g n =
     if existsb (fun x => negb (fs (anum g x))) (nbr_ids g n) then []
     else if (zlen (th_env g n) =? nth 0 src_cmp_stereogenic_tetrahedrons 0) || (zlen (th_env g n) =? nth 1 src_cmp_stereogenic_tetrahedrons 0)
          then [(n, th_env g n)] else []) /\
  (forall g t, end_crowded g t = (nth 6 src_cmp_stereogenic_cumulenes 0 <? zlen (filter (fun mb => negb (b_ord (snd mb) =? nth 7 src_cmp_stereogenic_cumulenes 0)) (nbrs g t)))).
Proof. exact model_uses_source_constants. Qed.
Print Assumptions C12_model_uses_source_constants.

(* ALL molecules: exactly which tetrahedrons are chiral (before labelled ones are removed): (a) distinct neighbour classes, or (b) a
   linker of two rings that are BOTH unsymmetric about it, or (c) a stereogenic tetrahedron that stays in the axes graph *)
Theorem C12_chiral_tetrahedrons_spec : forall g r ar (w : Z -> Z) s, final_state g r ar w = Ok s -> forall n,
  In n (c_t s) <->
    (exists env, In (n, env) (r_sg_th r) /\ distinct_classes w env = true) \/
    (exists n1 n2 m1 m2, In (n, (n1, n2, m1, m2)) (rl_th r ar) /\ w n1 <> w n2 /\ w m1 <> w m2) \/
    ((1 <? Z.of_nat (List.length (c_graph (pre_graph_state g r ar w)))) = true /\ In n (keys (c_graph s)) /\ In n (keys (r_sg_th r))).
Proof. exact chiral_tetrahedrons_spec. Qed.
Print Assumptions C12_chiral_tetrahedrons_spec.

(* labels are kept only on registered (stereogenic) centres: after fix_stereo, for EVERY molecule and EVERY chirality function *)
Theorem C12_fix_stereo_only_registered : forall (chiral : list label -> centre -> bool) r g cs,
  In cs (fix_stereo_labels chiral r g) ->
  In cs (collect r g) /\
  match fst cs with
  | CT n => In n (keys (r_sg_th r))
  | CA n => In n (keys (r_sg_al r))
  | CC a b => exists n, zget (r_ct_terminals r) n = Some (a, b)
  end.
Proof. exact fix_stereo_only_registered. Qed.
Print Assumptions C12_fix_stereo_only_registered.

Theorem C12_chiral_spiro_example :
  exists r, registries_real ex_spiro = Ok r /\ rl_th r ex_spiro_ar = [(3, (2, 1, 6, 4))] /\
    chiral_centres ex_spiro r ex_spiro_ar ex_spiro_w = Ok [] /\
    chiral_centres ex_spiro r ex_spiro_ar (fun x => x) = Ok [CT 3].
Proof. exact chiral_spiro_example. Qed.
Print Assumptions C12_chiral_spiro_example.

(* no rings: the chiral centres of the renumbered molecule (classes carried along) are the renumbered chiral centres *)
Theorem C12_acyclic_chiral_equivariant : forall (s : Z -> Z), (forall x y, s x = s y -> x = y) ->
  forall r (w w' : Z -> Z), (forall x, w' (s x) = w x) -> len2 (r_sg_cum r) ->
  (forall n, In (s n) (c_t (acyclic_state (rn_reg s r) w')) <-> In n (c_t (acyclic_state r w))) /\
  (forall n, In (s n) (c_c (acyclic_state (rn_reg s r) w')) <-> In n (c_c (acyclic_state r w))) /\
  (forall c, In (s c) (c_a (acyclic_state (rn_reg s r) w')) <-> In c (c_a (acyclic_state r w))).
Proof. exact acyclic_chiral_equivariant. Qed.
Print Assumptions C12_acyclic_chiral_equivariant.

(* ====================================================================================================================== *)
(* ROUND 4: TIE BY TRANSLATION.  Gen.StereoBody is regenerated on every run (tools/gen_stereobody.py) from the statements of
   stereo.py _pyramid_sign / _cis_trans_sign / _allene_sign (whole bodies), _translate_cis_trans_sign / _translate_allene_sign
   (the if / elif chain that picks the table key and the table lookup), _translate_tetrahedron_sign (from `order = ...` to the end)
   and of smiles.py postprocess_molecule (the first-atom rule).  The hand-written models equal the translated source for ALL inputs. *)
Theorem C12_source_geometry_tied :
  (forall n u v w, g_pyramid_sign n u v w = pyramid_sign n u v w) /\
  (forall n u v w, g_cis_trans_sign n u v w = cis_trans_sign n u v w) /\
  (forall mark u v w, g_allene_sign mark u v w = allene_sign mark u v w).
Proof. exact (conj g_pyramid_sign_eq (conj g_cis_trans_sign_eq g_allene_sign_eq)). Qed.
Print Assumptions C12_source_geometry_tied.

Theorem C12_source_sign_chains_tied : forall (isH : Z -> bool) n0 n1 n2 n3 nn nm s,
  g_ct_chain isH n0 n1 n2 n3 nn nm s = translate_env isH (n0, n1, n2, n3) nn nm s /\
  g_al_chain isH n0 n1 n2 n3 nn nm s = translate_al isH (n0, n1, n2, n3) nn nm s.
Proof. exact (fun isH n0 n1 n2 n3 nn nm s => conj (g_ct_chain_eq isH n0 n1 n2 n3 nn nm s) (g_al_chain_eq isH n0 n1 n2 n3 nn nm s)). Qed.
Print Assumptions C12_source_sign_chains_tied.

Theorem C12_source_tetrahedron_body_tied : forall (isH : Z -> bool) order env s,
  g_th_body isH order env s = translate_th isH order env s.
Proof. exact g_th_body_eq. Qed.
Print Assumptions C12_source_tetrahedron_body_tied.

(* the reader's first-atom rule as written in the source: the mark that is translated is the written one xor
   (implicit H and every neighbour at a LATER POSITION of the string) -- positions, not atom numbers: the atom-map numbers of a
   mapped SMILES do not enter; and it is the rule of Model.StereoSmiles.read_th with nopred taken over positions *)
Theorem C12_source_first_atom_rule :
  (forall hasH i ord_i mark, g_read_mark hasH i ord_i mark = xorb mark (hasH && forallb (fun m => i <? m) ord_i)) /\
  (forall (isH : Z -> bool) order adj hasH i ord_i mark,
     translate_th isH order adj (g_read_mark hasH i ord_i mark) = read_th isH order adj mark hasH (nopred (fun x => x) i ord_i)).
Proof. exact (conj g_read_mark_spec g_read_mark_eq). Qed.
Print Assumptions C12_source_first_atom_rule.

(* the sign laws of the property, stated for the translated source itself *)
Theorem C12_source_th_parity : forall (isH : Z -> bool) s,
  (forall a b c d p, NoDup [a; b; c; d] -> In p perms4 ->
     g_th_body isH [a; b; c; d] (sel [a; b; c; d] p) s = Ok (xorb s (odd_perm p)) /\
     g_th_body isH [a; b; c; d] (firstn 3 (sel [a; b; c; d] p)) s = Ok (xorb s (odd_perm p))) /\
  (forall a b c h p, NoDup [a; b; c; h] -> isH a = false -> isH b = false -> isH c = false -> isH h = true -> In p perms4 ->
     g_th_body isH [a; b; c] (sel [a; b; c; h] p) s = Ok (xorb s (odd_perm p))) /\
  (forall a b c q, NoDup [a; b; c] -> In q perms3 ->
     g_th_body isH [a; b; c] (sel [a; b; c] q) s = Ok (xorb s (odd_perm (q ++ [3])))).
Proof. exact source_th_parity. Qed.
Print Assumptions C12_source_th_parity.

Theorem C12_source_exchange_laws : forall (isH : Z -> bool) n0 n1 n2 n3 s, NoDup [n0; n1; n2; n3] ->
  (forall b, In b [1; 3] ->
     exists r, g_ct_chain isH n0 n1 (Some n2) (Some n3) (pick (n0, n1, n2, n3) 0) (pick (n0, n1, n2, n3) b) s = Ok r /\
               g_ct_chain isH n0 n1 (Some n2) (Some n3) (pick (n0, n1, n2, n3) 2) (pick (n0, n1, n2, n3) b) s = Ok (negb r) /\
               g_al_chain isH n0 n1 (Some n2) (Some n3) (pick (n0, n1, n2, n3) 0) (pick (n0, n1, n2, n3) b) s = Ok r /\
               g_al_chain isH n0 n1 (Some n2) (Some n3) (pick (n0, n1, n2, n3) 2) (pick (n0, n1, n2, n3) b) s = Ok (negb r)) /\
  (forall a b, In a [0; 2] -> In b [1; 3] ->
     g_ct_chain isH n0 n1 (Some n2) (Some n3) (pick (n0, n1, n2, n3) a) (pick (n0, n1, n2, n3) b) s =
     g_ct_chain isH n0 n1 (Some n2) (Some n3) (pick (n0, n1, n2, n3) b) (pick (n0, n1, n2, n3) a) s).
Proof. exact source_exchange_laws. Qed.
Print Assumptions C12_source_exchange_laws.

Theorem C12_source_geometry_laws :
  (forall n u v w, g_pyramid_sign n v u w = - g_pyramid_sign n u v w /\ g_pyramid_sign n v w u = g_pyramid_sign n u v w) /\
  (forall n u v w, g_cis_trans_sign w v u n = g_cis_trans_sign n u v w) /\
  (forall mark a b c, g_allene_sign (- mark) a b c = - g_allene_sign mark a b c).
Proof. exact source_geometry_laws. Qed.
Print Assumptions C12_source_geometry_laws.

(* non-vacuity: the translated bodies compute *)
Theorem C12_source_example :
  g_th_body (fun _ => false) [1; 3; 4; 5] [3; 1; 4; 5] true = Ok false /\
  g_th_body (fun x => x =? 9) [1; 3; 4] [9; 1; 3; 4] true = Ok false /\
  g_ct_chain (fun _ => false) 1 4 (Some 5) None 5 4 true = Ok false /\
  g_al_chain (fun x => x =? 9) 1 4 None None 9 4 true = Ok false /\
  g_pyramid_sign (0, 0, 1) (1, 0, 0) (0, 1, 0) (0, 0, 0) = -1 /\
  g_read_mark true 0 [1; 2; 3] true = false /\ g_read_mark true 1 [0; 2; 3] true = true.
Proof. vm_compute. repeat split; reflexivity. Qed.
Print Assumptions C12_source_example.

(* ====================================================================================================================== *)
(* ROUND 4: NUMBERING INDEPENDENCE OF STORED SIGNS (was: search only).  For every injective renumbering f of the atoms (Graph.remap;
   the atom-map numbers of a mapped SMILES) and hydrogen predicates that correspond (isH' (f x) = isH x), each sign translation on the
   renumbered arguments gives the result of the original arguments -- every order, every neighbour list incl. malformed ones
   (the same exception is raised) *)
Theorem C12_sign_translation_renumber : forall (f : Z -> Z), (forall x y, f x = f y -> x = y) ->
  forall (isH isH' : Z -> bool), (forall x, isH' (f x) = isH x) ->
  (forall order env s, translate_th isH' (map f order) (map f env) s = translate_th isH order env s) /\
  (forall e nn nm s, translate_env isH' (rn_env f e) (f nn) (f nm) s = translate_env isH e nn nm s) /\
  (forall e1 e2 nn nm s, translate_ct isH' (option_map (rn_env f) e1) (option_map (rn_env f) e2) (f nn) (f nm) s = translate_ct isH e1 e2 nn nm s).
Proof.
  exact (fun f inj isH isH' H => conj (translate_th_renumber f inj isH isH' H)
           (conj (translate_env_renumber f inj isH isH' H) (translate_ct_renumber f inj isH isH' H))).
Qed.
Print Assumptions C12_sign_translation_renumber.

(* the SMILES reader and writer: the sign stored for / the mark written from renumbered neighbour lists is the one of the original
   lists (the first-atom test and hasH are functions of the string, see C12_source_first_atom_rule) *)
Theorem C12_smiles_marks_renumber : forall (f : Z -> Z), (forall x y, f x = f y -> x = y) ->
  forall (isH isH' : Z -> bool), (forall x, isH' (f x) = isH x) ->
  (forall order adj mark hasH np, read_th isH' (map f order) (map f adj) mark hasH np = read_th isH order adj mark hasH np) /\
  (forall order adj s hasH first, write_th isH' (map f order) (map f adj) s hasH first = write_th isH order adj s hasH first) /\
  (forall e a1 a2 mark hasH np, read_al isH' (rn_env f e) (map f a1) (map f a2) mark hasH np = read_al isH e a1 a2 mark hasH np) /\
  (forall e a1 a2 s, write_al isH' (rn_env f e) (map f a1) (map f a2) s = write_al isH e a1 a2 s) /\
  (forall e fwd n1 n2 s1 s2, read_ct isH' (rn_env f e) fwd (f n1) (f n2) s1 s2 = read_ct isH e fwd n1 n2 s1 s2) /\
  (forall e kf v on base s, write_ct isH' (rn_env f e) kf (f v) (f on) base s = write_ct isH e kf v on base s).
Proof.
  exact (fun f inj isH isH' H => conj (read_th_renumber f inj isH isH' H) (conj (write_th_renumber f inj isH isH' H)
           (conj (read_al_renumber f inj isH isH' H) (conj (write_al_renumber f inj isH isH' H)
           (conj (read_ct_renumber f inj isH isH' H) (write_ct_renumber f inj isH isH' H)))))).
Qed.
Print Assumptions C12_smiles_marks_renumber.

(* on molecules: with C12_registries_equivariant (the registries of rn_mol s g are the renumbered registries) a stored sign denotes the
   same arrangement before and after Graph.remap *)
Theorem C12_stored_sign_renumber : forall (s : Z -> Z), (forall x y, s x = s y -> x = y) -> forall (g : mol),
  (forall order env sg, translate_th (is_h (rn_mol s g)) (map s order) (map s env) sg = translate_th (is_h g) order env sg) /\
  (forall e1 e2 nn nm sg, translate_ct (is_h (rn_mol s g)) (option_map (rn_env s) e1) (option_map (rn_env s) e2) (s nn) (s nm) sg =
                          translate_ct (is_h g) e1 e2 nn nm sg) /\
  (forall e nn nm sg, translate_al (is_h (rn_mol s g)) (rn_env s e) (s nn) (s nm) sg = translate_al (is_h g) e nn nm sg).
Proof. exact stored_sign_renumber. Qed.
Print Assumptions C12_stored_sign_renumber.

Theorem C12_renumber_example :
  read_th (fun _ => false) [7; 9; 10] [7; 9; 10] true true false = Ok true /\
  read_th (fun _ => false) (map ex_map [1; 3; 4]) (map ex_map [1; 3; 4]) true true false =
  read_th (fun _ => false) [1; 3; 4] [1; 3; 4] true true false.
Proof. exact renumber_example. Qed.
Print Assumptions C12_renumber_example.

(* ====================================================================================================================== *)
(* ROUND 4: TIE BY TRANSLATION of the loop body of stereogenic_cumulenes (Gen.StereoRegBody, tools/gen_stereoreg.py): the four guards
   (triple bond / ordinary-bonded metal at an end, second double bond at an end, more than three non-special neighbours), the
   substituent lists and the stored environment.  The model equals the translated source on every path of `cumulenes`, so
   C12_sg_cumulene_env, C12_substituents_spec and the derived-registry theorems speak about the translated source. *)
Theorem C12_source_stereogenic_cumulenes_tied : forall (fs : Z -> bool) g path, (2 <= List.length path)%nat ->
  g_sg_cum_entry fs g path = sg_cum_entry fs g path.
Proof. exact g_sg_cum_entry_eq. Qed.
Print Assumptions C12_source_stereogenic_cumulenes_tied.

Theorem C12_source_stereogenic_cumulenes_registry : forall (fs fd : Z -> bool) g,
  sg_cumulenes fs fd g = match cumulenes fd g with Ok ps => Ok (flat_map (g_sg_cum_entry fs g) ps) | Err e => Err e end.
Proof. exact sg_cumulenes_translated. Qed.
Print Assumptions C12_source_stereogenic_cumulenes_registry.

Theorem C12_source_stereogenic_cumulenes_example :
  g_sg_cum_entry (fun _ => true) ex_allene [2; 4; 5] = [([2; 4; 5], (1, 6, Some 3, Some 7))] /\
  g_sg_cum_entry (fun _ => false) ex_allene [2; 4; 5] = [].
Proof. exact translated_body_example. Qed.
Print Assumptions C12_source_stereogenic_cumulenes_example.

(* the loop bodies of tetrahedrons and stereogenic_tetrahedrons as translated (Gen.StereoRegBody): which atoms may carry a tetrahedral
   label and in which order their neighbours are listed; C12_tetrahedrons_spec, C12_sg_tetrahedron_env, C12_sg_tetrahedron_hydrogens
   therefore speak about the translated source *)
Theorem C12_source_tetrahedrons_tied :
  (forall g n a, g_tetra_entry g n a = if is_tetra g (n, a) then [n] else []) /\
  (forall g, tetrahedrons g = flat_map (fun na => g_tetra_entry g (fst na) (snd na)) (m_atoms g)) /\
  (forall (fs : Z -> bool) g n, g_sg_th_entry fs g n = sg_th_entry fs g n) /\
  (forall (fs : Z -> bool) g,
     sg_tetrahedrons fs g = flat_map (g_sg_th_entry fs g) (flat_map (fun na => g_tetra_entry g (fst na) (snd na)) (m_atoms g))).
Proof. exact (conj g_tetra_entry_eq (conj tetrahedrons_translated (conj g_sg_th_entry_eq sg_tetrahedrons_translated))). Qed.
Print Assumptions C12_source_tetrahedrons_tied.

Theorem C12_source_tetrahedrons_example :
  g_tetra_entry ex_th 2 (mkAtom 6 None 0 false (Some 0) None) = [2] /\ g_tetra_entry ex_th 2 (mkAtom 6 None 1 false (Some 0) None) = [] /\
  g_tetra_entry ex_th 2 (mkAtom 7 None 0 false (Some 0) None) = [].
Proof. exact translated_tetra_example. Qed.
Print Assumptions C12_source_tetrahedrons_example.

(* ====================================================================================================================== *)
(* ROUND 4, continued *)

(* the whole _translate_cis_trans_sign for a given sign as translated: registry lookup under either orientation of the key
   (try / except KeyError), exchange of the ends, sign chain *)
Theorem C12_source_cis_trans_sign_tied : forall (isH : Z -> bool) e1 e2 nn nm s,
  g_ct_sign isH e1 e2 nn nm s = translate_ct isH e1 e2 nn nm s.
Proof. exact g_ct_sign_eq. Qed.
Print Assumptions C12_source_cis_trans_sign_tied.

(* tetrahedral SMILES round trip with the reader's first-atom rule AS TRANSLATED, for arbitrary atom numbers (pos = position of an
   atom in the string; a mapped SMILES has numbers unrelated to positions): the mark the writer emits is read back as the stored sign *)
Theorem C12_source_reader_roundtrip_th : forall (isH : Z -> bool) order (pos : Z -> Z) n adj s hasH (is_start : bool) w,
  (is_start = true -> forall m, In m adj -> pos n < pos m) ->
  (is_start = false -> exists parent rest, adj = parent :: rest /\ pos parent < pos n) ->
  write_th isH order adj s hasH is_start = Ok w ->
  translate_th isH order adj (g_read_mark hasH (pos n) (map pos adj) w) = Ok s.
Proof. exact source_reader_roundtrip_th. Qed.
Print Assumptions C12_source_reader_roundtrip_th.

(* FUEL: any two fuels that cover the saved labels give the same result, so the out-of-fuel exit of the loop model is never taken by
   fix_stereo_labels: the modelled loop stops by itself, like the `while old_stereo:` loop of the code *)
Theorem C12_fix_loop_fuel_irrelevant : forall (chiral : list label -> centre -> bool) fuel fuel' restored pending,
  (List.length pending <= fuel)%nat -> (List.length pending <= fuel')%nat ->
  fix_loop chiral fuel restored pending = fix_loop chiral fuel' restored pending.
Proof. exact fix_loop_fuel_irrelevant. Qed.
Print Assumptions C12_fix_loop_fuel_irrelevant.

Theorem C12_fix_stereo_labels_fuel : forall (chiral : list label -> centre -> bool) r g extra,
  fix_stereo_labels chiral r g = fix_loop chiral (S (List.length (collect r g)) + extra) [] (collect r g).
Proof. exact fix_stereo_labels_fuel. Qed.
Print Assumptions C12_fix_stereo_labels_fuel.

(* ROUND 5: the small-ring test of __chiral_centers for endocyclic double bonds / allenes, translated from the source: it is the
   expression Model.StereoChiral.step_ring_cum applies, it holds exactly when a ring through the end atom has FEWER THAN 8 atoms
   (so a double bond in an 8-membered ring keeps its E/Z label), with the boundary instances *)
Theorem C12_source_small_ring_test :
  (forall rs : list (list Z), g_ring_too_small rs = existsb (fun x => Z.of_nat (List.length x) <? 8) rs) /\
  (forall rs : list (list Z), g_ring_too_small rs = true <-> exists ring, In ring rs /\ (List.length ring < 8)%nat) /\
  g_ring_too_small [[1; 2; 3; 4; 5; 6; 7; 8]] = false /\ g_ring_too_small [[1; 2; 3; 4; 5; 6; 7]] = true.
Proof.
  exact (conj ring_too_small_model (conj ring_too_small_spec (conj (proj1 ring_too_small_boundary) (proj1 (proj2 ring_too_small_boundary))))).
Qed.
Print Assumptions C12_source_small_ring_test.
