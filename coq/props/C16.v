(* C16 -- template application edits exactly what the template names.  Statements only; proofs in Proofs.ReactorProofs. *)
From Coq Require Import ZArith List Bool.
From Model Require Import PyBase Graph Reactor.
From Proofs Require Import ReactorProofs.
Import ListNotations.
Open Scope Z_scope.

Theorem C16_get_deleted_fixed_spec : forall g mapping to_del,
  sym_graph g = true ->
  (forall p, In p to_del -> exists v, zget mapping p = Some v /\ In v (keys g)) ->
  exists r, get_deleted_fixed g mapping to_del = Ok r /\
            forall x, In x r <-> deleted_spec g (image mapping to_del) (kept mapping to_del) x.
Proof. exact get_deleted_fixed_spec. Qed.
Print Assumptions C16_get_deleted_fixed_spec.
