(* C16 -- template application edits exactly what the template names.  Statements only; proofs in Proofs.ReactorProofs.
   Model.Reactor mirrors chython/reactor/base.py (BaseReactor._get_deleted as it is after fix: b90326c, the structural
   part of BaseReactor._patcher) and chython/reactor/reactor.py:fix_mapping_overlap. *)
From Coq Require Import ZArith List Bool Permutation.
From Model Require Import PyBase Graph Reactor ReactorStage ReactorQueue ReactorPrepared Stereo.
From Gen Require Import ReactorShape ReactorBody ReactorInit.
From Proofs Require Import ReactorShapeProofs ReactorProofs ReactorExt ReactorEquiv ReactorCompose StereoProofs ReactorStereo ReactorStereo2 ReactorQueueProofs ReactorQueueComplete ReactorStageEquiv ReactorStates ReactorPreparedProofs ReactorBodyTie ReactorBodyTie2 ReactorBodyTie3 ReactorBodyTie4 ReactorBodyTie5 ReactorInitTie.
Import ListNotations.
Open Scope Z_scope.

(* ---------- _get_deleted ---------- *)
(* x is returned iff it is a matched-to-delete atom, or it lies in a connected piece of the graph minus the deleted
   atoms that hung on a deleted atom and holds no kept matched atom; the call never raises on well-formed input *)
Theorem C16_get_deleted_spec : forall g mapping to_del,
  sym_graph g = true ->
  (forall p, In p to_del -> exists v, zget mapping p = Some v /\ In v (keys g)) ->
  exists r, get_deleted g mapping to_del = Ok r /\
            forall x, In x r <-> deleted_spec g (image mapping to_del) (kept mapping to_del) x.
Proof. exact get_deleted_spec. Qed.
Print Assumptions C16_get_deleted_spec.

(* DESIGN Appendix A form (connected structure, something to delete) *)
Theorem C16_get_deleted_spec_connected : forall g mapping to_del,
  sym_graph g = true -> connected g ->
  (forall p, In p to_del -> exists v, zget mapping p = Some v /\ In v (keys g)) ->
  to_del <> [] ->
  exists r, get_deleted g mapping to_del = Ok r /\
    forall x, In x (keys g) ->
      (In x r <-> In x (image mapping to_del) \/
                  (~ In x (image mapping to_del) /\
                   forall y, reach_av g (image mapping to_del) x y -> ~ In y (kept mapping to_del))).
Proof. exact get_deleted_spec_connected. Qed.
Print Assumptions C16_get_deleted_spec_connected.

(* on molecules of Model.Graph: well-formedness gives the symmetry *)
Theorem C16_get_deleted_spec_mol : forall m mapping to_del,
  wf_mol m = true ->
  (forall p, In p to_del -> exists v, zget mapping p = Some v /\ In v (keys (m_adj m))) ->
  exists r, get_deleted (graph_of m) mapping to_del = Ok r /\
            forall x, In x r <-> deleted_spec (graph_of m) (image mapping to_del) (kept mapping to_del) x.
Proof. exact get_deleted_spec_mol. Qed.
Print Assumptions C16_get_deleted_spec_mol.

(* the two sets the loops leave behind *)
Theorem C16_get_deleted_sets_spec : forall g mapping to_del,
  sym_graph g = true ->
  (forall p, In p to_del -> exists v, zget mapping p = Some v /\ In v (keys g)) ->
  exists delete keep, get_deleted_sets g mapping to_del = Ok (delete, keep) /\
    (forall x, In x delete <-> detached g (image mapping to_del) (kept mapping to_del) x) /\
    (forall x, In x keep -> ~ In x (image mapping to_del) /\ ~ In x (kept mapping to_del) /\
                            attached g (image mapping to_del) x /\
                            exists k, In k (kept mapping to_del) /\ reach_av g (image mapping to_del) x k).
Proof. exact get_deleted_sets_spec. Qed.
Print Assumptions C16_get_deleted_sets_spec.

(* every matched-and-unkept atom is removed, no kept matched atom (masked ones included) ever is *)
Theorem C16_get_deleted_keeps_kept : forall g mapping to_del r,
  sym_graph g = true ->
  (forall p, In p to_del -> exists v, zget mapping p = Some v /\ In v (keys g)) ->
  get_deleted g mapping to_del = Ok r ->
  (forall x, In x (image mapping to_del) -> In x r) /\ (forall x, In x (kept mapping to_del) -> ~ In x r).
Proof. exact get_deleted_keeps_kept. Qed.
Print Assumptions C16_get_deleted_keeps_kept.

(* the result does not depend on the iteration order of the Python set to_delete *)
Theorem C16_get_deleted_order_independent : forall g mapping to_del to_del' r r',
  sym_graph g = true ->
  (forall p, In p to_del -> exists v, zget mapping p = Some v /\ In v (keys g)) ->
  (forall p, In p to_del <-> In p to_del') ->
  get_deleted g mapping to_del = Ok r -> get_deleted g mapping to_del' = Ok r' ->
  forall x, In x r <-> In x r'.
Proof. exact get_deleted_order_independent. Qed.
Print Assumptions C16_get_deleted_order_independent.

(* ---------- BaseReactor.__init__ (self._to_delete) and the "unless masked" clause ---------- *)
Theorem C16_to_delete_of_spec : forall pattern replacement delete_atoms x,
  In x (to_delete_of pattern replacement delete_atoms) <->
  delete_atoms = true /\ In (x, false) pattern /\ ~ In x replacement.
Proof. exact to_delete_of_spec. Qed.
Print Assumptions C16_to_delete_of_spec.

(* the image of a masked pattern atom is never removed, whatever the replacement says *)
Theorem C16_masked_never_deleted : forall g pattern replacement delete_atoms mapping p v r,
  sym_graph g = true ->
  NoDup (keys pattern) -> In (p, true) pattern ->
  (forall q, In q (keys pattern) -> exists w, zget mapping q = Some w /\ In w (keys g)) ->
  (forall q1 q2 w, In q1 (keys pattern) -> In q2 (keys pattern) -> zget mapping q1 = Some w -> zget mapping q2 = Some w -> q1 = q2) ->
  zget mapping p = Some v ->
  get_deleted g mapping (to_delete_of pattern replacement delete_atoms) = Ok r ->
  ~ In v r.
Proof. exact masked_never_deleted. Qed.
Print Assumptions C16_masked_never_deleted.

(* non-vacuity: CCOC, [C;M:1][O:2][C:3] >> [A:2] *)
Theorem C16_masked_example :
  sym_graph mask_g = true /\ NoDup (keys mask_pattern) /\ In (1, true) mask_pattern /\
  (forall q, In q (keys mask_pattern) -> exists w, zget mask_mapping q = Some w /\ In w (keys mask_g)) /\
  (forall q1 q2 w, In q1 (keys mask_pattern) -> In q2 (keys mask_pattern) ->
                   zget mask_mapping q1 = Some w -> zget mask_mapping q2 = Some w -> q1 = q2) /\
  to_delete_of mask_pattern [2] true = [3] /\
  sorted_res (get_deleted mask_g mask_mapping (to_delete_of mask_pattern [2] true)) = Ok [1; 2].
Proof. exact masked_example. Qed.
Print Assumptions C16_masked_example.

(* non-vacuity: the two inputs on which the code before the fix was wrong (bridged ring; two adjacent deleted atoms) *)
Theorem C16_get_deleted_on_witnesses :
  sym_graph wit_g = true /\
  (forall p, In p wit_to_del -> exists v, zget wit_mapping p = Some v /\ In v (keys wit_g)) /\
  get_deleted wit_g wit_mapping wit_to_del = Ok [2] /\
  get_deleted_sets wit_g wit_mapping wit_to_del = Ok ([], [3; 4; 1]) /\
  sym_graph wit2_g = true /\
  (forall p, In p wit2_to_del -> exists v, zget wit2_mapping p = Some v /\ In v (keys wit2_g)) /\
  sorted_res (get_deleted wit2_g wit2_mapping wit2_to_del) = Ok [2; 3; 4; 6] /\
  get_deleted_sets wit2_g wit2_mapping wit2_to_del = Ok ([6; 3], [5]).
Proof. exact get_deleted_on_witnesses. Qed.
Print Assumptions C16_get_deleted_on_witnesses.

Theorem C16_witnesses_connected : connected wit_g /\ connected wit2_g.
Proof. exact witnesses_connected. Qed.
Print Assumptions C16_witnesses_connected.

Theorem C16_deleted_spec_on_witness :
  deleted_spec wit2_g (image wit2_mapping wit2_to_del) (kept wit2_mapping wit2_to_del) 6 /\
  ~ deleted_spec wit2_g (image wit2_mapping wit2_to_del) (kept wit2_mapping wit2_to_del) 5.
Proof. exact deleted_spec_on_witness. Qed.
Print Assumptions C16_deleted_spec_on_witness.

(* ---------- structural part of _patcher (any to_delete set `del`) ---------- *)
Theorem C16_patcher_frame : forall g mapping tpl del new mp',
  patcher g mapping tpl del = Ok (new, mp') ->
  wf_mol g = true -> (forall x, In x (ids g) -> 0 < x) ->
  (* atoms the template does not name and that are not deleted keep element, isotope, charge, radical, hydrogens *)
  (forall x a, atom_of g x = Some a -> ~ named tpl mp' x -> ~ In x del -> atom_of new x = Some (plain_atom a)) /\
  (* bonds between surviving atoms, at least one of them not named by the template, are kept with their order *)
  (forall x y, In x (ids g) -> In y (ids g) -> ~ In x del -> ~ In y del -> ~ (named tpl mp' x /\ named tpl mp' y) ->
               bond_of new x y = option_map plain (bond_of g x y)) /\
  (* and no other bond touches an atom the template does not name *)
  (forall x y b, bond_of new x y = Some b -> ~ (named tpl mp' x /\ named tpl mp' y) ->
                 exists b0, bond_of g x y = Some b0 /\ b = plain b0 /\ ~ In x del /\ ~ In y del) /\
  (* the atoms of the product: the named ones and the surviving ones; numbers are unique *)
  (forall x, In x (ids new) <-> named tpl mp' x \/ (In x (ids g) /\ ~ In x del)) /\
  NoDup (ids new) /\ keys (m_adj new) = ids new.
Proof. exact patcher_frame. Qed.
Print Assumptions C16_patcher_frame.

Theorem C16_patcher_fresh : forall g mapping tpl del new mp',
  patcher g mapping tpl del = Ok (new, mp') -> (forall x, In x (ids g) -> 0 < x) ->
  (* the match is extended, never changed *)
  (forall n m, truthy_get mapping n = Some m -> truthy_get mp' n = Some m) /\
  (* every replacement atom has an image; an image that is not from the match is greater than every number in use *)
  (forall n, In n (keys (t_atoms tpl)) -> exists m, truthy_get mp' n = Some m) /\
  (forall n m, truthy_get mp' n = Some m -> truthy_get mapping n = Some m \/
               (In n (keys (t_atoms tpl)) /\ forall x, In x (ids g) -> x < m)) /\
  (* different new atoms get different numbers *)
  (forall n1 n2 m, truthy_get mapping n1 = None -> truthy_get mapping n2 = None ->
                   truthy_get mp' n1 = Some m -> truthy_get mp' n2 = Some m -> n1 = n2).
Proof. exact patcher_fresh. Qed.
Print Assumptions C16_patcher_fresh.

(* replacement atoms appear with the requested element / isotope / charge / radical state (any-atoms keep element and
   isotope of the match; hydrogens of new atoms as requested, of existing ones left to calc_implicit) *)
Theorem C16_patcher_named_atoms : forall g mapping tpl del new mp',
  patcher g mapping tpl del = Ok (new, mp') ->
  (forall x, In x (ids g) -> 0 < x) ->
  NoDup (keys (t_atoms tpl)) ->
  (forall n1 n2 m, In n1 (keys (t_atoms tpl)) -> In n2 (keys (t_atoms tpl)) ->
                   truthy_get mapping n1 = Some m -> truthy_get mapping n2 = Some m -> n1 = n2) ->
  (forall n m, In n (keys (t_atoms tpl)) -> truthy_get mapping n = Some m -> In m (ids g)) ->
  forall n ra, In (n, ra) (t_atoms tpl) ->
    exists m, truthy_get mp' n = Some m /\
      ((truthy_get mapping n = Some m /\ exists sa, atom_of g m = Some sa /\ atom_of new m = Some (built ra sa false)) \/
       (truthy_get mapping n = None /\ (forall x, In x (ids g) -> x < m) /\ atom_of new m = Some (built ra dummy_atom true))).
Proof. exact patcher_named_atoms. Qed.
Print Assumptions C16_patcher_named_atoms.

(* replacement bonds appear with the requested order, and no other bond joins two replacement atoms *)
Theorem C16_patcher_named_bonds : forall g mapping tpl del new mp',
  patcher g mapping tpl del = Ok (new, mp') ->
  (forall x, In x (ids g) -> 0 < x) ->
  wf_template tpl = true ->
  (forall n1 n2 m, In n1 (keys (t_atoms tpl)) -> In n2 (keys (t_atoms tpl)) ->
                   truthy_get mapping n1 = Some m -> truthy_get mapping n2 = Some m -> n1 = n2) ->
  (forall n m, In n (keys (t_atoms tpl)) -> truthy_get mapping n = Some m -> In m (ids g)) ->
  (forall n0 m0 rb x y, get2 (t_bonds tpl) n0 m0 = Some rb -> truthy_get mp' n0 = Some x -> truthy_get mp' m0 = Some y ->
                        bond_of new x y = Some (plain rb)) /\
  (forall x y b, named tpl mp' x -> named tpl mp' y -> bond_of new x y = Some b ->
                 exists n0 m0 rb, get2 (t_bonds tpl) n0 m0 = Some rb /\ truthy_get mp' n0 = Some x /\
                                  truthy_get mp' m0 = Some y /\ b = plain rb).
Proof. exact patcher_named_bonds. Qed.
Print Assumptions C16_patcher_named_bonds.

(* a template whose replacement repeats what it matched (and deletes nothing) returns the input structure *)
Theorem C16_identity_template : forall g mapping tpl new mp',
  patcher g mapping tpl [] = Ok (new, mp') ->
  wf_mol g = true -> (forall x, In x (ids g) -> 0 < x) -> wf_template tpl = true ->
  (forall n1 n2 m, In n1 (keys (t_atoms tpl)) -> In n2 (keys (t_atoms tpl)) ->
                   truthy_get mapping n1 = Some m -> truthy_get mapping n2 = Some m -> n1 = n2) ->
  (forall n ra, In (n, ra) (t_atoms tpl) ->
                exists m sa, truthy_get mapping n = Some m /\ atom_of g m = Some sa /\ same_request ra sa) ->
  (forall n0 m0 x y, In n0 (keys (t_atoms tpl)) -> In m0 (keys (t_atoms tpl)) ->
                     truthy_get mapping n0 = Some x -> truthy_get mapping m0 = Some y ->
                     option_map b_ord (get2 (t_bonds tpl) n0 m0) = option_map b_ord (bond_of g x y)) ->
  (forall n, truthy_get mp' n = truthy_get mapping n) /\
  (forall x, option_map core (atom_of new x) = option_map core (atom_of g x)) /\
  (forall x, ~ named tpl mp' x -> atom_of new x = option_map plain_atom (atom_of g x)) /\
  (forall x y, option_map b_ord (bond_of new x y) = option_map b_ord (bond_of g x y)).
Proof. exact identity_template. Qed.
Print Assumptions C16_identity_template.

(* non-vacuity: ethyl acetate, [C:1]=[O:2] >> [A:1]=[A:2], match {1:2, 2:3} satisfies every hypothesis of identity_template *)
Theorem C16_identity_example :
  wf_template id_tpl = true /\
  (forall n1 n2 m, In n1 (keys (t_atoms id_tpl)) -> In n2 (keys (t_atoms id_tpl)) ->
                   truthy_get id_mapping n1 = Some m -> truthy_get id_mapping n2 = Some m -> n1 = n2) /\
  (forall n ra, In (n, ra) (t_atoms id_tpl) ->
                exists m sa, truthy_get id_mapping n = Some m /\ atom_of ex_mol m = Some sa /\ same_request ra sa) /\
  (forall n0 m0 x y, In n0 (keys (t_atoms id_tpl)) -> In m0 (keys (t_atoms id_tpl)) ->
                     truthy_get id_mapping n0 = Some x -> truthy_get id_mapping m0 = Some y ->
                     option_map b_ord (get2 (t_bonds id_tpl) n0 m0) = option_map b_ord (bond_of ex_mol x y)) /\
  exists new mp', patcher ex_mol id_mapping id_tpl [] = Ok (new, mp') /\ ids new = [2; 3; 1; 4; 5; 6].
Proof. exact identity_example. Qed.
Print Assumptions C16_identity_example.

(* ---------- _patcher as it is called: to_delete = _get_deleted(structure, mapping) ---------- *)
Theorem C16_template_application_atoms : forall g mapping to_del tpl new mp',
  patcher_with get_deleted g mapping to_del tpl = Ok (new, mp') ->
  wf_mol g = true -> (forall x, In x (ids g) -> 0 < x) ->
  (forall p, In p to_del -> exists v, zget mapping p = Some v /\ In v (ids g)) ->
  forall x, In x (ids new) <->
            named tpl mp' x \/
            (In x (ids g) /\ ~ deleted_spec (graph_of g) (image mapping to_del) (kept mapping to_del) x).
Proof. exact template_application_atoms. Qed.
Print Assumptions C16_template_application_atoms.

Theorem C16_template_application_frame : forall g mapping to_del tpl new mp',
  patcher_with get_deleted g mapping to_del tpl = Ok (new, mp') ->
  wf_mol g = true -> (forall x, In x (ids g) -> 0 < x) ->
  (forall p, In p to_del -> exists v, zget mapping p = Some v /\ In v (ids g)) ->
  let gone := deleted_spec (graph_of g) (image mapping to_del) (kept mapping to_del) in
  (forall x a, atom_of g x = Some a -> ~ named tpl mp' x -> ~ gone x -> atom_of new x = Some (plain_atom a)) /\
  (forall x y, In x (ids g) -> In y (ids g) -> ~ gone x -> ~ gone y -> ~ (named tpl mp' x /\ named tpl mp' y) ->
               bond_of new x y = option_map plain (bond_of g x y)) /\
  (forall x y b, bond_of new x y = Some b -> ~ (named tpl mp' x /\ named tpl mp' y) ->
                 exists b0, bond_of g x y = Some b0 /\ b = plain b0 /\ ~ gone x /\ ~ gone y) /\
  NoDup (ids new) /\ keys (m_adj new) = ids new.
Proof. exact template_application_frame. Qed.
Print Assumptions C16_template_application_frame.

(* one product per match, structural part: on a real match of a well-formed template _patcher does not raise *)
Theorem C16_patcher_total : forall g mapping tpl del,
  wf_mol g = true -> (forall x, In x (ids g) -> 0 < x) -> ids g <> [] ->
  wf_template tpl = true ->
  (forall n chg rad, In (n, RAny chg rad) (t_atoms tpl) -> exists m, truthy_get mapping n = Some m) ->
  (forall n m, In n (keys (t_atoms tpl)) -> truthy_get mapping n = Some m -> In m (ids g)) ->
  exists new mp', patcher g mapping tpl del = Ok (new, mp').
Proof. exact patcher_total. Qed.
Print Assumptions C16_patcher_total.

Theorem C16_template_application_total : forall g mapping to_del tpl,
  wf_mol g = true -> (forall x, In x (ids g) -> 0 < x) -> ids g <> [] ->
  wf_template tpl = true ->
  (forall p, In p to_del -> exists v, zget mapping p = Some v /\ In v (ids g)) ->
  (forall n chg rad, In (n, RAny chg rad) (t_atoms tpl) -> exists m, truthy_get mapping n = Some m) ->
  (forall n m, In n (keys (t_atoms tpl)) -> truthy_get mapping n = Some m -> In m (ids g)) ->
  exists new mp', patcher_with get_deleted g mapping to_del tpl = Ok (new, mp').
Proof. exact template_application_total. Qed.
Print Assumptions C16_template_application_total.

Theorem C16_total_example :
  ids ex_mol <> [] /\
  (forall p, In p [4] -> exists v, zget ex_mapping p = Some v /\ In v (ids ex_mol)) /\
  (forall n chg rad, In (n, RAny chg rad) (t_atoms ex_tpl) -> exists m, truthy_get ex_mapping n = Some m) /\
  (forall n m, In n (keys (t_atoms ex_tpl)) -> truthy_get ex_mapping n = Some m -> In m (ids ex_mol)).
Proof. exact total_example. Qed.
Print Assumptions C16_total_example.

(* non-vacuity: ethyl acetate, [C:1](=[O:2])[O:3][C:4] >> [A:1](=[A:2])[A-:3] + new [Na+:5]; the ethyl group goes *)
Theorem C16_patcher_example :
  wf_mol ex_mol = true /\ wf_template ex_tpl = true /\ (forall x, In x (ids ex_mol) -> 0 < x) /\
  exists new mp', patcher_with get_deleted ex_mol ex_mapping [4] ex_tpl = Ok (new, mp') /\
                  ids new = [2; 3; 4; 7; 1] /\ mp' = ex_mapping ++ [(5, 7)] /\
                  bond_of new 2 4 = Some (mkBond 1 None) /\ bond_of new 4 5 = None /\
                  atom_of new 4 = Some (mkAtom 8 None (-1) false None None).
Proof. exact patcher_example. Qed.
Print Assumptions C16_patcher_example.

(* ---------- fix_mapping_overlap ---------- *)
(* the structures handed to the reactor never share an atom number; sizes and uniqueness inside a structure are kept *)
Theorem C16_overlap_fix_disjoint : forall structures out,
  fix_mapping_overlap structures = Ok out -> Forall (@NoDup Z) structures ->
  all_disjoint out /\ Forall2 (fun s o => length o = length s /\ NoDup o) structures out.
Proof. exact overlap_fix_disjoint. Qed.
Print Assumptions C16_overlap_fix_disjoint.

(* structures that do not collide are returned unchanged *)
Theorem C16_overlap_fix_identity : forall structures,
  all_disjoint structures -> fix_mapping_overlap structures = Ok structures.
Proof. exact overlap_fix_identity. Qed.
Print Assumptions C16_overlap_fix_identity.

Theorem C16_overlap_example :
  Forall (@NoDup Z) [[1; 2; 3]; [1; 2]; [2; 5]] /\
  fix_mapping_overlap [[1; 2; 3]; [1; 2]; [2; 5]] = Ok [[1; 2; 3]; [4; 5]; [6; 7]].
Proof. exact overlap_example. Qed.
Print Assumptions C16_overlap_example.

(* ---------- Reactor._single_stage: collision remap of a patched product against the molecules that take no part ---------- *)
Theorem C16_stage_remap_disjoint : forall new ignored out,
  stage_remap new ignored = Ok out -> NoDup new ->
  length out = length new /\ NoDup out /\ (forall x, In x out -> ~ In x ignored) /\
  (forall i d, ~ In (nth i new d) ignored -> nth i out d = nth i new d).
Proof. exact stage_remap_disjoint. Qed.
Print Assumptions C16_stage_remap_disjoint.

Theorem C16_stage_remap_total : forall new ignored, exists out, stage_remap new ignored = Ok out.
Proof. exact stage_remap_total. Qed.
Print Assumptions C16_stage_remap_total.

Theorem C16_stage_remap_identity : forall new ignored,
  (forall x, In x new -> ~ In x ignored) -> stage_remap new ignored = Ok new.
Proof. exact stage_remap_identity. Qed.
Print Assumptions C16_stage_remap_identity.

Theorem C16_stage_remap_example :
  NoDup [1; 2; 3; 8; 9] /\ stage_remap [1; 2; 3; 8; 9] [8; 9; 10; 11] = Ok [1; 2; 3; 12; 13].
Proof. exact stage_remap_example. Qed.
Print Assumptions C16_stage_remap_example.

(* ---------- numbering independence of the deleted set ---------- *)
(* for ANY injective renumbering s of the structure: _get_deleted of the renumbered structure under the renumbered match
   returns the renumbered set *)
Theorem C16_get_deleted_equivariant : forall (s : Z -> Z), (forall a b, s a = s b -> a = b) ->
  forall g mapping to_del r r',
    sym_graph g = true ->
    (forall p, In p to_del -> exists v, zget mapping p = Some v /\ In v (keys g)) ->
    get_deleted g mapping to_del = Ok r ->
    get_deleted (rename_graph s g) (rename_match s mapping) to_del = Ok r' ->
    forall x, In x r' <-> exists y, In y r /\ x = s y.
Proof. exact get_deleted_equivariant. Qed.
Print Assumptions C16_get_deleted_equivariant.

Theorem C16_equivariant_example :
  (forall a b : Z, a + 10 = b + 10 -> a = b) /\
  sorted_res (get_deleted (rename_graph (fun x => x + 10) wit2_g) (rename_match (fun x => x + 10) wit2_mapping) wit2_to_del) = Ok [12; 13; 14; 16].
Proof. exact equivariant_example. Qed.
Print Assumptions C16_equivariant_example.

(* ====================================================================================================
   The loops around _patcher (Model.ReactorStage): Transformer.__call__, Reactor._single_stage, Reactor.__call__ one_shot.
   The matcher, split() and the canonical string of the yielded reaction are Section variables: every statement is for
   ALL such functions (for `cord`, the iteration order of the set `collision`: for every permutation).
   ==================================================================================================== *)
(* Transformer.__call__: on real matches nothing raises and the product list is the image of the match list, in order *)
Theorem C16_transformer_call_image : forall to_del tpl matches g,
  wf_mol g = true -> (forall x, In x (ids g) -> 0 < x) -> ids g <> [] -> wf_template tpl = true ->
  (forall mp, In mp matches -> real_match to_del tpl g mp) ->
  exists prods, transformer_call to_del tpl matches g = (prods, None) /\
                Forall2 (patched to_del tpl g) matches prods /\ length prods = length matches.
Proof. exact transformer_call_image. Qed.
Print Assumptions C16_transformer_call_image.

(* without hypotheses: the products are the image of a prefix of the match list (the generator stops where _patcher raises) *)
Theorem C16_transformer_call_prefix : forall to_del tpl matches g prods e,
  transformer_call to_del tpl matches g = (prods, e) ->
  Forall2 (patched to_del tpl g) (firstn (length prods) matches) prods /\
  (e = None -> length prods = length matches).
Proof. exact transformer_call_prefix. Qed.
Print Assumptions C16_transformer_call_prefix.

(* reduce(or_, chosen) of well-formed molecules that share no number is their concatenation, and is well-formed *)
Theorem C16_union_all_disjoint : forall chosen,
  chosen <> [] -> Forall (fun m => wf_mol m = true) chosen -> all_disjoint (map ids chosen) ->
  exists u, union_all chosen = Ok u /\ wf_mol u = true /\ ids u = flat_map ids chosen.
Proof. exact union_all_disjoint. Qed.
Print Assumptions C16_union_all_disjoint.

(* one stage at molecule level: unique numbers, none shared with the molecules that take no part, others unchanged *)
Theorem C16_stage_one_numbers : forall to_del tpl (cord : list Z -> list Z),
  (forall l x, In x (cord l) <-> In x l) ->
  forall united ignored mp out,
    stage_one to_del tpl cord united ignored mp = Ok out ->
    wf_mol united = true -> (forall x, In x (ids united) -> 0 < x) ->
    exists new, patched to_del tpl united mp new /\
      length (ids out) = length (ids new) /\ NoDup (ids out) /\ (forall x, In x (ids out) -> ~ In x ignored) /\
      (forall i d, ~ In (nth i (ids new) d) ignored -> nth i (ids out) d = nth i (ids new) d).
Proof. exact stage_one_numbers. Qed.
Print Assumptions C16_stage_one_numbers.

(* ... and on a real match it never raises (Graph.remap never refuses the collision mapping) *)
Theorem C16_stage_one_total : forall to_del tpl (cord : list Z -> list Z) united ignored mp,
  wf_mol united = true -> (forall x, In x (ids united) -> 0 < x) -> ids united <> [] -> wf_template tpl = true ->
  real_match to_del tpl united mp ->
  exists out, stage_one to_del tpl cord united ignored mp = Ok out.
Proof. exact stage_one_total. Qed.
Print Assumptions C16_stage_one_total.

(* Reactor.__call__ (one_shot): one reaction per distinct key; every yielded reaction comes from a choice of k different
   reactants and one match of that choice through the stage; its products, spectators included, share no atom number *)
Theorem C16_one_shot_sound : forall to_del tpl (matcher : list nat -> list (list (Z * Z))) (cord : list Z -> list Z)
    (splitf : mol -> list mol) (K : Type) (key_eqb : K -> K -> bool) (key : cand -> K),
  (forall l x, In x (cord l) <-> In x l) ->
  (forall m, Permutation (flat_map ids (splitf m)) (ids m)) ->
  (forall a b, key_eqb a b = true <-> a = b) ->
  forall S k cs e,
    one_shot to_del tpl matcher cord splitf K key_eqb key S k = (cs, e) -> good S -> (0 < k)%nat ->
    NoDup (map key cs) /\
    forall c, In c cs ->
      NoDup (c_chosen c) /\ length (c_chosen c) = k /\ (forall i, In i (c_chosen c) -> (i < length S)%nat) /\
      stage_fact to_del tpl matcher cord splitf S c /\ NoDup (flat_map ids (c_products c)).
Proof. exact one_shot_sound. Qed.
Print Assumptions C16_one_shot_sound.

(* when the matcher returns real matches nothing raises, every (choice, match) pair gives a candidate and the key of every
   candidate is among the keys of what is yielded: the yielded list is the image of the match lists, one per key.
   (Independence of the reactant numbering therefore reduces to equivariance of the matcher, of the key and of _patcher.) *)
Theorem C16_one_shot_complete : forall to_del tpl (matcher : list nat -> list (list (Z * Z))) (cord : list Z -> list Z)
    (splitf : mol -> list mol) (K : Type) (key_eqb : K -> K -> bool) (key : cand -> K),
  (forall a b, key_eqb a b = true <-> a = b) ->
  forall S, good S -> Forall (fun m => ids m <> []) S -> wf_template tpl = true ->
  forall k, (0 < k)%nat -> real_matcher to_del tpl matcher S (perms_k k (seq 0 (length S))) ->
  exists cs, one_shot to_del tpl matcher cord splitf K key_eqb key S k = (cs, None) /\
    forall chosen j mp, In chosen (perms_k k (seq 0 (length S))) -> nth_error (matcher chosen) j = Some mp ->
      exists c, c_chosen c = chosen /\ c_match c = j /\ stage_fact to_del tpl matcher cord splitf S c /\ In (key c) (map key cs).
Proof. exact one_shot_complete. Qed.
Print Assumptions C16_one_shot_complete.

(* what is yielded for a key is the FIRST candidate with that key *)
Theorem C16_dedupe_first : forall (K : Type) (key_eqb : K -> K -> bool) (key : cand -> K),
  (forall a b, key_eqb a b = true <-> a = b) ->
  forall l seen c, In c (dedupe K key_eqb key seen l) ->
    exists l1 l2, l = l1 ++ c :: l2 /\ forall c', In c' l1 -> key c' <> key c.
Proof. exact dedupe_first. Qed.
Print Assumptions C16_dedupe_first.

(* non-vacuity: acetaldehyde + ammonia + spectator methane; the new atom collides with the spectator and is renumbered *)
Theorem C16_one_shot_example :
  good os_S /\ Forall (fun m => ids m <> []) os_S /\ wf_template os_tpl = true /\
  real_matcher [] os_tpl os_matcher os_S (perms_k 2 (seq 0 (length os_S))) /\
  map cand_sig (fst (one_shot [] os_tpl os_matcher (fun l => l) (fun m => [m]) Z Z.eqb (fun c => Z.of_nat (c_match c)) os_S 2))
    = [([0%nat; 1%nat], 0%nat, [1; 2; 3; 4; 5; 6])].
Proof. exact one_shot_example. Qed.
Print Assumptions C16_one_shot_example.

(* ====================================================================================================
   _patcher commutes with a renumbering of the structure (Graph.remap by s), dict orders included: the product of the
   renumbered structure under the renumbered match is the renumbered product, where the k-th new atom (number mx + k)
   becomes mx' + k (mx, mx' = the largest number before / after renumbering)
   ==================================================================================================== *)
Theorem C16_patcher_equivariant : forall g s mapping tpl del new mp' mx mx',
  wf_mol g = true -> (forall x, In x (ids g) -> 0 < x) ->
  (forall a b, In a (ids g) -> In b (ids g) -> s a = s b -> a = b) -> (forall x, In x (ids g) -> 0 < s x) ->
  zmax_list (ids g) = Some mx -> zmax_list (map s (ids g)) = Some mx' ->
  (forall k v, In (k, v) mapping -> In v (ids g)) -> (forall x, In x del -> In x (ids g)) ->
  patcher g mapping tpl del = Ok (new, mp') ->
  patcher (rename_mol s g) (rename_match s mapping) tpl (map s del) =
    Ok (rename_mol (extend_renumbering s mx mx') new, rename_match (extend_renumbering s mx mx') mp').
Proof. exact patcher_equivariant. Qed.
Print Assumptions C16_patcher_equivariant.

Theorem C16_patcher_equivariant_example :
  let s := fun x => 10 - x in
  (forall a b, In a (ids ex_mol) -> In b (ids ex_mol) -> s a = s b -> a = b) /\ (forall x, In x (ids ex_mol) -> 0 < s x) /\
  zmax_list (ids ex_mol) = Some 6 /\ zmax_list (map s (ids ex_mol)) = Some 9 /\
  (forall k v, In (k, v) ex_mapping -> In v (ids ex_mol)) /\
  exists new mp', patcher ex_mol ex_mapping ex_tpl [5; 6] = Ok (new, mp') /\
    patcher (rename_mol s ex_mol) (rename_match s ex_mapping) ex_tpl (map s [5; 6]) =
      Ok (rename_mol (extend_renumbering s 6 9) new, rename_match (extend_renumbering s 6 9) mp') /\
    ids (rename_mol (extend_renumbering s 6 9) new) = [8; 7; 6; 10; 9].
Proof. exact patcher_equivariant_example. Qed.
Print Assumptions C16_patcher_equivariant_example.

(* ====================================================================================================
   Atoms the template does not touch: neighbour ORDER and tetrahedral configuration
   ==================================================================================================== *)
(* the neighbour dict of an atom the template does not name lists, in the old order, the neighbours that survive *)
Theorem C16_patcher_untouched_neighbours : forall g mapping tpl del new mp' x,
  patcher g mapping tpl del = Ok (new, mp') -> wf_mol g = true -> (forall y, In y (ids g) -> 0 < y) ->
  In x (ids g) -> ~ named tpl mp' x -> ~ In x del ->
  nbr_ids new x = filter (fun m => negb (zmem m del)) (nbr_ids g x).
Proof. exact patcher_untouched_neighbours. Qed.
Print Assumptions C16_patcher_untouched_neighbours.

(* _translate_tetrahedron_sign (Model.Stereo.translate_th, C12) read through the centre's own order is the identity *)
Theorem C16_translate_th_same : forall (isH : Z -> bool) env s,
  NoDup env -> (length env = 3%nat \/ length env = 4%nat) -> translate_th isH env env s = Ok s.
Proof. exact translate_th_same. Qed.
Print Assumptions C16_translate_th_same.

(* an untouched stereogenic centre none of whose neighbours is deleted has, in the product, the same non-hydrogen
   neighbours in the same order: the label _patcher stores "as is" (untouched_label) denotes the same configuration --
   read through the environment of the input structure it is the input sign (for every hydrogen predicate that agrees on
   the neighbours before and after) *)
Theorem C16_untouched_centre_same_configuration : forall g mapping tpl del new mp' x (isH isH' : Z -> bool),
  patcher g mapping tpl del = Ok (new, mp') -> wf_mol g = true -> (forall y, In y (ids g) -> 0 < y) ->
  In x (ids g) -> ~ named tpl mp' x -> ~ In x del ->
  (forall m, In m (nbr_ids g x) -> ~ In m del) ->
  (forall m, In m (nbr_ids g x) -> isH' m = isH m) ->
  (length (th_env isH g x) = 3%nat \/ length (th_env isH g x) = 4%nat) ->
  th_env isH' new x = th_env isH g x /\
  forall s, translate_th isH' (th_env isH' new x) (th_env isH g x) s = Ok s.
Proof. exact untouched_centre_same_configuration. Qed.
Print Assumptions C16_untouched_centre_same_configuration.

Theorem C16_untouched_centre_example :
  wf_mol st_mol = true /\
  exists new mp', patcher st_mol [(1, 4); (2, 5)] st_tpl [] = Ok (new, mp') /\
    ~ named st_tpl mp' 2 /\ th_env (fun _ => false) st_mol 2 = [1; 3; 4] /\ nbr_ids new 2 = [1; 3; 4] /\
    untouched_label [2] st_mol 2 = Some true.
Proof. exact untouched_centre_example. Qed.
Print Assumptions C16_untouched_centre_example.

(* ====================================================================================================
   Template application as it is called (to_delete = _get_deleted(structure, mapping)) commutes with a renumbering of the
   structure: C16_patcher_equivariant composed with C16_get_deleted_equivariant
   ==================================================================================================== *)
Theorem C16_template_application_equivariant : forall (s : Z -> Z) g mapping to_del tpl new mp' mx mx',
  (forall a b, s a = s b -> a = b) -> (forall x, In x (ids g) -> 0 < s x) ->
  wf_mol g = true -> (forall x, In x (ids g) -> 0 < x) ->
  zmax_list (ids g) = Some mx -> zmax_list (map s (ids g)) = Some mx' ->
  (forall k v, In (k, v) mapping -> In v (ids g)) ->
  (forall p, In p to_del -> exists v, zget mapping p = Some v) ->
  patcher_with get_deleted g mapping to_del tpl = Ok (new, mp') ->
  patcher_with get_deleted (rename_mol s g) (rename_match s mapping) to_del tpl =
    Ok (rename_mol (extend_renumbering s mx mx') new, rename_match (extend_renumbering s mx mx') mp').
Proof. exact template_application_equivariant. Qed.
Print Assumptions C16_template_application_equivariant.

Theorem C16_template_application_equivariant_example :
  let s := fun x => 10 - x in
  (forall a b, s a = s b -> a = b) /\ (forall x, In x (ids ex_mol) -> 0 < s x) /\
  (forall p, In p [4] -> exists v, zget ex_mapping p = Some v) /\
  exists new mp', patcher_with get_deleted ex_mol ex_mapping [4] ex_tpl = Ok (new, mp') /\
    patcher_with get_deleted (rename_mol s ex_mol) (rename_match s ex_mapping) [4] ex_tpl =
      Ok (rename_mol (extend_renumbering s 6 9) new, rename_match (extend_renumbering s 6 9) mp') /\
    ids (rename_mol (extend_renumbering s 6 9) new) = [8; 7; 6; 10; 9].
Proof. exact template_application_equivariant_example. Qed.
Print Assumptions C16_template_application_equivariant_example.

(* ====================================================================================================
   Cis/trans bonds and allenes the template does not touch (Model.Stereo.translate_env = the C12 model of the tail of
   _translate_cis_trans_sign / _translate_allene_sign, over the regenerated alkene table)
   ==================================================================================================== *)
Theorem C16_translate_env_same : forall (isH : Z -> bool) n0 n1 o2 o3 s, translate_env isH (n0, n1, o2, o3) n0 n1 s = Ok s.
Proof. exact translate_env_same. Qed.
Print Assumptions C16_translate_env_same.

(* the environment survives as a set but is listed in another arrangement (a patched end atom): the label the loop stores,
   read again through the old opposite neighbours, is the old label -- in both orientations of the path *)
Theorem C16_translate_env_roundtrip4 : forall (isH : Z -> bool) m0 m1 m2 m3 a b s r,
  NoDup [m0; m1; m2; m3] -> In a [0; 2] -> In b [1; 3] ->
  let nn := StereoProofs.pick (m0, m1, m2, m3) a in let nm := StereoProofs.pick (m0, m1, m2, m3) b in
  (translate_env isH (m0, m1, Some m2, Some m3) nn nm s = Ok r -> translate_env isH (m0, m1, Some m2, Some m3) nn nm r = Ok s) /\
  (translate_env isH (m0, m1, Some m2, Some m3) nm nn s = Ok r -> translate_env isH (m0, m1, Some m2, Some m3) nm nn r = Ok s).
Proof. exact translate_env_roundtrip4. Qed.
Print Assumptions C16_translate_env_roundtrip4.

Theorem C16_translate_env_roundtripH : forall (isH : Z -> bool) m0 m1 hA hB a b s r,
  m0 <> m1 -> isH m0 = false -> isH m1 = false -> isH hA = true -> isH hB = true -> In a [0; 2] -> In b [1; 3] ->
  let nn := StereoProofs.pick (m0, m1, hA, hB) a in let nm := StereoProofs.pick (m0, m1, hA, hB) b in
  translate_env isH (m0, m1, None, None) nn nm s = Ok r -> translate_env isH (m0, m1, None, None) nn nm r = Ok s.
Proof. exact translate_env_roundtripH. Qed.
Print Assumptions C16_translate_env_roundtripH.

(* both terminal atoms of the cumulene are untouched and keep all their neighbours (hydrogens staying hydrogens): the
   registry entry of the product IS the entry of the input, and the label the translation loop computes from s is s *)
Theorem C16_untouched_cumulene_same_configuration : forall g mapping tpl del new mp',
  patcher g mapping tpl del = Ok (new, mp') -> wf_mol g = true -> (forall y, In y (ids g) -> 0 < y) ->
  forall (isH isH' : Z -> bool) t1 i1 t2 i2,
    intact g tpl del mp' isH isH' t1 -> intact g tpl del mp' isH isH' t2 ->
    cum_env isH' new t1 i1 t2 i2 = cum_env isH g t1 i1 t2 i2 /\
    forall e s, cum_env isH g t1 i1 t2 i2 = Some e ->
      patched_cum_label isH isH' g new t1 i1 t2 i2 s = Ok (Some s) /\
      translate_env isH' e (fst (fst (fst e))) (snd (fst (fst e))) s = Ok s.
Proof. exact untouched_cumulene_same_configuration. Qed.
Print Assumptions C16_untouched_cumulene_same_configuration.

Theorem C16_untouched_cumulene_example :
  wf_mol ct_mol = true /\
  exists new mp', patcher ct_mol [(1, 5); (2, 6)] st_tpl [] = Ok (new, mp') /\
    cum_env (is_H_atom ct_mol) ct_mol 2 3 3 2 = Some (1, 4, None, None) /\
    cum_env (is_H_atom new) new 2 3 3 2 = Some (1, 4, None, None) /\
    patched_cum_label (is_H_atom ct_mol) (is_H_atom new) ct_mol new 2 3 3 2 true = Ok (Some true).
Proof. exact untouched_cumulene_example. Qed.
Print Assumptions C16_untouched_cumulene_example.

(* ====================================================================================================
   Reactor.__call__ with one_shot=False (Model.ReactorQueue: the queue, the seen set, the depth limit, the expansion by
   combinations / permutations; generic in the type of molecules; _single_stage, r.products after contract_ions, str(r) and
   permutations(fix_mapping_overlap(...)) are Section variables)
   ==================================================================================================== *)
(* nothing is yielded twice, and everything yielded is one single stage applied to an item that a chain of single stages
   reaches from the initial choices -- for every fuel, also when an exception ends the generator *)
Theorem C16_exhaustive_sound : forall (M K : Type) (key_eqb : K -> K -> bool) stage finish (key : list M -> K) operms
    n_patterns n_products limit,
  (forall a b, key_eqb a b = true <-> a = b) ->
  forall structures fuel ys e ok,
    exhaustive M K key_eqb stage finish key operms n_patterns n_products limit structures fuel = (ys, e, ok) ->
    NoDup (map key ys) /\
    Forall (yielded_from M stage finish operms n_patterns limit (init_queue M n_patterns structures)) ys.
Proof. exact exhaustive_sound. Qed.
Print Assumptions C16_exhaustive_sound.

(* the same from any queue and any seen set: what is yielded is new with respect to `seen` *)
Theorem C16_run_sound : forall (M K : Type) (key_eqb : K -> K -> bool) stage finish (key : list M -> K) operms
    n_patterns n_products limit,
  (forall a b, key_eqb a b = true <-> a = b) ->
  forall init fuel queue seen ys e ok,
    run M K key_eqb stage finish key operms n_patterns n_products limit fuel queue seen = (ys, e, ok) ->
    (forall it, In it queue -> reach M stage finish operms n_patterns limit init it) ->
    NoDup (map key ys) /\ (forall y, In y ys -> ~ In (key y) seen) /\
    Forall (yielded_from M stage finish operms n_patterns limit init) ys.
Proof. exact run_sound. Qed.
Print Assumptions C16_run_sound.

Theorem C16_exhaustive_example :
  exhaustive Z (list Z) zl_eqb q_stage (fun new ign => new ++ ign) (fun p => p) (fun ms => [ms]) 1 1 3 [1%Z; 2%Z] 50
    = ([[3; 2]; [4; 2]]%Z, None, true) /\
  (forall a b, zl_eqb a b = true <-> a = b).
Proof. exact exhaustive_example. Qed.
Print Assumptions C16_exhaustive_example.

(* completeness of the exhaustive mode: when the generator runs to its end (no exception, queue exhausted within the fuel)
   the yielded reactions are closed under "one more single stage" -- every result of a single stage on every processed item
   (the initial choices included) is yielded up to its key, every yielded reaction is such a result, and everything a yielded
   reaction expands to (first seen, not ambiguous [len(new) > 1 and another number of products], depth below polymerise_limit)
   has been processed as well *)
Theorem C16_exhaustive_complete : forall (M K : Type) (key_eqb : K -> K -> bool) stage finish (key : list M -> K) operms
    n_patterns n_products limit,
  (forall a b, key_eqb a b = true <-> a = b) ->
  forall structures fuel ys,
    exhaustive M K key_eqb stage finish key operms n_patterns n_products limit structures fuel = (ys, None, true) ->
    exists processed : list (item M),
      incl (init_queue M n_patterns structures) processed /\
      (forall chosen ignored d new, In (chosen, ignored, d) processed -> In new (fst (stage chosen ignored)) ->
         In (key (finish new ignored)) (map key ys)) /\
      (forall y, In y ys -> exists chosen ignored d new,
         In (chosen, ignored, d) processed /\ In new (fst (stage chosen ignored)) /\ y = finish new ignored /\
         (ambiguous M n_products new y ignored = false -> (S d < limit)%nat ->
          incl (expand M operms n_patterns chosen y (S d)) processed)).
Proof. exact exhaustive_complete. Qed.
Print Assumptions C16_exhaustive_complete.

Theorem C16_exhaustive_complete_example :
  exhaustive Z (list Z) zl_eqb q_stage (fun new ign => new ++ ign) (fun p => p) (fun ms => [ms]) 1 1 3 [1%Z; 2%Z] 50
    = ([[3; 2]; [4; 2]]%Z, None, true).
Proof. exact exhaustive_complete_example. Qed.
Print Assumptions C16_exhaustive_complete_example.

(* ====================================================================================================
   One stage of Reactor._single_stage does not depend on the numbering of the reactants, nor on the numbers of the
   molecules that take no part: for ANY injective renumbering s of the united reactants (positive on its atoms) and ANY
   two spectator number sets, the stage products of the two calls are injective renumberings (g, h) of one and the same
   patched molecule
   ==================================================================================================== *)
Theorem C16_stage_one_renumbering : forall (s : Z -> Z) to_del tpl (cord cord' : list Z -> list Z) united ignored ignored' mp out out' mx mx',
  (forall l x, In x (cord l) <-> In x l) -> (forall l x, In x (cord' l) <-> In x l) ->
  (forall a b, s a = s b -> a = b) -> (forall x, In x (ids united) -> 0 < s x) ->
  wf_mol united = true -> (forall x, In x (ids united) -> 0 < x) ->
  zmax_list (ids united) = Some mx -> zmax_list (map s (ids united)) = Some mx' ->
  (forall k v, In (k, v) mp -> In v (ids united)) ->
  (forall p, In p to_del -> exists v, zget mp p = Some v) ->
  stage_one to_del tpl cord united ignored mp = Ok out ->
  stage_one to_del tpl cord' (rename_mol s united) ignored' (rename_match s mp) = Ok out' ->
  exists new g h, patched to_del tpl united mp new /\
    out = rename_mol g new /\ out' = rename_mol h new /\ inj_on_list g (ids new) /\ inj_on_list h (ids new).
Proof. exact stage_one_renumbering. Qed.
Print Assumptions C16_stage_one_renumbering.

Theorem C16_stage_one_renumbering_example :
  exists out out',
    stage_one [4] ex_tpl (fun l => l) ex_mol [7; 8] ex_mapping = Ok out /\
    stage_one [4] ex_tpl (fun l => l) (rename_mol (fun x => 10 - x) ex_mol) [10; 11] (rename_match (fun x => 10 - x) ex_mapping) = Ok out' /\
    ids out = [2; 3; 4; 9; 1] /\ ids out' = [8; 7; 6; 12; 9].
Proof. exact stage_one_renumbering_example. Qed.
Print Assumptions C16_stage_one_renumbering_example.

(* ====================================================================================================
   Tie of the hand-written models to the source: Gen.ReactorShape (abstract-syntax digests and the normalised branch
   conditions of every mirrored function of chython/reactor/*.py and Graph.remap / Graph.union) is regenerated from /repo on
   every run and must equal the constants recorded when the models were written
   ==================================================================================================== *)
Theorem C16_reactor_shape_unchanged : shape_table = expected_shape_table.
Proof. exact reactor_shape_unchanged. Qed.
Print Assumptions C16_reactor_shape_unchanged.

Theorem C16_reactor_conditions_unchanged : condition_table = expected_condition_table.
Proof. exact reactor_conditions_unchanged. Qed.
Print Assumptions C16_reactor_conditions_unchanged.

(* the function whose intermediate states the correspondence compares with the frame of the real _patcher call is the same
   computation as the `patcher` all theorems above are about *)
Theorem C16_patcher_states_final : forall g mapping tpl del,
  patcher g mapping tpl del =
  match patcher_states g mapping tpl del with Ok (_, _, _, r) => Ok r | Err e => Err e end.
Proof. exact patcher_states_final. Qed.
Print Assumptions C16_patcher_states_final.

(* ====================================================================================================
   PreparedReactor.__call__ (the built-in reaction collections), multi-step mode (Model.ReactorPrepared; generic in the
   types of reactors and molecules; rx( *rct), str(r) and fix_mapping_overlap are Section variables)
   ==================================================================================================== *)
(* nothing is yielded twice and every yielded reaction is one stage of a (reactor, reactants) pair reached from the initial
   stack by the push rule *)
Theorem C16_multistep_sound : forall (T M K : Type) (key_eqb : K -> K -> bool) react (key : list M -> list M -> K) overlap rxn_ms allowed
    molecules excess,
  (forall a b, key_eqb a b = true <-> a = b) ->
  forall fuel ys e ok,
    multistep T M K key_eqb react key overlap rxn_ms allowed molecules excess fuel = (ys, e, ok) ->
    NoDup (map (ykey M K key) ys) /\ Forall (from_stage T M react overlap rxn_ms allowed molecules excess) ys.
Proof. exact multistep_sound. Qed.
Print Assumptions C16_multistep_sound.

(* default excess: after a yielded reaction EVERY reactant of the call (every position behind the products in
   fix_mapping_overlap(products + molecules)) is dropped in turn, for every reactor not used yet *)
Theorem C16_pushes_cover : forall (T M : Type) (overlap : list M -> list M) (molecules : list M) (excess : option (list M)),
  excess = None ->
  forall (prods : list M) (nxt : list T) n m nrx,
    let x := overlap (prods ++ molecules) in
    (length prods <= n < length x)%nat -> nth_error nxt m = Some nrx ->
    In (nrx, remove_nth n x, remove_nth m nxt) (pushes T M overlap molecules excess prods nxt).
Proof. exact pushes_cover. Qed.
Print Assumptions C16_pushes_cover.

Theorem C16_multistep_example :
  multistep Z Z (list Z) (list_eqb Z.eqb) pr_react (fun rct p => rct ++ p) (fun x => x) [1%Z; 2%Z] (fun _ => true) [10%Z; 20%Z] None 50
    = ([([10; 20], [11]); ([11; 20], [12])]%Z, None, true).
Proof. exact multistep_example. Qed.
Print Assumptions C16_multistep_example.

(* ====================================================================================================
   round 4: TIE BY TRANSLATION.  Gen.ReactorBody.g_get_deleted is the body of BaseReactor._get_deleted (base.py) translated
   statement by statement from /repo's source on every run (tools/gen_reactorbody.py: for / while / if-elif-else / continue,
   set and stack operations, dict subscripts with KeyError, the set comprehension and set(..).difference(..)).
   ==================================================================================================== *)
(* the translated source IS the hand-written model, for all inputs (fuel of `while stack:` = one round per atom) *)
Theorem C16_translated_get_deleted_is_model : forall bonds mapping to_del,
  g_get_deleted (fuel_walk bonds) to_del bonds mapping = get_deleted bonds mapping to_del.
Proof. exact g_get_deleted_is_model. Qed.
Print Assumptions C16_translated_get_deleted_is_model.

(* hence the specification holds of the translated source text itself: never raises (in particular never runs out of fuel)
   and returns exactly the matched-and-unkept atoms plus the detached pieces *)
Theorem C16_translated_get_deleted_spec : forall g mapping to_del,
  sym_graph g = true ->
  (forall p, In p to_del -> exists v, zget mapping p = Some v /\ In v (keys g)) ->
  exists r, g_get_deleted (fuel_walk g) to_del g mapping = Ok r /\
            forall x, In x r <-> deleted_spec g (image mapping to_del) (kept mapping to_del) x.
Proof. exact g_get_deleted_spec. Qed.
Print Assumptions C16_translated_get_deleted_spec.

Theorem C16_translated_get_deleted_on_witnesses :
  g_get_deleted (fuel_walk wit_g) wit_to_del wit_g wit_mapping = Ok [2] /\
  sorted_res (g_get_deleted (fuel_walk wit2_g) wit2_to_del wit2_g wit2_mapping) = Ok [2; 3; 4; 6] /\
  g_get_deleted (fuel_walk wit_g) [] wit_g wit_mapping = Ok [] /\
  g_get_deleted (fuel_walk wit_g) [77] wit_g wit_mapping = Err KeyError.
Proof. exact g_get_deleted_on_witnesses. Qed.
Print Assumptions C16_translated_get_deleted_on_witnesses.

(* Gen.ReactorBody.g_patcher_keep = the text of BaseReactor._patcher from `patched_atoms = set(new)` to the end of
   `for n, bs in sbonds.items()`, translated statement by statement on every run: the two loops that copy the atoms the
   template does not name and the bonds that survive (the frame condition of the property), stereo bookkeeping included. *)
(* for ALL inputs it computes what the last two folds of the hand-written patcher compute: same adjacency, same exception,
   same atoms up to the stereo label (which Model.Reactor does not carry) *)
Theorem C16_translated_patcher_keep_is_model : forall satoms sbonds del tetra natoms nbonds sts stb,
  let kept := fold_left (keep_atom (keys natoms) del) satoms (natoms, nbonds) in
  match g_patcher_keep satoms sbonds del tetra natoms nbonds sts stb with
  | Ok (natoms', nbonds', _, _) =>
      erase_stereo natoms' = erase_stereo (fst kept) /\
      fold_res (keep_bonds_of (keys natoms) del) sbonds (snd kept) = Ok nbonds'
  | Err e => fold_res (keep_bonds_of (keys natoms) del) sbonds (snd kept) = Err e
  end.
Proof. exact g_patcher_keep_is_model. Qed.
Print Assumptions C16_translated_patcher_keep_is_model.

(* hence Model.Reactor.patcher - the function every C16_patcher_* theorem is about - IS its first two folds followed by the
   translated source text, whatever the tetrahedron registry and the stereo work lists hold *)
Theorem C16_patcher_runs_translated_loops : forall g mapping tpl del tetra sts stb,
  patcher g mapping tpl del =
  match zmax_list (ids g) with
  | None => Err ValueError
  | Some mx =>
      match fold_res (patch_atom g) (t_atoms tpl) (mkP [] [] mapping mx) with
      | Err e => Err e
      | Ok s =>
          match fold_res (patch_bonds_of (p_map s)) (t_bonds tpl) (p_adj s) with
          | Err e => Err e
          | Ok adj2 =>
              match g_patcher_keep (m_atoms g) (m_adj g) del tetra (p_atoms s) adj2 sts stb with
              | Err e => Err e
              | Ok (atoms', adj', _, _) => Ok (mkMol (erase_stereo atoms') adj', p_map s)
              end
          end
      end
  end.
Proof. exact patcher_runs_translated_loops. Qed.
Print Assumptions C16_patcher_runs_translated_loops.

(* "for tetrahedrons label can be stored as is": the label the translated loop leaves on an atom the template does not
   name and that is not deleted is Model.ReactorStage.untouched_label (so far a hand-written definition tied by testing;
   C16_untouched_centre_same_configuration says that this label denotes the same configuration) *)
Theorem C16_translated_untouched_label : forall g sbonds del tetra natoms nbonds sts stb natoms' nbonds' sts' stb' n,
  g_patcher_keep (m_atoms g) sbonds del tetra natoms nbonds sts stb = Ok (natoms', nbonds', sts', stb') ->
  NoDup (ids g) -> In n (ids g) -> ~ In n (keys natoms) -> ~ In n del ->
  option_map a_stereo (zget natoms' n) = Some (untouched_label tetra g n).
Proof. exact g_patcher_keep_untouched_label. Qed.
Print Assumptions C16_translated_untouched_label.

Theorem C16_translated_patcher_keep_example :
  g_patcher_keep ex_satoms ex_sbonds [4] [2] [(1, mkAtom 6 None 1 false None None)] [(1, [])] [] [] =
    Ok ([(1, mkAtom 6 None 1 false None None); (2, mkAtom 6 None 0 false (Some 1) (Some true)); (3, mkAtom 8 None 0 false (Some 0) None)],
        [(1, [(2, mkBond 1 None)]); (2, [(1, mkBond 1 None); (3, mkBond 2 None)]); (3, [(2, mkBond 2 None)])],
        [3], [(2, 3)]) /\
  g_patcher_keep ex_satoms ex_sbonds [3; 4] [2] [(1, mkAtom 6 None 1 false None None)] [] [] [] = Err KeyError.
Proof. exact g_patcher_keep_example. Qed.
Print Assumptions C16_translated_patcher_keep_example.

(* Gen.ReactorBody.g_patcher_atoms = the loop `for n, ra in self._replacement.atoms()` of _patcher (which atom a replacement
   atom becomes: any-atom reuse keeping element and isotope, re-typed matched atoms, new atoms numbered above the maximum,
   requested charge / radical state, hydrogen counts and labels taken from the patch for new atoms only, ValueError for an
   any-atom without image), translated statement by statement on every run.  For ALL inputs it agrees with the first fold of
   the hand-written patcher (fold_res patch_atom over the replacement read through conv): same exception, same adjacency,
   mapping and maximum, same atoms up to the stereo label *)
Theorem C16_translated_patcher_atoms_is_model : forall g ratoms natoms nbonds mapping mx sts,
  agrees (g_patcher_atoms ratoms (m_atoms g) natoms nbonds mapping mx sts)
         (fold_res (patch_atom g) (conv_atoms ratoms) (mkP natoms nbonds mapping mx)).
Proof. exact g_patcher_atoms_is_model. Qed.
Print Assumptions C16_translated_patcher_atoms_is_model.

(* the whole structural _patcher of the C16_patcher_* theorems, expressed through the translated source text: max(satoms),
   the translated loop over the replacement atoms, the loop over the replacement bonds (still hand-written), the translated
   loops over the atoms and bonds of the structure *)
Theorem C16_patcher_runs_translated_text : forall g mapping ratoms tb del tetra sts0 stb,
  patcher g mapping (mkTpl (conv_atoms ratoms) tb) del =
  match zmax_list (ids g) with
  | None => Err ValueError
  | Some mx =>
      match g_patcher_atoms ratoms (m_atoms g) [] [] mapping mx sts0 with
      | Err e => Err e
      | Ok (na, nb, mp, _, sts) =>
          match fold_res (patch_bonds_of mp) tb nb with
          | Err e => Err e
          | Ok adj2 =>
              match g_patcher_keep (m_atoms g) (m_adj g) del tetra na adj2 sts stb with
              | Err e => Err e
              | Ok (atoms', adj', _, _) => Ok (mkMol (erase_stereo atoms') adj', mp)
              end
          end
      end
  end.
Proof. exact patcher_runs_translated_text. Qed.
Print Assumptions C16_patcher_runs_translated_text.

Theorem C16_translated_patcher_atoms_example :
  g_patcher_atoms ex_ratoms ex_cco [] [] [(2, 5)] 5 [] =
    Ok ([(5, mkAtom 8 None (-1) false None (Some true)); (6, mkAtom 11 None 1 false (Some 0) None); (7, mkAtom 7 (Some 15) 0 false (Some 2) None)],
        [(5, []); (6, []); (7, [])], [(2, 5); (3, 6); (4, 7)], 7, []) /\
  g_patcher_atoms ex_ratoms ex_cco [] [] [(2, 9)] 5 [] = Err KeyError /\
  g_patcher_atoms ex_ratoms ex_cco [] [] [] 5 [] = Err ValueError.
Proof. exact g_patcher_atoms_example. Qed.
Print Assumptions C16_translated_patcher_atoms_example.

(* the translated loop, one replacement atom at a time, labels and hydrogen counts included (Model.Reactor carries no labels,
   so these two say what the hand model could not): a replacement atom WITH an image *)
Theorem C16_translated_patcher_atoms_reused : forall n ra satoms natoms nbonds mapping mx sts m sa,
  truthy_get mapping n = Some m -> zget satoms m = Some sa ->
  exists a, g_patcher_atoms [(n, ra)] satoms natoms nbonds mapping mx sts =
              Ok (zset natoms m a, zset nbonds m [], mapping, mx,
                  if py_is_some (r_stereo ra) then sts else if py_is_some (a_stereo sa) then sts ++ [m] else sts) /\
            a_stereo a = r_stereo ra /\ a_h a = None /\ a_chg a = r_chg ra /\ a_rad a = r_rad ra /\
            (if is_kind KAny ra then a_num a = a_num sa /\ a_iso a = a_iso sa else a_num a = r_num ra /\ a_iso a = r_iso ra).
Proof. exact g_patcher_atoms_reused. Qed.
Print Assumptions C16_translated_patcher_atoms_reused.

(* ... and WITHOUT an image: ValueError for an any-atom, otherwise a new atom max_atom + 1 with everything taken from the patch *)
Theorem C16_translated_patcher_atoms_new : forall n ra satoms natoms nbonds mapping mx sts,
  truthy_get mapping n = None ->
  if is_kind KAny ra then g_patcher_atoms [(n, ra)] satoms natoms nbonds mapping mx sts = Err ValueError
  else g_patcher_atoms [(n, ra)] satoms natoms nbonds mapping mx sts =
         Ok (zset natoms (mx + 1) (mkAtom (r_num ra) (r_iso ra) (r_chg ra) (r_rad ra)
                                          (if is_kind KElement ra then r_h ra else hd_error (r_hs ra)) (r_stereo ra)),
             zset nbonds (mx + 1) [], zset mapping n (mx + 1), mx + 1, sts).
Proof. exact g_patcher_atoms_new. Qed.
Print Assumptions C16_translated_patcher_atoms_new.

(* Gen.ReactorBody.g_patcher_rbonds = the loop `for n, bs in self._replacement._bonds.items()` of _patcher (bonds the
   replacement names: order of the patch, back-links share the bond object, label of the patch, or a stereo_bonds entry when
   the structure has a labelled bond of the same order between the same atoms), translated statement by statement on every
   run.  For ALL inputs, from adjacencies that are equal up to bond labels, it agrees with the second fold of the
   hand-written patcher: same exception, same adjacency up to the labels *)
Theorem C16_translated_patcher_rbonds_is_model : forall tb sbonds mapping ag ah stb,
  erase_adj ag = erase_adj ah ->
  agrees_adj (g_patcher_rbonds tb sbonds mapping ag stb) (fold_res (patch_bonds_of mapping) tb ah).
Proof. exact g_patcher_rbonds_is_model. Qed.
Print Assumptions C16_translated_patcher_rbonds_is_model.

(* THE WHOLE STRUCTURAL _patcher IS TRANSLATED TEXT: Model.Reactor.patcher - the function every C16_patcher_* theorem above is
   about - equals max(satoms) followed by the four translated loops of base.py lines 89-169, read without the stereo labels the
   hand model does not carry; for every replacement (read through conv), mapping, to-delete set, tetrahedron registry and
   initial work lists.  No statement of these lines is hand-copied any more: an edit that changes what they compute changes
   the generated terms and breaks this theorem (or one of the four C16_translated_*_is_model lemmas it rests on) *)
Theorem C16_patcher_is_translated_text : forall g mapping ratoms tb del tetra sts0 stb0,
  patcher g mapping (mkTpl (conv_atoms ratoms) tb) del =
  match zmax_list (ids g) with
  | None => Err ValueError
  | Some mx =>
      match g_patcher_atoms ratoms (m_atoms g) [] [] mapping mx sts0 with
      | Err e => Err e
      | Ok (na, nb, mp, _, sts) =>
          match g_patcher_rbonds tb (m_adj g) mp nb stb0 with
          | Err e => Err e
          | Ok (adj2, stb) =>
              match g_patcher_keep (m_atoms g) (m_adj g) del tetra na adj2 sts stb with
              | Err e => Err e
              | Ok (atoms', adj', _, _) => Ok (mkMol (erase_stereo atoms') (erase_adj adj'), mp)
              end
          end
      end
  end.
Proof. exact patcher_is_translated_text. Qed.
Print Assumptions C16_patcher_is_translated_text.

Theorem C16_translated_patcher_rbonds_example :
  g_patcher_rbonds [(1, [(2, mkBond 2 (Some true))]); (2, [(1, mkBond 2 (Some true))])] [] [(1, 5); (2, 6)] [(5, []); (6, [])] [] =
    Ok ([(5, [(6, mkBond 2 (Some true))]); (6, [(5, mkBond 2 (Some true))])], []) /\
  g_patcher_rbonds [(1, [(2, mkBond 2 None)]); (2, [(1, mkBond 2 None)])]
                   [(5, [(6, mkBond 2 (Some false))]); (6, [(5, mkBond 2 (Some false))])] [(1, 5); (2, 6)] [(5, []); (6, [])] [] =
    Ok ([(5, [(6, mkBond 2 None)]); (6, [(5, mkBond 2 None)])], [(5, 6)]) /\
  g_patcher_rbonds [(1, [(2, mkBond 2 None)]); (2, [(1, mkBond 2 None)])]
                   [(5, [(6, mkBond 1 (Some false))]); (6, [(5, mkBond 1 (Some false))])] [(1, 5); (2, 6)] [(5, []); (6, [])] [] =
    Ok ([(5, [(6, mkBond 2 None)]); (6, [(5, mkBond 2 None)])], []) /\
  g_patcher_rbonds [(1, [(2, mkBond 2 None)])] [] [(1, 5)] [(5, [])] [] = Err KeyError.
Proof. exact g_patcher_rbonds_example. Qed.
Print Assumptions C16_translated_patcher_rbonds_example.

(* ====================================================================================================
   round 5: Gen.ReactorInit (tools/gen_reactorinit.py, regenerated from base.py / transformer.py / reactor.py on every run):
   the expression assigned to self._to_delete, the fields BaseReactor.__init__ fills, the argument lists of the
   super().__init__ calls and the tail of _patcher that reads the flags.
   ==================================================================================================== *)
(* the translated _to_delete expression is, for ALL inputs, the duplicate-free list (set) of the hand-written to_delete_of ... *)
Theorem C16_translated_to_delete_is_model : forall pattern replacement delete_atoms,
  g_to_delete pattern replacement delete_atoms = nodup Z.eq_dec (to_delete_of pattern replacement delete_atoms).
Proof. exact g_to_delete_is_model. Qed.
Print Assumptions C16_translated_to_delete_is_model.

(* ... and literally to_delete_of when the pattern atoms have different numbers (they are the keys of a dict) *)
Theorem C16_translated_to_delete_is_model_dict : forall pattern replacement delete_atoms,
  NoDup (keys pattern) -> g_to_delete pattern replacement delete_atoms = to_delete_of pattern replacement delete_atoms.
Proof. exact g_to_delete_is_model_dict. Qed.
Print Assumptions C16_translated_to_delete_is_model_dict.

(* Transformer(pattern, replacement, delete_atoms, automorphism_filter, fix_aromatic_rings, fix_tautomers, copy_metadata): the
   replacement is what _patcher patches in, fix_aromatic_rings decides kekule/thiele, fix_tautomers is what thiele gets, and
   _to_delete is computed from (pattern, replacement, delete_atoms) *)
Theorem C16_transformer_wiring : forall (A : Type) (u : list A -> A) (pattern replacement : A)
    (delete_atoms automorphism_filter fix_aromatic_rings fix_tautomers copy_metadata : bool),
  wiring (g_transformer_super u pattern replacement delete_atoms automorphism_filter fix_aromatic_rings fix_tautomers copy_metadata) =
    (replacement, (if fix_aromatic_rings then KekuleThenThiele fix_tautomers else OnlyFixStereo), (pattern, replacement, delete_atoms)).
Proof. exact transformer_wiring. Qed.
Print Assumptions C16_transformer_wiring.

(* Reactor(patterns, products, delete_atoms=, one_shot=, polymerise_limit=, automorphism_filter=, fix_aromatic_rings=, fix_tautomers=):
   the same with the united patterns / products (u = reduce(or_, .)) *)
Theorem C16_reactor_wiring : forall (A : Type) (u : list A -> A) (patterns products : list A)
    (delete_atoms one_shot : bool) (polymerise_limit : Z) (automorphism_filter fix_aromatic_rings fix_tautomers : bool),
  wiring (g_reactor_super u patterns products delete_atoms one_shot polymerise_limit automorphism_filter fix_aromatic_rings fix_tautomers) =
    (u products, (if fix_aromatic_rings then KekuleThenThiele fix_tautomers else OnlyFixStereo), (u patterns, u products, delete_atoms)).
Proof. exact reactor_wiring. Qed.
Print Assumptions C16_reactor_wiring.

Theorem C16_wiring_example :
  snd (fst (wiring (g_transformer_super (fun _ => 0) 1 2 true true true false false))) = KekuleThenThiele false /\
  snd (fst (wiring (g_transformer_super (fun _ => 0) 1 2 true true false true false))) = OnlyFixStereo /\
  g_to_delete [(1, false); (2, true); (3, false); (4, false)] [1; 9] true = [3; 4] /\
  g_to_delete [(1, false); (2, true); (3, false)] [1] false = [].
Proof. exact wiring_example. Qed.
Print Assumptions C16_wiring_example.

(* reactor.fix_mapping_overlap (whole body) and the number-collision remap of Reactor._single_stage, translated statement by
   statement over the atom numbers of the molecules: equal to the hand-written models - the functions of C16_overlap_* and
   C16_stage_* above - whenever the numbers inside one molecule are different (they are the keys of a dict) *)
Theorem C16_translated_fix_mapping_overlap_is_model : forall structures,
  Forall (@NoDup Z) structures -> g_fix_mapping_overlap structures = fix_mapping_overlap structures.
Proof. exact g_fix_mapping_overlap_is_model. Qed.
Print Assumptions C16_translated_fix_mapping_overlap_is_model.

Theorem C16_translated_stage_remap_is_model : forall new ignored,
  NoDup new -> g_stage_remap new ignored = stage_remap new ignored.
Proof. exact g_stage_remap_is_model. Qed.
Print Assumptions C16_translated_stage_remap_is_model.

Theorem C16_translated_overlap_example :
  g_fix_mapping_overlap [[1; 2; 3]; [2; 3; 9]] = Ok [[1; 2; 3]; [10; 11; 9]] /\
  g_fix_mapping_overlap [[1; 2]] = Ok [[1; 2]] /\
  g_fix_mapping_overlap [[1; 2]; []; [2]] = Ok [[1; 2]; []; [3]] /\
  g_stage_remap [1; 2; 7; 8] [7; 8; 12] = Ok [1; 2; 13; 14] /\
  g_stage_remap [1; 2] [7; 8] = Ok [1; 2].
Proof. exact overlap_translated_example. Qed.
Print Assumptions C16_translated_overlap_example.
