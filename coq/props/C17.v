(* C17: fingerprints are structure functions with the documented fragment semantics.
   Theorem / exact / Print Assumptions only; proofs in Proofs.FingerprintProofs, model in Model.Fingerprint,
   hash model in Model.PyHash. *)
From Coq Require Import String ZArith List Bool Permutation.
From Model Require Import PyBase Graph PyHash Fingerprint FingerprintCGR LinearSmiles FingerprintVec MorganSmiles LinearSpell LinearSmilesFull ChainsTrace.
From Proofs Require Import FingerprintProofs FingerprintCGRProofs MorganNbhd MorganNbhdCGR LinearSmilesProofs LinearSmilesFixed FingerprintVecProofs MorganSmilesProofs LinearSpellProofs FingerprintConstsProofs ChainsTraceProofs FingerprintBodiesProofs FingerprintBodiesVec FingerprintBodiesSmiles.
From Gen Require Import FingerprintConsts FingerprintBodies.
Import ListNotations.
Open Scope Z_scope.

(* ---- _chains ---- *)
(* the set returned by _chains(lo, hi) is EXACTLY the set of simple paths with lo..hi atoms, each in one
   orientation (first atom number > last), without duplicates *)
Theorem C17_chains_exact : forall g lo hi p, wf_mol g = true -> 1 <= lo <= hi ->
  (In p (chains g lo hi) <-> simple_path g p /\ lo <= len_z p <= hi /\ canonical_dir p)
  /\ NoDup (chains g lo hi).
Proof. exact chains_exact. Qed.
Print Assumptions C17_chains_exact.

(* the same for ANY integer parameters (what the code does for min > max, min < 1, max < 2 is part of `yields`) *)
Theorem C17_chains_exact_any : forall g lo hi, wf_mol g = true ->
  (forall p, In p (chains g lo hi) <-> simple_path g p /\ yields lo hi (len_z p) /\ canonical_dir p)
  /\ NoDup (chains g lo hi).
Proof. exact chains_exact_any. Qed.
Print Assumptions C17_chains_exact_any.

Theorem C17_chains_sound : forall g lo hi p, wf_mol g = true -> 1 <= lo <= hi ->
  In p (chains g lo hi) -> simple_path g p /\ lo <= len_z p <= hi.
Proof. exact chains_sound. Qed.
Print Assumptions C17_chains_sound.

Theorem C17_chains_one_orientation : forall g lo hi p, wf_mol g = true ->
  In p (chains g lo hi) -> (2 <= length p)%nat -> ~ In (rev p) (chains g lo hi).
Proof. exact chains_one_orientation. Qed.
Print Assumptions C17_chains_one_orientation.

(* insertion orders (of atoms, of adjacency rows, of neighbours) do not matter *)
Theorem C17_chains_insertion_order_free : forall g g' lo hi, wf_mol g = true -> wf_mol g' = true ->
  (forall x, In x (ids g) <-> In x (ids g')) -> (forall x y, edge g x y <-> edge g' x y) ->
  forall p, In p (chains g lo hi) <-> In p (chains g' lo hi).
Proof. exact chains_insertion_order_free. Qed.
Print Assumptions C17_chains_insertion_order_free.

(* the deque loop of the code (model chains_loop, with fuel) computes the sequence the theorems are about *)
Theorem C17_chains_loop_refines : forall g lo hi, wf_mol g = true ->
  chains_seq_loop (chains_fuel g hi) g lo hi = Some (chains_seq g lo hi).
Proof. exact chains_loop_refines. Qed.
Print Assumptions C17_chains_loop_refines.

Theorem C17_chains_loop_any_fuel : forall g lo hi fuel r, wf_mol g = true ->
  chains_seq_loop fuel g lo hi = Some r -> r = chains_seq g lo hi.
Proof. exact chains_loop_any_fuel. Qed.
Print Assumptions C17_chains_loop_any_fuel.

(* ---- _fragments ---- *)
(* for any identifier / bond-order functions and any iteration order chs of the chain set: the list stored under
   key k consists of exactly the chains whose direction-independent key is k (each oriented to match the key) *)
Theorem C17_fragments_get : forall (idf : Z -> Z) (ord : Z -> Z -> Z) chs k,
  fget (fragments_of idf ord chs) k =
    map (fun f => snd (frag_entry idf ord f)) (filter (fun f => path_eqb k (frag_key idf ord f)) chs)
  /\ length (fget (fragments_of idf ord chs) k) = key_count idf ord chs k
  /\ NoDup (map fst (fragments_of idf ord chs)).
Proof. exact (fun idf ord chs k => conj (fragments_of_get idf ord chs k)
                                   (conj (fragments_of_count idf ord chs k) (fragments_of_keys_NoDup idf ord chs))). Qed.
Print Assumptions C17_fragments_get.

(* the multiset of fragment keys is invariant under every injective renumbering of the atoms *)
Theorem C17_fragments_equivariant : forall (s : Z -> Z) g lo hi,
  (forall x y, s x = s y -> x = y) -> wf_mol g = true ->
  Permutation (map (frag_key (ident (atom_identifiers g)) (bond_order g)) (chains g lo hi))
              (map (frag_key (ident (atom_identifiers (rename_mol s g))) (bond_order (rename_mol s g)))
                   (chains (rename_mol s g) lo hi)).
Proof. exact fragments_equivariant. Qed.
Print Assumptions C17_fragments_equivariant.

(* the hash collection is a function of the multiset of keys only: any iteration order of the chain set, any
   identifier functions with the same keys give the same set *)
Theorem C17_linear_hashes_keys_perm : forall idf ord idf' ord' (h : list Z -> Z) nbp chs chs',
  Permutation (map (frag_key idf ord) chs) (map (frag_key idf' ord') chs') ->
  forall x, In x (linear_hashes h nbp (fragments_of idf ord chs)) <->
            In x (linear_hashes h nbp (fragments_of idf' ord' chs')).
Proof. exact linear_hashes_keys_perm. Qed.
Print Assumptions C17_linear_hashes_keys_perm.

(* the fragment dictionary under renumbering / another insertion order: every key keeps its multiplicity (the list of a
   key that is absent is empty) *)
Theorem C17_fragment_counts_invariant : forall (s : Z -> Z) g lo hi k,
  (forall x y, s x = s y -> x = y) -> wf_mol g = true ->
  length (fget (fragments (rename_mol s g) lo hi) k) = length (fget (fragments g lo hi) k).
Proof. exact fragment_counts_invariant. Qed.
Print Assumptions C17_fragment_counts_invariant.

Theorem C17_fragment_counts_reordered : forall g g', wf_mol g = true -> wf_mol g' = true -> reordered g g' ->
  forall lo hi k, length (fget (fragments g lo hi) k) = length (fget (fragments g' lo hi) k).
Proof. exact fragment_counts_reordered. Qed.
Print Assumptions C17_fragment_counts_reordered.

(* ---- linear_hash_set / linear_bit_set ---- *)
Theorem C17_hash_sets_invariant : forall (h : list Z -> Z) (s : Z -> Z) g lo hi nbp,
  (forall x y, s x = s y -> x = y) -> wf_mol g = true ->
  forall x, In x (linear_hash_list h (rename_mol s g) lo hi nbp) <-> In x (linear_hash_list h g lo hi nbp).
Proof. exact hash_sets_invariant. Qed.
Print Assumptions C17_hash_sets_invariant.

Theorem C17_bit_sets_invariant : forall (h : list Z -> Z) (s : Z -> Z) g lo hi len nab nbp,
  (forall x y, s x = s y -> x = y) -> wf_mol g = true ->
  match linear_bit_list h (rename_mol s g) lo hi len nab nbp, linear_bit_list h g lo hi len nab nbp with
  | Ok bits', Ok bits => forall b, In b bits' <-> In b bits
  | Err e', Err e => e' = e
  | _, _ => False
  end.
Proof. exact bit_sets_invariant. Qed.
Print Assumptions C17_bit_sets_invariant.

Theorem C17_count_cap : forall (h : list Z -> Z) g lo hi nbp k vs,
  In (k, vs) (fragments g lo hi) ->
  let count := key_count (ident (atom_identifiers g)) (bond_order g) (chains g lo hi) k in
  (1 <= count)%nat /\ length vs = count /\
  fragment_hashes h nbp (k, vs) = map (fun c => h (k ++ [c])) (zrange 0 (Z.min (Z.of_nat count) (cap nbp))) /\
  length (fragment_hashes h nbp (k, vs)) = Z.to_nat (Z.min (Z.of_nat count) (cap nbp)).
Proof. exact count_cap. Qed.
Print Assumptions C17_count_cap.

Theorem C17_count_monotone : forall (h : list Z -> Z) nbp k (vs vs' : list path),
  (length vs <= length vs')%nat -> incl (fragment_hashes h nbp (k, vs)) (fragment_hashes h nbp (k, vs')).
Proof. exact count_monotone. Qed.
Print Assumptions C17_count_monotone.

(* ---- folding ---- *)
Theorem C17_bits_below_length : forall len nab hashes,
  (len <= 0 -> bit_list len nab hashes = Err ValueError) /\
  (0 < len -> exists bits, bit_list len nab hashes = Ok bits /\ forall b, In b bits -> 0 <= b < len).
Proof. exact bits_below_length. Qed.
Print Assumptions C17_bits_below_length.

Theorem C17_active_bits_law : forall len nab tpl, length (fold_bits len nab tpl) = Z.to_nat (Z.max 1 nab).
Proof. exact active_bits_law. Qed.
Print Assumptions C17_active_bits_law.

Theorem C17_bit_list_size : forall len nab hashes bits, bit_list len nab hashes = Ok bits ->
  length bits = (length hashes * Z.to_nat (Z.max 1 nab))%nat.
Proof. exact bit_list_size. Qed.
Print Assumptions C17_bit_list_size.

Theorem C17_fold_bits_windows : forall len nab tpl, 0 < len ->
  fold_bits len nab tpl =
  map (fun i => Z.land (Z.shiftr tpl (i * Z.log2 len)) (len - 1)) (zrange 0 (Z.max 1 nab)).
Proof. exact fold_bits_windows. Qed.
Print Assumptions C17_fold_bits_windows.

Theorem C17_fold_bits_pow2 : forall k nab tpl, 0 <= k ->
  fold_bits (2 ^ k) nab tpl = map (fun i => (tpl / 2 ^ (i * k)) mod 2 ^ k) (zrange 0 (Z.max 1 nab)).
Proof. exact fold_bits_pow2. Qed.
Print Assumptions C17_fold_bits_pow2.

(* ---- Morgan ---- *)
Theorem C17_morgan_hash_dict_rename : forall (h : list Z -> Z) (s : Z -> Z),
  (forall x y, s x = s y -> x = y) -> forall g lo hi,
  morgan_hash_dict h (rename_mol s g) lo hi =
  match morgan_hash_dict h g lo hi with
  | Ok ds => Ok (map (fun d => map (fun e => (s (fst e), snd e)) d) ds)
  | Err e => Err e
  end.
Proof. exact morgan_hash_dict_rename. Qed.
Print Assumptions C17_morgan_hash_dict_rename.

Theorem C17_morgan_hash_list_rename : forall (h : list Z -> Z) (s : Z -> Z),
  (forall x y, s x = s y -> x = y) -> forall g lo hi,
  morgan_hash_list h (rename_mol s g) lo hi = morgan_hash_list h g lo hi.
Proof. exact morgan_hash_list_rename. Qed.
Print Assumptions C17_morgan_hash_list_rename.

Theorem C17_morgan_bit_list_rename : forall (h : list Z -> Z) (s : Z -> Z),
  (forall x y, s x = s y -> x = y) -> forall g lo hi len nab,
  morgan_bit_list h (rename_mol s g) lo hi len nab = morgan_bit_list h g lo hi len nab.
Proof. exact morgan_bit_list_rename. Qed.
Print Assumptions C17_morgan_bit_list_rename.

Theorem C17_sort_pairs_order_free : forall l l', Permutation l l' -> sort_pairs l = sort_pairs l'.
Proof. exact sort_pairs_order_free. Qed.
Print Assumptions C17_sort_pairs_order_free.

Theorem C17_morgan_atom_neighbour_order : forall (h : list Z -> Z) g g2 d d2 idx tpl,
  Permutation (nbrs g idx) (nbrs g2 idx) -> (forall x, ident d x = ident d2 x) ->
  morgan_atom h g d idx tpl = morgan_atom h g2 d2 idx tpl.
Proof. exact morgan_atom_neighbour_order. Qed.
Print Assumptions C17_morgan_atom_neighbour_order.

(* ---- the documented semantics, stated without reference to the enumeration order of the code ---- *)
(* the linear hash set: for ANY duplicate-free list ps of exactly the simple paths with lo..hi atoms (one orientation
   each), x is in the set iff x = h(key, c) for a fragment key and a counter c below min(number of paths of ps with
   that key, cap) *)
Theorem C17_linear_hash_list_exact : forall (h : list Z -> Z) g lo hi nbp ps, wf_mol g = true -> 1 <= lo <= hi ->
  NoDup ps -> (forall p, In p ps <-> simple_path g p /\ lo <= len_z p <= hi /\ canonical_dir p) ->
  forall x, In x (linear_hash_list h g lo hi nbp) <->
    exists k c, x = h (k ++ [c]) /\
      0 <= c < Z.min (Z.of_nat (key_count (ident (atom_identifiers g)) (bond_order g) ps k)) (cap nbp).
Proof. exact linear_hash_list_exact. Qed.
Print Assumptions C17_linear_hash_list_exact.

(* _morgan_hash_dict(min, max): AssertionError for min < 1 or max < min, otherwise the identifier dictionaries after
   min-1 .. max-1 refinement rounds, in this order *)
Theorem C17_morgan_hash_dict_levels : forall (h : list Z -> Z) g lo hi,
  morgan_hash_dict h g lo hi =
    if (lo <? 1) || (hi <? lo) then Err OtherError
    else Ok (map (morgan_level h g) (seq (Z.to_nat (lo - 1)) (Z.to_nat (hi - lo + 1)))).
Proof. exact morgan_hash_dict_levels. Qed.
Print Assumptions C17_morgan_hash_dict_levels.

(* ... where round 0 is the atom identifier, every round keeps the atoms, and the identifier of atom a after r+1 rounds
   is the hash of its identifier after r rounds followed by the sorted (bond order, neighbour identifier after r
   rounds) pairs: the iterated neighbourhood identifier *)
Theorem C17_morgan_level_value : forall (h : list Z -> Z) g r a,
  keys (morgan_level h g r) = ids g /\
  ident (morgan_level h g 0) a = ident (atom_identifiers g) a /\
  (In a (ids g) ->
   ident (morgan_level h g (S r)) a =
     h (ident (morgan_level h g r) a ::
        flatten_pairs (sort_pairs (map (fun nb => (b_ord (snd nb), ident (morgan_level h g r) (fst nb))) (nbrs g a))))).
Proof. exact (fun h g r a => conj (morgan_level_keys h g r) (conj (morgan_level_0 h g a) (morgan_level_value h g r a))). Qed.
Print Assumptions C17_morgan_level_value.

(* ---- insertion order: the same items in another order in the atom dictionary and in the neighbour dictionaries ---- *)
Theorem C17_linear_hash_list_reordered : forall g g', wf_mol g = true -> wf_mol g' = true -> reordered g g' ->
  forall (h : list Z -> Z) lo hi nbp x,
  In x (linear_hash_list h g lo hi nbp) <-> In x (linear_hash_list h g' lo hi nbp).
Proof. exact linear_hash_list_reordered. Qed.
Print Assumptions C17_linear_hash_list_reordered.

Theorem C17_linear_bit_list_reordered : forall g g', wf_mol g = true -> wf_mol g' = true -> reordered g g' ->
  forall (h : list Z -> Z) lo hi len nab nbp,
  match linear_bit_list h g lo hi len nab nbp, linear_bit_list h g' lo hi len nab nbp with
  | Ok bits, Ok bits' => forall b, In b bits <-> In b bits'
  | Err e, Err e' => e = e'
  | _, _ => False
  end.
Proof. exact linear_bit_list_reordered. Qed.
Print Assumptions C17_linear_bit_list_reordered.

Theorem C17_morgan_hash_list_reordered : forall g g', wf_mol g = true -> reordered g g' ->
  forall (h : list Z -> Z) lo hi,
  match morgan_hash_list h g lo hi, morgan_hash_list h g' lo hi with
  | Ok l, Ok l' => Permutation l l'
  | Err e, Err e' => e = e'
  | _, _ => False
  end.
Proof. exact morgan_hash_list_reordered. Qed.
Print Assumptions C17_morgan_hash_list_reordered.

Theorem C17_morgan_bit_list_reordered : forall g g', wf_mol g = true -> reordered g g' ->
  forall (h : list Z -> Z) lo hi len nab,
  match morgan_bit_list h g lo hi len nab, morgan_bit_list h g' lo hi len nab with
  | Ok bits, Ok bits' => Permutation bits bits'
  | Err e, Err e' => e = e'
  | _, _ => False
  end.
Proof. exact morgan_bit_list_reordered. Qed.
Print Assumptions C17_morgan_bit_list_reordered.

(* ---- the evaluation of the tuple hash used by the correspondence check (bit masks instead of `mod 2^64`) is the
        hash model Model.PyHash.hash_ztuple ---- *)
Theorem C17_hash_ztuple_fast_eq : forall l, hash_ztuple_fast l = hash_ztuple l.
Proof. exact hash_ztuple_fast_eq. Qed.
Print Assumptions C17_hash_ztuple_fast_eq.

(* ---- non-vacuity: the hypotheses hold on a concrete molecule and the model returns chython's values ---- *)
Theorem C17_example_nonvacuous :
  wf_mol ex_mol = true /\
  set_paths (chains ex_mol 1 3) = [[1]; [2]; [2; 1]; [3]; [3; 2]; [3; 2; 1]; [4]; [4; 2]; [4; 2; 1]; [4; 2; 3]] /\
  chains_seq_loop (chains_fuel ex_mol 3) ex_mol 1 3 = Some (chains_seq ex_mol 1 3) /\
  (forall x y : Z, 7 - x = 7 - y -> x = y) /\
  set_z (linear_hash_list hash_ztuple (rename_mol (fun x => 7 - x) ex_mol) 1 3 2) =
  set_z (linear_hash_list hash_ztuple ex_mol 1 3 2) /\
  length (set_z (linear_hash_list hash_ztuple ex_mol 1 3 2)) = 9%nat /\
  morgan_hash_list hash_ztuple ex_mol 1 2 =
    Ok [-3850700631077715909; -3850700631077715909; -3850700631077715909; 3311492739671872531;
        6744783386241714987; -713217080876991613; 6744783386241714987; -5079278463555148377] /\
  fold_bits 1024 3 (-5079278463555148377) = [423; 57; 136].
Proof. exact example_nonvacuous. Qed.
Print Assumptions C17_example_nonvacuous.

(* non-vacuity of `reordered`: 2-propanol with atoms and neighbours inserted in another order *)
Theorem C17_example_reordered :
  wf_mol ex_mol = true /\ wf_mol ex_mol2 = true /\ reordered ex_mol ex_mol2 /\
  m_atoms ex_mol <> m_atoms ex_mol2 /\ nbrs ex_mol 2 <> nbrs ex_mol2 2 /\
  morgan_hash_list hash_ztuple ex_mol2 1 2 =
    Ok [-3850700631077715909; -3850700631077715909; -3850700631077715909; 3311492739671872531;
        -713217080876991613; 6744783386241714987; 6744783386241714987; -5079278463555148377] /\
  morgan_level hash_ztuple ex_mol 1 =
    [(1, 6744783386241714987); (2, -713217080876991613); (3, 6744783386241714987); (4, -5079278463555148377)].
Proof. exact example_reordered. Qed.
Print Assumptions C17_example_reordered.

(* ==================================================================================================== *)
(* EXTENSION 1: FingerprintsCGR.  Model.FingerprintCGR: the shared fingerprint methods run on the skeleton of the CGR
   (bond "order" = int(DynamicBond) = hash((order or 0, p_order or 0))) with the CGR identifier dictionary
   hash((isotope or 0, atomic_number, charge, p_charge, is_radical, p_is_radical)). *)

(* the two hashes of the CGR model are the CPython tuple hash (Model.PyHash.py_hash) of the tuples the code builds *)
Theorem C17_cgr_hashes_pyhash : forall a b,
  cgr_atom_identifier a = py_hash (PTuple [PInt (or0 (ca_iso a)); PInt (ca_num a); PInt (ca_chg a); PInt (ca_pchg a);
                                           PBool (ca_rad a); PBool (ca_prad a)]) /\
  cbond_int b = py_hash (PTuple [PInt (or0 (cb_ord b)); PInt (or0 (cb_pord b))]).
Proof. exact (fun a b => conj (cgr_atom_identifier_pyhash a) (cbond_int_pyhash b)). Qed.
Print Assumptions C17_cgr_hashes_pyhash.

(* the theorems for an ARBITRARY identifier dictionary idd (molecules and CGRs are instances) *)
Theorem C17_linear_hashes_with_rename : forall (s : Z -> Z), (forall x y, s x = s y -> x = y) ->
  forall (h : list Z -> Z) idd g lo hi nbp, wf_mol g = true ->
  forall x, In x (linear_hashes h nbp (fragments_with (ren s idd) (rename_mol s g) lo hi)) <->
            In x (linear_hashes h nbp (fragments_with idd g lo hi)).
Proof. exact linear_hashes_with_rename. Qed.
Print Assumptions C17_linear_hashes_with_rename.

Theorem C17_morgan_hash_dict_with_rename : forall (s : Z -> Z), (forall x y, s x = s y -> x = y) ->
  forall (h : list Z -> Z) idd g lo hi,
  morgan_hash_dict_with h (ren s idd) (rename_mol s g) lo hi =
  match morgan_hash_dict_with h idd g lo hi with Ok ds => Ok (map (ren s) ds) | Err e => Err e end.
Proof. exact morgan_hash_dict_with_rename. Qed.
Print Assumptions C17_morgan_hash_dict_with_rename.

Theorem C17_cgr_chains_exact : forall c lo hi p, wf_cgr c = true -> 1 <= lo <= hi ->
  (In p (cgr_chains c lo hi) <-> simple_path (cgr_skeleton c) p /\ lo <= len_z p <= hi /\ canonical_dir p)
  /\ NoDup (cgr_chains c lo hi).
Proof. exact cgr_chains_exact. Qed.
Print Assumptions C17_cgr_chains_exact.

Theorem C17_cgr_linear_hash_list_exact : forall (h : list Z -> Z) c lo hi nbp ps, wf_cgr c = true -> 1 <= lo <= hi ->
  NoDup ps -> (forall p, In p ps <-> simple_path (cgr_skeleton c) p /\ lo <= len_z p <= hi /\ canonical_dir p) ->
  forall x, In x (cgr_linear_hash_list h c lo hi nbp) <->
    exists k c0, x = h (k ++ [c0]) /\
      0 <= c0 < Z.min (Z.of_nat (key_count (ident (cgr_atom_identifiers c)) (bond_order (cgr_skeleton c)) ps k)) (cap nbp).
Proof. exact cgr_linear_hash_list_exact. Qed.
Print Assumptions C17_cgr_linear_hash_list_exact.

(* numbering *)
Theorem C17_cgr_hash_sets_invariant : forall (s : Z -> Z), (forall x y, s x = s y -> x = y) ->
  forall (h : list Z -> Z) c lo hi nbp, wf_cgr c = true ->
  forall x, In x (cgr_linear_hash_list h (rename_cgr s c) lo hi nbp) <-> In x (cgr_linear_hash_list h c lo hi nbp).
Proof. exact cgr_hash_sets_invariant. Qed.
Print Assumptions C17_cgr_hash_sets_invariant.

Theorem C17_cgr_fragment_counts_invariant : forall (s : Z -> Z), (forall x y, s x = s y -> x = y) ->
  forall c lo hi k, wf_cgr c = true ->
  length (fget (cgr_fragments (rename_cgr s c) lo hi) k) = length (fget (cgr_fragments c lo hi) k).
Proof. exact cgr_fragment_counts_invariant. Qed.
Print Assumptions C17_cgr_fragment_counts_invariant.

Theorem C17_cgr_bit_sets_invariant : forall (s : Z -> Z), (forall x y, s x = s y -> x = y) ->
  forall (h : list Z -> Z) c lo hi len nab nbp, wf_cgr c = true ->
  match cgr_linear_bit_list h (rename_cgr s c) lo hi len nab nbp, cgr_linear_bit_list h c lo hi len nab nbp with
  | Ok bits', Ok bits => forall b, In b bits' <-> In b bits
  | Err e', Err e => e' = e
  | _, _ => False
  end.
Proof. exact cgr_bit_sets_invariant. Qed.
Print Assumptions C17_cgr_bit_sets_invariant.

Theorem C17_cgr_morgan_hash_dict_rename : forall (s : Z -> Z), (forall x y, s x = s y -> x = y) ->
  forall (h : list Z -> Z) c lo hi,
  cgr_morgan_hash_dict h (rename_cgr s c) lo hi =
  match cgr_morgan_hash_dict h c lo hi with Ok ds => Ok (map (ren s) ds) | Err e => Err e end.
Proof. exact cgr_morgan_hash_dict_rename. Qed.
Print Assumptions C17_cgr_morgan_hash_dict_rename.

Theorem C17_cgr_morgan_hash_list_rename : forall (s : Z -> Z), (forall x y, s x = s y -> x = y) ->
  forall (h : list Z -> Z) c lo hi, cgr_morgan_hash_list h (rename_cgr s c) lo hi = cgr_morgan_hash_list h c lo hi.
Proof. exact cgr_morgan_hash_list_rename. Qed.
Print Assumptions C17_cgr_morgan_hash_list_rename.

Theorem C17_cgr_morgan_bit_list_rename : forall (s : Z -> Z), (forall x y, s x = s y -> x = y) ->
  forall (h : list Z -> Z) c lo hi len nab,
  cgr_morgan_bit_list h (rename_cgr s c) lo hi len nab = cgr_morgan_bit_list h c lo hi len nab.
Proof. exact cgr_morgan_bit_list_rename. Qed.
Print Assumptions C17_cgr_morgan_bit_list_rename.

(* insertion order *)
Theorem C17_cgr_linear_hash_list_reordered : forall c c', wf_cgr c = true -> wf_cgr c' = true -> cgr_reordered c c' ->
  forall (h : list Z -> Z) lo hi nbp x,
  In x (cgr_linear_hash_list h c lo hi nbp) <-> In x (cgr_linear_hash_list h c' lo hi nbp).
Proof. exact cgr_linear_hash_list_reordered. Qed.
Print Assumptions C17_cgr_linear_hash_list_reordered.

Theorem C17_cgr_linear_bit_list_reordered : forall c c', wf_cgr c = true -> wf_cgr c' = true -> cgr_reordered c c' ->
  forall (h : list Z -> Z) lo hi len nab nbp,
  match cgr_linear_bit_list h c lo hi len nab nbp, cgr_linear_bit_list h c' lo hi len nab nbp with
  | Ok bits, Ok bits' => forall b, In b bits <-> In b bits'
  | Err e, Err e' => e = e'
  | _, _ => False
  end.
Proof. exact cgr_linear_bit_list_reordered. Qed.
Print Assumptions C17_cgr_linear_bit_list_reordered.

Theorem C17_cgr_morgan_hash_list_reordered : forall c c', wf_cgr c = true -> cgr_reordered c c' ->
  forall (h : list Z -> Z) lo hi,
  match cgr_morgan_hash_list h c lo hi, cgr_morgan_hash_list h c' lo hi with
  | Ok l, Ok l' => Permutation l l'
  | Err e, Err e' => e = e'
  | _, _ => False
  end.
Proof. exact cgr_morgan_hash_list_reordered. Qed.
Print Assumptions C17_cgr_morgan_hash_list_reordered.

Theorem C17_cgr_morgan_bit_list_reordered : forall c c', wf_cgr c = true -> cgr_reordered c c' ->
  forall (h : list Z -> Z) lo hi len nab,
  match cgr_morgan_bit_list h c lo hi len nab, cgr_morgan_bit_list h c' lo hi len nab with
  | Ok bits, Ok bits' => Permutation bits bits'
  | Err e, Err e' => e = e'
  | _, _ => False
  end.
Proof. exact cgr_morgan_bit_list_reordered. Qed.
Print Assumptions C17_cgr_morgan_bit_list_reordered.

(* Morgan semantics *)
Theorem C17_cgr_morgan_hash_dict_levels : forall (h : list Z -> Z) c lo hi,
  cgr_morgan_hash_dict h c lo hi =
    if (lo <? 1) || (hi <? lo) then Err OtherError
    else Ok (map (cgr_morgan_level h c) (seq (Z.to_nat (lo - 1)) (Z.to_nat (hi - lo + 1)))).
Proof. exact cgr_morgan_hash_dict_levels. Qed.
Print Assumptions C17_cgr_morgan_hash_dict_levels.

Theorem C17_cgr_morgan_level_value : forall (h : list Z -> Z) c r a, In a (keys (c_atoms c)) ->
  ident (cgr_morgan_level h c (S r)) a =
    h (ident (cgr_morgan_level h c r) a ::
       flatten_pairs (sort_pairs (map (fun nb => (cbond_int (snd nb), ident (cgr_morgan_level h c r) (fst nb))) (cgr_nbrs c a)))).
Proof. exact cgr_morgan_level_value. Qed.
Print Assumptions C17_cgr_morgan_level_value.

(* non-vacuity: the CGR acetic acid > acetate (values equal to chython's) and a reordered copy *)
Theorem C17_example_cgr :
  wf_cgr ex_cgr = true /\ wf_cgr ex_cgr2 = true /\ cgr_reordered ex_cgr ex_cgr2 /\
  cgr_atom_identifiers ex_cgr =
    [(1, -5731264841243058737); (2, -5731264841243058737); (3, 1166397159408131971); (4, 5478730751422717551)] /\
  cbond_int (cb 1 1) = 8389048192121911274 /\ cbond_int (cb 2 2) = 1901736143494378007 /\
  cgr_morgan_hash_dict hash_ztuple ex_cgr 2 2 =
    Ok [[(1, 2134285870374715006); (2, 2365127763220417952); (3, -1335216503850562694); (4, -3774162219190633511)]] /\
  set_z (cgr_linear_hash_list hash_ztuple (rename_cgr (fun x => 9 - x) ex_cgr) 1 3 2) =
  set_z (cgr_linear_hash_list hash_ztuple ex_cgr 1 3 2) /\
  hd 0 (set_z (cgr_linear_hash_list hash_ztuple ex_cgr 1 3 2)) = -7638454244423420739.
Proof. exact example_cgr. Qed.
Print Assumptions C17_example_cgr.

(* ==================================================================================================== *)
(* EXTENSION 2: what the Morgan identifier means.  `within g a k x`: x is reachable from a by at most k bonds;
   `nbhd_iso g g' f a r`: a is an atom of g, f a one of g', f preserves the atom identifier of every atom within distance r of
   a and maps the (neighbour, bond order) items of every atom within distance < r onto those of its image, up to order.
   Every rooted isomorphism of the radius-r neighbourhoods is one (f need not even be injective).  Then a and f a have the
   same identifier after r rounds, for EVERY hash function. *)
Theorem C17_morgan_level_neighbourhood_invariant : forall (h : list Z -> Z) g g' (f : Z -> Z),
  wf_mol g = true -> wf_mol g' = true -> forall a r, nbhd_iso g g' f a r ->
  ident (morgan_level h g r) a = ident (morgan_level h g' r) (f a).
Proof. exact morgan_level_neighbourhood_invariant. Qed.
Print Assumptions C17_morgan_level_neighbourhood_invariant.

(* the definition of nbhd_iso, spelled out (so that the statement above can be read without the proof file) *)
Theorem C17_nbhd_iso_unfold : forall g g' f a r, nbhd_iso g g' f a r <->
  In a (ids g) /\ In (f a) (ids g') /\
  (forall k x, (k <= r)%nat -> within g a k x -> ident (atom_identifiers g) x = ident (atom_identifiers g') (f x)) /\
  (forall k x, (k < r)%nat -> within g a k x ->
     Permutation (map (fun it => (f (fst it), snd it)) (map (fun nb => (fst nb, b_ord (snd nb))) (nbrs g x)))
                 (map (fun nb => (fst nb, b_ord (snd nb))) (nbrs g' (f x)))).
Proof. exact (fun g g' f a r => iff_refl _). Qed.
Print Assumptions C17_nbhd_iso_unfold.

(* a renumbering is a neighbourhood isomorphism of every atom at every radius *)
Theorem C17_rename_nbhd_iso : forall (s : Z -> Z) g a r, (forall x y, s x = s y -> x = y) -> In a (ids g) ->
  nbhd_iso g (rename_mol s g) s a r.
Proof. exact rename_nbhd_iso. Qed.
Print Assumptions C17_rename_nbhd_iso.

(* non-vacuity: the two methyl carbons of 2-propanol (automorphism 1 <-> 3, radius 5: the whole molecule); the methyl
   carbon of 2-propanol and of ethanol agree at radius 1 for every hash and differ at radius 2 for CPython's hash *)
Theorem C17_example_nbhd :
  nbhd_iso ex_mol ex_mol swap13 1 5 /\
  (forall h : list Z -> Z, ident (morgan_level h ex_mol 5) 1 = ident (morgan_level h ex_mol 5) 3) /\
  nbhd_iso ex_mol ethanol (fun x => x) 1 1 /\
  (forall h : list Z -> Z, ident (morgan_level h ex_mol 1) 1 = ident (morgan_level h ethanol 1) 1) /\
  ident (morgan_level hash_ztuple ex_mol 2) 1 <> ident (morgan_level hash_ztuple ethanol 2) 1 /\
  wf_mol ethanol = true.
Proof. exact example_nbhd. Qed.
Print Assumptions C17_example_nbhd.

(* ==================================================================================================== *)
(* EXTENSION 3: linear_hash_smiles (Model.LinearSmiles).  Inputs taken from the implementation: the iteration order chs of
   the chain set and the spelling functions fa / fb of the SMILES writer. *)

(* what the dictionary of the code holds: key x has the spelling of the FIRST chain (chains[0]) of every fragment one of
   whose hashes is x *)
Theorem C17_lhs_of_get : forall (fa : Z -> string) (fb : Z -> Z -> string) (h : list Z -> Z) nbp frs x s,
  In s (sget (lhs_of fa fb h nbp frs) x) <->
  exists e, In e frs /\ In x (entry_hashes h nbp e) /\ s = spell fa fb (hd [] (snd e)).
Proof. exact lhs_of_get. Qed.
Print Assumptions C17_lhs_of_get.

(* "linear_hash_smiles does not depend on the atom numbering" is FALSE for the code as it is: methoxide + hydroxide
   C[O-].[OH-], atoms 2 <-> 3; the model returns chython's dictionaries for the two numberings ('[O-]' / '[OH-]') *)
Theorem C17_lhs_witness_values :
  wf_mol w_mol = true /\
  linear_hash_smiles_with w_fa w_fb hash_ztuple (atom_identifiers w_mol) w_mol w_chs 4 =
    [(4844287390989025609, ["C"%string]); (8876755388055710236, ["[O-]"%string]); (-3062347929551842955, ["[O-]"%string])] /\
  linear_hash_smiles_with w_fa' w_fb hash_ztuple (atom_identifiers (rename_mol w_swap w_mol)) (rename_mol w_swap w_mol) w_chs 4 =
    [(4844287390989025609, ["C"%string]); (8876755388055710236, ["[OH-]"%string]); (-3062347929551842955, ["[OH-]"%string])] /\
  chains w_mol 1 1 = w_chs /\ Permutation w_chs (chains (rename_mol w_swap w_mol) 1 1).
Proof. exact witness_values. Qed.
Print Assumptions C17_lhs_witness_values.

Theorem C17_linear_hash_smiles_numbering_refuted : ~ lhs_numbering_independent linear_hash_smiles_with.
Proof. exact linear_hash_smiles_numbering_refuted. Qed.
Print Assumptions C17_linear_hash_smiles_numbering_refuted.

(* the property that is refuted, spelled out *)
Theorem C17_lhs_numbering_independent_unfold : forall f, lhs_numbering_independent f <->
  forall (fa fa' : Z -> string) (fb fb' : Z -> Z -> string) (h : list Z -> Z) (s : Z -> Z) g lo hi nbp chs chs',
    (forall x y, s x = s y -> x = y) -> wf_mol g = true ->
    (forall x, fa' (s x) = fa x) -> (forall x y, fb' (s x) (s y) = fb x y) ->
    Permutation chs (chains g lo hi) -> Permutation chs' (chains (rename_mol s g) lo hi) ->
    forall k str,
      In str (sget (f fa fb h (atom_identifiers g) g chs nbp) k) <->
      In str (sget (f fa' fb' h (atom_identifiers (rename_mol s g)) (rename_mol s g) chs' nbp) k).
Proof. exact (fun f => iff_refl _). Qed.
Print Assumptions C17_lhs_numbering_independent_unfold.

(* the suggested fix (lhs_of_fixed: spell EVERY chain of the fragment, both directions when the key is a palindrome) has the
   property the code lacks, for every renumbering, every pair of spelling functions that agree on corresponding atoms and
   bonds and EVERY iteration order of the two chain sets ... *)
Theorem C17_linear_hash_smiles_fixed_numbering_independent : lhs_numbering_independent linear_hash_smiles_fixed_with.
Proof. exact linear_hash_smiles_fixed_numbering_independent. Qed.
Print Assumptions C17_linear_hash_smiles_fixed_numbering_independent.

(* ... and does not depend on the iteration order of the chain set *)
Theorem C17_linear_hash_smiles_fixed_order_independent :
  forall (fa : Z -> string) (fb : Z -> Z -> string) (h : list Z -> Z) g nbp chs chs',
  wf_mol g = true -> Permutation chs chs' -> forall k str,
  In str (sget (linear_hash_smiles_fixed_with fa fb h (atom_identifiers g) g chs nbp) k) <->
  In str (sget (linear_hash_smiles_fixed_with fa fb h (atom_identifiers g) g chs' nbp) k).
Proof. exact linear_hash_smiles_fixed_order_independent. Qed.
Print Assumptions C17_linear_hash_smiles_fixed_order_independent.

(* what the dictionary of the fix holds: key x has the spellings (of the directions that spell the key) of all chains of
   every fragment key k one of whose hashes h(k, c), c < min(count, cap), is x *)
Theorem C17_fixed_get : forall (idf : Z -> Z) (ord : Z -> Z -> Z), (forall x y, ord x y = ord y x) ->
  forall (fa : Z -> string) (fb : Z -> Z -> string) (h : list Z -> Z) nbp chs x str,
  In str (sget (lhs_of_fixed fa fb h nbp (fragments_of idf ord chs)) x) <->
  exists k c, x = h (k ++ [c]) /\ 0 <= c < Z.min (Z.of_nat (key_count idf ord chs k)) (cap nbp) /\
    exists p q, In p chs /\ frag_key idf ord p = k /\ (q = p \/ q = rev p) /\ frag_var idf ord q = k /\ str = spell fa fb q.
Proof. exact fixed_get. Qed.
Print Assumptions C17_fixed_get.

Theorem C17_lhs_witness_fixed_values :
  linear_hash_smiles_fixed_with w_fa w_fb hash_ztuple (atom_identifiers w_mol) w_mol w_chs 4 =
    [(4844287390989025609, ["C"%string]); (8876755388055710236, ["[O-]"%string; "[OH-]"%string]);
     (-3062347929551842955, ["[O-]"%string; "[OH-]"%string])] /\
  linear_hash_smiles_fixed_with w_fa' w_fb hash_ztuple (atom_identifiers (rename_mol w_swap w_mol)) (rename_mol w_swap w_mol) w_chs 4 =
    [(4844287390989025609, ["C"%string]); (8876755388055710236, ["[OH-]"%string; "[O-]"%string]);
     (-3062347929551842955, ["[OH-]"%string; "[O-]"%string])].
Proof. exact witness_fixed_values. Qed.
Print Assumptions C17_lhs_witness_fixed_values.

(* ==================================================================================================== *)
(* EXTENSION 2 for CGR containers (and for any identifier dictionary): the same characterisation of the Morgan identifier *)
Theorem C17_morgan_iter_neighbourhood_invariant : forall (h : list Z -> Z) g g' idd idd' (f : Z -> Z),
  wf_mol g = true -> wf_mol g' = true -> keys idd = ids g -> keys idd' = ids g' ->
  forall a r, nbhd_iso_with idd idd' g g' f a r ->
  ident (Nat.iter r (morgan_step h g) idd) a = ident (Nat.iter r (morgan_step h g') idd') (f a).
Proof. exact morgan_iter_neighbourhood_invariant. Qed.
Print Assumptions C17_morgan_iter_neighbourhood_invariant.

Theorem C17_cgr_morgan_level_neighbourhood_invariant : forall (h : list Z -> Z) c c' (f : Z -> Z) a r,
  wf_cgr c = true -> wf_cgr c' = true -> cgr_nbhd_iso c c' f a r ->
  ident (cgr_morgan_level h c r) a = ident (cgr_morgan_level h c' r) (f a).
Proof. exact cgr_morgan_level_neighbourhood_invariant. Qed.
Print Assumptions C17_cgr_morgan_level_neighbourhood_invariant.

Theorem C17_cgr_nbhd_iso_unfold : forall c c' f a r, cgr_nbhd_iso c c' f a r <->
  In a (ids (cgr_skeleton c)) /\ In (f a) (ids (cgr_skeleton c')) /\
  (forall k x, (k <= r)%nat -> within (cgr_skeleton c) a k x ->
     ident (cgr_atom_identifiers c) x = ident (cgr_atom_identifiers c') (f x)) /\
  (forall k x, (k < r)%nat -> within (cgr_skeleton c) a k x ->
     Permutation (map (fun it => (f (fst it), snd it)) (nb_items (cgr_skeleton c) x)) (nb_items (cgr_skeleton c') (f x))).
Proof. exact (fun c c' f a r => iff_refl _). Qed.
Print Assumptions C17_cgr_nbhd_iso_unfold.

Theorem C17_example_cgr_nbhd :
  cgr_nbhd_iso ex_cgr ex_cgr2 (fun x => x) 1 1 /\
  (forall h : list Z -> Z, ident (cgr_morgan_level h ex_cgr 1) 1 = ident (cgr_morgan_level h ex_cgr2 1) 1).
Proof. exact example_cgr_nbhd. Qed.
Print Assumptions C17_example_cgr_nbhd.

(* ==================================================================================================== *)
(* SECOND ROUND (1): the array forms linear_fingerprint / morgan_fingerprint (Model.FingerprintVec: zeros(length) followed
   by the numpy assignment fingerprints[list(bits)] = 1, which wraps negative positions and raises IndexError outside
   [-length, length)).  `is_char_vector_of len r v`, spelled out by C17_is_char_vector_of_unfold: r and v fail with the same
   exception, or r = Ok bits, v = Ok vec and vec has `len` entries, all 0 or 1, entry i is 1 iff i is in bits (0 iff
   not), vec = char_vector len bits.  In particular IndexError never occurs. *)
Theorem C17_is_char_vector_of_unfold : forall len r v, is_char_vector_of len r v <->
  match r, v with
  | Ok bits, Ok vec =>
      length vec = Z.to_nat len /\ (forall x, In x vec -> x = 0 \/ x = 1) /\
      (forall i, 0 <= i < len -> (nth (Z.to_nat i) vec 0 = 1 <-> In i bits) /\ (nth (Z.to_nat i) vec 0 = 0 <-> ~ In i bits)) /\
      vec = char_vector len bits
  | Err e, Err e' => e = e'
  | _, _ => False
  end.
Proof. exact (fun len r v => iff_refl _). Qed.
Print Assumptions C17_is_char_vector_of_unfold.

Theorem C17_linear_fingerprint_spec : forall (h : list Z -> Z) g lo hi len nab nbp,
  is_char_vector_of len (linear_bit_list h g lo hi len nab nbp) (linear_fingerprint h g lo hi len nab nbp).
Proof. exact linear_fingerprint_spec. Qed.
Print Assumptions C17_linear_fingerprint_spec.

Theorem C17_morgan_fingerprint_spec : forall (h : list Z -> Z) g lo hi len nab,
  is_char_vector_of len (morgan_bit_list h g lo hi len nab) (morgan_fingerprint h g lo hi len nab).
Proof. exact morgan_fingerprint_spec. Qed.
Print Assumptions C17_morgan_fingerprint_spec.

Theorem C17_cgr_fingerprint_spec : forall (h : list Z -> Z) c lo hi len nab nbp,
  is_char_vector_of len (cgr_linear_bit_list h c lo hi len nab nbp) (cgr_linear_fingerprint h c lo hi len nab nbp) /\
  is_char_vector_of len (cgr_morgan_bit_list h c lo hi len nab) (cgr_morgan_fingerprint h c lo hi len nab).
Proof. exact (fun h c lo hi len nab nbp => conj (cgr_linear_fingerprint_spec h c lo hi len nab nbp) (cgr_morgan_fingerprint_spec h c lo hi len nab)). Qed.
Print Assumptions C17_cgr_fingerprint_spec.

(* for ANY hash list: ValueError for length <= 0, otherwise the characteristic vector of the folded bits *)
Theorem C17_vec_of_bit_list : forall len nab hashes,
  (len <= 0 -> vec_of len (bit_list len nab hashes) = Err ValueError) /\
  (0 < len -> exists bits, bit_list len nab hashes = Ok bits /\ vec_of len (bit_list len nab hashes) = Ok (char_vector len bits)).
Proof. exact vec_of_bit_list. Qed.
Print Assumptions C17_vec_of_bit_list.

(* the arrays of a renumbered / reordered molecule or CGR are EQUAL *)
Theorem C17_linear_fingerprint_rename : forall (h : list Z -> Z) (s : Z -> Z) g lo hi len nab nbp,
  (forall x y, s x = s y -> x = y) -> wf_mol g = true ->
  linear_fingerprint h (rename_mol s g) lo hi len nab nbp = linear_fingerprint h g lo hi len nab nbp.
Proof. exact linear_fingerprint_rename. Qed.
Print Assumptions C17_linear_fingerprint_rename.

Theorem C17_morgan_fingerprint_rename : forall (h : list Z -> Z) (s : Z -> Z) g lo hi len nab,
  (forall x y, s x = s y -> x = y) ->
  morgan_fingerprint h (rename_mol s g) lo hi len nab = morgan_fingerprint h g lo hi len nab.
Proof. exact morgan_fingerprint_rename. Qed.
Print Assumptions C17_morgan_fingerprint_rename.

Theorem C17_fingerprints_reordered : forall g g', wf_mol g = true -> wf_mol g' = true -> reordered g g' ->
  forall (h : list Z -> Z) lo hi len nab nbp,
  linear_fingerprint h g lo hi len nab nbp = linear_fingerprint h g' lo hi len nab nbp /\
  morgan_fingerprint h g lo hi len nab = morgan_fingerprint h g' lo hi len nab.
Proof. exact (fun g g' Hw Hw' Hr h lo hi len nab nbp =>
  conj (linear_fingerprint_reordered g g' Hw Hw' Hr h lo hi len nab nbp) (morgan_fingerprint_reordered g g' Hw Hr h lo hi len nab)). Qed.
Print Assumptions C17_fingerprints_reordered.

Theorem C17_cgr_fingerprints_rename : forall (h : list Z -> Z) (s : Z -> Z) c lo hi len nab nbp,
  (forall x y, s x = s y -> x = y) -> wf_cgr c = true ->
  cgr_linear_fingerprint h (rename_cgr s c) lo hi len nab nbp = cgr_linear_fingerprint h c lo hi len nab nbp /\
  cgr_morgan_fingerprint h (rename_cgr s c) lo hi len nab = cgr_morgan_fingerprint h c lo hi len nab.
Proof. exact (fun h s c lo hi len nab nbp Hi Hw =>
  conj (cgr_linear_fingerprint_rename h s c lo hi len nab nbp Hi Hw) (cgr_morgan_fingerprint_rename h s c lo hi len nab Hi)). Qed.
Print Assumptions C17_cgr_fingerprints_rename.

Theorem C17_cgr_fingerprints_reordered : forall c c', wf_cgr c = true -> wf_cgr c' = true -> cgr_reordered c c' ->
  forall (h : list Z -> Z) lo hi len nab nbp,
  cgr_linear_fingerprint h c lo hi len nab nbp = cgr_linear_fingerprint h c' lo hi len nab nbp /\
  cgr_morgan_fingerprint h c lo hi len nab = cgr_morgan_fingerprint h c' lo hi len nab.
Proof. exact cgr_fingerprints_reordered. Qed.
Print Assumptions C17_cgr_fingerprints_reordered.

(* non-vacuity / the numpy model: wrapping, IndexError, chython's array of 2-propanol, the two error exits *)
Theorem C17_np_set_ones_examples :
  np_set_ones 4 [1; 3] = Ok [0; 1; 0; 1] /\ np_set_ones 4 [-1] = Ok [0; 0; 0; 1] /\
  np_set_ones 4 [4] = Err IndexError /\ np_set_ones 4 [-5] = Err IndexError /\
  linear_fingerprint hash_ztuple ex_mol 1 2 8 1 4 = Ok [1; 1; 0; 1; 1; 0; 0; 1] /\
  linear_fingerprint hash_ztuple ex_mol 1 2 0 1 4 = Err ValueError /\
  morgan_fingerprint hash_ztuple ex_mol 0 2 8 1 = Err OtherError.
Proof. exact np_set_ones_examples. Qed.
Print Assumptions C17_np_set_ones_examples.

(* ==================================================================================================== *)
(* SECOND ROUND (2): morgan_hash_smiles / morgan_smiles_hash (Model.MorganSmiles).  `ball g a r` models the atom set of
   augmented_substructure((a,), deep=r); the parameter cs g S stands for format(self.substructure(S), 'A'): substructure
   construction + canonical SMILES (the subject of C01), not modelled. *)

(* the atom set of augmented_substructure: the atoms reachable by at most r bonds *)
Theorem C17_ball_within : forall g a r x, In x (ball g a r) <-> within g a r x.
Proof. exact ball_within. Qed.
Print Assumptions C17_ball_within.

(* AssertionError exactly for min < 1 or max < min; otherwise key k holds the canonical string of the radius-r neighbourhood
   of every atom whose identifier after r rounds is k, r = min-1 .. max-1 *)
Theorem C17_morgan_hash_smiles_get : forall (h : list Z -> Z) (cs : mol -> list Z -> string) g lo hi,
  match morgan_hash_smiles h cs g lo hi with
  | Err e => e = OtherError /\ (lo < 1 \/ hi < lo)
  | Ok d => 1 <= lo <= hi /\ forall k str,
      In str (sget d k) <->
      exists r a, (Z.to_nat (lo - 1) <= r < Z.to_nat hi)%nat /\ In (a, k) (morgan_level h g r) /\ str = cs g (ball g a r)
  end.
Proof. exact morgan_hash_smiles_get. Qed.
Print Assumptions C17_morgan_hash_smiles_get.

(* morgan_smiles_hash is the transposed dictionary *)
Theorem C17_smiles_hash_of_get : forall d s k, In k (strget (smiles_hash_of d) s) <-> exists vs, In (k, vs) d /\ In s vs.
Proof. exact smiles_hash_of_get. Qed.
Print Assumptions C17_smiles_hash_of_get.

(* IF the canonical string of a substructure does not depend on the atom numbering (the property C01 is about), THEN
   morgan_hash_smiles and morgan_smiles_hash of a renumbered molecule are the SAME dictionaries, for every hash function.
   The known finding on morgan_hash_smiles is therefore exactly the canonical-string gap. *)
Theorem C17_cs_numbering_independent_unfold : forall cs, cs_numbering_independent cs <->
  forall (s : Z -> Z), (forall x y, s x = s y -> x = y) -> forall g S S',
    (forall x, In x S' <-> In x (map s S)) -> cs (rename_mol s g) S' = cs g S.
Proof. exact (fun cs => iff_refl _). Qed.
Print Assumptions C17_cs_numbering_independent_unfold.

Theorem C17_morgan_hash_smiles_rename : forall (s : Z -> Z), (forall x y, s x = s y -> x = y) ->
  forall (h : list Z -> Z) (cs : mol -> list Z -> string), cs_numbering_independent cs -> forall g lo hi,
  morgan_hash_smiles h cs (rename_mol s g) lo hi = morgan_hash_smiles h cs g lo hi.
Proof. exact morgan_hash_smiles_rename. Qed.
Print Assumptions C17_morgan_hash_smiles_rename.

Theorem C17_morgan_smiles_hash_rename : forall (s : Z -> Z), (forall x y, s x = s y -> x = y) ->
  forall (h : list Z -> Z) (cs : mol -> list Z -> string), cs_numbering_independent cs -> forall g lo hi,
  morgan_smiles_hash h cs (rename_mol s g) lo hi = morgan_smiles_hash h cs g lo hi.
Proof. exact morgan_smiles_hash_rename. Qed.
Print Assumptions C17_morgan_smiles_hash_rename.

(* the witness of the known finding (cis-1,3-cyclobutanediol, renumbering 3>4>5>6>3): with the canonical strings observed on
   chython (cs_obs) the model returns chython's two dictionaries: same keys, different strings; cs_obs is NOT numbering
   independent (the hypothesis fails exactly there); the hypothesis is satisfiable *)
Theorem C17_morgan_hash_smiles_witness :
  rename_mol cb_s cb_molA = cb_molB /\ wf_mol cb_molA = true /\
  morgan_hash_smiles hash_ztuple cs_obs cb_molA 1 3 = Ok cb_dA /\
  morgan_hash_smiles hash_ztuple cs_obs cb_molB 1 3 = Ok cb_dB /\
  cb_dA <> cb_dB /\ map fst cb_dA = map fst cb_dB /\
  ~ cs_numbering_independent cs_obs /\
  cs_numbering_independent (fun _ _ => "*"%string).
Proof. exact morgan_hash_smiles_witness. Qed.
Print Assumptions C17_morgan_hash_smiles_witness.

(* ==================================================================================================== *)
(* ROUND 3 (1): the spelling of an atom / a bond used by linear_hash_smiles (_format_atom(n, None, stereo=False),
   _format_bond(n, m, None, stereo=False, aromatic=False)) is INSIDE the model now (Model.LinearSpell, over the element,
   charge and organic-subset tables regenerated from the source); linear_hash_smiles_model / linear_hash_smiles_fixed_model /
   linear_smiles_hash_model are functions of the molecule and of the iteration order chs of the chain set only. *)

(* the spelling of an atom / a bond does not depend on the numbering *)
Theorem C17_spelling_rename : forall (s : Z -> Z), (forall x y, s x = s y -> x = y) -> forall g n m,
  lhs_fa (rename_mol s g) (s n) = lhs_fa g n /\ lhs_fb (rename_mol s g) (s n) (s m) = lhs_fb g n m.
Proof. exact (fun s Hs g n m => conj (lhs_fa_rename s Hs g n) (lhs_fb_rename s Hs g n m)). Qed.
Print Assumptions C17_spelling_rename.

Theorem C17_lhs_model_numbering_independent_unfold : forall f, lhs_model_numbering_independent f <->
  forall (h : list Z -> Z) (s : Z -> Z) g lo hi nbp chs chs',
    (forall x y, s x = s y -> x = y) -> wf_mol g = true ->
    Permutation chs (chains g lo hi) -> Permutation chs' (chains (rename_mol s g) lo hi) ->
    forall k str, In str (sget (f h g chs nbp) k) <-> In str (sget (f h (rename_mol s g) chs' nbp) k).
Proof. exact (fun f => iff_refl _). Qed.
Print Assumptions C17_lhs_model_numbering_independent_unfold.

(* the repair with chython's own spelling: numbering independent, no hypothesis on the spelling left *)
Theorem C17_linear_hash_smiles_fixed_model_numbering_independent : lhs_model_numbering_independent linear_hash_smiles_fixed_model.
Proof. exact linear_hash_smiles_fixed_model_numbering_independent. Qed.
Print Assumptions C17_linear_hash_smiles_fixed_model_numbering_independent.

(* the code as it is: refuted; the model now SPELLS '[O-]' / '[OH-]' from the hydrogen counts of the two oxygens *)
Theorem C17_linear_hash_smiles_model_numbering_refuted : ~ lhs_model_numbering_independent linear_hash_smiles_model.
Proof. exact linear_hash_smiles_model_numbering_refuted. Qed.
Print Assumptions C17_linear_hash_smiles_model_numbering_refuted.

Theorem C17_spell_witness :
  lhs_fa w_mol 1 = "C"%string /\ lhs_fa w_mol 2 = "[O-]"%string /\ lhs_fa w_mol 3 = "[OH-]"%string /\
  lhs_fa (rename_mol w_swap w_mol) 2 = "[OH-]"%string /\ lhs_fa (rename_mol w_swap w_mol) 3 = "[O-]"%string /\
  linear_hash_smiles_model hash_ztuple w_mol w_chs 4 =
    [(4844287390989025609, ["C"%string]); (8876755388055710236, ["[O-]"%string]); (-3062347929551842955, ["[O-]"%string])] /\
  linear_hash_smiles_model hash_ztuple (rename_mol w_swap w_mol) w_chs 4 =
    [(4844287390989025609, ["C"%string]); (8876755388055710236, ["[OH-]"%string]); (-3062347929551842955, ["[OH-]"%string])] /\
  linear_smiles_hash_model hash_ztuple w_mol w_chs 4 =
    [("C"%string, [4844287390989025609]); ("[O-]"%string, [8876755388055710236; -3062347929551842955])].
Proof. exact spell_witness. Qed.
Print Assumptions C17_spell_witness.

(* linear_smiles_hash (was: search only) is the transposed dictionary *)
Theorem C17_linear_smiles_hash_model_get : forall (h : list Z -> Z) g chs nbp s k,
  In k (strget (linear_smiles_hash_model h g chs nbp) s) <-> exists vs, In (k, vs) (linear_hash_smiles_model h g chs nbp) /\ In s vs.
Proof. exact linear_smiles_hash_model_get. Qed.
Print Assumptions C17_linear_smiles_hash_model_get.

(* spelling rules on chython's values: pyrrole N, aromatic C, isotope, charge, elemental C, metal on a coordination bond,
   radical, P-H, charge outside the table, the five bond orders *)
Theorem C17_spell_examples :
  spell_atom_of (mkAtom 7 None 0 false (Some 1) None) [(1, mkBond 4 None); (2, mkBond 4 None)] = Ok "[nH]"%string /\
  spell_atom_of (mkAtom 6 None 0 false (Some 1) None) [(1, mkBond 4 None); (2, mkBond 4 None)] = Ok "c"%string /\
  spell_atom_of (mkAtom 6 (Some 13) 0 false (Some 4) None) [] = Ok "[13CH4]"%string /\
  spell_atom_of (mkAtom 7 None 1 false (Some 4) None) [] = Ok "[NH4+]"%string /\
  spell_atom_of (mkAtom 6 None 0 false (Some 0) None) [] = Ok "[C]"%string /\
  spell_atom_of (mkAtom 29 None 0 false (Some 0) None) [(1, mkBond 8 None)] = Ok "[Cu]"%string /\
  spell_atom_of (mkAtom 6 None 0 true (Some 3) None) [] = Ok "[CH3]"%string /\
  spell_atom_of (mkAtom 15 None 0 false (Some 1) None) [(1, mkBond 2 None); (2, mkBond 1 None); (3, mkBond 1 None)] = Ok "[PH]"%string /\
  spell_atom_of (mkAtom 8 None 5 false (Some 0) None) [] = Err KeyError /\
  map spell_bond_of [1; 2; 3; 4; 8] = [""; "="; "#"; ":"; "~"]%string.
Proof. exact spell_examples. Qed.
Print Assumptions C17_spell_examples.

(* ==================================================================================================== *)
(* ROUND 3 (2): constants, tuple layouts and branch constants regenerated from the source on every run
   (tools/gen_fingerprints.py -> Gen.FingerprintConsts) agree with what the hand-written models use *)
Theorem C17_generated_constants_agree :
  fpc_cap = cap 0 /\
  fpc_linear_fold = model_fold /\ fpc_morgan_fold = model_fold /\
  (forall len nab tpl, fold_bits len nab tpl =
     Z.land tpl (len - 1) ::
     (if nab =? eqK fpc_linear_fold then [Z.land (Z.shiftr tpl (Z.log2 len)) (len - 1)]
      else if gtK fpc_linear_fold <? nab then shift_loop (Z.to_nat (nab - 1)) (Z.log2 len) (len - 1) tpl
      else [])) /\
  fpc_morgan_asserts = ["min_radius >= 1"; "max_radius >= min_radius"]%string /\
  fpc_mol_fields = model_mol_fields /\ fpc_cgr_fields = model_cgr_fields /\ fpc_dynbond_fields = model_dynbond_fields /\
  forallb (fun p => String.eqb (spell_bond_of (fst p)) (snd p)) fpc_bond_spelling = true /\
  (forall o, ~ In o (map fst fpc_bond_spelling) -> spell_bond_of o = fpc_bond_default).
Proof. exact generated_constants_agree. Qed.
Print Assumptions C17_generated_constants_agree.

(* ==================================================================================================== *)
(* ROUND 3 (3): for min_radius = 1 the deque of _chains is filled from a SET (`deque(arr)`), in CPython's set iteration order,
   which is not modelled.  From ANY order q0 of the single-atom chains the loop (chains_seq_loop_from) terminates, its sequence of
   additions is a rearrangement of the one the theorems are about, and its set is chains g lo hi: the order is immaterial. *)
Theorem C17_chains_loop_initial_order : forall g lo hi q0, wf_mol g = true -> Permutation q0 (singles g) ->
  exists r, chains_seq_loop_from (fuel_needed g hi (length (ids g)) q0) g lo hi q0 = Some r /\
            Permutation r (chains_seq g lo hi) /\ (forall p, In p r <-> In p (chains g lo hi)).
Proof. exact chains_loop_initial_order. Qed.
Print Assumptions C17_chains_loop_initial_order.

Theorem C17_example_initial_order :
  Permutation [[4]; [1]; [3]; [2]] (singles ex_mol) /\
  chains_pops 100 ex_mol 3 [[4]; [1]; [3]; [2]] =
    Some [[4]; [1]; [3]; [2]; [4; 2]; [1; 2]; [3; 2]; [2; 1]; [2; 3]; [2; 4]] /\
  set_paths (match chains_seq_loop_from 100 ex_mol 1 3 [[4]; [1]; [3]; [2]] with Some r => r | None => [] end) =
  set_paths (chains ex_mol 1 3).
Proof. exact example_initial_order. Qed.
Print Assumptions C17_example_initial_order.

(* ==================================================================================================== *)
(* ROUND 4 (1): TIE BY TRANSLATION.  The BODIES of _chains, _fragments, linear_hash_set, linear_bit_set, _morgan_hash_dict,
   morgan_hash_set and morgan_bit_set are translated statement by statement from /repo's source on every run
   (tools/gen_fpbodies.py -> Gen.FingerprintBodies: g_chains / g_chains_while, g_fragments, g_linear_hash_set, g_linear_bit_set,
   g_morgan_hash_dict, g_morgan_hash_set, g_morgan_bit_set) and proved EQUAL to the hand-written model, for all arguments.  Every
   theorem above about chains_seq_loop / fragments_of / linear_hashes / bit_list / morgan_hash_dict_with ... is thereby a theorem about
   the translated source text. *)

(* _chains: the translated function (while loop with fuel) IS the modelled deque loop; with the model's fuel it terminates with the
   enumeration the path theorems are about, and no fuel gives another value *)
Theorem C17_translated_chains : forall fuel g lo hi, g_chains fuel g lo hi = chains_seq_loop fuel g lo hi.
Proof. exact g_chains_eq. Qed.
Print Assumptions C17_translated_chains.

Theorem C17_translated_chains_total : forall g lo hi, wf_mol g = true ->
  g_chains (chains_fuel g hi) g lo hi = Some (chains_seq g lo hi) /\
  (forall fuel r, g_chains fuel g lo hi = Some r -> r = chains_seq g lo hi).
Proof. exact (fun g lo hi W => conj (g_chains_total g lo hi W) (fun fuel r => g_chains_any_fuel g lo hi fuel r W)). Qed.
Print Assumptions C17_translated_chains_total.

(* _fragments, for any identifier dictionary and any sequence of non-empty chains (frag[0] of an empty tuple is an IndexError) *)
Theorem C17_translated_fragments : forall g idd chs lo hi, Forall (fun p => p <> []) chs ->
  g_fragments g idd chs lo hi = fragments_of (ident idd) (bond_order g) chs.
Proof. exact g_fragments_eq. Qed.
Print Assumptions C17_translated_fragments.

Theorem C17_translated_linear_hash_set : forall h frs lo hi nbp, g_linear_hash_set h frs lo hi nbp = linear_hashes h nbp frs.
Proof. exact g_linear_hash_set_eq. Qed.
Print Assumptions C17_translated_linear_hash_set.

(* the folding loops, incl. ValueError of log2 for length <= 0 and its position before the call of morgan_hash_set *)
Theorem C17_translated_bit_sets : forall len nab,
  (forall hs lo hi nbp, g_linear_bit_set hs lo hi len nab nbp = bit_list len nab hs) /\
  (forall r lo hi, g_morgan_bit_set r lo hi len nab = bit_list_of len nab r).
Proof. exact (fun len nab => conj (fun hs lo hi nbp => g_linear_bit_set_eq hs lo hi len nab nbp)
                                   (fun r lo hi => g_morgan_bit_set_eq r lo hi len nab)). Qed.
Print Assumptions C17_translated_bit_sets.

(* _morgan_hash_dict (asserts, iteration, slice) for any hash, any identifier dictionary; morgan_hash_set *)
Theorem C17_translated_morgan_hash_dict : forall h g idd lo hi,
  g_morgan_hash_dict h g idd lo hi = morgan_hash_dict_with h idd g lo hi.
Proof. exact g_morgan_hash_dict_eq. Qed.
Print Assumptions C17_translated_morgan_hash_dict.

Theorem C17_translated_morgan_hash_set : forall r lo hi,
  g_morgan_hash_set r lo hi = match r with Ok ds => Ok (flat_map (map snd) ds) | Err e => Err e end.
Proof. exact g_morgan_hash_set_eq. Qed.
Print Assumptions C17_translated_morgan_hash_set.

(* the translated functions composed as the methods call each other are the top-level model functions (molecules; `_with`: any
   identifier dictionary, i.e. FingerprintsCGR on the skeleton) *)
Theorem C17_translated_linear_pipeline : forall h g lo hi len nab nbp, wf_mol g = true ->
  exists adds, g_chains (chains_fuel g hi) g lo hi = Some adds /\
    let chs := dedup_paths adds in
    let frs := g_fragments g (atom_identifiers g) chs lo hi in
    let hs := g_linear_hash_set h frs lo hi nbp in
    chs = chains g lo hi /\ frs = fragments g lo hi /\ hs = linear_hash_list h g lo hi nbp /\
    g_linear_bit_set hs lo hi len nab nbp = linear_bit_list h g lo hi len nab nbp.
Proof. exact translated_linear_pipeline. Qed.
Print Assumptions C17_translated_linear_pipeline.

Theorem C17_translated_linear_pipeline_with : forall h idd g lo hi len nab nbp, wf_mol g = true ->
  let frs := g_fragments g idd (chains g lo hi) lo hi in
  let hs := g_linear_hash_set h frs lo hi nbp in
  frs = fragments_with idd g lo hi /\ hs = linear_hashes h nbp (fragments_with idd g lo hi) /\
  g_linear_bit_set hs lo hi len nab nbp = bit_list len nab (linear_hashes h nbp (fragments_with idd g lo hi)).
Proof. exact translated_linear_pipeline_with. Qed.
Print Assumptions C17_translated_linear_pipeline_with.

Theorem C17_translated_morgan_pipeline : forall h g lo hi len nab,
  let ds := g_morgan_hash_dict h g (atom_identifiers g) lo hi in
  let hs := g_morgan_hash_set ds lo hi in
  ds = morgan_hash_dict h g lo hi /\ hs = morgan_hash_list h g lo hi /\
  g_morgan_bit_set hs lo hi len nab = morgan_bit_list h g lo hi len nab.
Proof. exact translated_morgan_pipeline. Qed.
Print Assumptions C17_translated_morgan_pipeline.

Theorem C17_translated_morgan_pipeline_with : forall h idd g lo hi len nab,
  let ds := g_morgan_hash_dict h g idd lo hi in
  let hs := g_morgan_hash_set ds lo hi in
  ds = morgan_hash_dict_with h idd g lo hi /\
  hs = match morgan_hash_dict_with h idd g lo hi with Ok ds => Ok (flat_map (map snd) ds) | Err e => Err e end /\
  g_morgan_bit_set hs lo hi len nab =
    bit_list_of len nab (match morgan_hash_dict_with h idd g lo hi with Ok ds => Ok (flat_map (map snd) ds) | Err e => Err e end).
Proof. exact translated_morgan_pipeline_with. Qed.
Print Assumptions C17_translated_morgan_pipeline_with.

(* non-vacuity: the translated code evaluated on 2-propanol (chython's values), out-of-fuel, AssertionError, ValueError *)
Theorem C17_translated_example :
  wf_mol ex_mol = true /\
  g_chains 100 ex_mol 2 3 = Some [[2; 1]; [2; 1]; [3; 2]; [4; 2]; [3; 2]; [4; 2]; [3; 2; 1]; [4; 2; 1]; [3; 2; 1]; [4; 2; 3]; [4; 2; 1]; [4; 2; 3]] /\
  g_chains 5 ex_mol 2 3 = None /\
  List.length (g_fragments ex_mol (atom_identifiers ex_mol) (chains ex_mol 1 3) 1 3) = 6%nat /\
  g_morgan_hash_set (g_morgan_hash_dict hash_ztuple ex_mol (atom_identifiers ex_mol) 1 2) 1 2 =
    Ok [-3850700631077715909; -3850700631077715909; -3850700631077715909; 3311492739671872531;
        6744783386241714987; -713217080876991613; 6744783386241714987; -5079278463555148377] /\
  g_morgan_hash_dict hash_ztuple ex_mol (atom_identifiers ex_mol) 0 2 = Err OtherError /\
  g_morgan_bit_set (Ok [-5079278463555148377]) 1 2 1024 3 = Ok [423; 57; 136] /\
  g_linear_bit_set [-5079278463555148377] 1 2 0 3 4 = Err ValueError.
Proof. exact translated_example. Qed.
Print Assumptions C17_translated_example.

(* ---- translated: the numpy array functions, the identifier functions, int(DynamicBond) ---- *)
(* Fingerprints._atom_identifiers, FingerprintsCGR._atom_identifiers and DynamicBond.__hash__ translated from the source (hash of the
   tuple display = PyHash.tuple_hash_lanes over hash_int / hash_bool) are the identifier models *)
Theorem C17_translated_identifiers :
  (forall g, g_atom_identifiers g = atom_identifiers g) /\
  (forall c, g_cgr_atom_identifiers c = cgr_atom_identifiers c) /\
  (forall b, g_dynbond_int b = cbond_int b).
Proof. exact (conj g_atom_identifiers_eq (conj g_cgr_atom_identifiers_eq g_dynbond_int_eq)). Qed.
Print Assumptions C17_translated_identifiers.

(* linear_fingerprint / morgan_fingerprint: zeros(length) + index assignment, over any bit-set result that is an error for length <= 0 *)
Theorem C17_translated_fingerprint_arrays : forall r lo hi len nab, (len <= 0 -> exists e, r = Err e) ->
  (forall nbp, g_linear_fingerprint r lo hi len nab nbp = vec_of len r) /\
  g_morgan_fingerprint r lo hi len nab = vec_of len r.
Proof. exact (fun r lo hi len nab H => conj (fun nbp => g_linear_fingerprint_eq r lo hi len nab nbp H)
                                             (g_morgan_fingerprint_eq r lo hi len nab H)). Qed.
Print Assumptions C17_translated_fingerprint_arrays.

(* the whole call chains of the translated functions, from the identifiers to the array, are the top-level model functions that
   C17_linear_fingerprint_spec / C17_morgan_fingerprint_spec / C17_cgr_fingerprint_spec and the rename / reorder theorems speak about *)
Theorem C17_translated_linear_fingerprint : forall h g lo hi len nab nbp, wf_mol g = true ->
  g_linear_fingerprint
    (g_linear_bit_set (g_linear_hash_set h (g_fragments g (g_atom_identifiers g) (chains g lo hi) lo hi) lo hi nbp) lo hi len nab nbp)
    lo hi len nab nbp
  = linear_fingerprint h g lo hi len nab nbp.
Proof. exact translated_linear_fingerprint. Qed.
Print Assumptions C17_translated_linear_fingerprint.

Theorem C17_translated_morgan_fingerprint : forall h g lo hi len nab,
  g_morgan_fingerprint (g_morgan_bit_set (g_morgan_hash_set (g_morgan_hash_dict h g (g_atom_identifiers g) lo hi) lo hi) lo hi len nab)
    lo hi len nab
  = morgan_fingerprint h g lo hi len nab.
Proof. exact translated_morgan_fingerprint. Qed.
Print Assumptions C17_translated_morgan_fingerprint.

Theorem C17_translated_cgr_fingerprints : forall h c lo hi len nab nbp, wf_cgr c = true ->
  g_linear_fingerprint
    (g_linear_bit_set (g_linear_hash_set h (g_fragments (cgr_skeleton c) (g_cgr_atom_identifiers c) (cgr_chains c lo hi) lo hi) lo hi nbp)
       lo hi len nab nbp) lo hi len nab nbp
  = cgr_linear_fingerprint h c lo hi len nab nbp /\
  g_morgan_fingerprint
    (g_morgan_bit_set (g_morgan_hash_set (g_morgan_hash_dict h (cgr_skeleton c) (g_cgr_atom_identifiers c) lo hi) lo hi) lo hi len nab)
    lo hi len nab
  = cgr_morgan_fingerprint h c lo hi len nab.
Proof. exact translated_cgr_fingerprints. Qed.
Print Assumptions C17_translated_cgr_fingerprints.

Theorem C17_translated_vec_example :
  g_linear_fingerprint (Ok [1; -1; 3]) 1 4 8 2 4 = Ok [0; 1; 0; 1; 0; 0; 0; 1] /\
  g_morgan_fingerprint (Ok [8]) 1 4 8 2 = Err IndexError /\
  g_morgan_fingerprint (Err ValueError) 1 4 0 2 = Err ValueError /\
  g_dynbond_int (mkCBond (Some 1) None) = cbond_int (mkCBond (Some 1) None) /\
  g_atom_identifiers ex_mol = atom_identifiers ex_mol.
Proof. exact translated_vec_example. Qed.
Print Assumptions C17_translated_vec_example.

(* ---- translated: the SMILES dictionaries (with these, EVERY method of LinearFingerprint and MorganFingerprint is translated) ---- *)
(* linear_hash_smiles over any fragment dictionary whose first chains are non-empty (fa / fb: the spelling of one atom / bond) *)
Theorem C17_translated_linear_hash_smiles : forall fa fb h frs lo hi nbp,
  Forall (fun e : list Z * list path => hd [] (snd e) <> []) frs ->
  g_linear_hash_smiles fa fb h frs lo hi nbp = lhs_of fa fb h nbp frs.
Proof. exact g_linear_hash_smiles_eq. Qed.
Print Assumptions C17_translated_linear_hash_smiles.

Theorem C17_translated_smiles_hash : forall lo hi,
  (forall d nbp, g_linear_smiles_hash d lo hi nbp = smiles_hash_of d) /\
  (forall r, g_morgan_smiles_hash r lo hi = match r with Ok d => Ok (smiles_hash_of d) | Err e => Err e end).
Proof. exact (fun lo hi => conj (fun d nbp => g_linear_smiles_hash_eq d lo hi nbp) (fun r => g_morgan_smiles_hash_eq r lo hi)). Qed.
Print Assumptions C17_translated_smiles_hash.

(* morgan_hash_smiles: enumerate(..., min_radius - 1), augmented_substructure atom set = ball, canonical string = parameter cs *)
Theorem C17_translated_morgan_hash_smiles : forall h cs g lo hi,
  g_morgan_hash_smiles cs g (morgan_hash_dict h g lo hi) lo hi = morgan_hash_smiles h cs g lo hi.
Proof. exact g_morgan_hash_smiles_eq. Qed.
Print Assumptions C17_translated_morgan_hash_smiles.

(* the call chains: for ANY sequence of non-empty chains (the iteration order of the chain set is the observed input of the
   linear_hash_smiles model) and any identifier dictionary; Morgan: from the translated identifiers *)
Theorem C17_translated_linear_smiles_pipeline : forall fa fb h idd g chs lo hi nbp, Forall (fun p => p <> []) chs ->
  let d := g_linear_hash_smiles fa fb h (g_fragments g idd chs lo hi) lo hi nbp in
  d = linear_hash_smiles_with fa fb h idd g chs nbp /\
  g_linear_smiles_hash d lo hi nbp = smiles_hash_of (linear_hash_smiles_with fa fb h idd g chs nbp).
Proof. exact translated_linear_smiles_pipeline. Qed.
Print Assumptions C17_translated_linear_smiles_pipeline.

Theorem C17_translated_morgan_smiles_pipeline : forall h cs g lo hi,
  let d := g_morgan_hash_smiles cs g (g_morgan_hash_dict h g (g_atom_identifiers g) lo hi) lo hi in
  d = morgan_hash_smiles h cs g lo hi /\ g_morgan_smiles_hash d lo hi = morgan_smiles_hash h cs g lo hi.
Proof. exact translated_morgan_smiles_pipeline. Qed.
Print Assumptions C17_translated_morgan_smiles_pipeline.

Theorem C17_translated_smiles_example :
  g_linear_smiles_hash [(5, ["C"; "O"]); (7, ["C"])]%string 1 4 4 = [("C", [5; 7]); ("O", [5])]%string /\
  g_morgan_smiles_hash (Err OtherError) 0 4 = Err OtherError /\
  g_linear_hash_smiles (fun n => if (n =? 4)%Z then "O" else "C")%string (fun _ _ => "-")%string hash_ztuple
     (fragments ex_mol 2 2) 2 2 1 =
  lhs_of (fun n => if (n =? 4)%Z then "O" else "C")%string (fun _ _ => "-")%string hash_ztuple 1 (fragments ex_mol 2 2) /\
  map snd (g_linear_hash_smiles (fun n => if (n =? 4)%Z then "O" else "C")%string (fun _ _ => "-")%string hash_ztuple
     (fragments ex_mol 2 2) 2 2 1) = [["C-C"]; ["O-C"]]%string.
Proof. exact translated_smiles_example. Qed.
Print Assumptions C17_translated_smiles_example.
