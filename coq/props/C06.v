(* C06 -- ring perception returns a minimum cycle basis that ring marks agree with (PARTIAL for the implementation's
   candidate generation only).  Statements only; proofs in Proofs.RingsProofs, RingsMcb, RingsRank, RingsExt, RingsDim,
   RingsFund, RingsMin, RingsHorton, RingsFilterProofs.

   What is a theorem here:
     (S) the cycle-basis CHECKER is sound AND complete (accepted <-> well-formed graph, simple cycles of the graph,
         GF(2)-independent, count = cyclomatic number), and by the DIMENSION THEOREM of the cycle space an accepted list SPANS
         every simple cycle; the reference construction mcb_ref is a cycle basis of every well-formed graph and has MINIMUM
         total size among all cycle bases (Steinitz + matroid greedy + Horton's theorem for breadth-first candidates), so
         "accepted and total size = total size of mcb_ref", which the check evaluates per molecule inside Coq, certifies a
         minimum cycle basis;
     (A) the deterministic pieces are modelled at algorithm level and proved for all inputs:
         _connected_components (any pop order), _skin_graph (same cycles, same cyclomatic number), rings_count,
         _canonic_ring, atoms_rings / atoms_rings_sizes / the ring marks of calc_labels, aromatic_rings; the selection phase
         (_rings_filter, _connected_rings, _is_condensed_ring, _get_unique_chord) is modelled and tied by correspondence,
         proved: it returns n_sssr rings of the candidate stream.
     (A') the WHOLE perception is modelled end to end (sssr_model, set orders as an oracle input) and tied by correspondence;
         for every oracle the candidates with >= 3 atoms are simple cycles of the graph, and under the first-phase side
         condition the modelled sssr is accepted by the checker.
   What is NOT a theorem: that the implementation's sssr IS accepted / minimum for every molecule (false: recorded gap
   families; every output is run through the checker and the certificate instead), numbering / insertion-order independence of
   sssr's ring sizes in general (it is a theorem for minimum cycle bases, hence holds for every certified pair of molecules), "in_ring <-> lies on a cycle" (search against a bridge finder);
   that the path tables are always well formed / the candidate stream always sorted (evaluated per molecule: pid_ok). *)
From Coq Require Import ZArith List Bool Permutation.
From Model Require Import PyBase Graph Rings RingsFilter RingsGen RingsGenSpec.
From Gen Require Import RingsConsts RingsPidBody RingsCacheKeys RingsCanonBody RingsTopBody.
From Proofs Require Import RingsProofs RingsMcb RingsRank RingsExt RingsDim RingsFund RingsMin RingsHorton RingsSizes RingsIso RingsEquiv RingsFilterProofs RingsGenProofs RingsGenWalks RingsMarks RingsConstsProofs RingsCanon RingsRounds RingsPidTie RingsCsetTie RingsCacheTie RingsBfsFuel RingsCacheEdit RingsCacheComps RingsCanonTie RingsArom RingsTopTie RingsCrFuel.
Import ListNotations.
Open Scope Z_scope.

(* ---- (S) the checker ---- *)

(* Gaussian elimination decides independence: if accepted, every non-empty selection of the vectors has a
   non-zero sum (some coordinate where an odd number of the selected vectors is set) *)
Theorem C06_independent_b_sound : forall vs n, (forall v, In v vs -> length v = n) -> independent_b vs = true ->
  forall sel, length sel = length vs -> existsb (fun s => s) sel = true ->
  exists i, (i < n)%nat /\ comb_bit sel vs i = true.
Proof. exact independent_b_sound. Qed.
Print Assumptions C06_independent_b_sound.

(* accepted => the graph is well formed, every ring is a simple cycle of existing bonds, no non-empty subset of the
   rings has an empty edge-wise symmetric difference (some bond of the graph lies in an odd number of the selected
   rings), and the number of rings is bonds - atoms + components *)
Theorem C06_basis_checker_sound : forall g rs, is_cycle_basis g rs = true ->
  gwf g /\
  Forall (is_cycle g) rs /\
  (forall sel, length sel = length rs -> existsb (fun s => s) sel = true ->
     exists e, In e (edges g) /\ sel_parity sel rs e = true) /\
  Z.of_nat (length rs) =
    Z.of_nat (length (edges g)) - Z.of_nat (length g) + Z.of_nat (length (components_order g (keys g))).
Proof. exact basis_checker_sound. Qed.
Print Assumptions C06_basis_checker_sound.

(* ... and the checker is COMPLETE: it accepts every ring list with these four properties, so a rejection of an sssr
   output is a genuine defect of that output, never a false alarm of the checker *)
Theorem C06_basis_checker_complete : forall g rs,
  gwf g -> Forall (is_cycle g) rs ->
  (forall sel, length sel = length rs -> existsb (fun s => s) sel = true ->
     exists e, In e (edges g) /\ sel_parity sel rs e = true) ->
  Z.of_nat (length rs) =
    Z.of_nat (length (edges g)) - Z.of_nat (length g) + Z.of_nat (length (components_order g (keys g))) ->
  is_cycle_basis g rs = true.
Proof. exact basis_checker_complete. Qed.
Print Assumptions C06_basis_checker_complete.

(* a rejected list of vectors has a non-empty selection whose sum vanishes at every coordinate *)
Theorem C06_independent_b_complete : forall vs, independent_b vs = false ->
  exists sel, length sel = length vs /\ existsb (fun s => s) sel = true /\ forall i, comb_bit sel vs i = false.
Proof. exact independent_b_complete. Qed.
Print Assumptions C06_independent_b_complete.

(* consequences for the counts and marks: for an accepted ring list, rings_count is its length, every ring atom is an
   atom of the graph with at least two (not special) neighbours and is marked in_ring *)
Theorem C06_rings_count_agrees : forall g rs, is_cycle_basis g rs = true -> rings_count g = Ok (Z.of_nat (length rs)).
Proof. exact rings_count_agrees. Qed.
Print Assumptions C06_rings_count_agrees.

Theorem C06_accepted_ring_atoms : forall g rs r v, is_cycle_basis g rs = true -> In r rs -> In v r ->
  In v (keys g) /\ (2 <= length (gnbrs g v))%nat /\ atom_in_ring rs v = true.
Proof. exact accepted_ring_atoms. Qed.
Print Assumptions C06_accepted_ring_atoms.

(* ---- (S) the reference construction mcb_ref (Horton candidates + one family of fundamental cycles, greedy elimination) ---- *)

(* the fundamental cycles obtained by deleting the bonds one at a time: simple cycles of the graph, exactly
   bonds - atoms + components of them, linearly independent *)
Theorem C06_fund_cycles_spec : forall g, gwf g ->
  Forall (is_cycle g) (fund_cycles g) /\ Z.of_nat (length (fund_cycles g)) = cyclomatic g /\
  ~ dependent (map (ring_vec g) (fund_cycles g)).
Proof. exact fund_cycles_spec. Qed.
Print Assumptions C06_fund_cycles_spec.

(* for every well-formed graph: each ring of mcb_ref g is a simple cycle of g, the rings are linearly independent
   (accepted by the elimination of the checker) and there are at most bonds - atoms + components of them *)
Theorem C06_mcb_ref_sound : forall g, gwf g ->
  Forall (is_cycle g) (mcb_ref g) /\
  independent_b (map (ring_vec g) (mcb_ref g)) = true /\
  (length (mcb_ref g) <= Z.to_nat (cyclomatic g))%nat.
Proof. exact mcb_ref_sound. Qed.
Print Assumptions C06_mcb_ref_sound.

(* mcb_ref_is_basis, unconditional: the reference construction is accepted by the checker on EVERY well-formed graph
   (the greedy selection reaches the count because its candidates contain the independent fundamental cycles; Steinitz).
   Minimality among ALL cycle bases: C06_mcb_ref_minimum below. *)
Theorem C06_mcb_ref_is_basis : forall g, gwf g -> is_cycle_basis g (mcb_ref g) = true.
Proof. exact mcb_ref_is_basis. Qed.
Print Assumptions C06_mcb_ref_is_basis.

(* every accepted ring list has exactly as many rings as the reference basis *)
Theorem C06_accepted_same_length : forall g rs, is_cycle_basis g rs = true -> length rs = length (mcb_ref g).
Proof. exact accepted_same_length. Qed.
Print Assumptions C06_accepted_same_length.

(* ---- (S) the dimension theorem of the GF(2) cycle space: accepted ring lists SPAN ---- *)

(* bonds - atoms + components is never negative *)
Theorem C06_cyclomatic_nonneg : forall g, gwf g -> 0 <= cyclomatic g.
Proof. exact cyclomatic_nonneg. Qed.
Print Assumptions C06_cyclomatic_nonneg.

(* every simple cycle is an even edge set: each atom meets an even number of its bonds *)
Theorem C06_cycle_even : forall g r, gwf g -> is_cycle g r -> even g (fun e => ring_has_edge r e).
Proof. exact cycle_even. Qed.
Print Assumptions C06_cycle_even.

(* a bond whose ends fall apart when it is deleted (a bridge) lies in no even edge set *)
Theorem C06_bridge_not_in_even : forall g a b f, gwf g -> In b (gnbrs g a) -> even g f ->
  ~ reach (del_edge g a b) a b -> f (norm_edge (a, b)) = false.
Proof. exact bridge_not_in_even. Qed.
Print Assumptions C06_bridge_not_in_even.

(* the dimension theorem: a family of even edge sets in which no non-empty selection sums to the empty set has at most
   bonds - atoms + components members (induction on the number of bonds, deleting one bond at a time) *)
Theorem C06_cycle_space_dimension : forall g fs, gwf g -> Forall (even g) fs -> findep g fs ->
  Z.of_nat (length fs) <= cyclomatic g.
Proof. exact dim_bound. Qed.
Print Assumptions C06_cycle_space_dimension.

Theorem C06_cycle_rank_bound : forall g rs, gwf g -> Forall (is_cycle g) rs -> independent_b (map (ring_vec g) rs) = true ->
  Z.of_nat (length rs) <= cyclomatic g.
Proof. exact cycle_rank_bound. Qed.
Print Assumptions C06_cycle_rank_bound.

(* SPANNING, unconditionally: every simple cycle of the graph is the edge-wise sum of a selection of the rings of an
   accepted list - so "accepted by the checker" means "is a basis of the cycle space" *)
Theorem C06_basis_checker_spanning : forall g rs c, is_cycle_basis g rs = true -> is_cycle g c ->
  exists sel, length sel = length rs /\ forall e, In e (edges g) -> ring_has_edge c e = sel_parity sel rs e.
Proof. exact basis_spans. Qed.
Print Assumptions C06_basis_checker_spanning.

Theorem C06_spanning_example :
  is_cycle_basis ex_graph [[1;2;3;4;5;6]; [3;4;5;6;7;8]] = true /\ is_cycle ex_graph [1;2;3;8;7;6] /\
  forallb (fun e => Bool.eqb (ring_has_edge [1;2;3;8;7;6] e) (sel_parity [true; true] [[1;2;3;4;5;6]; [3;4;5;6;7;8]] e)) (edges ex_graph) = true /\
  cyclomatic ex_graph = 2.
Proof. exact ex_spans. Qed.
Print Assumptions C06_spanning_example.

(* ---- (S) rank: a Steinitz exchange theorem obtained from the verified elimination, and what it gives for mcb_ref ---- *)

(* linearly independent vectors that all are GF(2) combinations of the vectors gs are at most |gs| many *)
Theorem C06_steinitz : forall gs ts, (forall t, In t ts -> span gs t) -> ~ dependent ts -> (length ts <= length gs)%nat.
Proof. exact steinitz. Qed.
Print Assumptions C06_steinitz.

(* the boolean test and the definition of linear (in)dependence agree *)
Theorem C06_independent_b_iff : forall vs, independent_b vs = true <-> ~ dependent vs.
Proof. exact independent_b_iff. Qed.
Print Assumptions C06_independent_b_iff.

(* greedy selection on ANY candidate list sorted by size: minimum total size among all independent families of the same
   cardinality drawn from the list (the matroid greedy theorem for GF(2) vectors) *)
Theorem C06_greedy_min_weight : forall g cands need T,
  Sorted.StronglySorted (fun a b : ring => (length a <= length b)%nat) cands ->
  incl T cands -> ~ dependent (map (ring_vec g) T) ->
  length T = length (greedy g [] cands need) ->
  total_size (greedy g [] cands need) <= total_size T.
Proof. exact greedy_min_weight. Qed.
Print Assumptions C06_greedy_min_weight.

(* first step (superseded by C06_mcb_ref_minimum): its total size is minimum among all linearly independent families with as many rings
   whose members are (up to spelling) candidates (Horton candidates or fundamental cycles). *)
Theorem C06_mcb_ref_min_among_candidates : forall g T,
  (forall t, In t T -> exists c, In c (mcb_candidates g) /\ same_cycle g t c) ->
  ~ dependent (map (ring_vec g) T) -> length T = length (mcb_ref g) ->
  total_size (mcb_ref g) <= total_size T.
Proof. exact mcb_ref_min_among_candidate_cycles. Qed.
Print Assumptions C06_mcb_ref_min_among_candidates.

(* Horton's property holds for EVERY well-formed graph: each simple cycle is a GF(2) sum of candidates none of which is
   longer than the cycle (strong induction on the size; breadth-first paths are shortest, the tree is prefix closed, the
   fundamental closed walks of the bonds of the cycle telescope to the cycle and are candidates or strictly smaller cycles) *)
Theorem C06_horton_property : forall g, gwf g -> horton_property g.
Proof. exact horton_property_holds. Qed.
Print Assumptions C06_horton_property.

(* MINIMALITY: the reference basis has minimum total size among ALL cycle bases of the graph *)
Theorem C06_mcb_ref_minimum : forall g, gwf g -> forall rs, is_cycle_basis g rs = true -> total_size (mcb_ref g) <= total_size rs.
Proof. exact mcb_ref_minimum. Qed.
Print Assumptions C06_mcb_ref_minimum.

(* the per-molecule certificate the check evaluates inside Coq: an accepted ring list whose total size equals that of
   mcb_ref is a minimum cycle basis *)
Theorem C06_minimum_certificate : forall g rs, is_cycle_basis g rs = true -> total_size rs = total_size (mcb_ref g) ->
  forall rs', is_cycle_basis g rs' = true -> total_size rs <= total_size rs'.
Proof. exact minimum_certificate. Qed.
Print Assumptions C06_minimum_certificate.

(* the ring sizes of a minimum cycle basis are an invariant of the graph: an accepted ring list with the total size of mcb_ref
   has, after sorting, exactly the ring sizes of mcb_ref; two minimum cycle bases have the same ring sizes *)
Theorem C06_minimum_sizes : forall g rs, is_cycle_basis g rs = true -> total_size rs = total_size (mcb_ref g) ->
  isort (map (@length Z) rs) = map (@length Z) (mcb_ref g).
Proof. exact minimum_sizes. Qed.
Print Assumptions C06_minimum_sizes.

Theorem C06_minimum_bases_same_sizes : forall g rs rs', is_cycle_basis g rs = true -> is_cycle_basis g rs' = true ->
  total_size rs = total_size (mcb_ref g) -> total_size rs' = total_size (mcb_ref g) ->
  isort (map (@length Z) rs) = isort (map (@length Z) rs').
Proof. exact minimum_bases_same_sizes. Qed.
Print Assumptions C06_minimum_bases_same_sizes.

(* NUMBERING INDEPENDENCE.  For a renumbering pi (with inverse rho): bonds - atoms + components is unchanged, a cycle basis
   is mapped to a cycle basis, the minimum total size is unchanged, and a minimum cycle basis of the molecule and a minimum
   cycle basis of the renumbered molecule have the same ring sizes *)
Theorem C06_cyclomatic_rename : forall pi, (forall a b, pi a = pi b -> a = b) -> forall g, gwf g ->
  cyclomatic (rename pi g) = cyclomatic g.
Proof. exact rn_cyclomatic. Qed.
Print Assumptions C06_cyclomatic_rename.

Theorem C06_basis_rename : forall pi, (forall a b, pi a = pi b -> a = b) -> forall g rs,
  is_cycle_basis g rs = true -> is_cycle_basis (rename pi g) (map (map pi) rs) = true.
Proof. exact basis_rename. Qed.
Print Assumptions C06_basis_rename.

Theorem C06_mcb_total_rename : forall pi rho, (forall a, rho (pi a) = a) -> (forall a, pi (rho a) = a) -> forall g, gwf g ->
  total_size (mcb_ref (rename pi g)) = total_size (mcb_ref g).
Proof. exact mcb_total_rename. Qed.
Print Assumptions C06_mcb_total_rename.

Theorem C06_minimum_sizes_numbering_independent : forall pi rho, (forall a, rho (pi a) = a) -> (forall a, pi (rho a) = a) ->
  forall g rs rs',
  is_cycle_basis g rs = true -> total_size rs = total_size (mcb_ref g) ->
  is_cycle_basis (rename pi g) rs' = true -> total_size rs' = total_size (mcb_ref (rename pi g)) ->
  isort (map (@length Z) rs) = isort (map (@length Z) rs').
Proof. exact minimum_sizes_numbering_independent. Qed.
Print Assumptions C06_minimum_sizes_numbering_independent.

(* INSERTION ORDER INDEPENDENCE.  Two well-formed adjacency lists with the same atoms and the same neighbour sets, in any
   order of entries and neighbours (gequiv), have the same cyclomatic number and the same cycle bases; combined with the
   renumbering theorems: a minimum cycle basis of a molecule and a minimum cycle basis of the renumbered molecule, rebuilt in
   any insertion order, have the same ring sizes *)
Theorem C06_cyclomatic_equiv : forall g h, gwf g -> gwf h -> gequiv g h -> cyclomatic h = cyclomatic g.
Proof. exact ge_cyclomatic. Qed.
Print Assumptions C06_cyclomatic_equiv.

Theorem C06_basis_equiv : forall g h rs, gwf h -> gequiv g h -> is_cycle_basis g rs = true -> is_cycle_basis h rs = true.
Proof. exact basis_equiv. Qed.
Print Assumptions C06_basis_equiv.

Theorem C06_minimum_sizes_independent : forall pi rho g h rs rs',
  (forall a, rho (pi a) = a) -> (forall a, pi (rho a) = a) -> gwf h -> gequiv (rename pi g) h ->
  is_cycle_basis g rs = true -> total_size rs = total_size (mcb_ref g) ->
  is_cycle_basis h rs' = true -> total_size rs' = total_size (mcb_ref h) ->
  isort (map (@length Z) rs) = isort (map (@length Z) rs').
Proof. exact minimum_sizes_independent. Qed.
Print Assumptions C06_minimum_sizes_independent.

Theorem C06_rename_example :
  let pi := fun a => a + 10 in
  is_cycle_basis (rename pi ex_graph) [[11;12;13;14;15;16]; [13;14;15;16;17;18]] = true /\
  cyclomatic (rename pi ex_graph) = 2 /\ map (@length Z) (mcb_ref (rename pi ex_graph)) = [6; 6]%nat.
Proof. exact ex_rename. Qed.
Print Assumptions C06_rename_example.

Theorem C06_minimum_example : is_cycle_basis cage_7_12 (mcb_ref cage_7_12) = true /\ total_size (mcb_ref cage_7_12) = 21 /\
  forall rs, is_cycle_basis cage_7_12 rs = true -> 21 <= total_size rs.
Proof. exact ex_minimum. Qed.
Print Assumptions C06_minimum_example.

(* the reduction used above (algebraic half): under Horton's property the reference basis is minimum *)
Theorem C06_mcb_ref_minimum_of_horton_property : forall g, gwf g -> horton_property g ->
  forall rs, is_cycle_basis g rs = true -> total_size (mcb_ref g) <= total_size rs.
Proof. exact mcb_ref_minimum_partial. Qed.
Print Assumptions C06_mcb_ref_minimum_of_horton_property.

Theorem C06_candidate_small_span : forall g c, In c (mcb_candidates g) -> small_span g c.
Proof. exact candidate_small_span. Qed.
Print Assumptions C06_candidate_small_span.

(* non-vacuity: six independent Horton candidates of the dense cage with total size 28; mcb_ref has 21 *)
Theorem C06_min_weight_example :
  let T := [[7;3;1;4;5]; [3;1;4;6;2]; [1;2;6;7;3]; [1;2;5;7;3]; [7;5;4;6]; [5;2;1;3]] in
  incl T (mcb_candidates cage_7_12) /\ ~ dependent (map (ring_vec cage_7_12) T) /\ length T = length (mcb_ref cage_7_12) /\
  total_size (mcb_ref cage_7_12) = 21 /\ total_size T = 28.
Proof. exact ex_min_weight. Qed.
Print Assumptions C06_min_weight_example.

(* the incidence vectors lose nothing: every bond of a cycle of g is one of the listed bonds of g *)
Theorem C06_ring_edges_in_graph : forall g r, gwf g -> is_cycle g r ->
  forall p, In p (ring_pairs r) -> In (norm_edge p) (edges g).
Proof. exact ring_edges_in_graph. Qed.
Print Assumptions C06_ring_edges_in_graph.

(* non-vacuity: the checker accepts a basis, rejects a dependent set, a non-cycle and a wrong count; it rejects the
   recorded output of the implementation on the dense 7-atom / 12-bond cage while the reference basis is accepted *)
Theorem C06_checker_examples :
  is_cycle_basis ex_graph [[1;2;3;4;5;6]; [3;4;5;6;7;8]] = true /\
  is_cycle_basis ex_graph [[1;2;3;4;5;6]; [3;4;5;6;7;8]; [1;2;3;8;7;6]] = false /\
  is_cycle_basis ex_graph [[1;2;3;4;5;6]; [3;4;5;7;8]] = false /\
  is_cycle_basis ex_graph [[1;2;3;4;5;6]] = false /\
  is_cycle_basis cage_7_12 [[1;2;3]; [2;3;5]; [3;5;7]; [1;2;6;4]; [1;3;5;4]; [2;5;4;6]] = false /\
  is_cycle_basis cage_7_12 (mcb_ref cage_7_12) = true /\
  is_cycle_basis ex_graph (mcb_ref ex_graph) = true.
Proof.
  exact (conj ex_checker_accepts (conj (proj2 ex_checker_rejects_dependent) (conj ex_checker_rejects_non_cycle
        (conj ex_checker_rejects_count (conj (proj1 ex_dense_cage_output_rejected) (conj (proj2 ex_dense_cage_output_rejected)
        (proj2 ex_mcb_ref))))))).
Qed.
Print Assumptions C06_checker_examples.

(* ---- (A) connected components ---- *)

(* for ANY pop order of the atom set: no KeyError, every atom is in a component, components are pairwise disjoint
   and duplicate free, and each component is exactly the connectivity class of each of its members
   (connected and maximal) *)
Theorem C06_components_partition : forall g order, gwf g -> (forall x, In x order <-> In x (keys g)) ->
  exists cs, connected_components_order g order = Ok cs /\
  (forall v, In v (keys g) -> exists c, In c cs /\ In v c) /\
  NoDup (concat cs) /\
  (forall c, In c cs -> c <> [] /\
     forall u, In u c -> In u (keys g) /\ forall v, In v c <-> reach g u v).
Proof. exact components_partition. Qed.
Print Assumptions C06_components_partition.

(* ---- (A) rings_count ---- *)

(* sum of degrees // 2 - atoms + components  =  bonds - atoms + components (handshake lemma), for any pop order *)
Theorem C06_rings_count_cyclomatic : forall g order, gwf g ->
  rings_count_order g order =
    Z.of_nat (length (edges g)) - Z.of_nat (length g) + Z.of_nat (length (components_order g order)).
Proof. exact rings_count_cyclomatic. Qed.
Print Assumptions C06_rings_count_cyclomatic.

(* the number of components, hence rings_count, does NOT depend on the order in which set.pop() hands out the atoms
   (CPython's set iteration order is not modelled: this theorem is why it need not be) *)
Theorem C06_components_count_order_independent : forall g o1 o2, gwf g ->
  (forall x, In x o1 <-> In x (keys g)) -> (forall x, In x o2 <-> In x (keys g)) ->
  length (components_order g o1) = length (components_order g o2).
Proof. exact components_count_order_independent. Qed.
Print Assumptions C06_components_count_order_independent.

Theorem C06_rings_count_order_independent : forall g order, gwf g -> (forall x, In x order <-> In x (keys g)) ->
  rings_count_order g order = cyclomatic g.
Proof. exact rings_count_order_independent. Qed.
Print Assumptions C06_rings_count_order_independent.

Theorem C06_rings_count_ok : forall g, gwf g -> rings_count g = Ok (cyclomatic g).
Proof. exact rings_count_ok. Qed.
Print Assumptions C06_rings_count_ok.

(* ---- (A) _skin_graph ---- *)

(* pruning atoms of degree <= 1 never removes an atom of a simple cycle nor a bond of it *)
Theorem C06_skin_keeps_cycles : forall g g' c, NoDup (keys g) -> skin_graph g = Ok g' -> is_cycle g c ->
  is_cycle g' c /\ forall v, In v c -> In v (keys g').
Proof. exact skin_keeps_cycles. Qed.
Print Assumptions C06_skin_keeps_cycles.

(* ... and it only removes: the pruned graph has EXACTLY the simple cycles of the input *)
Theorem C06_skin_same_cycles : forall g g' c, NoDup (keys g) -> skin_graph g = Ok g' -> (is_cycle g c <-> is_cycle g' c).
Proof. exact skin_same_cycles. Qed.
Print Assumptions C06_skin_same_cycles.

(* on a well-formed adjacency (what MoleculeContainer guarantees) the pruning raises nothing and what is left is again a
   well-formed graph (symmetric, loop free, closed) *)
Theorem C06_skin_graph_wf : forall g, gwf g -> exists g', skin_graph g = Ok g' /\ gwf g'.
Proof. exact skin_graph_wf. Qed.
Print Assumptions C06_skin_graph_wf.

(* pruning preserves bonds - atoms + components: one round (an atom with at most one neighbour leaves) and the whole
   _skin_graph; so rings_count of the pruned graph is rings_count of the molecule graph *)
Theorem C06_prune_keeps_cyclomatic : forall g n ms, gwf g -> In (n, ms) g -> (length ms <= 1)%nat ->
  cyclomatic (prune g n ms) = cyclomatic g.
Proof. exact prune_keeps_cyclomatic. Qed.
Print Assumptions C06_prune_keeps_cyclomatic.

Theorem C06_skin_keeps_cyclomatic : forall g g', gwf g -> skin_graph g = Ok g' -> cyclomatic g' = cyclomatic g.
Proof. exact skin_keeps_cyclomatic. Qed.
Print Assumptions C06_skin_keeps_cyclomatic.

(* what is left has no terminal atom; the loop never runs out of fuel (the model's only artificial error) *)
Theorem C06_skin_min_degree : forall g g', skin_graph g = Ok g' -> forall n ms, In (n, ms) g' -> (2 <= length ms)%nat.
Proof. exact skin_min_degree. Qed.
Print Assumptions C06_skin_min_degree.

Theorem C06_skin_graph_fuel : forall g, skin_graph g <> Err OtherError.
Proof. exact skin_graph_fuel. Qed.
Print Assumptions C06_skin_graph_fuel.

(* non-vacuity of the two theorems above *)
Theorem C06_skin_example :
  gwf ex_graph /\ is_cycle ex_graph [1;2;3;8;7;6] /\
  skin_graph ex_graph = Ok [(1,[2;6]);(2,[1;3]);(3,[2;4;8]);(4,[3;5]);(5,[4;6]);(6,[5;1;7]);(7,[6;8]);(8,[7;3])] /\
  connected_components ex_graph = Ok [[1;2;6;3;5;7;4;8;11]; [9;10]] /\ rings_count ex_graph = Ok 2.
Proof. exact (conj ex_graph_wf (conj ex_cycle (conj ex_skin ex_components))). Qed.
Print Assumptions C06_skin_example.

(* ---- (A) _canonic_ring ---- *)

(* for a duplicate-free ring of at least 3 atoms: the canonical spelling starts with the minimum, its second atom is
   the smaller of the two ring neighbours of the minimum, it is a rotation/reflection of the input (same atoms, same
   cyclic adjacency), and every rotation/reflection of the input has the same canonical spelling *)
Theorem C06_canonic_ring_canonical : forall r, NoDup r -> (3 <= length r)%nat ->
  exists m f,
    canonic_ring r = Ok (m :: f) /\
    list_min r = Some m /\
    hd 0 f < last f 0 /\
    dihedral r (m :: f) /\
    Permutation r (m :: f) /\
    forall r', dihedral r r' -> canonic_ring r' = Ok (m :: f).
Proof. exact canonic_ring_canonical. Qed.
Print Assumptions C06_canonic_ring_canonical.

Theorem C06_canonic_example :
  canonic_ring [5;3;9;1;7;4] = Ok [1;7;4;5;3;9] /\ canonic_ring [4;7;1;9;3;5] = Ok [1;7;4;5;3;9].
Proof. exact ex_canonic. Qed.
Print Assumptions C06_canonic_example.

(* ---- (A) marks: atoms_rings, atoms_rings_sizes and the ring part of calc_labels ---- *)

(* atom._in_ring  <->  the atom is in some ring of the list *)
Theorem C06_marks_atom_in_ring : forall sssr n, atom_in_ring sssr n = true <-> exists r, In r sssr /\ In n r.
Proof. exact atom_in_ring_spec. Qed.
Print Assumptions C06_marks_atom_in_ring.

(* atom._ring_sizes = the set of sizes of the rings of the list that contain the atom *)
Theorem C06_marks_atom_ring_sizes : forall sssr n k,
  In k (atom_ring_sizes sssr n) <-> exists r, In r sssr /\ In n r /\ zlen r = k.
Proof. exact atom_ring_sizes_spec. Qed.
Print Assumptions C06_marks_atom_ring_sizes.

Theorem C06_marks_atom_ring_sizes_NoDup : forall sssr n, NoDup (atom_ring_sizes sssr n).
Proof. exact atom_ring_sizes_NoDup. Qed.
Print Assumptions C06_marks_atom_ring_sizes_NoDup.

(* bond._in_ring  <->  the bond is not special (order 8) and both ends lie in one common ring of the list (this is what
   the code computes; for a chordless ring it is "the bond is a bond of that ring") *)
Theorem C06_marks_bond_in_ring : forall sssr n mb,
  bond_label sssr n mb = true <-> b_ord (snd mb) <> 8 /\ exists r, In r sssr /\ In n r /\ In (fst mb) r.
Proof. exact bond_label_spec. Qed.
Print Assumptions C06_marks_bond_in_ring.

(* both directions of one bond get the same mark *)
Theorem C06_marks_bond_symmetric : forall sssr n m b, bond_label sssr n (m, b) = bond_label sssr m (n, b).
Proof. exact bond_label_sym. Qed.
Print Assumptions C06_marks_bond_symmetric.

(* the list of bond marks calc_labels writes holds exactly one such mark per directed bond of the molecule *)
Theorem C06_marks_ring_labels_bonds : forall g sssr n m v, In (n, m, v) (snd (ring_labels g sssr)) <->
  exists l b, In (n, l) (m_adj g) /\ In (m, b) l /\ v = bond_label sssr n (m, b).
Proof. exact ring_labels_bonds_spec. Qed.
Print Assumptions C06_marks_ring_labels_bonds.

(* atoms_rings[n] lists exactly the rings containing n, and only atoms of some ring are keys *)
Theorem C06_atoms_rings_spec : forall sssr n r, In r (lookup (atoms_rings sssr) n) <-> In r sssr /\ In n r.
Proof. exact atoms_rings_spec. Qed.
Print Assumptions C06_atoms_rings_spec.

Theorem C06_atoms_rings_key : forall sssr n, In n (keys (atoms_rings sssr)) <-> exists r, In r sssr /\ In n r.
Proof. exact atoms_rings_key. Qed.
Print Assumptions C06_atoms_rings_key.

(* ---- (A) aromatic_rings ---- *)

(* when no subscript raises, aromatic_rings is the sub-list (in order) of the sssr rings whose closing bond and every
   consecutive bond of the spelling has order 4 *)
Theorem C06_aromatic_rings_spec : forall g sssr l, aromatic_rings g sssr = Ok l -> l = filter (is_arom g) sssr.
Proof. exact aromatic_rings_spec. Qed.
Print Assumptions C06_aromatic_rings_spec.

Theorem C06_ring_aromatic_spec : forall g r, ring_aromatic g r = Ok true <->
  r <> [] /\ bond_ord g (hd 0 r) (last r 0) = Ok 4 /\ forall n m, In (n, m) (combine r (tl r)) -> bond_ord g n m = Ok 4.
Proof. exact ring_aromatic_spec. Qed.
Print Assumptions C06_ring_aromatic_spec.

(* ---- (A) the selection phase: _rings_filter / _connected_rings / _is_condensed_ring / _get_unique_chord (model/RingsFilter.v) ---- *)

(* whenever the model of _rings_filter returns, it returns exactly n_sssr rings and every one is a ring of the candidate
   stream it was given (that the returned rings are independent is NOT a theorem: the selection is a heuristic with recorded
   gaps; every output is run through the verified checker instead) *)
Theorem C06_rings_filter_result : forall cands n rs, rings_filter cands n = Ok rs ->
  length rs = n /\ forall r, In r rs -> In r cands.
Proof. exact rings_filter_result. Qed.
Print Assumptions C06_rings_filter_result.

Theorem C06_rings_filter_example :
  rings_filter [[1;2;3]; [1;2;4]; [1;3;4]; [2;3;4]] 3 = Ok [[1;2;3]; [1;2;4]; [1;3;4]] /\
  is_condensed_ring [2;3;4] [[1;2;3]; [1;2;4]; [1;3;4]] = Ok true /\
  connected_rings [[1;2;3]; [1;2;4]] = Ok [[1;3;2;4]].
Proof. exact ex_rings_filter. Qed.
Print Assumptions C06_rings_filter_example.

(* ---- (A) the whole perception, end to end (model/RingsGen.v): sssr_model g o = _rings_filter (_c_set (_make_pid (_bfs (_skin_graph g)))) ----
   CPython's set orders are the oracle o; the theorems hold for EVERY oracle. *)

(* when the path tables are well formed (pid_ok: executable, evaluated per molecule by the check) every candidate of _c_set is a
   simple cycle of the graph and the candidate stream is sorted by size *)
Theorem C06_c_set_cycles_sorted : forall g pids cs, gwf g -> pid_ok g pids = true -> c_set pids = Ok cs ->
  (forall c, In c cs -> is_cycle g c) /\ Sorted.StronglySorted (fun a b : ring => (length a <= length b)%nat) cs.
Proof. exact c_set_cycles_sorted. Qed.
Print Assumptions C06_c_set_cycles_sorted.

(* the exact side condition under which the selection is provably right: it finishes in its FIRST phase (every accepted ring has
   an atom that no earlier accepted ring has; nothing is fetched back from the hold list).  Then, for candidates that are
   simple cycles and n_sssr = bonds - atoms + components, the result is accepted by the checker.  Inputs outside this side
   condition need the condensed-ring heuristic; the recorded gap families are among them. *)
Theorem C06_first_phase_accepted : forall g cands n rs, gwf g -> (forall c, In c cands -> is_cycle g c) ->
  Z.of_nat n = cyclomatic g -> first_phase cands n -> rings_filter cands n = Ok rs -> is_cycle_basis g rs = true.
Proof. exact first_phase_accepted. Qed.
Print Assumptions C06_first_phase_accepted.

Theorem C06_first_phase_b_sound : forall cands n, first_phase_b cands n = true -> first_phase cands n.
Proof. exact first_phase_b_sound. Qed.
Print Assumptions C06_first_phase_b_sound.

(* end to end, for every oracle: well-formed tables + first phase => the modelled sssr is a cycle basis *)
Theorem C06_sssr_model_accepted : forall g o sk paths cs rs, gwf g -> 0 < cyclomatic g ->
  skin_graph g = Ok sk -> bfs_paths sk o = Ok paths -> pid_ok g (make_pid paths) = true -> c_set (make_pid paths) = Ok cs ->
  first_phase cs (Z.to_nat (cyclomatic g)) -> sssr_model g o = Ok rs -> is_cycle_basis g rs = true.
Proof. exact sssr_model_accepted. Qed.
Print Assumptions C06_sssr_model_accepted.

(* UNCONDITIONALLY, for every oracle (every set order CPython may choose): the chains of _bfs are walks of the pruned graph,
   every path in the tables of _make_pid is a walk between the atoms it is filed under, and every candidate of the modelled
   generation that has at least three atoms is a simple cycle of the molecule graph *)
Theorem C06_bfs_paths_walks : forall g, gwf g -> forall o paths, bfs_paths g o = Ok paths -> Forall (wk g) paths.
Proof. exact bfs_paths_walks. Qed.
Print Assumptions C06_bfs_paths_walks.

Theorem C06_make_pid_walks : forall g paths, Forall (wk g) paths -> sinv g (make_pid paths).
Proof. exact make_pid_walks. Qed.
Print Assumptions C06_make_pid_walks.

Theorem C06_candidates_are_cycles : forall g o cs, gwf g -> candidates g o = Ok cs ->
  forall c, In c cs -> (3 <= length c)%nat -> is_cycle g c.
Proof. exact candidates_are_cycles. Qed.
Print Assumptions C06_candidates_are_cycles.

Theorem C06_sssr_model_accepted_every_oracle : forall g o cs rs, gwf g -> 0 < cyclomatic g -> candidates g o = Ok cs ->
  (forall c, In c cs -> (3 <= length c)%nat) -> first_phase cs (Z.to_nat (cyclomatic g)) -> sssr_model g o = Ok rs ->
  is_cycle_basis g rs = true.
Proof. exact sssr_model_accepted_every_oracle. Qed.
Print Assumptions C06_sssr_model_accepted_every_oracle.

Theorem C06_sssr_model_example :
  let g := [(1,[2;6]);(2,[1;3]);(3,[2;4;8]);(4,[3;5]);(5,[4;6]);(6,[5;1;7]);(7,[6;8]);(8,[7;3])] in
  let o := [[1]; [2; 6]; [5; 7]; [8; 4]] in
  bfs_paths g o = Ok [[1; 6]; [1; 2; 3]; [6; 5; 4]; [3; 4]; [6; 7; 8]; [3; 8]] /\
  pid_ok g (make_pid [[1; 6]; [1; 2; 3]; [6; 5; 4]; [3; 4]; [6; 7; 8]; [3; 8]]) = true /\
  (exists cs, c_set (make_pid [[1; 6]; [1; 2; 3]; [6; 5; 4]; [3; 4]; [6; 7; 8]; [3; 8]]) = Ok cs /\ first_phase_b cs 2 = true) /\
  sssr_model g o = Ok [[1; 2; 3; 4; 5; 6]; [1; 2; 3; 8; 7; 6]] /\
  is_cycle_basis g [[1; 2; 3; 4; 5; 6]; [1; 2; 3; 8; 7; 6]] = true.
Proof. exact ex_sssr_model. Qed.
Print Assumptions C06_sssr_model_example.

(* ---- the ring marks mean what they say (was: search against a bridge finder) ---- *)

(* for a ring list accepted by the checker: an atom is marked in_ring exactly when it lies on a simple cycle of the graph *)
Theorem C06_atom_mark_on_cycle : forall g rs v, is_cycle_basis g rs = true ->
  (atom_in_ring rs v = true <-> exists c, is_cycle g c /\ In v c).
Proof. exact atom_mark_on_cycle. Qed.
Print Assumptions C06_atom_mark_on_cycle.

(* a bond lies on a simple cycle exactly when it is not a bridge (its ends stay connected when the bond is deleted) *)
Theorem C06_bond_on_cycle_iff_not_bridge : forall g a b, gwf g -> In b (gnbrs g a) ->
  ((exists c, is_cycle g c /\ ring_has_edge c (norm_edge (a, b)) = true) <-> reach (del_edge g a b) a b).
Proof. exact bond_on_cycle_iff_not_bridge. Qed.
Print Assumptions C06_bond_on_cycle_iff_not_bridge.

(* what the code computes for a bond ("both ends lie in one ring of the list") is, for an accepted list, "the bond lies on a
   simple cycle", i.e. "the bond is not a bridge" *)
Theorem C06_bond_mark_on_cycle : forall g rs a b, is_cycle_basis g rs = true -> In b (gnbrs g a) ->
  (bond_in_ring rs a b = true <-> exists c, is_cycle g c /\ ring_has_edge c (norm_edge (a, b)) = true).
Proof. exact bond_mark_on_cycle. Qed.
Print Assumptions C06_bond_mark_on_cycle.

Theorem C06_bond_mark_not_bridge : forall g rs a b, is_cycle_basis g rs = true -> In b (gnbrs g a) ->
  (bond_in_ring rs a b = true <-> reach (del_edge g a b) a b).
Proof. exact bond_mark_not_bridge. Qed.
Print Assumptions C06_bond_mark_not_bridge.

(* the mark calc_labels stores on a bond of the molecule: not a coordinate bond, and not a bridge of the graph without
   coordinate bonds *)
Theorem C06_bond_label_meaning : forall m rs n k bd, is_cycle_basis (graph_of_not_special m) rs = true -> In (k, bd) (nbrs m n) ->
  (bond_label rs n (k, bd) = true <-> b_ord bd <> 8 /\ reach (del_edge (graph_of_not_special m) n k) n k).
Proof. exact bond_label_meaning. Qed.
Print Assumptions C06_bond_label_meaning.

Theorem C06_marks_example :
  is_cycle_basis ex_graph [[1;2;3;4;5;6]; [3;4;5;6;7;8]] = true /\
  bond_in_ring [[1;2;3;4;5;6]; [3;4;5;6;7;8]] 8 11 = false /\ bond_in_ring [[1;2;3;4;5;6]; [3;4;5;6;7;8]] 3 8 = true /\
  atom_in_ring [[1;2;3;4;5;6]; [3;4;5;6;7;8]] 11 = false /\ atom_in_ring [[1;2;3;4;5;6]; [3;4;5;6;7;8]] 7 = true /\
  zmem 11 (component_of (del_edge ex_graph 8 11) 8) = false /\ zmem 8 (component_of (del_edge ex_graph 3 8) 3) = true.
Proof. exact ex_marks. Qed.
Print Assumptions C06_marks_example.

(* ---- tie: the constants of the hand-written models are regenerated from the source (coq/gen/RingsConsts.v, tools/gen_rings.py) ---- *)
Theorem C06_model_constants_from_source :
  (forall e, is_terminal e = Nat.leb (length (snd e)) (Z.to_nat skin_terminal_max)) /\
  (forall m, graph_of_not_special m = map (fun nl => (fst nl, keys (filter (fun mb => negb (b_ord (snd mb) =? special_order)) (snd nl)))) (m_adj m)) /\
  (forall sssr n mb, bond_label sssr n mb = if b_ord (snd mb) =? labels_special_order then false else bond_in_ring sssr n (fst mb)) /\
  (forall g ps, all4 g ps = all_ord aromatic_order g ps) /\
  INF = pid_default_distance /\
  (forall a b, touching a b = Nat.ltb (Z.to_nat condensed_touch_min) (length (common_atoms a b))) /\
  (forall mc c, push_ok mc c = (Nat.ltb 2 (length mc) && Nat.leb (length mc) (length c + 1))) /\
  (forall c rest, rings_filter (c :: rest) (Z.to_nat filter_single) = Ok [c]).
Proof. exact model_constants_from_source. Qed.
Print Assumptions C06_model_constants_from_source.

Theorem C06_model_case_constants :
  condensed_common_pair = 2 /\ condensed_common_many = 2 /\ condensed_terminal_contacts = 1 /\ condensed_terminals = 2 /\
  connected_common_pair = 2 /\ connected_common_many = 2 /\ pid_step = 1.
Proof. exact const_condensed_cases. Qed.
Print Assumptions C06_model_case_constants.

(* ---- canonical spelling (was: search against the lexicographic minimum over rotations and reflections) ---- *)

(* for every oracle: every ring of at least three atoms that the modelled perception returns starts with its smallest atom and
   continues with the smaller of that atom's two ring neighbours *)
Theorem C06_sssr_model_canonical : forall g o rs, sssr_model g o = Ok rs ->
  forall r, In r rs -> (3 <= length r)%nat -> canonical r.
Proof. exact sssr_model_canonical. Qed.
Print Assumptions C06_sssr_model_canonical.

(* and that spelling is the only canonical one among all rotations and reflections of the ring *)
Theorem C06_canonical_unique : forall r r', NoDup r -> (3 <= length r)%nat -> canonical r -> canonical r' -> dihedral r r' -> r = r'.
Proof. exact canonical_unique. Qed.
Print Assumptions C06_canonical_unique.

(* ---- the round-by-round states of _make_pid that the check compares with the real run are the states of the model: each is
   one pid_k step after the previous one, and the last is the result of make_pid ---- *)
Theorem C06_make_pid_rounds_step : forall paths r k,
  nth_error (keys (fst (fst (fold_left pid_init_step (sort_paths paths) ([], [], []))))) r = Some k ->
  make_pid_rounds paths (S r) =
  pid_k (keys (fst (fst (fold_left pid_init_step (sort_paths paths) ([], [], []))))) (make_pid_rounds paths r) k.
Proof. exact make_pid_rounds_step. Qed.
Print Assumptions C06_make_pid_rounds_step.

Theorem C06_make_pid_rounds_last : forall paths,
  make_pid_rounds paths (length (keys (fst (fst (fold_left pid_init_step (sort_paths paths) ([], [], [])))))) = make_pid paths.
Proof. exact make_pid_rounds_last. Qed.
Print Assumptions C06_make_pid_rounds_last.

(* ---- round 4: TIE BY TRANSLATION.  Gen.RingsPidBody is regenerated on every run from the statements of
   chython/algorithms/rings.py:_make_pid (tools/gen_ringspid.py, ast, statement by statement, fail closed); the hand-written model
   functions, about which C06_make_pid_walks / C06_c_set_cycles_sorted / the round-by-round correspondence speak, are EQUAL to the
   translated ones for all arguments ---- *)

(* the first loop (for c in chains): which table a chain is filed in, under which keys, and the distance bookkeeping *)
Theorem C06_pid_init_step_translated : forall st c, gen_pid_init_step st c = pid_init_step st c.
Proof. exact pid_init_step_translated. Qed.
Print Assumptions C06_pid_init_step_translated.

(* the innermost body (for j in pid1): the if / elif chain  ij - ikj == 1 | ij > ikj | ij == ikj | ikj - ij == 1 | else, in this
   order, and what each branch stores in pid1 / pid2 / new_distances, in Python's evaluation order *)
Theorem C06_pid_j_translated : forall k i dold st j, gen_pid_j k i dold st j = pid_j k i dold st j.
Proof. exact pid_j_translated. Qed.
Print Assumptions C06_pid_j_translated.

Theorem C06_pid_i_translated : forall ks k dold st i, gen_pid_i ks k dold st i = pid_i ks k dold st i.
Proof. exact pid_i_translated. Qed.
Print Assumptions C06_pid_i_translated.

Theorem C06_pid_k_translated : forall ks st k, gen_pid_k ks st k = pid_k ks st k.
Proof. exact pid_k_translated. Qed.
Print Assumptions C06_pid_k_translated.

(* the whole function *)
Theorem C06_make_pid_translated : forall paths, gen_make_pid paths = make_pid paths.
Proof. exact make_pid_translated. Qed.
Print Assumptions C06_make_pid_translated.

Theorem C06_make_pid_translated_example :
  gen_make_pid [[1; 2]; [1; 3]; [2; 3]] = make_pid [[1; 2]; [1; 3]; [2; 3]] /\
  fst (fst (gen_make_pid [[1; 2]; [1; 3]; [2; 3]])) <> [].
Proof. exact make_pid_translated_example. Qed.
Print Assumptions C06_make_pid_translated_example.

(* in the translated source the branch "a new shortest path" (the path through k is shorter by two or more) EMPTIES the
   shortest+1 table of the pair: obsolete long paths cannot survive the round *)
Theorem C06_new_shortest_resets_pid2 : forall k i j dold p1 p2 dn,
  (j =? k) || (j =? i) = false ->
  dist_get dold i j - (dist_get dold i k + dist_get dold k j) =? 1 = false ->
  dist_get dold i k + dist_get dold k j <? dist_get dold i j = true ->
  snd (fst (gen_pid_j k i dold (p1, p2, dn) j)) = set2 p2 i j [].
Proof. exact new_shortest_resets_pid2. Qed.
Print Assumptions C06_new_shortest_resets_pid2.

(* ---- _c_set, translated the same way (second half of Gen.RingsPidBody) ---- *)

(* which entries (c_num, p1ij, p2ij) a pair of atoms contributes: the chain  len(p1ij) == 1 (and `not p2ij`: nothing) | not p2ij | else,
   with c_num = 2 * distance (+ 1 for the entries that carry the shortest+1 paths) *)
Theorem C06_cset_j_translated : forall p2 d seen i row, flat_map (gen_cset_j p2 d seen i) row = cset_row p2 d seen i row.
Proof. exact cset_j_translated. Qed.
Print Assumptions C06_cset_j_translated.

(* the second loop: parity test c_num % 2, the loop nests c1 x c2 / consecutive pairs, c1 + c2[-2:0:-1], the duplicate filter *)
Theorem C06_rings_of_entry_translated : forall e, gen_rings_of_entry e = rings_of_entry e.
Proof. exact rings_of_entry_translated. Qed.
Print Assumptions C06_rings_of_entry_translated.

Theorem C06_c_set_translated : forall pids, gen_c_set pids = c_set pids.
Proof. exact c_set_translated. Qed.
Print Assumptions C06_c_set_translated.

(* candidate generation from the chains of _bfs on: translated source = model *)
Theorem C06_candidate_generation_translated : forall paths, gen_c_set (gen_make_pid paths) = c_set (make_pid paths).
Proof. intro paths. rewrite make_pid_translated. apply c_set_translated. Qed.
Print Assumptions C06_candidate_generation_translated.

Theorem C06_c_set_translated_example :
  gen_c_set (gen_make_pid [[1; 2]; [1; 3]; [2; 3]]) = Ok [[1; 2; 3]; [1; 2; 3]; [1; 2; 3]].
Proof. exact c_set_translated_example. Qed.
Print Assumptions C06_c_set_translated_example.

(* ---- the STATE clause: which cached views survive flush_cache / copy.  Gen.RingsCacheKeys is regenerated on every run from
   MoleculeContainer.flush_cache and the cache part of MoleculeContainer.copy (tools/gen_ringscache.py); the cache is the
   association list {attribute name: value} of the instance dictionary ---- *)

(* after flush_cache(keep_sssr=ks, keep_components=kc) attribute k still has its value exactly when (ks and k is one of sssr,
   atoms_rings, atoms_rings_sizes, not_special_connectivity, rings_count) or (kc and k is connected_components) *)
Theorem C06_flush_cache_keeps : forall V ks kc (c : cache_t V) k, NoDup (map fst c) ->
  cget V (gen_flush_cache V ks kc c) k =
  if (ks && smem k ring_keys) || (kc && String.eqb components_key k) then cget V c k else None.
Proof. exact flush_cache_keeps. Qed.
Print Assumptions C06_flush_cache_keeps.

Theorem C06_copy_cache_keeps : forall V ks kc (c : cache_t V) k, NoDup (map fst c) ->
  cget V (gen_copy_cache V ks kc c) k =
  if (ks && smem k ring_keys) || (kc && String.eqb components_key k) then cget V c k else None.
Proof. exact copy_cache_keeps. Qed.
Print Assumptions C06_copy_cache_keeps.

(* the component list never survives a flush that does not ask for it, whatever keep_sssr says (the methods that add or delete
   atoms -- remove_metals, implicify / explicify_hydrogens, remove_coordinate_bonds -- rely on this) *)
Theorem C06_flush_cache_drops_components : forall V ks (c : cache_t V), NoDup (map fst c) ->
  cget V (gen_flush_cache V ks false c) components_key = None.
Proof. exact flush_cache_drops_components. Qed.
Print Assumptions C06_flush_cache_drops_components.

(* contract of a partial flush, for ANY notion of structure M and of "what attribute k evaluates to" (view): SOUND when the edit
   m -> m' preserved the views the flags keep ... *)
Theorem C06_flush_cache_sound : forall V M (view : String.string -> M -> V) ks kc m m' (c : cache_t V), NoDup (map fst c) ->
  cache_valid V M view m c ->
  (ks = true -> forall k, In k ring_keys -> view k m' = view k m) ->
  (kc = true -> view components_key m' = view components_key m) ->
  cache_valid V M view m' (gen_flush_cache V ks kc c).
Proof. exact flush_cache_sound. Qed.
Print Assumptions C06_flush_cache_sound.

(* ... and STALE as soon as one kept, cached view changed (the shape of the recorded finding: remove_metals keeps
   not_special_connectivity although it deletes atoms) *)
Theorem C06_flush_cache_stale : forall V M (view : String.string -> M -> V) ks kc m m' (c : cache_t V) k, NoDup (map fst c) ->
  cache_valid V M view m c ->
  (ks && smem k ring_keys) || (kc && String.eqb components_key k) = true ->
  cget V c k <> None -> view k m' <> view k m ->
  ~ cache_valid V M view m' (gen_flush_cache V ks kc c).
Proof. exact flush_cache_stale. Qed.
Print Assumptions C06_flush_cache_stale.

(* Proofs.RingsCacheTie.flush_cache_example_statement: a cache with every view and one other attribute, flushed with keep_sssr only,
   keeps sssr / rings_count / not_special_connectivity; with keep_components only, the component list; copy(True, True) both *)
Theorem C06_flush_cache_example : flush_cache_example_statement.
Proof. exact flush_cache_example. Qed.
Print Assumptions C06_flush_cache_example.

(* ---- round 4, from observation to theorem: the fuel of the _bfs model is sufficient.  bfs_exhausts mirrors bfs_levels and is true
   exactly when the run reaches the out-of-fuel case (Proofs.RingsBfsFuel) ---- *)

(* a run that does not exhaust its fuel is not changed by more fuel *)
Theorem C06_bfs_levels_more_fuel : forall g fuel atoms term stack o k, bfs_exhausts fuel g atoms term stack o = false ->
  bfs_levels (fuel + k) g atoms term stack o = bfs_levels fuel g atoms term stack o.
Proof. exact bfs_levels_more_fuel. Qed.
Print Assumptions C06_bfs_levels_more_fuel.

(* for every graph, atom set, front and oracle (right or wrong): more fuel than 2 * |atoms| + (0 if an atom of the front is still in
   atoms, else 1) is never exhausted *)
Theorem C06_bfs_levels_fuel_sufficient : forall g fuel atoms term stack o, (phi atoms stack < fuel)%nat ->
  bfs_exhausts fuel g atoms term stack o = false.
Proof. exact bfs_levels_fuel_sufficient. Qed.
Print Assumptions C06_bfs_levels_fuel_sufficient.

(* the model of _bfs never returns its artificial out-of-fuel error ... *)
Theorem C06_bfs_paths_never_out_of_fuel : forall g o, bfs_paths_exhausts g o = false.
Proof. exact bfs_paths_never_out_of_fuel. Qed.
Print Assumptions C06_bfs_paths_never_out_of_fuel.

(* ... and computes the same with any larger bound *)
Theorem C06_bfs_paths_fuel_independent : forall g o k, bfs_paths_fuel (2 * length g + 2 + k) g o = bfs_paths g o.
Proof. exact bfs_paths_fuel_independent. Qed.
Print Assumptions C06_bfs_paths_fuel_independent.

Theorem C06_bfs_fuel_example :
  bfs_paths [(1, [2; 3]); (2, [1; 3]); (3, [1; 2])] [[1]; [2; 3]] = Ok [[1; 2; 3]; [1; 3]] /\
  bfs_paths_exhausts [(1, [2; 3]); (2, [1; 3]); (3, [1; 2])] [[1]; [2; 3]] = false /\
  bfs_exhausts 0 [(1, [2; 3]); (2, [1; 3]); (3, [1; 2])] [2; 3] [] [(2, [1; 2]); (3, [1; 3])] [] = true.
Proof. exact bfs_fuel_example. Qed.
Print Assumptions C06_bfs_fuel_example.

(* ---- the partial flush after an edit that removes an atom with at most one neighbour (remove_metals: an isolated counter-ion,
   implicify_hydrogens: a terminal hydrogen), on the connectivity without coordinate bonds; the edit is Proofs.RingsExt.prune ---- *)

(* the kept rings_count stays right *)
Theorem C06_remove_atom_keeps_rings_count : forall g n ms, gwf g -> In (n, ms) g -> (length ms <= 1)%nat ->
  rings_count (prune g n ms) = rings_count g.
Proof. exact remove_atom_keeps_rings_count. Qed.
Print Assumptions C06_remove_atom_keeps_rings_count.

(* the kept not_special_connectivity never does *)
Theorem C06_remove_atom_changes_connectivity : forall g n ms, In (n, ms) g -> prune g n ms <> g.
Proof. exact remove_atom_changes_connectivity. Qed.
Print Assumptions C06_remove_atom_changes_connectivity.

(* "the cache left by flush_cache(keep_sssr=True) ALONE after such an edit is valid" (Proofs.RingsCacheEdit.partial_flush_valid_after_atom_removal)
   is FALSE: this was the finding stale-after-history:remove_metals:not_special_connectivity (repaired in /repo by fed0944, the check
   alarms if it comes back) ... *)
Theorem C06_partial_flush_valid_after_atom_removal_refuted : ~ partial_flush_valid_after_atom_removal.
Proof. exact partial_flush_valid_after_atom_removal_refuted. Qed.
Print Assumptions C06_partial_flush_valid_after_atom_removal_refuted.

(* ... and holds when not_special_connectivity is not in the cache: remove_metals (fed0944) and implicify / explicify_hydrogens (55af6a9)
   drop it right after the flush.  sssr / atoms_rings / atoms_rings_sizes are not functions of the graph in the model (set order is an
   oracle input) and are outside this statement (searched) *)
Theorem C06_partial_flush_valid_after_atom_removal_partial :
  forall g n ms (c : cache_t rview), gwf g -> In (n, ms) g -> (length ms <= 1)%nat -> NoDup (map fst c) -> ring_cache_valid g c ->
  cget rview c nsc_key = None ->
  ring_cache_valid (prune g n ms) (gen_flush_cache rview true false c).
Proof. exact partial_flush_valid_after_atom_removal_partial. Qed.
Print Assumptions C06_partial_flush_valid_after_atom_removal_partial.

(* a component list that is right before an atom leaves / joins is never right afterwards: why the translated flush_cache must (and,
   by C06_flush_cache_drops_components, does) drop it in remove_metals / implicify_hydrogens / explicify_hydrogens *)
Theorem C06_components_stale_after_atom_removal : forall g n ms cs, In (n, ms) g -> is_partition g cs -> ~ is_partition (prune g n ms) cs.
Proof. exact components_stale_after_atom_removal. Qed.
Print Assumptions C06_components_stale_after_atom_removal.

Theorem C06_components_stale_after_atom_addition : forall g n ms cs, In (n, ms) g -> is_partition (prune g n ms) cs -> ~ is_partition g cs.
Proof. exact components_stale_after_atom_addition. Qed.
Print Assumptions C06_components_stale_after_atom_addition.

Theorem C06_components_stale_example :
  is_partition [(1, []); (2, [3]); (3, [2])] [[1]; [2; 3]] /\ ~ is_partition (prune [(1, []); (2, [3]); (3, [2])] 1 []) [[1]; [2; 3]].
Proof. exact components_stale_example. Qed.
Print Assumptions C06_components_stale_example.

(* ---- _canonic_ring and _ring_scissors, translated from the source (Gen.RingsCanonBody, tools/gen_ringscanon.py): the model functions
   of C06_canonic_ring_canonical / C06_canonical_unique / the selection phase are the translated ones, for every tuple ---- *)
Theorem C06_canonic_ring_translated : forall ring, gen_canonic_ring ring = canonic_ring ring.
Proof. exact canonic_ring_translated. Qed.
Print Assumptions C06_canonic_ring_translated.

Theorem C06_ring_scissors_translated : forall ring n m, gen_ring_scissors ring n m = ring_scissors ring n m.
Proof. exact ring_scissors_translated. Qed.
Print Assumptions C06_ring_scissors_translated.

Theorem C06_canonic_translated_example :
  gen_canonic_ring [5; 3; 9; 1; 7] = Ok [1; 7; 5; 3; 9] /\ gen_canonic_ring [] = Err ValueError /\
  gen_ring_scissors [4; 2; 6; 8] 6 8 = Ok [6; 2; 4; 8] /\ gen_ring_scissors [4; 2; 6; 8] 5 8 = Err ValueError.
Proof. exact canonic_translated_example. Qed.
Print Assumptions C06_canonic_translated_example.

(* ---- aromatic_rings is a sub-list of sssr (was: search only) ---- *)
Theorem C06_aromatic_rings_subset : forall g sssr l r, aromatic_rings g sssr = Ok l -> In r l -> In r sssr /\ is_arom g r = true.
Proof. exact aromatic_rings_subset. Qed.
Print Assumptions C06_aromatic_rings_subset.

Theorem C06_aromatic_rings_length : forall g sssr l, aromatic_rings g sssr = Ok l -> (length l <= length sssr)%nat.
Proof. exact aromatic_rings_length. Qed.
Print Assumptions C06_aromatic_rings_length.

(* ---- the top of the perception, translated from the source (Gen.RingsTopBody, tools/gen_ringstop.py): Rings.rings_count (the
   arithmetic, operator by operator), Rings.sssr (the rings_count guard) and the pipeline _sssr = _rings_filter(_c_set(_make_pid(_bfs(
   _skin_graph(bonds)))), n_sssr) with its arguments ---- *)
Theorem C06_rings_count_translated : forall g, gen_rings_count g = rings_count g.
Proof. exact rings_count_translated. Qed.
Print Assumptions C06_rings_count_translated.

Theorem C06_sssr_translated : forall g o, gen_sssr g o = sssr_model g o.
Proof. exact sssr_translated. Qed.
Print Assumptions C06_sssr_translated.

Theorem C06_sssr_translated_example :
  gen_sssr [(1, [2; 3]); (2, [1; 3]); (3, [1; 2])] [[1]; [2; 3]] = Ok [[1; 2; 3]] /\ gen_rings_count [(1, [2]); (2, [1; 9])] = Err KeyError.
Proof. exact sssr_translated_example. Qed.
Print Assumptions C06_sssr_translated_example.

(* ---- the fuel of the _connected_rings model is sufficient: the loop index grows by one per round and a replaced ring list keeps its
   length, so the loop ends by running past the end of the list no later than the fuel (= len(rings)) runs out ---- *)
Theorem C06_cr_inner_length : forall c rings todo j rings', cr_inner c rings j todo = Ok (Some rings') -> length rings' = length rings.
Proof. exact cr_inner_length. Qed.
Print Assumptions C06_cr_inner_length.

Theorem C06_cr_outer_more_fuel : forall fuel i rings out k, (length rings <= fuel + i)%nat ->
  cr_outer (fuel + k) i rings out = cr_outer fuel i rings out.
Proof. exact cr_outer_more_fuel. Qed.
Print Assumptions C06_cr_outer_more_fuel.

Theorem C06_connected_rings_fuel_independent : forall rings k, cr_outer (length rings + k) O rings [] = connected_rings rings.
Proof. exact connected_rings_fuel_independent. Qed.
Print Assumptions C06_connected_rings_fuel_independent.

Theorem C06_connected_rings_fuel_example :
  connected_rings [[1; 2; 3]; [2; 3; 4]] = Ok [[1; 2; 4; 3]] /\ cr_outer 7 O [[1; 2; 3]; [2; 3; 4]] [] = Ok [[1; 2; 4; 3]].
Proof. exact connected_rings_fuel_example. Qed.
Print Assumptions C06_connected_rings_fuel_example.
