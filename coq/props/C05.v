(* C05 -- Kekule and aromatic forms describe the same molecule.  Statements only; proofs in Proofs.KekuleProofs. *)
From Coq Require Import ZArith List Bool.
From Model Require Import PyBase Graph Kekule.
From Proofs Require Import KekuleProofs.
Import ListNotations.
Open Scope Z_scope.

Theorem C05_prepare_rings_no_arom : forall g sssr, scan_ord g 4 = [] -> prepare_rings g sssr = Ok (mkPrep [] [] [] []).
Proof. exact prepare_rings_no_arom. Qed.
Print Assumptions C05_prepare_rings_no_arom.
