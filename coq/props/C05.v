(* C05 -- Kekule and aromatic forms describe the same molecule; conversions are stable (PARTIAL by design).
   Statements only; proofs in Proofs.KekuleProofs.  Model.Kekule has
     - the boolean specifications kekule_rel / thiele_rel (run on every output of the real code by the check),
     - algorithm-level models of Kekule.__prepare_rings (classify_atom, prepare_rings), of the driver Kekule.kekule
       (kekule_driver; the search and calc_implicit are ARGUMENTS of it: its theorems hold for any search) and of the
       backtracking search _kekule_component itself (kekule_component).
   Not theorems (correspondence / search only): that the forms the search finds give every atom the right number of double
   bonds (the checkers decide that output by output), that all enumerated forms aromatise to one form, that the results
   of the real code do not depend on the numbering. *)
From Coq Require Import ZArith List Bool.
From Model Require Import PyBase Graph PeriodicTable Valence Kekule Thiele.
From Gen Require Import Elements KekuleCls ThieleCls ThielePost KekuleComp.
From Proofs Require Import KekuleProofs KekuleExt KekuleValence KekuleThiele KekuleSound KekuleLink KekulePrep KekuleGenTie KekuleTrace ThielePostTie ThieleFuel KekuleCompTie ThieleFrame ThieleDonors.
Import ListNotations.
Open Scope Z_scope.

(* ---- what every accepted Kekule form preserves: atoms (element, isotope, charge, radical, stereo label), the skeleton
   with its neighbour order, hence heavy-atom formula, total charge, number of radical centres *)
Theorem C05_kekule_rel_preserves : forall g g', kekule_rel_core g g' = true ->
  ids g = ids g' /\ core_of g = core_of g' /\ graph_of g = graph_of g' /\
  map (fun x => a_stereo (snd x)) (m_atoms g) = map (fun x => a_stereo (snd x)) (m_atoms g') /\
  total_charge g = total_charge g' /\ radical_count g = radical_count g' /\
  (forall z, element_count z g = element_count z g').
Proof. exact kekule_rel_preserves. Qed.
Print Assumptions C05_kekule_rel_preserves.

(* ---- hydrogens: every known count is kept atom by atom; if all were known, the total (the full formula) is kept *)
Theorem C05_kekule_rel_hydrogens : forall g g', kekule_rel_core g g' = true -> kr_h g g' = true ->
  (forall n a h, atom_of g n = Some a -> a_h a = Some h -> exists a', atom_of g' n = Some a' /\ a_h a' = Some h) /\
  (all_h_known g = true -> total_h g = total_h g' /\ all_h_known g' = true).
Proof. exact kekule_rel_hydrogens. Qed.
Print Assumptions C05_kekule_rel_hydrogens.

(* ---- an accepted Kekule form has no aromatic bond left, no atom with two new double bonds, and (valence clause) a known
   hydrogen count on every former ring atom *)
Theorem C05_kekule_rel_valid : forall g g', kekule_rel_core g g' = true ->
  no_arom g' = true /\
  forallb2 (fun x y => new_doubles (snd x) (snd y) <=? 1) (m_adj g) (m_adj g') = true /\
  (kr_valence g g' = true ->
   forall n l, In (n, l) (m_adj g) -> arom_deg l <> 0 -> exists a', atom_of g' n = Some a' /\ h_known a' = true).
Proof. exact kekule_rel_valid. Qed.
Print Assumptions C05_kekule_rel_valid.

(* ---- repeating the conversion changes nothing.  Specification level: a molecule without aromatic bonds is an accepted
   form of itself, and every accepted form of it has exactly its bond orders. *)
Theorem C05_kekule_rel_refl : forall g, no_arom g = true -> kekule_rel g g = true.
Proof. exact kekule_rel_refl. Qed.
Print Assumptions C05_kekule_rel_refl.

Theorem C05_kekule_rel_noarom_same : forall g g', no_arom g = true -> kekule_rel_core g g' = true -> same_orders g g' = true.
Proof. exact kekule_rel_noarom_same. Qed.
Print Assumptions C05_kekule_rel_noarom_same.

(* Algorithm level (kekule_noop of DESIGN.md): the driver returns such a molecule unchanged and answers False, for any
   ring set, any search, any hydrogen oracle.  (With kekule_rel_valid: the second application to an accepted output.) *)
Theorem C05_kekule_noop : forall g sssr search calc, no_arom g = true -> kekule_driver g sssr search calc = Ok (g, false).
Proof. exact kekule_noop. Qed.
Print Assumptions C05_kekule_noop.

Theorem C05_prepare_rings_no_arom : forall g sssr, scan_ord g 4 = [] -> prepare_rings g sssr = Ok (mkPrep [] [] [] []).
Proof. exact prepare_rings_no_arom. Qed.
Print Assumptions C05_prepare_rings_no_arom.

(* ---- whatever the heuristic search and the hydrogen oracle return, Kekule.kekule (driver model) cannot change atoms,
   charges, radicals or connectivity: it only writes bond orders and hydrogen counts *)
Theorem C05_kekule_driver_preserves : forall g sssr search calc g' r,
  kekule_driver g sssr search calc = Ok (g', r) ->
  ids g' = ids g /\ core_of g' = core_of g /\ graph_of g' = graph_of g /\
  total_charge g' = total_charge g /\ radical_count g' = radical_count g /\ (forall z, element_count z g' = element_count z g).
Proof. exact kekule_driver_preserves. Qed.
Print Assumptions C05_kekule_driver_preserves.

(* ---- the aromatic side *)
Theorem C05_thiele_rel_preserves : forall g g', thiele_rel_core g g' = true ->
  ids g = ids g' /\ core_of g = core_of g' /\ graph_of g = graph_of g' /\
  total_charge g = total_charge g' /\ radical_count g = radical_count g' /\
  (forall z, element_count z g = element_count z g') /\
  (tr_h g g' = true -> map (fun x => a_h (snd x)) (m_atoms g) = map (fun x => a_h (snd x)) (m_atoms g')).
Proof. exact thiele_rel_preserves. Qed.
Print Assumptions C05_thiele_rel_preserves.

(* an accepted Kekule step is undone by an accepted Thiele step (the two relations describe the same pairs) *)
Theorem C05_kekule_thiele_inverse : forall g k, kekule_rel_core g k = true -> thiele_rel_core k g = true.
Proof. exact kekule_thiele_inverse. Qed.
Print Assumptions C05_kekule_thiele_inverse.

(* ---- the atom classifier of __prepare_rings, for ALL integer inputs: equal to the table class_table over finitely many
   classes of element / charge / neighbour count / hydrogen count; total (InvalidAromaticRing is the only exception);
   every element outside B C N O P S As Se Te is refused *)
Theorem C05_prepare_rings_classes : forall num chg rad nb h indb,
  classify_atom num chg rad nb h indb =
  class_table (eclass_of num) (cclass_of chg) rad (nclass_of nb) (hclass_of h) indb.
Proof. exact prepare_rings_classes. Qed.
Print Assumptions C05_prepare_rings_classes.

Theorem C05_classify_total : forall num chg rad nb h indb,
  match classify_atom num chg rad nb h indb with Ok _ => True | Err e => e = OtherError end.
Proof. exact classify_total. Qed.
Print Assumptions C05_classify_total.

Theorem C05_classify_elements : forall num chg rad nb h indb,
  ~ In num [5; 6; 7; 8; 15; 16; 33; 34; 52] -> classify_atom num chg rad nb h indb = Err OtherError.
Proof. exact classify_elements. Qed.
Print Assumptions C05_classify_elements.

(* ---- the specifications do not depend on the atom numbering: for every injective renumbering pi both checkers give the
   same verdict on the renumbered pair (so a verdict obtained under one numbering holds under all) *)
Theorem C05_kekule_rel_rename : forall pi : Z -> Z, (forall x y, pi x = pi y -> x = y) ->
  forall g g', kekule_rel (rename pi g) (rename pi g') = kekule_rel g g'.
Proof. exact kekule_rel_rename. Qed.
Print Assumptions C05_kekule_rel_rename.

Theorem C05_thiele_rel_rename : forall pi : Z -> Z, (forall x y, pi x = pi y -> x = y) ->
  forall g g', thiele_rel (rename pi g) (rename pi g') = thiele_rel g g'.
Proof. exact thiele_rel_rename. Qed.
Print Assumptions C05_thiele_rel_rename.

(* ---- the backtracking search _kekule_component (algorithm-level model kekule_component, tied by correspondence): whatever
   it yields - for any component, any sets, any buffer size, any cut, any fuel - is a list of exactly `size` bonds
   (size = number of skeleton bonds of the component), each of order 1 or 2: the search never writes an aromatic, triple
   or special bond.  (Loop invariant over the explicit stack; that each atom gets the right number of double bonds is NOT
   proved for the search: the checker kekule_rel decides that output by output.) *)
Theorem C05_kekule_component_forms : forall rings db db_start pyr bs maxy fuel ys r c,
  kekule_component rings db db_start pyr bs maxy fuel = Ok (ys, r, c) ->
  Forall (ok_form (Z.of_nat (fold_right (fun nl s => (List.length (snd nl) + s)%nat) O rings) / 2)) ys.
Proof. exact kekule_component_forms. Qed.
Print Assumptions C05_kekule_component_forms.

(* ---- shape of every successful __prepare_rings result (what the search relies on): every skeleton atom has two or three
   skeleton neighbours; pyrroles and double_bonded are atoms of the skeleton *)
Theorem C05_prepare_rings_shape : forall g sssr p, prepare_rings g sssr = Ok p ->
  (forall n ms, In (n, ms) (r_rings p) -> List.length ms = 2%nat \/ List.length ms = 3%nat) /\
  (forall n, In n (r_pyrroles p) -> In n (keys (r_rings p))) /\
  (forall n, In n (r_double p) -> In n (keys (r_rings p))).
Proof. exact prepare_rings_shape. Qed.
Print Assumptions C05_prepare_rings_shape.

(* ---- non-vacuity: accepted and rejected concrete rings; every listed element has accepted states; the driver on benzene *)
Theorem C05_classify_accepts_each_element :
  forallb (fun num => existsb (fun chg => existsb (fun nb =>
     match classify_atom num chg false nb None false with Ok _ => true | Err _ => false end) [2; 3; 4]) [-1; 0; 1])
    [5; 6; 7; 8; 15; 16; 33; 34; 52] = true.
Proof. exact classify_accepts_each_element. Qed.
Print Assumptions C05_classify_accepts_each_element.

Theorem C05_kekule_rel_examples :
  kekule_rel benzene_a benzene_k = true /\ kekule_rel pyrrole_a pyrrole_k = true /\ kekule_rel pyridine_a pyridine_k = true /\
  thiele_rel benzene_k benzene_a = true /\ thiele_rel pyrrole_k pyrrole_a = true /\
  kekule_rel benzene_a (ring [cH; cH; cH; cH; cH; cH] [2; 2; 1; 1; 2; 1]) = false /\
  kekule_rel pyrrole_a (ring [nH; cH; cH; cH; cH] [2; 1; 2; 1; 1]) = false /\
  kekule_rel (ring [n_ (Some 0); cH; cH; cH; cH; cH] [4; 4; 4; 4; 4; 4]) (ring [n_ (Some 0); cH; cH; cH; cH; cH] [1; 2; 1; 2; 1; 1]) = false /\
  kekule_rel benzene_a (ring [cH; cH; cH; cH; cH; cH] [2; 1; 2; 1; 4; 4]) = false /\
  kekule_rel benzene_a (ring [mkAtom 6 None 1 false (Some 1) None; cH; cH; cH; cH; cH] [2; 1; 2; 1; 2; 1]) = false /\
  kekule_rel benzene_a (ring [mkAtom 6 None 0 false (Some 2) None; cH; cH; cH; cH; cH] [2; 1; 2; 1; 2; 1]) = false /\
  kekule_rel benzene_a (ring [n_ (Some 1); cH; cH; cH; cH; cH] [2; 1; 2; 1; 2; 1]) = false /\
  thiele_rel (ring [cH; cH; cH; cH; cH; cH] [3; 1; 2; 1; 2; 1]) benzene_a = false /\
  thiele_rel (ring [cH; cH; cH; cH; cH; cH] [2; 2; 1; 1; 2; 1]) benzene_a = false /\
  thiele_rel quinone_k quinone_k = true /\ thiele_rel quinone_k quinone_a = false.
Proof. exact kekule_rel_examples. Qed.
Print Assumptions C05_kekule_rel_examples.

Theorem C05_kekule_driver_examples :
  prep_eqb (prepare_rings pyrrole_a [[1; 2; 3; 4; 5]]) [(1, [5; 2]); (2, [1; 3]); (3, [2; 4]); (4, [3; 5]); (5, [4; 1])] [] [1] = true /\
  prep_eqb (prepare_rings pyridine_a [[1; 2; 3; 4; 5; 6]])
           [(1, [6; 2]); (2, [1; 3]); (3, [2; 4]); (4, [3; 5]); (5, [4; 6]); (6, [5; 1])] [1] [] = true /\
  prep_raises (prepare_rings (mkMol [(1, cH); (2, cH)] [(1, [(2, mkBond 4 None)]); (2, [(1, mkBond 4 None)])]) []) = true /\
  match kekule_driver benzene_a [[1; 2; 3; 4; 5; 6]] (fun _ _ _ => Ok (Some benzene_form)) (fun _ _ => Some 1) with
  | Ok (g', r) => mol_eqb g' benzene_k && r && kekule_rel benzene_a g'
  | Err _ => false
  end = true.
Proof. exact kekule_driver_examples. Qed.
Print Assumptions C05_kekule_driver_examples.

Theorem C05_kekule_component_examples :
  match kekule_component (ring_adj 6) [] 0 [] 7 10 1000 with Ok (ys, r, c) => (List.length ys =? 2)%nat && negb r && c | Err _ => false end = true /\
  match kekule_component (ring_adj 5) [1] 1 [] 7 10 1000 with Ok (ys, r, c) => (List.length ys =? 1)%nat && negb r && c | Err _ => false end = true /\
  match kekule_component (ring_adj 5) [] 0 [] 7 10 1000 with Ok (ys, r, c) => (List.length ys =? 0)%nat && r && c | Err _ => false end = true /\
  match kekule_driver benzene_a [[1; 2; 3; 4; 5; 6]] (search_model 1000) (fun _ _ => Some 1) with
  | Ok (g', r) => r && kekule_rel benzene_a g' && no_arom g'
  | Err _ => false
  end = true.
Proof. exact kekule_component_examples. Qed.
Print Assumptions C05_kekule_component_examples.

(* ---- EXTENSION ROUND.  form_sound rings db pyr y: y is a perfect matching of exactly the skeleton atoms that need a double
   bond (every skeleton bond once, orders 1/2, double_bonded atoms no double bond, plain atoms exactly one, pyrrole-type
   atoms at most one).  The full statement  `kekule_component_sound : rings_wf rings db pyr = true -> every yielded form is
   form_sound`  was FALSE for the code before fix ad376fe of /repo (a pyrrole-type atom with three skeleton neighbours next to
   the start atom was visited twice; found here by kekule_component_sound_refuted, whose witness is now a regression input
   of the check).  For the fixed code it is PROVED for well-formed arguments (C05_kekule_component_sound below) and still
   evaluated on every form the real generator and the model yield (molecules and generated components). *)
Theorem C05_form_sound_examples :
  match kekule_component (ring_adj 6) [] 0 [] 7 10 1000 with
  | Ok (ys, _, _) => forallb (form_sound (ring_adj 6) [] []) ys && (2 <=? List.length ys)%nat | Err _ => false end = true /\
  match kekule_component (ring_adj 5) [1] 1 [] 7 10 1000 with
  | Ok (ys, _, _) => forallb (form_sound (ring_adj 5) [1] []) ys && (1 <=? List.length ys)%nat | Err _ => false end = true /\
  rings_wf (ring_adj 6) [] [] = true /\ rings_wf (ring_adj 5) [1] [] = true.
Proof. exact form_sound_examples. Qed.
Print Assumptions C05_form_sound_examples.

(* What IS proved about every form the search yields (for all components, sets, buffer sizes, fuel): one entry per skeleton
   bond, every entry joins two atoms adjacent in `rings`, has order 1 or 2, and no order-2 entry touches a double_bonded
   atom (without any hypothesis on the arguments).  MISSING here (proved for well-formed arguments in C05_kekule_component_sound below): the entries are pairwise different bonds; every plain ring atom gets
   exactly one and every pyrrole-type atom at most one order-2 entry. *)
Theorem C05_kekule_component_bonds : forall rings db db_start pyr bs maxy fuel ys r c,
  kekule_component rings db db_start pyr bs maxy fuel = Ok (ys, r, c) ->
  Forall (ok_form2 rings db (Z.of_nat (fold_right (fun nl s => (List.length (snd nl) + s)%nat) O rings) / 2)) ys.
Proof. exact KekuleExt.kekule_component_sound_partial. Qed.
Print Assumptions C05_kekule_component_bonds.

Theorem C05_kekule_component_entries : forall rings db db_start pyr bs maxy fuel ys r c y a p o,
  kekule_component rings db db_start pyr bs maxy fuel = Ok (ys, r, c) -> In y ys -> In (a, p, o) y ->
  zmem a (al_get rings p) = true /\ (o = 1 \/ o = 2) /\ (o = 2 -> zmem a db = false /\ zmem p db = false).
Proof. exact kekule_component_entries. Qed.
Print Assumptions C05_kekule_component_entries.

(* ---- the carbon hydrogen theorem (from the GENERATED valence tables of carbon, regenerated from the source on every run):
   whenever the aromatic special case of calc_implicit gives a neutral non-radical carbon a hydrogen count, every Kekule
   rewriting of its bonds (aromatic -> single or double, exactly one double) gets the same count from the rules of carbon *)
Theorem C05_carbon_h_kekule : forall nv nv' h,
  known nv = true -> 0 < c4 nv ->
  calc_atom carbon_rules 6 0 false nv = Ok (Some h) ->
  kek_step nv nv' = true -> new2 nv nv' = 1 ->
  calc_atom carbon_rules 6 0 false nv' = Ok (Some h).
Proof. exact carbon_h_kekule. Qed.
Print Assumptions C05_carbon_h_kekule.

(* molecule level: in EVERY Kekule form accepted by the checker, C04's calc_implicit model gives each neutral non-radical ring
   carbon without exocyclic double bond exactly the hydrogen count its aromatic form had (valence clause for carbon) *)
Theorem C05_kekule_rel_carbon_h : forall g g' n l l' a h,
  kekule_rel_core g g' = true ->
  In ((n, l), (n, l')) (combine (m_adj g) (m_adj g')) ->
  atom_of g n = Some a -> a_num a = 6 -> a_chg a = 0 -> a_rad a = false ->
  arom_deg l <> 0 -> has_ord 2 l = false -> known (nview_of g l) = true ->
  calc_atom carbon_rules 6 0 false (nview_of g l) = Ok (Some h) ->
  calc_atom carbon_rules 6 0 false (nview_of g' l') = Ok (Some h).
Proof. exact kekule_rel_carbon_h. Qed.
Print Assumptions C05_kekule_rel_carbon_h.

Theorem C05_carbon_h_examples : forall z1 z2 z3,
  calc_atom carbon_rules 6 0 false [(4, Some z1); (4, Some z2)] = Ok (Some 1) /\
  calc_atom carbon_rules 6 0 false [(2, Some z1); (1, Some z2)] = Ok (Some 1) /\
  calc_atom carbon_rules 6 0 false [(4, Some z1); (4, Some z2); (1, Some z3)] = Ok (Some 0) /\
  calc_atom carbon_rules 6 0 false [(1, Some z1); (2, Some z2); (1, Some z3)] = Ok (Some 0) /\
  calc_atom carbon_rules 6 0 false [(4, Some z1); (4, Some z2); (4, Some z3)] = Ok (Some 0) /\
  calc_atom carbon_rules 6 0 false [(1, Some z1); (1, Some z2); (2, Some z3)] = Ok (Some 0) /\
  calc_atom carbon_rules 6 0 false [(2, Some z1); (2, Some z2)] = Ok (Some 0).
Proof. exact carbon_h_examples. Qed.
Print Assumptions C05_carbon_h_examples.

(* ---- the algorithm-level model of Thiele.thiele(fix_tautomers=False) (Model.Thiele.thiele_model: ring eligibility, quinone
   removal, pruning, ring count, writing of aromatic bonds; tied by correspondence incl. the pruned skeleton): whatever the
   ring search and the freak queries answer, it only writes bond orders - atoms with all their decorations and hydrogens and
   the connectivity are those of the input - and a negative answer returns the input itself *)
Theorem C05_thiele_model_preserves : forall g sssr rings2 fok o,
  thiele_model g sssr rings2 fok = Ok o ->
  m_atoms (o_mol o) = m_atoms g /\ graph_of (o_mol o) = graph_of g /\ (o_result o = false -> o_mol o = g).
Proof. exact thiele_model_preserves. Qed.
Print Assumptions C05_thiele_model_preserves.

(* ---- SECOND EXTENSION ROUND: kekule_component_sound, in full.  For well-formed arguments (rings_wf2: simple symmetric
   connected skeleton with two or three neighbours per atom, positive atom numbers, double_bonded and pyrroles disjoint
   subsets of it; db_start in double_bonded) every form the search model of the code after ad376fe yields - for any buffer
   size, cut and fuel - is form_sound: every skeleton bond exactly once, orders 1 / 2, double_bonded atoms no double bond,
   plain ring atoms exactly one, pyrrole-type atoms at most one.  Proof: a lineage invariant over the explicit stack and its
   fork snapshots (Proofs.KekuleSound), including pyrrole-type atoms with three neighbours that are reached a second time
   through a pending closure item (the situation of the former finding).  The step from sound forms to "the output of
   kekule() is accepted by the relation" is C05_kekule_chain below. *)
Theorem C05_kekule_component_sound : forall rings db db_start pyr bs maxy fuel ys r c,
  rings_wf2 rings db pyr = true -> (db <> [] -> In db_start db) ->
  kekule_component rings db db_start pyr bs maxy fuel = Ok (ys, r, c) ->
  forallb (form_sound rings db pyr) ys = true.
Proof. exact KekuleSound.kekule_component_sound. Qed.
Print Assumptions C05_kekule_component_sound.

Theorem C05_kekule_component_sound_examples :
  rings_wf2 (ring_adj 6) [] [] = true /\ rings_wf2 (ring_adj 5) [1] [] = true /\ rings_wf2 (ring_adj 6) [] [1; 4] = true /\
  rings_wf2 naphthalene_adj [] [2] = true /\ rings_wf2 former_witness [6] [1; 3; 5; 7] = true /\
  match kekule_component naphthalene_adj [] 0 [2] 0 10 1000 with
  | Ok (ys, _, _) => (3 <=? List.length ys)%nat | Err _ => false end = true /\
  match kekule_component former_witness [6] 6 [1; 3; 5; 7] 7 10 1000 with
  | Ok (ys, _, _) => (1 <=? List.length ys)%nat && forallb (form_sound former_witness [6] [1; 3; 5; 7]) ys | Err _ => false end = true.
Proof. exact kekule_component_sound_examples. Qed.
Print Assumptions C05_kekule_component_sound_examples.

(* ---- from sound forms to an accepted Kekule structure.  drawn g rings db pyr (decidable): every row of g has distinct
   neighbours, its aromatic bonds are exactly the skeleton neighbours rings[n], and an atom with aromatic bonds has the class
   (Model.Kekule.atom_class: from its own attributes and bonds) that membership in double_bonded / pyrroles says.  Then writing
   any form_sound form into g gives a molecule kekule_rel_core accepts (same atoms, only aromatic bonds re-written to 1 / 2,
   every ring atom the number of new double bonds of its class). *)
Theorem C05_form_accepted : forall g rings db pyr form,
  rings_sym rings = true -> drawn g rings db pyr = true -> form_sound rings db pyr form = true ->
  kekule_rel_core g (apply_form g form) = true.
Proof. exact form_accepted. Qed.
Print Assumptions C05_form_accepted.

(* ... and the whole chain for the search model: g drawn as (rings, double_bonded, pyrroles) say, the skeleton split into
   components (split_ok), every component well formed with its two sets the restrictions of the whole sets (chain_hyp: ONE
   boolean, evaluated by the check on every input molecule with the arguments the real code computed: it holds exactly for
   the inputs whose aromatic bonds are the skeleton bonds).  Then for ANY choice of one yielded form per component - any
   buffer size, cut, fuel, start atom in double_bonded - the forms written one after the other into g give a molecule that
   kekule_rel_core accepts: acceptance of the kekule() / enumerate_kekule() bond assignment is a theorem about the model,
   not a per-output check.  NOT covered by the theorem (still checked on every output): the hydrogen clauses kr_valence /
   kr_h of kekule_rel (calc_implicit; recorded findings live there), inputs repaired by __prepare_rings (mis-drawn rings),
   and that prepare_rings' own output satisfies chain_hyp (evaluated per input, not proved for all inputs). *)
Theorem C05_kekule_chain : forall g rings db pyr (comps : list (adjl * list Z * list Z * list kentry)),
  chain_hyp g rings db pyr (map fst comps) = true ->
  (forall R dbi pyri f, In (R, dbi, pyri, f) comps ->
     exists db_start bs maxy fuel ys r c, (dbi <> [] -> In db_start dbi) /\
       kekule_component R dbi db_start pyri bs maxy fuel = Ok (ys, r, c) /\ In f ys) ->
  kekule_rel_core g (apply_form g (concat (map snd comps))) = true.
Proof. exact kekule_chain. Qed.
Print Assumptions C05_kekule_chain.

Theorem C05_kekule_chain_examples :
  chain_of benzene_a [[1; 2; 3; 4; 5; 6]] = true /\ chain_of pyrrole_a [[1; 2; 3; 4; 5]] = true /\
  chain_of pyridine_a [[1; 2; 3; 4; 5; 6]] = true /\
  chain_of (ring [cH; cH; cH; cH; cH; cH] [4; 4; 4; 1; 4; 4]) [[1; 2; 3; 4; 5; 6]] = false.
Proof. exact kekule_chain_examples. Qed.
Print Assumptions C05_kekule_chain_examples.

(* ---- EXTENSION ROUND 3: __prepare_rings on a well-drawn molecule produces what kekule_chain needs.  graph_ok g: the adjacency
   is simple and symmetric (distinct row keys, distinct neighbours, no self loop, both directions carry the same order);
   sssr_drawn g sssr: every ring of the SSSR that lies inside the aromatic atoms has aromatic bonds only (so the SSSR loop adds
   no bond to the skeleton); r_singled p = []: no aromatic bond outside the rings was reset.  Then the skeleton is exactly the
   aromatic bonds, it is simple and symmetric, and every ring atom's class in the relation (atom_class: from its own attributes
   and bonds) is the one double_bonded / pyrroles say: `drawn` is a THEOREM about the model of __prepare_rings (atom loop,
   quinone check, triple-bond check), no longer evaluated per input. *)
Theorem C05_prepare_rings_drawn : forall g sssr p,
  graph_ok g = true -> sssr_drawn g sssr = true -> prepare_rings g sssr = Ok p -> r_singled p = [] ->
  r_rings p = scan_ord g 4 /\ rings_sym (r_rings p) = true /\ drawn g (r_rings p) (r_double p) (r_pyrroles p) = true.
Proof. exact prepare_rings_drawn. Qed.
Print Assumptions C05_prepare_rings_drawn.

(* ... so the chain starts at the molecule: prepare_rings, any yielded form of each component search, written into the molecule,
   is accepted by kekule_rel_core.  chain_hyp2 (evaluated per input): graph_ok, sssr_drawn, nothing reset, the skeleton split
   into the components __kekule_full passes on (split_ok: still an input, the breadth-first split is not modelled) and every
   component well formed (rings_wf2) with the restricted sets. *)
Theorem C05_kekule_prepare_chain : forall g sssr p (comps : list (adjl * list Z * list Z * list kentry)),
  prepare_rings g sssr = Ok p -> chain_hyp2 g sssr p (map fst comps) = true ->
  (forall R dbi pyri f, In (R, dbi, pyri, f) comps ->
     exists db_start bs maxy fuel ys r c, (dbi <> [] -> In db_start dbi) /\
       kekule_component R dbi db_start pyri bs maxy fuel = Ok (ys, r, c) /\ In f ys) ->
  kekule_rel_core g (apply_form g (concat (map snd comps))) = true.
Proof. exact kekule_prepare_chain. Qed.
Print Assumptions C05_kekule_prepare_chain.

Theorem C05_kekule_prepare_chain_examples :
  chain2_of benzene_a [[1; 2; 3; 4; 5; 6]] = true /\ chain2_of pyrrole_a [[1; 2; 3; 4; 5]] = true /\
  chain2_of pyridine_a [[1; 2; 3; 4; 5; 6]] = true /\ chain2_of quinone_a [[1; 2; 3; 4; 5; 6]] = true /\
  chain2_of (ring [cH; cH; cH; cH; cH; cH] [4; 4; 4; 1; 4; 4]) [[1; 2; 3; 4; 5; 6]] = false.
Proof. exact kekule_prepare_chain_examples. Qed.
Print Assumptions C05_kekule_prepare_chain_examples.

(* ---- the classifier tied to the SOURCE: tools/gen_kekulecls.py re-reads Kekule.__prepare_rings on every run (Python ast, fail
   closed) and writes its two per-atom decision trees - the quinone test `for n in double_bonded:` and the atom loop
   `for n in rings:` - branch for branch into Gen.KekuleCls.  The hand-written model equals them for ALL integers, so an edit
   of an element, a charge, a neighbour count, a hydrogen test or of the branch order in the source breaks these theorems (in
   addition to the exhaustive grid correspondence on the running code). *)
Theorem C05_gen_classify_eq : forall num chg rad nb h indb,
  gen_classify num chg rad nb h indb = classify_atom num chg rad nb h indb.
Proof. exact gen_classify_eq. Qed.
Print Assumptions C05_gen_classify_eq.

Theorem C05_gen_quinone_eq : forall num chg, gen_quinone_ok num chg = quinone_ok num chg.
Proof. exact gen_quinone_eq. Qed.
Print Assumptions C05_gen_quinone_eq.

(* ... and the ring loop of Thiele.thiele: tools/gen_thielecls.py re-reads `for ring in self.sssr:` on every run and writes every
   decision of it (ring sizes, the element tuple and the neighbour bound of the first filter, the sp2 / sp3 codes, the kind of
   ring, the acceptor test, the whole hetero-atom chain incl. the donor test) into Gen.ThieleCls; ring_step_src / ring_step_t_src
   (Proofs.KekuleGenTie) are the loop bodies written with these generated decisions only, and the models equal them. *)
Theorem C05_gen_ring_step_eq : forall g s ring, ring_step_src g s ring = Thiele.ring_step g s ring.
Proof. exact gen_ring_step_eq. Qed.
Print Assumptions C05_gen_ring_step_eq.

Theorem C05_gen_ring_step_t_eq : forall g s ring, ring_step_t_src g s ring = ring_step_t g s ring.
Proof. exact gen_ring_step_t_eq. Qed.
Print Assumptions C05_gen_ring_step_t_eq.

(* ---- the search step by step (for the intermediate-state correspondence: the check records stack, path, buffer_size and
   buffer of the running generator at the head of every iteration of `while stack:` and compares them with ktrace):
   kekule_component is kloop from the initial state kinit, and kloop passes through the traced states (kafter = the state
   after n iterations, as long as fewer than maxy forms were collected). *)
Theorem C05_kekule_component_kinit : forall rings db db_start pyr bs maxy fuel,
  kekule_component rings db db_start pyr bs maxy fuel =
  match kinit rings db db_start pyr bs with
  | Ok (db', start, size, s) => kloop rings db' pyr start size fuel maxy s []
  | Err e => Err e
  end.
Proof. exact kekule_component_kinit. Qed.
Print Assumptions C05_kekule_component_kinit.

Theorem C05_kloop_kafter : forall rings db pyr start size n fuel maxy s acc s' acc',
  kafter rings db pyr start size n s acc = Ok (s', acc') -> (List.length acc' < maxy)%nat -> (n <= fuel)%nat ->
  (forall m, (m <= n)%nat -> forall sm am, kafter rings db pyr start size m s acc = Ok (sm, am) -> (List.length am < maxy)%nat) ->
  exists fuel', kloop rings db pyr start size fuel maxy s acc = kloop rings db pyr start size fuel' maxy s' acc'.
Proof. exact kloop_kafter. Qed.
Print Assumptions C05_kloop_kafter.

(* ---- thiele() with the default fix_tautomers=True, algorithm-level model thiele_model_t (ring loop with acceptors / donors, the
   depth-first hydrogen-moving search, quinone stage, pruning, writing; tied by correspondence, the iteration orders of the
   skeleton sets are an input): atoms keep element / isotope / charge / radical state and the connectivity is unchanged
   whatever the set orders, the ring search and the freak queries are.  (Hydrogen counts of two ring nitrogens may change:
   the recorded finding thiele-moves-H.) *)
Theorem C05_thiele_model_t_preserves : forall g sssr ords rings2 fok o,
  thiele_model_t g sssr ords rings2 fok = Ok o -> core_of (o_mol o) = core_of g /\ graph_of (o_mol o) = graph_of g.
Proof. exact thiele_model_t_preserves. Qed.
Print Assumptions C05_thiele_model_t_preserves.

(* ---- ROUND 4, tie by translation: the WHOLE of thiele() is now built from decisions regenerated from the source.
   tools/gen_thielepost.py compares the statements after the ring loop with a skeleton (fail closed on any difference outside
   the decisions, e.g. the arguments of the freak_rules query) and translates every decision inside them into Gen.ThielePost:
   the out-of-ring double bond test, the hydrogen-moving search (seed tuple and filter, path cutting test, stop test,
   alternation of the bond order, extension filter, the hydrogen counts written), the pruning test, the ring count formula and
   its zero test, the bond orders written for four-membered / aromatic / rule-aromatised rings.  thiele_model_src /
   thiele_model_t_src (Proofs.ThielePostTie) are the models written with generated decisions only (ring loop: ring_step_src);
   they are equal to the hand-written models the correspondence and the other theorems use, for all inputs. *)
Theorem C05_gen_thiele_model_eq : forall g sssr rings2 freak_ok,
  thiele_model_src g sssr rings2 freak_ok = thiele_model g sssr rings2 freak_ok.
Proof. exact gen_thiele_model_eq. Qed.
Print Assumptions C05_gen_thiele_model_eq.

Theorem C05_gen_thiele_model_t_eq : forall g sssr ords rings2 freak_ok,
  thiele_model_t_src g sssr ords rings2 freak_ok = thiele_model_t g sssr ords rings2 freak_ok.
Proof. exact gen_thiele_model_t_eq. Qed.
Print Assumptions C05_gen_thiele_model_t_eq.

(* non-vacuity: the generated decisions take both values, the generated constants are the ones the relation thiele_rel expects
   (aromatic = 4, reset = 1, the moved hydrogen 1 -> 0) *)
Theorem C05_gen_thiele_post_values :
  gen_tp_exo false 2 = true /\ gen_tp_exo true 2 = false /\ gen_tp_exo false 1 = false /\
  gen_tp_new_order 2 = 1 /\ gen_tp_new_order 1 = 2 /\ gen_tp_found 1 = true /\ gen_tp_found 2 = false /\
  gen_tp_extend false false 2 2 = true /\ gen_tp_extend true false 2 2 = false /\ gen_tp_extend false true 2 2 = false /\ gen_tp_extend false false 1 2 = false /\
  gen_tp_leaf 1 = true /\ gen_tp_leaf 2 = false /\ gen_tp_nsssr 12 6 1 = 1 /\ gen_tp_nsssr 22 10 1 = 2 /\ gen_tp_stop 0 = true /\ gen_tp_stop 1 = false /\
  [gen_tp_order_tetra; gen_tp_order_ring; gen_tp_order_freak; gen_tp_h_acceptor; gen_tp_h_donor; gen_tp_depth0; gen_tp_order0; gen_tp_depth_step] = [1; 4; 4; 1; 0; 0; 2; 1].
Proof. exact gen_thiele_post_values. Qed.
Print Assumptions C05_gen_thiele_post_values.

(* ---- ROUND 4, from observation to theorem: the pruning loop of thiele() (`while True: n = next(n for n, ms in rings.items()
   if len(ms) == 1) ...`) is the fuelled function Model.Thiele.prune, called with fuel S (number of skeleton atoms).  Its
   out-of-fuel value Err OtherError is EXCLUDED FOR ALL INPUTS: for any skeleton with distinct keys the number of non-empty
   entries (< fuel) strictly decreases with every iteration (prune_fuel: the deleted key has a non-empty set, sets only
   shrink, keys the defaultdict re-creates are empty); the skeleton thiele() builds has distinct keys whatever the molecule
   and the SSSR are, so neither model of thiele() can return the out-of-fuel value. *)
Theorem C05_prune_fuel : forall fuel pyr d, NoDup (keys d) -> (ne_count d < fuel)%nat -> prune fuel pyr d <> Err OtherError.
Proof. exact prune_fuel. Qed.
Print Assumptions C05_prune_fuel.

Theorem C05_thiele_model_no_fuel_error : forall g sssr rings2 fok, thiele_model g sssr rings2 fok <> Err OtherError.
Proof. exact thiele_model_no_fuel_error. Qed.
Print Assumptions C05_thiele_model_no_fuel_error.

Theorem C05_thiele_model_t_no_fuel_error : forall g sssr ords rings2 fok, thiele_model_t g sssr ords rings2 fok <> Err OtherError.
Proof. exact thiele_model_t_no_fuel_error. Qed.
Print Assumptions C05_thiele_model_t_no_fuel_error.

(* non-vacuity: the loop really prunes (benzene ring with a two-atom tail) within the fuel *)
Theorem C05_prune_runs :
  prune 9 [] [(1, [2; 6]); (2, [1; 3]); (3, [2; 4]); (4, [3; 5]); (5, [4; 6]); (6, [5; 1; 7]); (7, [6; 8]); (8, [7])] =
  Ok [(1, [2; 6]); (2, [1; 3]); (3, [2; 4]); (4, [3; 5]); (5, [4; 6]); (6, [5; 1])].
Proof. exact prune_runs. Qed.
Print Assumptions C05_prune_runs.

(* ---- ROUND 4, tie by translation of the backtracking search: tools/gen_kekulecomp.py compares the WHOLE of _kekule_component
   with a skeleton (fail closed on any difference outside the decisions: the stack / path manipulations of the growth step,
   the tuples appended, the path cut after a yield `path = path[:k]` - a fresh list, so that yielded paths are never mutated)
   and translates the decisions into Gen.KekuleComp: start atom selection, the initial stack items, size, the complete-path
   test, the three pyridine-over-pyrrole buffer tests, the classification of the neighbours, the `if loop:` chain with the
   items it inserts, the first test of the growth step.  kekule_component_src (Proofs.KekuleCompTie: kstep_src, kloop_src,
   find_start_src) is the search written with these generated decisions; it equals the model the soundness theorem
   kekule_component_sound and the correspondence are about, for all arguments, buffer sizes, cuts and fuels. *)
Theorem C05_gen_kstep_eq : forall rings db pyr start size s, kstep_src rings db pyr start size s = kstep rings db pyr start size s.
Proof. exact gen_kstep_eq. Qed.
Print Assumptions C05_gen_kstep_eq.

Theorem C05_gen_kekule_component_eq : forall rings db db_start pyr buffer_size maxy fuel,
  kekule_component_src rings db db_start pyr buffer_size maxy fuel = kekule_component rings db db_start pyr buffer_size maxy fuel.
Proof. exact gen_kekule_component_eq. Qed.
Print Assumptions C05_gen_kekule_component_eq.

Theorem C05_gen_kekule_comp_values :
  gen_kc_start_strict 2 false = true /\ gen_kc_start_strict 2 true = false /\ gen_kc_start_strict 3 false = false /\ gen_kc_start_loose 2 = true /\
  gen_kc_start_loose 3 = false /\ gen_kc_size 12 = 6 /\ gen_kc_full 6 6 = true /\ gen_kc_full 5 6 = false /\
  gen_kc_use_buffer true 7 = true /\ gen_kc_use_buffer true 0 = false /\ gen_kc_use_buffer false 7 = false /\
  gen_kc_pair_elt 2 true = true /\ gen_kc_pair_elt 1 true = false /\ gen_kc_pair_elt 2 false = false /\ gen_kc_pair_test 2 = true /\ gen_kc_pair_test 1 = false /\
  gen_kc_buffer_full 7 7 = true /\ gen_kc_buffer_full 6 7 = false /\ gen_kc_has_loop 0 = false /\ gen_kc_has_loop 5 = true /\
  gen_kc_side_path false false false = false /\ gen_kc_side_path true false false = true /\ gen_kc_side_path false true false = true /\
  gen_kc_side_path false false true = true /\ gen_kc_grow_out 2 false = true /\ gen_kc_grow_out 1 true = true /\ gen_kc_grow_out 1 false = false /\
  [gen_kc_init_bond_db; gen_kc_init_cut_db; gen_kc_init_bond_strict; gen_kc_init_cut_strict; gen_kc_init_bond_loose; gen_kc_init_cut_loose;
   gen_kc_init_bond_full; gen_kc_init_cut_full; gen_kc_loop_single1; gen_kc_loop_single2; gen_kc_loop_double; gen_kc_grow_bond] = [1; 0; 1; 0; 1; 0; 2; 0; 1; 1; 2; 2].
Proof. exact gen_kekule_comp_values. Qed.
Print Assumptions C05_gen_kekule_comp_values.

(* ---- ROUND 4, locality of thiele(fix_tautomers=False) as a theorem about the model (the search checks it on the real code with
   composite molecules: saturated carbons, conversions commute with the split into fragments): whatever the SSSR, the second
   ring search and the answers of the freak_rules queries are, an atom that lies in none of the rings the second ring search
   returns and in none of the candidate five-rings whose query MATCHED keeps its whole row of bonds (neighbours, orders,
   stereo marks): the answer for one candidate ring never reaches another ring. *)
Theorem C05_thiele_model_frame : forall g sssr rings2 fok o n,
  thiele_model g sssr rings2 fok = Ok o ->
  (forall r, In r rings2 -> ~ In n r) ->
  (forall r, In (r, true) (combine (o_freaks o) fok) -> ~ In n r) ->
  nbrs (o_mol o) n = nbrs g n.
Proof. exact thiele_model_frame. Qed.
Print Assumptions C05_thiele_model_frame.

(* non-vacuity: two candidate rings, only the first query matches: atom 9 (second ring) keeps its row, atom 1 (first ring) does not *)
Theorem C05_frame_example :
  let g3 := fold_left (fun (g : mol) (rb : list Z * bool) => if snd rb then set_bonds g (fst rb) 4 else g)
                      (combine [[1; 2; 3; 4; 5]; [6; 7; 8; 9; 10]] [true; false]) fr_g in
  nbrs g3 9 = nbrs fr_g 9 /\ nbrs g3 1 <> nbrs fr_g 1.
Proof. exact frame_example. Qed.
Print Assumptions C05_frame_example.

(* the soundness theorem of the search, stated about the REGENERATED search (the function written with the decisions the translator
   reads from kekule.py on every run): every form it yields on well-formed arguments is form_sound *)
Theorem C05_kekule_component_src_sound : forall rings db db_start pyr bs maxy fuel ys r c,
  rings_wf2 rings db pyr = true -> (db <> [] -> In db_start db) ->
  kekule_component_src rings db db_start pyr bs maxy fuel = Ok (ys, r, c) ->
  forallb (form_sound rings db pyr) ys = true.
Proof. exact kekule_component_src_sound. Qed.
Print Assumptions C05_kekule_component_src_sound.

(* ---- ROUND 5: the loop over the hydrogen donors of thiele(fix_tautomers=True): a donor from which the search finds no alternating
   path to an acceptor is skipped and the remaining donors are processed exactly as if it were not there (the search checks the
   same on the real code: molecules with an unfixable donor before and after a fixable one, conversions commute with split()). *)
Theorem C05_taut_donors_skips_unfixable : forall fuel ords dbl start rest g acc pyr,
  taut_dfs fuel g ords dbl acc (donor_seed ords dbl start) [] [start] = None ->
  taut_donors fuel ords dbl (start :: rest) g acc pyr = taut_donors fuel ords dbl rest g acc pyr.
Proof. exact taut_donors_skips_unfixable. Qed.
Print Assumptions C05_taut_donors_skips_unfixable.

Theorem C05_taut_donors_all_unfixable : forall fuel ords dbl donors g acc pyr,
  (forall start, In start donors -> taut_dfs fuel g ords dbl acc (donor_seed ords dbl start) [] [start] = None) ->
  taut_donors fuel ords dbl donors g acc pyr = (g, acc, pyr).
Proof. exact taut_donors_all_unfixable. Qed.
Print Assumptions C05_taut_donors_all_unfixable.

Theorem C05_donors_skip_example : forall rest g acc pyr,
  taut_donors 5 [(1, [])] [] (1 :: rest) g acc pyr = taut_donors 5 [(1, [])] [] rest g acc pyr.
Proof. exact donors_skip_example. Qed.
Print Assumptions C05_donors_skip_example.
