(* C08 -- SMARTS primitives and query atoms match exactly what is documented.  Statements only; proofs in
   Proofs.QueryProofs (comparison methods, labels) and Proofs.SmartsProofs (bracket-atom parser, construction, bond
   tokens).  Gen.Elements, Gen.TokenTables and Gen.SmartsTables are regenerated from /repo on every run. *)
From Coq Require Import ZArith List String Ascii Bool Permutation.
From Gen Require Import Elements TokenTables SmartsTables QueryParseBody QueryEqBody LabelsBody QBondEqBody FromAtomBody.
From Model Require Import PyBase Graph PeriodicTable Tokenize Smarts Query SmartsFull.
From Model Require Parser.
From Proofs Require Import QueryProofs TokenizeProofs SmartsProofs SmartsRoundtrip SmartsParser SmartsFullProofs SmartsDenote SmartsDenoteText SmartsTree SmartsTreeText SmartsStereo SmartsRing SmartsRingText SmartsMolMatch SmartsPins SmartsNumbers SmartsDots SmartsDotsText SmartsCanonical SmartsRingDots SmartsRingDotsText QueryParseTie QueryParseSep QueryParseSep2 QueryEqTie LabelsTie QBondEqTie FromAtomTie.
Import ListNotations.
Open Scope Z_scope.

(* ---------------------------------------------------------------------------------------------------------------- *)
(* match_spec: every comparison method is total on tuple-valued queries and equals the documented conjunction:
     tuple_ok l v  := l = [] \/ In v l                                ("empty tuple = unconstrained")
     rings_ok q rs := q = () : True | q[0] = 0 : rs = {} | otherwise a common size       ("(0,) = not in a ring")
     hyd_ok l h    := l = [] \/ exists v, h = Some v /\ In v l        (an atom without hydrogen count matches no h query)
     iso_ok q a    := q = None \/ q = Some 0 \/ q = a
     tail_spec x a := tuple_ok neighbors /\ tuple_ok hybridization /\ rings_ok /\ hyd_ok /\ tuple_ok heteroatoms   *)

Theorem C08_match_q_spec : forall num iso x a, x_rings_set x = false ->
  exists b, match_q num iso x a = Ok b /\
    (b = true <-> num = la_num a /\ x_chg x = la_chg a /\ x_rad x = la_rad a /\ iso_ok iso (la_iso a) /\
                  tuple_ok (x_nb x) (la_nb a) /\ tuple_ok (x_hyb x) (la_hyb a) /\ rings_ok (x_rings x) (la_rings a) /\
                  hyd_ok (x_h x) (la_h a) /\ tuple_ok (x_het x) (la_het a)).
Proof. exact match_q_spec. Qed.
Print Assumptions C08_match_q_spec.

Theorem C08_match_any_spec : forall x a, x_rings_set x = false ->
  exists b, match_any x a = Ok b /\ (b = true <-> x_chg x = la_chg a /\ x_rad x = la_rad a /\ tail_spec x a).
Proof. exact match_any_spec. Qed.
Print Assumptions C08_match_any_spec.

Theorem C08_match_list_spec : forall nums x a, x_rings_set x = false ->
  exists b, match_list nums x a = Ok b /\
    (b = true <-> In (la_num a) nums /\ x_chg x = la_chg a /\ x_rad x = la_rad a /\ tail_spec x a).
Proof. exact match_list_spec. Qed.
Print Assumptions C08_match_list_spec.

(* AnyMetal ignores charge, radical, isotope, hydrogens, heteroatoms and rings *)
Theorem C08_match_metal_spec : forall nb hyb a,
  exists b, match_metal nb hyb a = Ok b /\
    (b = true <-> non_metal (la_num a) = false /\ tuple_ok nb (la_nb a) /\ tuple_ok hyb (la_hyb a)).
Proof. exact match_metal_spec. Qed.
Print Assumptions C08_match_metal_spec.

(* ... and "metal" is what the regenerated element tables say: not forming single bonds and not a noble gas *)
Theorem C08_non_metal_documented : forall n, 1 <= n <= 118 ->
  (non_metal n = true <->
   In n [1; 2; 5; 6; 7; 8; 9; 10; 14; 15; 16; 17; 18; 32; 33; 34; 35; 36; 51; 52; 53; 54; 85; 86; 118]).
Proof. exact non_metal_documented. Qed.
Print Assumptions C08_non_metal_documented.

(* the four classes at once *)
Theorem C08_match_spec : forall q a, tuple_rings q = true ->
  exists b, match_atom q a = Ok b /\ (b = true <-> atom_spec q a).
Proof. exact match_spec. Qed.
Print Assumptions C08_match_spec.

(* every query atom that smarts() builds from a bracket body satisfies the hypothesis of match_spec *)
Theorem C08_smarts_atom_match_spec : forall body q a, smarts_atom body = Ok q ->
  exists b, match_atom q a = Ok b /\ (b = true <-> atom_spec q a).
Proof. exact smarts_atom_match_spec. Qed.
Print Assumptions C08_smarts_atom_match_spec.

Theorem C08_qbond_match_spec : forall q b,
  qbond_match q b = true <-> In (lb_ord b) (qb_ord q) /\ (qb_ring q = None \/ qb_ring q = Some (lb_ring b)).
Proof. exact qbond_match_spec. Qed.
Print Assumptions C08_qbond_match_spec.

(* non-vacuity: the unconstrained query of an element matches exactly the atoms of that element with its charge/radical *)
Theorem C08_match_q_unconstrained : forall num a,
  match_q num None (mkQX (la_chg a) (la_rad a) [] [] [] [] [] false) a = Ok (num =? la_num a).
Proof. exact match_q_unconstrained. Qed.
Print Assumptions C08_match_q_unconstrained.

(* QueryElement.from_atom (code after fix e7bbf46): whatever is requested, the query matches the atom it was made from;
   a non-ring atom gets the not-in-ring mark (0,), a ring atom exactly its ring sizes *)
Theorem C08_from_atom_matches_self : forall a f_nb f_hyb f_het f_h f_rings,
  ~ In 0 (la_rings a) -> match_atom (from_atom a f_nb f_hyb f_het f_h f_rings) a = Ok true.
Proof. exact from_atom_matches_self. Qed.
Print Assumptions C08_from_atom_matches_self.

Theorem C08_from_atom_rings_spec : forall a f_nb f_hyb f_het f_h,
  match from_atom a f_nb f_hyb f_het f_h true with
  | QElem _ _ x => x_rings_set x = false /\
                   (la_rings a = [] -> x_rings x = [0]) /\
                   (la_rings a <> [] -> forall r, In r (x_rings x) <-> In r (la_rings a))
  | _ => False
  end.
Proof. exact from_atom_rings_spec. Qed.
Print Assumptions C08_from_atom_rings_spec.

(* ---------------------------------------------------------------------------------------------------------------- *)
(* labels_spec: for EVERY neighbour list (element number, bond order), of any length and in any order, the loop of
   calc_labels computes: neighbors = number of non-special bonds; heteroatoms = those to atoms other than H and C;
   hybridization = 4 if an aromatic bond, else 3 if a triple or two double bonds, else 2 if one double bond, else 1;
   explicit hydrogens = those to H *)
Theorem C08_labels_spec : forall env,
  labels_of env =
  (count_if not_special env,
   count_if (fun mb => not_special mb && negb (fst mb =? 1) && negb (fst mb =? 6)) env,
   hyb_spec env,
   count_if (fun mb => not_special mb && (fst mb =? 1)) env).
Proof. exact labels_spec. Qed.
Print Assumptions C08_labels_spec.

Theorem C08_labels_order_independent : forall env1 env2, Permutation env1 env2 -> labels_of env1 = labels_of env2.
Proof. exact labels_order_independent. Qed.
Print Assumptions C08_labels_order_independent.

Theorem C08_labels_explicit_h_le_neighbors : forall env,
  snd (labels_of env) + snd (fst (fst (labels_of env))) <= fst (fst (fst (labels_of env))).
Proof. exact labels_explicit_h_le_neighbors. Qed.
Print Assumptions C08_labels_explicit_h_le_neighbors.

(* ring marks as functions of the ring set (the SSSR itself is C06's) *)
Theorem C08_ring_sizes_spec : forall sssr n s,
  In s (ring_sizes_of sssr n) <-> exists r, In r sssr /\ In n r /\ s = Z.of_nat (List.length r).
Proof. exact ring_sizes_spec. Qed.
Print Assumptions C08_ring_sizes_spec.

Theorem C08_ring_sizes_empty_iff : forall sssr n, ring_sizes_of sssr n = [] <-> atom_in_ring sssr n = false.
Proof. exact ring_sizes_empty_iff. Qed.
Print Assumptions C08_ring_sizes_empty_iff.

Theorem C08_atom_in_ring_spec : forall sssr n, atom_in_ring sssr n = true <-> exists r, In r sssr /\ In n r.
Proof. exact atom_in_ring_spec. Qed.
Print Assumptions C08_atom_in_ring_spec.

Theorem C08_bond_in_ring_spec : forall sssr n m,
  bond_in_ring sssr n m = true <-> exists r, In r sssr /\ In n r /\ In m r.
Proof. exact bond_in_ring_spec. Qed.
Print Assumptions C08_bond_in_ring_spec.

(* ---------------------------------------------------------------------------------------------------------------- *)
(* smarts_total.  For EVERY bracket body: _query_parse raises only the invalid-SMARTS error or the ValueError of int() ... *)
Theorem C08_query_parse_errors : forall token e, query_parse token = Err e -> e = IncorrectSmarts \/ e = ValueError.
Proof. exact query_parse_errors. Qed.
Print Assumptions C08_query_parse_errors.

(* ... the construction cls(kwargs) wrapped by smarts() raises a ValueError (setter range / duplicate / unknown element) or
   the invalid-SMARTS error, the latter exactly for a keyword the chosen class does not accept (isotope on A, M or a list;
   charge, stereo, h, x, r on M) ... *)
Theorem C08_build_atom_errors : forall p e, build_atom p = Err e ->
  e = ValueError \/ (e = IncorrectSmarts /\ unsupported_kw p = true).
Proof. exact build_atom_errors. Qed.
Print Assumptions C08_build_atom_errors.

(* ... so the bracket-atom path of smarts() is total in the documented sense (full statement; the earlier trees violated
   it: fixes 4293956, 40c2ce4, edb42d5) *)
Theorem C08_smarts_atom_total : forall body e, smarts_atom body = Err e -> e = IncorrectSmarts \/ e = ValueError.
Proof. exact smarts_atom_total. Qed.
Print Assumptions C08_smarts_atom_total.

(* For EVERY string: smarts_tokenize (_tokenize followed by _query_parse on every bracket body) returns tokens or raises
   IncorrectSmiles / IncorrectSmarts / ValueError (uses TokenizeProofs.tokenize_raw_good of C03) *)
Theorem C08_smarts_tokenize_total : forall s e, smarts_tokenize s = Err e ->
  e = IncorrectSmiles \/ e = IncorrectSmarts \/ e = ValueError.
Proof. exact smarts_tokenize_total. Qed.
Print Assumptions C08_smarts_tokenize_total.

(* non-vacuity: bodies that are rejected (the first seven crashed in earlier trees) and accepted *)
Theorem C08_smarts_atom_examples :
  smarts_atom (s2l "C;,D1") = Err IncorrectSmarts /\ smarts_atom (s2l "C;D1,") = Err IncorrectSmarts /\
  smarts_atom (s2l "M+") = Err IncorrectSmarts /\ smarts_atom (s2l "M;h1") = Err IncorrectSmarts /\
  smarts_atom (s2l "2A") = Err IncorrectSmarts /\ smarts_atom (s2l "12C,N") = Err IncorrectSmarts /\
  smarts_atom (s2l "C+-") = Err IncorrectSmarts /\ smarts_atom (s2l "C;D15") = Err ValueError /\
  smarts_atom (s2l "C;D1,h1") = Err IncorrectSmarts /\ smarts_atom (s2l ";D1") = Err IncorrectSmarts /\
  smarts_atom (s2l "13C@+;D1,D2;h0;r5,r6;x1;z1,z2;M:7") =
    Ok (QElem 6 (Some 13) (mkQX 1 false [1; 2] [1; 2] [0] [1] [5; 6] false)) /\
  smarts_atom (s2l "#6,N;!R;a") = Ok (QList [6; 7] (mkQX 0 false [] [4] [] [] [0] false)) /\
  smarts_atom (s2l "M;D2;z2") = Ok (QMetal [2] [2]) /\ smarts_atom (s2l "A-;h1") = Ok (QAny (mkQX (-1) false [] [] [1] [] [] false)).
Proof. exact smarts_atom_examples. Qed.
Print Assumptions C08_smarts_atom_examples.

(* ---------------------------------------------------------------------------------------------------------------- *)
(* the hand-written scanners and constants of the model are those of the source *)
Theorem C08_smarts_sources_pinned :
  iso_re_src = "^[0-9]+"%string /\ chg_re_src = "[+-][1-4+-]?"%string /\ mpp_re_src = ":[1-9][0-9]*$"%string /\
  str_re_src = "@[@?]?"%string /\
  not_bond_after = [0; 2; 3; 6; 8] /\
  ring_mark_after = [1; 10] /\
  final_tests = [(5, "IncorrectSmiles"%string); (7, "-"%string); (11, "IncorrectSmarts"%string); (12, "IncorrectSmarts"%string);
                 (-1, "-"%string)] /\
  prim_keywords = ["a"%string; "A"%string; "!R"%string; "M"%string] /\
  prim_keys = [("D"%string, "neighbors"%string); ("h"%string, "implicit_hydrogens"%string); ("r"%string, "ring_sizes"%string);
               ("x"%string, "heteroatoms"%string); ("*"%string, "hybridization"%string)] /\
  validate_tests = [("Gt"%string, 14); ("Lt"%string, 0)] /\ hybridization_tests = [("Gt"%string, 4); ("Lt"%string, 1)] /\
  ring_sizes_tests = [("Lt"%string, 3); ("NotEq"%string, 0)] /\ charge_tests = [("Gt"%string, 4); ("Lt"%string, -4)] /\
  st_replace_dict = TokenTables.replace_dict /\ st_not_dict = TokenTables.not_dict /\
  validate_guards = ["value is None"%string; "isinstance(value, int)"%string; "isinstance(value, (tuple, list))"%string] /\
  hybridization_guards = validate_guards /\ ring_sizes_guards = validate_guards /\
  smarts_cx_radicals_src = TokenTables.cx_radicals_src.
Proof. exact smarts_sources_pinned. Qed.
Print Assumptions C08_smarts_sources_pinned.

Theorem C08_charge_dict_is_table :
  forallb (fun g => option_eqb Z.eqb (Query.charge_dict g) (sget st_charge_dict (string_of_list_ascii g))) charge_groups = true /\
  (forall l a g b, chg_search l = Some (a, g, b) -> In g charge_groups).
Proof. exact (conj charge_dict_is_table chg_search_group). Qed.
Print Assumptions C08_charge_dict_is_table.

Theorem C08_prim_letter_is_table :
  forallb (fun n => let c := ascii_of_N n in Bool.eqb (prim_letter c) (existsb (String.eqb (String c EmptyString)) prim_letters))
          (map Z.to_N (zrange 0 256)) = true.
Proof. exact prim_letter_is_table. Qed.
Print Assumptions C08_prim_letter_is_table.

(* ---------------------------------------------------------------------------------------------------------------- *)
(* bond tokens: the 103 documented spellings (none, - = # : ~, two-symbol lists, !- != !# !:, each with ;@ / ;!@) are
   tokenized to the stated orders and ring mark and match a molecule bond exactly when its order is listed and the
   ring mark, if any, agrees *)
Theorem C08_bond_spelling_spec : forall s q b, In (s, q) documented_bonds ->
  bond_of_spelling s = Ok q /\
  (qbond_match q b = true <-> In (lb_ord b) (qb_ord q) /\ (qb_ring q = None \/ qb_ring q = Some (lb_ring b))).
Proof. exact bond_spelling_spec. Qed.
Print Assumptions C08_bond_spelling_spec.

Theorem C08_documented_bonds_count : List.length documented_bonds = 103%nat /\ NoDup (map fst documented_bonds).
Proof. exact documented_bonds_count. Qed.
Print Assumptions C08_documented_bonds_count.

Theorem C08_not_bond_spec : forall b,
  (exists q, bond_of_spelling "!-" = Ok q /\ (qbond_match q b = true <-> In (lb_ord b) [2; 3; 4])) /\
  (exists q, bond_of_spelling "!=" = Ok q /\ (qbond_match q b = true <-> In (lb_ord b) [1; 3; 4])) /\
  (exists q, bond_of_spelling "!#" = Ok q /\ (qbond_match q b = true <-> In (lb_ord b) [1; 2; 4])) /\
  (exists q, bond_of_spelling "!:" = Ok q /\ (qbond_match q b = true <-> In (lb_ord b) [1; 2; 3])) /\
  (exists q, bond_of_spelling "-,=;!@" = Ok q /\ (qbond_match q b = true <-> In (lb_ord b) [1; 2] /\ lb_ring b = false)).
Proof. exact not_bond_spec. Qed.
Print Assumptions C08_not_bond_spec.

Theorem C08_bond_spelling_rejected :
  bond_of_spelling "-,=,#" = Err IncorrectSmarts /\ bond_of_spelling "!!-" = Err IncorrectSmarts /\
  bond_of_spelling "!-,=" = Err IncorrectSmarts /\ bond_of_spelling ";@" = Err IncorrectSmarts /\
  bond_of_spelling "-;!!@" = Err IncorrectSmarts /\
  tokenize_raw "C!-" = Ok [(0, PStr "C"); (10, PZs [2; 3; 4])] /\
  tokenize_raw "C!" = Err IncorrectSmarts /\ tokenize_raw "C!~C" = Err IncorrectSmarts /\
  tokenize_raw "C-;@;@C" = Err IncorrectSmarts /\ tokenize_raw ";@C" = Err IncorrectSmarts /\
  tokenize_raw "C-;" = Err IncorrectSmarts /\ tokenize_raw "C-;!" = Err IncorrectSmarts.
Proof. exact bond_spelling_rejected. Qed.
Print Assumptions C08_bond_spelling_rejected.

(* ---------------------------------------------------------------------------------------------------------------- *)
(* query_roundtrip: for EVERY record p of the documented subset -
     isotope >= 0; charge in +-1..+-4 or absent; mapping >= 1; a non-empty element list of symbols (letters) and #numbers;
     neighbours / hydrogens / heteroatoms / ring sizes / hybridisations absent or non-empty lists of non-negative numbers;
     not-in-ring = the integer 0; aromatic = the integer 4 -
   parsing the canonical spelling  [isotope]elements[@|@@][charge];D..;h..;r..|!R;x..;z..|a;M:map  gives p back *)
Theorem C08_query_roundtrip : forall p, canonical p -> query_parse (spell_query p) = Ok p.
Proof. exact query_roundtrip. Qed.
Print Assumptions C08_query_roundtrip.

Theorem C08_query_roundtrip_example :
  canonical rt_example /\ spell_query rt_example = s2l "13C,#7@+;D1,D2;h0;r5,r6;x1;z1,z2;M:7".
Proof. exact query_roundtrip_example. Qed.
Print Assumptions C08_query_roundtrip_example.

(* every valued primitive, for ALL value lists: D h r x z followed by its numbers, alternatives joined by commas *)
Theorem C08_prim_step_spelled : forall t vs out, In t ["D"; "h"; "r"; "x"; "z"]%char -> vs <> [] /\ Forall (fun v => 0 <= v) vs ->
  prim_step out (spell_prim t vs) = Ok (set_prim out t vs).
Proof. exact prim_step_spelled. Qed.
Print Assumptions C08_prim_step_spelled.

(* ---------------------------------------------------------------------------------------------------------------- *)
(* the query API setters (neighbors / heteroatoms / implicit_hydrogens with lo = 0, hi = 14): None = unconstrained; a bare int
   in range is the one-value constraint, 0 included; an accepted list is stored with exactly its members *)
Theorem C08_validate_api_spec : forall lo hi,
  validate_api lo hi None = Ok [] /\
  (forall v, lo <= v <= hi -> validate_api lo hi (Some (IInt v)) = Ok [v]) /\
  (forall v, v < lo \/ hi < v -> validate_api lo hi (Some (IInt v)) = Err ValueError) /\
  (forall l r, validate_api lo hi (Some (IList l)) = Ok r ->
     (forall x, In x r <-> In x l) /\ (forall x, In x l -> lo <= x <= hi) /\ nodup_z l = true).
Proof. exact validate_api_spec. Qed.
Print Assumptions C08_validate_api_spec.

(* ---------------------------------------------------------------------------------------------------------------- *)
(* the WHOLE of smarts() (Model.SmartsFull.smarts_full: smarts_tokenize, parser(tokens, False), the atom loop with add_atom, the
   cis/trans flags, add_bond) for a text without white space *)

(* parser() on ANY non-empty list of smarts_tokenize tokens (atoms, int bonds, order lists, ring-marked QueryBonds, direction
   marks, closures, brackets, dots): a record whose bonds join atom positions, or IncorrectSmiles (the C03 proof covers the
   tokens of smiles_tokenize only) *)
Theorem C08_smarts_parse_good : forall ts strong, forallb qwfb ts = true -> ts <> [] ->
  match Parser.parse ts strong with
  | Ok p => Parser.p_atoms p <> [] /\ Forall (SmartsParser.bwf (Z.of_nat (List.length (Parser.p_atoms p)))) (Parser.p_bonds p)
  | Err e => vee e = true
  end.
Proof. exact SmartsParser.parse_good. Qed.
Print Assumptions C08_smarts_parse_good.

(* smarts_total for the WHOLE function, full statement: for EVERY text smarts() returns a query container or raises
   IncorrectSmiles / IncorrectSmarts / ValueError (tokenizer totality of C03, parser totality above, the atom loop, the cis/trans
   handling after fixes f821fac and 18f2b99 - both mark tables non-empty and distinct -, add_bond) *)
Theorem C08_smarts_full_total : forall s e, smarts_full s = Err e -> vee e = true.
Proof. exact smarts_full_total. Qed.
Print Assumptions C08_smarts_full_total.

(* the texts that crashed in earlier trees are now rejected with a ValueError-class exception, or read *)
Theorem C08_smarts_full_examples :
  smarts_full "F/C=1=1" = Err ValueError /\ smarts_full "F/C1=1" = Err ValueError /\
  (exists r, smarts_full "C/C=C(/C)C(/C)=C/C" = Ok r) /\ (exists r, smarts_full "F/C(=C/F)=C/F" = Ok r) /\
  smarts_full "" = Err ValueError /\ smarts_full "C/C=,#C/C" =
    Ok ([(QElem 6 None (mkQX 0 false [] [] [] [] [] false), None); (QElem 6 None (mkQX 0 false [] [] [] [] [] false), None);
         (QElem 6 None (mkQX 0 false [] [] [] [] [] false), None); (QElem 6 None (mkQX 0 false [] [] [] [] [] false), None)],
        [mkSB 1 0 (mkQB [1] None) None; mkSB 2 1 (mkQB [2; 3] None) (Some false); mkSB 3 2 (mkQB [1] None) None]).
Proof. exact smarts_full_examples. Qed.
Print Assumptions C08_smarts_full_examples.

(* ---------------------------------------------------------------------------------------------------------------- *)
(* denotation of linear patterns.  Token level: for ANY chain  atom (bond-token? atom)*  of smarts_tokenize tokens (bond tokens of
   type 1 / 10 / 12; no direction marks, branches, closures) whose atoms can be built and whose explicit atom numbers are
   distinct, the rest of smarts() builds exactly these atoms in order and exactly one bond between consecutive atoms, with the
   query bond of its token (single when there is none) and no cis/trans flag *)
Theorem C08_chain_denotation : forall p0 rest q0 qs bqs,
  Forall link_ok rest ->
  Forall2 (fun p q => build_atom p = Ok q) (p0 :: map snd rest) (q0 :: qs) ->
  NoDup (explicit_maps (p0 :: map snd rest)) ->
  Forall2 (fun x q => qbond_of_payload (bond_value (fst x)) = Ok q) rest bqs ->
  full_of_tokens (chain_tokens p0 rest) (p0 :: map snd rest) =
  Ok (map (fun pq => atom_result (fst pq) (snd pq)) (combine (p0 :: map snd rest) (q0 :: qs)), chain_sbonds 1 bqs).
Proof. exact chain_denotation. Qed.
Print Assumptions C08_chain_denotation.

(* Text level: for EVERY text  [body0] (bond-spelling [body])*  of any length, where each bond spelling is nothing, - = # : ~,
   a two-symbol list, !- != !# !:, optionally followed by ;@ or ;!@, and each body is bracket-free, non-empty and accepted by
   _query_parse: smarts() builds exactly the atoms of the bodies and, between consecutive atoms, the bond with the documented
   orders and ring mark (denote_bond) *)
Theorem C08_chain_text_denotation : forall body0 p0 links q0 qs,
  body_ok body0 p0 -> Forall tlink_ok links ->
  Forall2 (fun p q => build_atom p = Ok q) (p0 :: map tl_parsed links) (q0 :: qs) ->
  NoDup (explicit_maps (p0 :: map tl_parsed links)) ->
  smarts_full (string_of_list_ascii (chain_text body0 links)) =
  Ok (map (fun pq => atom_result (fst pq) (snd pq)) (combine (p0 :: map tl_parsed links) (q0 :: qs)),
      chain_sbonds 1 (map (fun x => denote_bond (tl_bond x)) links)).
Proof. exact chain_text_denotation. Qed.
Print Assumptions C08_chain_text_denotation.

Theorem C08_chain_text_example :
  body_ok (s2l "C;D2") ex_p0 /\ Forall tlink_ok ex_links /\
  string_of_list_ascii (chain_text (s2l "C;D2") ex_links) = "[C;D2]-,=;!@[N,O;h1]!:[#8][C;D2]"%string /\
  smarts_full "[C;D2]-,=;!@[N,O;h1]!:[#8][C;D2]" =
  Ok ([(QElem 6 None (mkQX 0 false [2] [] [] [] [] false), None); (QList [7; 8] (mkQX 0 false [] [] [1] [] [] false), None);
       (QElem 8 None (mkQX 0 false [] [] [] [] [] false), None); (QElem 6 None (mkQX 0 false [2] [] [] [] [] false), None)],
      [mkSB 1 0 (mkQB [1; 2] (Some false)) None; mkSB 2 1 (mkQB [1; 2; 3] None) None; mkSB 3 2 (mkQB [1] None) None]).
Proof. exact chain_text_example. Qed.
Print Assumptions C08_chain_text_example.

(* ---------------------------------------------------------------------------------------------------------------- *)
(* CXSMARTS radicals: smarts(smr + ' ' + cx) (Model.SmartsFull.smarts_cx; the pattern scanner is Model.Reader.rad_findall, the
   pattern text of smarts.py is pinned equal to that of smiles.py) *)
Theorem C08_smarts_cx_none : forall s, smarts_cx s None = smarts_full s.
Proof. exact smarts_cx_none. Qed.
Print Assumptions C08_smarts_cx_none.

Theorem C08_smarts_cx_total : forall s cx e, smarts_cx s cx = Err e -> vee e = true.
Proof. exact smarts_cx_total. Qed.
Print Assumptions C08_smarts_cx_total.

Theorem C08_smarts_cx_examples :
  smarts_cx "[C;D2]C"%string (Some "|^1:1|"%string) =
    Ok ([(QElem 6 None (mkQX 0 false [2] [] [] [] [] false), None); (QElem 6 None (mkQX 0 true [] [] [] [] [] false), None)],
        [mkSB 1 0 (mkQB [1] None) None]) /\
  smarts_cx "CN"%string (Some "|^1:0,1|"%string) =
    Ok ([(QElem 6 None (mkQX 0 true [] [] [] [] [] false), None); (QElem 7 None (mkQX 0 true [] [] [] [] [] false), None)],
        [mkSB 1 0 (mkQB [1] None) None]) /\
  smarts_cx "C"%string (Some "|^1:5|"%string) = Err IncorrectSmarts /\ smarts_cx "[M]"%string (Some "|^1:0|"%string) = Err IncorrectSmarts /\
  smarts_cx "C"%string (Some "^1:0"%string) = smarts_full "C"%string.
Proof. exact smarts_cx_examples. Qed.
Print Assumptions C08_smarts_cx_examples.

(* ---------------------------------------------------------------------------------------------------------------- *)
(* QueryContainer.add_atom normalisation and Query.copy *)
(* g.add_atom('X') and g.add_atom(n) build the atom that smarts('[X]') / smarts('[#n]') builds (A: any atom, M: any metal) *)
Theorem C08_add_atom_sym_is_smarts : forall s,
  add_atom_norm (ASym s) = build_atom (mkParsed None None None None [ESym s] None None None None None false).
Proof. exact add_atom_sym_is_smarts. Qed.
Print Assumptions C08_add_atom_sym_is_smarts.
Theorem C08_add_atom_num_is_smarts : forall n,
  add_atom_norm (ANum n) = build_atom (mkParsed None None None None [ENum n] None None None None None false).
Proof. exact add_atom_num_is_smarts. Qed.
Print Assumptions C08_add_atom_num_is_smarts.

(* g.add_atom(element atom) = from_atom without flags: matches exactly the atoms of that element, charge, radical state and
   isotope (None / 0 = any), whatever their environment *)
Theorem C08_add_atom_elem_spec : forall a b,
  exists r, (match add_atom_norm (AElem a) with Ok q => match_atom q b | Err e => Err e end) = Ok r /\
    (r = true <-> la_num a = la_num b /\ la_chg a = la_chg b /\ la_rad a = la_rad b /\ iso_ok (la_iso a) (la_iso b)).
Proof. exact add_atom_elem_spec. Qed.
Print Assumptions C08_add_atom_elem_spec.

(* copy(full): comparison data kept; stereo mark and masked flag survive a full copy only; idempotent *)
Theorem C08_qcopy_spec : forall full x,
  fst (fst (qcopy full x)) = fst (fst x) /\
  qcopy false x = (fst (fst x), None, false) /\
  qcopy full (qcopy full x) = qcopy full x /\ qcopy false (qcopy true x) = qcopy false x.
Proof. exact qcopy_spec. Qed.
Print Assumptions C08_qcopy_spec.

(* ---------------------------------------------------------------------------------------------------------------- *)
(* known finding smarts-stereo-branch-mark-inverted (status "known", /repo frozen): "two spellings of one cis/trans configuration
   get the same flag" is FALSE for the faithful model: the matcher reads the flag relative to the first bonded neighbour of each
   end, smarts() computes it from the last written mark, so a marked branch ('F/C(/Cl)=C/F' versus 'F/C(Cl)=C/F', both with the
   two F trans) inverts it.  What holds without marked branches is tied by search only (RDKit, cis/trans pairs) *)
Theorem C08_stereo_flag_spelling_independent_refuted :
  double_bond_flag "F/C(Cl)=C/F" = Some (Some false) /\ double_bond_flag "F/C(/Cl)=C/F" = Some (Some true) /\
  double_bond_flag "F/C=C/F" = Some (Some false) /\ double_bond_flag "F/C=C\F" = Some (Some true).
Proof. exact stereo_flag_spelling_independent_refuted. Qed.
Print Assumptions C08_stereo_flag_spelling_independent_refuted.

(* ---------------------------------------------------------------------------------------------------------------- *)
(* denotation of BRANCHED patterns.  A pattern is a tree: an atom, parenthesised branches "(" bond tree ")" and at most one
   continuation  bond tree.  Token level: for ANY such tree of smarts_tokenize tokens the rest of smarts() numbers the atoms
   in the order written and bonds every atom to its parent IN THE TREE (bonds_forest) with the query bond of its token *)
Theorem C08_tree_denotation : forall t qs,
  ok_tree t ->
  Forall2 (fun p q => build_atom p = Ok q) (atoms_tree t) qs ->
  NoDup (explicit_maps (atoms_tree t)) ->
  Forall payload_valid (bonds_forest (kids_of t) 0 1) ->
  full_of_tokens (tok_tree t) (atoms_tree t) =
  Ok (map (fun pq => atom_result (fst pq) (snd pq)) (combine (atoms_tree t) qs), map to_sbond (bonds_forest (kids_of t) 0 1)).
Proof. exact tree_denotation. Qed.
Print Assumptions C08_tree_denotation.

(* Text level: for EVERY text of the grammar
     tree := atom ( "(" bond tree ")" )* ( bond tree )?     bond := documented spelling (possibly none)
     atom := "[" body "]"  |  N O P S F I C B Cl Br  |  c n o p s b      (body bracket-free, accepted by _query_parse)
   of any size and nesting depth, smarts() builds exactly the atoms written, in order (an unbracketed atom is the plain
   element query; aromatic letters lose their aromaticity, as the code does), and exactly the bonds of the tree *)
Theorem C08_tree_text_denotation : forall t qs,
  tok_ok_tree t ->
  Forall2 (fun p q => build_atom p = Ok q) (atoms_tree (to_tree t)) qs ->
  NoDup (explicit_maps (atoms_tree (to_tree t))) ->
  Forall payload_valid (bonds_forest (kids_of (to_tree t)) 0 1) ->
  smarts_full (string_of_list_ascii (text_tree t)) =
  Ok (map (fun pq => atom_result (fst pq) (snd pq)) (combine (atoms_tree (to_tree t)) qs),
      map to_sbond (bonds_forest (kids_of (to_tree t)) 0 1)).
Proof. exact tree_text_denotation. Qed.
Print Assumptions C08_tree_text_denotation.

Theorem C08_tree_text_example :
  tok_ok_tree ex_tree /\
  string_of_list_ascii (text_tree ex_tree) = "[C;D3](=O)(-,:;@[N,O])c!-[#6;a]Cl"%string /\
  smarts_full "[C;D3](=O)(-,:;@[N,O])c!-[#6;a]Cl" =
  Ok ([(QElem 6 None (mkQX 0 false [3] [] [] [] [] false), None); (QElem 8 None (mkQX 0 false [] [] [] [] [] false), None);
       (QList [7; 8] (mkQX 0 false [] [] [] [] [] false), None); (QElem 6 None (mkQX 0 false [] [] [] [] [] false), None);
       (QElem 6 None (mkQX 0 false [] [4] [] [] [] false), None); (QElem 17 None (mkQX 0 false [] [] [] [] [] false), None)],
      [mkSB 1 0 (mkQB [2] None) None; mkSB 2 0 (mkQB [1; 4] (Some true)) None; mkSB 3 0 (mkQB [1] None) None;
       mkSB 4 3 (mkQB [2; 3; 4] None) None; mkSB 5 4 (mkQB [1] None) None]).
Proof. exact tree_text_example. Qed.
Print Assumptions C08_tree_text_example.

(* ---------------------------------------------------------------------------------------------------------------- *)
(* the cis/trans flag, exactly as the code computes it (finding smarts-stereo-branch-mark-inverted stated precisely): for ANY table
   of direction marks and ANY bond, the flag is set exactly when the ends differ, both have marks left, the bond can be double and
   m is not a marked neighbour of n; it is the equality of the LAST written marks of the two ends, and these two are consumed *)
Theorem C08_stereo_flag_spec : forall sb n m b dn dm,
  zget sb n = Some dn -> zget sb m = Some dm ->
  (n <> m /\ dn <> [] /\ dm <> [] /\ can_double b = true /\ ~ In m (keys dn) ->
     stereo_of sb n m b = Ok (Some (Bool.eqb (snd (last dn (0, false))) (snd (last dm (0, false)))),
                              Parser.zset (Parser.zset sb n (removelast dn)) m (removelast dm))) /\
  (~ (n <> m /\ dn <> [] /\ dm <> [] /\ can_double b = true /\ ~ In m (keys dn)) -> stereo_of sb n m b = Ok (None, sb)).
Proof. exact stereo_flag_spec. Qed.
Print Assumptions C08_stereo_flag_spec.

Theorem C08_stereo_flag_unmarked : forall sb n m b, zget sb n = None \/ zget sb m = None -> stereo_of sb n m b = Ok (None, sb).
Proof. exact stereo_flag_unmarked. Qed.
Print Assumptions C08_stereo_flag_unmarked.

(* the suggested repair (translate one mark of each end to the first bonded substituent: keep it if it is that substituent's,
   invert it otherwise) is spelling independent: for any geometry of the two ends (the two substituents of an end on opposite
   sides), any two spellings of it and any choice of marks, the flag is the same, namely "first substituents on the same side" *)
Theorem C08_repaired_flag_spelling_independent : forall gn gm rn rn' rm rm' marksn marksn' marksm marksm' xn xn' xm xm',
  gn rn' = negb (gn rn) -> gm rm' = negb (gm rm) ->
  spelling_of gn rn rn' marksn -> spelling_of gn rn rn' marksn' -> spelling_of gm rm rm' marksm -> spelling_of gm rm rm' marksm' ->
  In xn marksn -> In xn' marksn' -> In xm marksm -> In xm' marksm' ->
  repaired_flag rn rm xn xm = repaired_flag rn rm xn' xm' /\ repaired_flag rn rm xn xm = Bool.eqb (gn rn) (gm rm).
Proof. exact repaired_flag_spelling_independent. Qed.
Print Assumptions C08_repaired_flag_spelling_independent.

(* the flag of the code is not: one geometry, two spellings of one end, different last marks; the repaired flag agrees on both *)
Theorem C08_last_mark_flag_spelling_dependent :
  let g := fun x : Z => if x =? 1 then false else true in
  spelling_of g 1 2 [(1, false)] /\ spelling_of g 1 2 [(1, false); (2, true)] /\
  Bool.eqb (snd (last [(1, false)] (0, false))) true <> Bool.eqb (snd (last [(1, false); (2, true)] (0, false))) true /\
  repaired_flag 1 5 (1, false) (5, true) = repaired_flag 1 5 (2, true) (5, true).
Proof. exact last_mark_flag_spelling_dependent. Qed.
Print Assumptions C08_last_mark_flag_spelling_dependent.

(* ---------------------------------------------------------------------------------------------------------------- *)
(* denotation of patterns with RING CLOSURES.  The meaning (SmartsRing.den_root) threads, in reading order, the table of open
   closures (digit -> atom that opened it, bond token written there): an item  bond? digit  at atom a opens the digit, or closes it
   with a bond between a and the opening atom whose value is the bond written at either end (both written: they must be equal,
   otherwise the text is rejected; none: single); every atom is bonded to its parent in the tree.  Token level, for ANY tree: *)
Theorem C08_ring_denotation : forall t qs bonds,
  rok_tree t -> den_root t = Some ([], bonds) ->
  Forall2 (fun p q => build_atom p = Ok q) (atoms_rtree t) qs ->
  NoDup (explicit_maps (atoms_rtree t)) ->
  distinct_pairs [] bonds -> Forall payload_valid bonds ->
  full_of_tokens (tok_rtree t) (atoms_rtree t) =
  Ok (map (fun pq => atom_result (fst pq) (snd pq)) (combine (atoms_rtree t) qs), map to_sbond bonds).
Proof. exact ring_denotation. Qed.
Print Assumptions C08_ring_denotation.

(* one closure item, for ANY parser state of the invariant: it opens the digit or closes it with the resolved bond *)
Theorem C08_ring_item : forall k bs st last cy s b d, TC k bs st last cy s -> PI s -> cyc_wf k cy -> SmartsRing.okb b ->
  match zget (cyc_view cy) d with
  | None => exists s' cy', Parser.step false (Parser.set_prev s b) (6, PInt d) = Ok s' /\ TC k bs st last cy' s' /\ PI s' /\
                           cyc_view cy' = (cyc_view cy ++ [(d, (last, b))])%list /\ cyc_wf k cy'
  | Some (a, ob) =>
      match resolve ob b with
      | Some v => exists s', Parser.step false (Parser.set_prev s b) (6, PInt d) = Ok s' /\
                             TC k (bs ++ [(last, a, v)]) st last (Parser.zdel cy d) s' /\ PI s' /\ cyc_wf k (Parser.zdel cy d)
      | None => Parser.step false (Parser.set_prev s b) (6, PInt d) = Err IncorrectSmiles
      end
  end.
Proof. exact ring_item. Qed.
Print Assumptions C08_ring_item.

(* Text level: for EVERY text of the grammar
     tree := atom ( bond closure )* ( "(" bond tree ")" )* ( bond tree )?     closure := 1 .. 9 | %10 .. %99
   smarts() builds the atoms written, in order, the bonds of the tree and the ring bonds of den_root - provided den_root closes
   every digit, no bond joins an atom to itself and no two bonds join the same atoms (otherwise smarts() rejects the text) *)
Theorem C08_ring_text_denotation : forall t qs bonds,
  xok_tree t -> den_root (to_rtree t) = Some ([], bonds) ->
  Forall2 (fun p q => build_atom p = Ok q) (atoms_rtree (to_rtree t)) qs ->
  NoDup (explicit_maps (atoms_rtree (to_rtree t))) ->
  distinct_pairs [] bonds -> Forall payload_valid bonds ->
  smarts_full (string_of_list_ascii (text_xtree t)) =
  Ok (map (fun pq => atom_result (fst pq) (snd pq)) (combine (atoms_rtree (to_rtree t)) qs), map to_sbond bonds).
Proof. exact ring_text_denotation. Qed.
Print Assumptions C08_ring_text_denotation.

Theorem C08_ring_text_example :
  xok_tree ex_xtree /\
  string_of_list_ascii (text_xtree ex_xtree) = "[C;D3]%12(=O)c-,=N-;@%12"%string /\
  den_root (to_rtree ex_xtree) = Some ([], [(1, 0, PInt 2); (2, 0, PInt 1); (3, 2, PZs [1; 2]); (3, 0, PQB [1] true)]) /\
  distinct_pairs [] [(1, 0, PInt 2); (2, 0, PInt 1); (3, 2, PZs [1; 2]); (3, 0, PQB [1] true)] /\
  smarts_full "[C;D3]%12(=O)c-,=N-;@%12" =
  Ok ([(QElem 6 None (mkQX 0 false [3] [] [] [] [] false), None); (QElem 8 None (mkQX 0 false [] [] [] [] [] false), None);
       (QElem 6 None (mkQX 0 false [] [] [] [] [] false), None); (QElem 7 None (mkQX 0 false [] [] [] [] [] false), None)],
      [mkSB 1 0 (mkQB [2] None) None; mkSB 2 0 (mkQB [1] None) None; mkSB 3 2 (mkQB [1; 2] None) None; mkSB 3 0 (mkQB [1] (Some true)) None]).
Proof. exact ring_text_example. Qed.
Print Assumptions C08_ring_text_example.

(* ---------------------------------------------------------------------------------------------------------------- *)
(* query atoms and bonds against MOLECULE atoms and bonds (the labels are no longer a parameter of the statement): for a molecule
   graph g, its ring set and atom n, the comparison method applied to the atom as calc_labels labels it is total and true exactly
   when the GRAPH satisfies the documented condition: element / list / any / metal, charge, radical, isotope; the number of
   non-special bonds of n is in D; the number of those to atoms other than H and C is in x; hyb_spec of the bond orders of n is
   in z (4 = has an aromatic bond = the primitive a); the hydrogen count is in h; r: some ring of the set through n has a listed
   size, !R: no ring of the set goes through n *)
Theorem C08_match_in_mol : forall q g sssr n a, tuple_rings q = true -> atom_of g n = Some a ->
  exists la b, labelled g sssr n = Some la /\ match_atom q la = Ok b /\ (b = true <-> atom_spec_mol q g sssr n a).
Proof. exact match_in_mol. Qed.
Print Assumptions C08_match_in_mol.

Theorem C08_smarts_match_in_mol : forall body q g sssr n a, smarts_atom body = Ok q -> atom_of g n = Some a ->
  exists la b, labelled g sssr n = Some la /\ match_atom q la = Ok b /\ (b = true <-> atom_spec_mol q g sssr n a).
Proof. exact smarts_match_in_mol. Qed.
Print Assumptions C08_smarts_match_in_mol.

Theorem C08_rings_ok_mol_iff : forall q sssr n, rings_ok q (ring_sizes_of sssr n) <-> rings_ok_mol q sssr n.
Proof. exact rings_ok_mol_iff. Qed.
Print Assumptions C08_rings_ok_mol_iff.

(* a query bond against the bond n-m of the molecule: order listed, and the ring mark (if any) agrees with "not a special bond
   and both ends in a common ring of the set" *)
Theorem C08_qbond_in_mol : forall q g sssr n m b, bond_of g n m = Some b ->
  exists ring, bond_ring_label g sssr n m = Some ring /\ (ring = true <-> mol_bond_in_ring b sssr n m) /\
    (qbond_match q (mkLB (b_ord b) ring) = true <->
       In (b_ord b) (qb_ord q) /\ (qb_ring q = None \/ (qb_ring q = Some true /\ mol_bond_in_ring b sssr n m) \/
                                    (qb_ring q = Some false /\ ~ mol_bond_in_ring b sssr n m))).
Proof. exact qbond_in_mol. Qed.
Print Assumptions C08_qbond_in_mol.

Theorem C08_match_in_mol_example :
  (exists q la, smarts_atom (s2l "N;D2;a;r6") = Ok q /\ labelled pyridine [[1; 2; 3; 4; 5; 6]] 1 = Some la /\ match_atom q la = Ok true) /\
  (exists q la, smarts_atom (s2l "N;h1") = Ok q /\ labelled pyridine [[1; 2; 3; 4; 5; 6]] 1 = Some la /\ match_atom q la = Ok false) /\
  (exists q, bond_of_spelling "-,:;@" = Ok q /\ bond_ring_label pyridine [[1; 2; 3; 4; 5; 6]] 1 2 = Some true /\
             qbond_match q (mkLB 4 true) = true).
Proof. exact match_in_mol_example. Qed.
Print Assumptions C08_match_in_mol_example.

(* ---------------------------------------------------------------------------------------------------------------- *)
(* branch order and constants of the modelled methods, regenerated from the source on every run (tests of every if / elif in
   source order): the three extended classes share one tail (Query.match_tail); from_symbol / from_atom; the label loop *)
Theorem C08_eq_branches_pinned :
  eq_tests_QueryElement = (model_head_q ++ model_tail_tests)%list /\ eq_tests_AnyElement = (model_head_any ++ model_tail_tests)%list /\
  eq_tests_ListElement = (model_head_list ++ model_tail_tests)%list /\ eq_tests_AnyMetal = model_metal /\
  eq_tests_QueryBond = ["isinstance(other, Bond)"; "self.in_ring is not None"; "self.in_ring != other.in_ring";
                        "isinstance(other, QueryBond)"; "isinstance(other, int)"]%string.
Proof. exact eq_branches_pinned. Qed.
Print Assumptions C08_eq_branches_pinned.

Theorem C08_from_atom_pinned :
  from_symbol_tests = ["symbol == 'A'"; "symbol == 'M'"]%string /\
  from_atom_tests = ["not isinstance(atom, Element)"; "neighbors"; "hybridization"; "heteroatoms"; "ring_sizes";
                     "hydrogens and atom.implicit_hydrogens is not None"; "stereo"]%string /\
  from_atom_assigns = ["query._charge = atom.charge"; "query._heteroatoms = (atom.heteroatoms,)";
                       "query._hybridization = (atom.hybridization,)"; "query._implicit_hydrogens = (atom.implicit_hydrogens,)";
                       "query._is_radical = atom.is_radical"; "query._neighbors = (atom.neighbors,)";
                       "query._ring_sizes = tuple(sorted(atom.ring_sizes)) or (0,)"; "query._stereo = atom.stereo"]%string.
Proof. exact from_atom_pinned. Qed.
Print Assumptions C08_from_atom_pinned.

Theorem C08_calc_labels_pinned :
  calc_labels_tests = ["bond == 8"; "bond == 4"; "hybridization != 4"; "bond == 3"; "bond == 2"; "hybridization == 1";
                       "hybridization == 2"; "(a := atoms[m]) == H"; "a != C"]%string /\
  calc_labels_hyb_values = ["1"; "4"; "3"; "2"; "3"]%string.
Proof. exact calc_labels_pinned. Qed.
Print Assumptions C08_calc_labels_pinned.

(* ---------------------------------------------------------------------------------------------------------------- *)
(* atom numbers (Model.SmartsFull.atom_numbers: explicit numbers kept; the other atoms get consecutive numbers above every
   explicit one; masked atoms take the process-wide counter g0 + rank): all numbers of a query are distinct *)
Theorem C08_numbers_nodup : forall g0 ps,
  NoDup (explicit_of ps) -> (forall k, In k (explicit_of ps) -> 1 <= k) ->
  max_explicit ps + 1 + Z.of_nat (List.length ps) <= g0 ->
  NoDup (map (num_value g0) (atom_numbers ps)).
Proof. exact numbers_nodup. Qed.
Print Assumptions C08_numbers_nodup.

Theorem C08_numbers_explicit : forall ps free masked i p, nth_error ps i = Some p ->
  exists a, nth_error (assign_numbers ps free masked) i = Some a /\
            match p_mapping p with Some k => a = NGiven k | None => if p_masked p then exists j, a = NMasked j /\ masked <= j
                                                                 else exists k, a = NGiven k /\ free <= k end.
Proof. exact numbers_explicit. Qed.
Print Assumptions C08_numbers_explicit.

Theorem C08_numbers_example :
  smarts_numbers "[C:7]C[N;M:2][O;M]C[S;M]" = Ok [NGiven 7; NGiven 8; NGiven 2; NMasked 0; NGiven 9; NMasked 1].
Proof. exact numbers_example. Qed.
Print Assumptions C08_numbers_example.

(* ---------------------------------------------------------------------------------------------------------------- *)
(* denotation of MULTI-COMPONENT patterns  tree ( "." tree )*: the atoms of all components in the order written, every atom
   bonded to its parent in its own tree, nothing between components.  Token level and text level (trees as in
   C08_tree_text_denotation), for any number of components of any size *)
Theorem C08_pattern_denotation : forall t ts qs,
  ok_tree t -> Forall ok_tree ts ->
  Forall2 (fun p q => build_atom p = Ok q) (atoms_pattern t ts) qs ->
  NoDup (explicit_maps (atoms_pattern t ts)) ->
  Forall payload_valid (bonds_pattern t ts) ->
  full_of_tokens (tok_pattern t ts) (atoms_pattern t ts) =
  Ok (map (fun pq => atom_result (fst pq) (snd pq)) (combine (atoms_pattern t ts) qs), map to_sbond (bonds_pattern t ts)).
Proof. exact pattern_denotation. Qed.
Print Assumptions C08_pattern_denotation.

Theorem C08_pattern_text_denotation : forall t ts qs,
  tok_ok_tree t -> Forall tok_ok_tree ts ->
  Forall2 (fun p q => build_atom p = Ok q) (atoms_pattern (to_tree t) (map to_tree ts)) qs ->
  NoDup (explicit_maps (atoms_pattern (to_tree t) (map to_tree ts))) ->
  Forall payload_valid (bonds_pattern (to_tree t) (map to_tree ts)) ->
  smarts_full (string_of_list_ascii (text_pattern t ts)) =
  Ok (map (fun pq => atom_result (fst pq) (snd pq)) (combine (atoms_pattern (to_tree t) (map to_tree ts)) qs),
      map to_sbond (bonds_pattern (to_tree t) (map to_tree ts))).
Proof. exact pattern_text_denotation. Qed.
Print Assumptions C08_pattern_text_denotation.

Theorem C08_pattern_text_example :
  let t1 := TNode (TBr (s2l "C;D2")) (qp "C;D2") (TNext (BCore (CSym Bdouble) None) (TNode (TSym UO) (simple_query "O") TNil)) in
  let t2 := TNode (TSym UN) (simple_query "N") (TBranch BNone (TNode (TSym UC) (simple_query "C") TNil) (TNext (BCore (CNot Bsingle) None) (TNode (TSym UCl) (simple_query "Cl") TNil))) in
  tok_ok_tree t1 /\ tok_ok_tree t2 /\ string_of_list_ascii (text_pattern t1 [t2]) = "[C;D2]=O.N(C)!-Cl"%string /\
  smarts_full "[C;D2]=O.N(C)!-Cl" =
  Ok ([(QElem 6 None (mkQX 0 false [2] [] [] [] [] false), None); (QElem 8 None (mkQX 0 false [] [] [] [] [] false), None);
       (QElem 7 None (mkQX 0 false [] [] [] [] [] false), None); (QElem 6 None (mkQX 0 false [] [] [] [] [] false), None);
       (QElem 17 None (mkQX 0 false [] [] [] [] [] false), None)],
      [mkSB 1 0 (mkQB [2] None) None; mkSB 3 2 (mkQB [1] None) None; mkSB 4 2 (mkQB [2; 3; 4] None) None]).
Proof. exact pattern_text_example. Qed.
Print Assumptions C08_pattern_text_example.

Theorem C08_smarts_fn_pinned :
  smarts_fn_tests =
    ["not isinstance(data, str)"; "cx and cx[0].startswith('|') and cx[0].endswith('|')"; "int(i) >= len(parsed['atoms'])";
     "isinstance(e, int)"; "isinstance(e, str)";
     "n != m and n in stereo_bonds and (m in stereo_bonds) and stereo_bonds[n] and stereo_bonds[m] and (b == 2 if isinstance(b, int) else 2 in (b if isinstance(b, list) else b.order))";
     "m not in stereo_bonds[n]"; "isinstance(b, (int, list))"]%string /\
  smarts_qb_calls = ["QueryBond(b, stereo=s1 == s2)"]%string /\ smarts_raises = ["IncorrectSmarts"; "TypeError"]%string.
Proof. exact smarts_fn_pinned. Qed.
Print Assumptions C08_smarts_fn_pinned.

(* ---------------------------------------------------------------------------------------------------------------- *)
(* query_roundtrip composed with the denotation theorems: the spelling of EVERY canonical record is non-empty, bracket-free and
   parsed back to the record, hence an admissible bracket atom of C08_chain_text / tree_text / ring_text / pattern_text
   _denotation; and the one-atom SMARTS of a canonical record builds exactly that record's query atom *)
Theorem C08_canonical_body_ok : forall p, canonical p -> body_ok (spell_query p) p.
Proof. exact canonical_body_ok. Qed.
Print Assumptions C08_canonical_body_ok.

Theorem C08_canonical_single_atom : forall p q, canonical p -> build_atom p = Ok q ->
  smarts_full (string_of_list_ascii (bracket (spell_query p))) = Ok ([atom_result p q], []).
Proof. exact canonical_single_atom. Qed.
Print Assumptions C08_canonical_single_atom.

(* ---------------------------------------------------------------------------------------------------------------- *)
(* THE FULL GRAMMAR of the denotation theorems:
     pattern := tree ( "." tree )*
     tree    := atom ( bond closure )* ( "(" bond tree ")" )* ( bond tree )?
     atom    := "[" body "]" | N O P S F I C B Cl Br | c n o p s b          closure := 1 .. 9 | %10 .. %99
     bond    := nothing | - = # : ~ | two of them with a comma | !- != !# !: , each optionally followed by ;@ or ;!@
   For EVERY such text: smarts() builds the atoms written, in order; every atom is bonded to its parent in its own tree; every pair
   of equal closure numbers - also across a dot - gives a bond between the atoms carrying them (den_pattern); provided every
   closure is closed, no bond joins an atom to itself and no two bonds join the same atoms (otherwise smarts() rejects) *)
Theorem C08_rpattern_denotation : forall t ts qs bonds,
  rok_tree t -> Forall rok_tree ts -> den_pattern t ts = Some ([], bonds) ->
  Forall2 (fun p q => build_atom p = Ok q) (atoms_rpattern t ts) qs ->
  NoDup (explicit_maps (atoms_rpattern t ts)) ->
  distinct_pairs [] bonds -> Forall payload_valid bonds ->
  full_of_tokens (tok_rpattern t ts) (atoms_rpattern t ts) =
  Ok (map (fun pq => atom_result (fst pq) (snd pq)) (combine (atoms_rpattern t ts) qs), map to_sbond bonds).
Proof. exact rpattern_denotation. Qed.
Print Assumptions C08_rpattern_denotation.

Theorem C08_full_text_denotation : forall t ts qs bonds,
  xok_tree t -> Forall xok_tree ts -> den_pattern (to_rtree t) (map to_rtree ts) = Some ([], bonds) ->
  Forall2 (fun p q => build_atom p = Ok q) (atoms_rpattern (to_rtree t) (map to_rtree ts)) qs ->
  NoDup (explicit_maps (atoms_rpattern (to_rtree t) (map to_rtree ts))) ->
  distinct_pairs [] bonds -> Forall payload_valid bonds ->
  smarts_full (string_of_list_ascii (text_xpattern t ts)) =
  Ok (map (fun pq => atom_result (fst pq) (snd pq)) (combine (atoms_rpattern (to_rtree t) (map to_rtree ts)) qs), map to_sbond bonds).
Proof. exact full_text_denotation. Qed.
Print Assumptions C08_full_text_denotation.

Theorem C08_full_text_example :
  let t1 := XNode (TBr (s2l "C;D2")) (qp "C;D2") [(BNone, CD D1)] (XBranch (BCore (CSym Bdouble) None) (XNode (TSym UO) (simple_query "O") [] XNil) XNil) in
  let t2 := XNode (TSym UN) (simple_query "N") [(BCore (CSym Bsingle) None, CD D1)] (XNext BNone (XNode (TSym Uc) (simple_query "C") [] XNil)) in
  xok_tree t1 /\ xok_tree t2 /\ string_of_list_ascii (text_xpattern t1 [t2]) = "[C;D2]1(=O).N-1c"%string /\
  den_pattern (to_rtree t1) [to_rtree t2] = Some ([], [(1, 0, PInt 2); (2, 0, PInt 1); (3, 2, PInt 1)]) /\
  smarts_full "[C;D2]1(=O).N-1c" =
  Ok ([(QElem 6 None (mkQX 0 false [2] [] [] [] [] false), None); (QElem 8 None (mkQX 0 false [] [] [] [] [] false), None);
       (QElem 7 None (mkQX 0 false [] [] [] [] [] false), None); (QElem 6 None (mkQX 0 false [] [] [] [] [] false), None)],
      [mkSB 1 0 (mkQB [2] None) None; mkSB 2 0 (mkQB [1] None) None; mkSB 3 2 (mkQB [1] None) None]).
Proof. exact full_text_example. Qed.
Print Assumptions C08_full_text_example.

(* ---------------------------------------------------------------------------------------------------------------- *)
(* TIE BY TRANSLATION (round 4): Gen.QueryParseBody.g_query_parse is regenerated on every run from the statements of
   chython/files/daylight/tokenize.py:_query_parse (tools/gen_queryparse.py: the four scan blocks with their slicing, the
   charge_dict lookup with its except clause, the split, the element comprehension and its scalar / list normalisation, the
   whole primitive loop with continue / raise, the letter dispatch).  It equals the hand-written model all theorems about
   bracket atoms are stated for, on EVERY token (inj_parsed: a one-item element list = the scalar case of the dict). *)
Theorem C08_query_parse_translated : forall t,
  g_query_parse t = match query_parse t with Ok p => Ok (inj_parsed p) | Err e => Err e end.
Proof. exact g_query_parse_eq. Qed.
Print Assumptions C08_query_parse_translated.

Theorem C08_prim_loop_translated : forall ps out,
  g_qp_loop0 (inj_parsed out) ps = match prim_loop out ps with Ok p => Ok (inj_parsed p) | Err e => Err e end.
Proof. exact loop_eq. Qed.
Print Assumptions C08_prim_loop_translated.

(* stated for the generated function itself: an empty segment - what a charge or stereo mark written as a ';' segment of its
   own leaves behind - is skipped and the loop goes on with the remaining primitives; only the two documented exception
   classes can come out *)
Theorem C08_translated_empty_segment_skipped : forall out ps, g_qp_loop0 out ([] :: ps) = g_qp_loop0 out ps.
Proof. exact g_empty_segment_skipped. Qed.
Print Assumptions C08_translated_empty_segment_skipped.

Theorem C08_translated_query_parse_errors : forall t e, g_query_parse t = Err e -> e = IncorrectSmarts \/ e = ValueError.
Proof. exact g_query_parse_errors. Qed.
Print Assumptions C08_translated_query_parse_errors.

Theorem C08_translated_query_parse_example :
  g_query_parse (s2l "13C,#7;@@;D1,D2;-2;h0;!R;M:7") =
    Ok (mkG (Some 13) (Some (-2)) (Some 7) (Some false) (Some (EList [ESym (s2l "C"); ENum 7])) (Some [1; 2]) (Some [0]) (Some (IInt 0)) None None true) /\
  g_query_parse (s2l "N;+;D3") = Ok (mkG None (Some 1) None None (Some (EScalar (ESym (s2l "N")))) (Some [3]) None None None None false) /\
  g_query_parse (s2l "N;D3;+") = g_query_parse (s2l "N+;D3") /\
  g_query_parse (s2l "C;D1,h1") = Err IncorrectSmarts /\ g_query_parse (s2l "#x") = Err ValueError.
Proof. exact g_query_parse_example. Qed.
Print Assumptions C08_translated_query_parse_example.

(* ---------------------------------------------------------------------------------------------------------------- *)
(* FROM SEARCH TO THEOREM (round 4): the position of a ';'-separated charge mark.  For EVERY bracket body: one of the 14 texts
   the charge scan can return, written as a ';' segment of its own after a part x without sign characters and without ':'
   (the mark stands before the mapping) and followed by nothing or by the next ';' segment, is parsed exactly as the same text
   glued in place - whatever x and y contain otherwise (isotope, element list, stereo mark, primitives, malformed text, mapping
   in y).  With query_roundtrip (glued canonical spelling) this covers the documented preferable spelling [N;+;D3] / [N;D3;+]. *)
Theorem C08_charge_position_independent : forall x g y,
  clean is_sign x -> clean is_colon x -> In g charge_groups -> sep_tail y ->
  query_parse (x ++ ";"%char :: g ++ y)%list = query_parse (x ++ g ++ y)%list.
Proof. exact charge_position_independent. Qed.
Print Assumptions C08_charge_position_independent.

Theorem C08_charge_position_example :
  (clean is_sign (s2l "13N;@;D3") /\ clean is_colon (s2l "13N;@;D3") /\ In (s2l "+2") charge_groups /\ sep_tail (s2l ";h1:7")) /\
  query_parse (s2l "13N;@;D3;+2;h1:7") = query_parse (s2l "13N;@;D3+2;h1:7") /\
  query_parse (s2l "N;+;D3") = query_parse (s2l "N+;D3") /\ query_parse (s2l "N;D3;+") = query_parse (s2l "N;D3+") /\
  exists p, query_parse (s2l "13N;@;D3;+2;h1:7") = Ok p /\ p_charge p = Some 2 /\ p_nb p = Some [3] /\ p_h p = Some [1] /\ p_mapping p = Some 7.
Proof. exact charge_position_example. Qed.
Print Assumptions C08_charge_position_example.

(* the same for the stereo mark: '@' / '@@' as a ';' segment of its own after a part x without '@' and ':' - wherever the
   charge mark stands (in x or y, glued or separated: the charge scan runs first and cuts the same group out of both spellings) *)
Theorem C08_stereo_position_independent : forall x g y,
  clean is_at x -> clean is_colon x -> stereo_mark g -> sep_tail y ->
  query_parse (x ++ ";"%char :: g ++ y)%list = query_parse (x ++ g ++ y)%list.
Proof. exact stereo_position_independent. Qed.
Print Assumptions C08_stereo_position_independent.

Theorem C08_stereo_position_example :
  (clean is_at (s2l "13C;+;D3") /\ clean is_colon (s2l "13C;+;D3") /\ stereo_mark (s2l "@@") /\ sep_tail (s2l ";h1;M:7")) /\
  query_parse (s2l "13C;+;D3;@@;h1;M:7") = query_parse (s2l "13C;+;D3@@;h1;M:7") /\
  query_parse (s2l "C;@;-;h1") = query_parse (s2l "C@;-;h1") /\ query_parse (s2l "C;h1;@") = query_parse (s2l "C;h1@") /\
  exists p, query_parse (s2l "13C;+;D3;@@;h1;M:7") = Ok p /\ p_stereo p = Some false /\ p_charge p = Some 1 /\ p_nb p = Some [3] /\
            p_h p = Some [1] /\ p_masked p = true /\ p_mapping p = Some 7.
Proof. exact stereo_position_example. Qed.
Print Assumptions C08_stereo_position_example.

(* ---------------------------------------------------------------------------------------------------------------- *)
(* TIE BY TRANSLATION (round 4) of the comparison methods: Gen.QueryEqBody.g_eq_<Class> is regenerated on every run from the
   statements of QueryElement / AnyElement / ListElement / AnyMetal.__eq__ (tools/gen_queryeq.py: every if / elif / return with
   its test, attributes mapped to the fields of the model records) and equals the hand-written model the match theorems
   (match_spec, match in the molecule) are stated for - for EVERY query atom and EVERY labelled atom, TypeError case included. *)
Theorem C08_eq_methods_translated : forall q a, g_match_atom q a = match_atom q a.
Proof. exact g_match_atom_eq. Qed.
Print Assumptions C08_eq_methods_translated.

Theorem C08_eq_methods_translated_each :
  (forall num iso x a, g_eq_QueryElement num iso x a = match_q num iso x a) /\ (forall x a, g_eq_AnyElement x a = match_any x a) /\
  (forall nums x a, g_eq_ListElement nums x a = match_list nums x a) /\ (forall nb hyb a, g_eq_AnyMetal nb hyb a = match_metal nb hyb a).
Proof. exact (conj g_eq_QueryElement_eq (conj g_eq_AnyElement_eq (conj g_eq_ListElement_eq g_eq_AnyMetal_eq))). Qed.
Print Assumptions C08_eq_methods_translated_each.

Theorem C08_eq_methods_translated_example :
  g_match_atom (QElem 7 None (mkQX 1 false [3] [] [1] [] [] false)) (mkLA 7 None 1 false 3 1 (Some 1) 0 []) = Ok true /\
  g_match_atom (QElem 7 None (mkQX 1 false [3] [] [1] [] [] false)) (mkLA 7 None 1 false 4 1 (Some 0) 0 []) = Ok false /\
  g_match_atom (QList [17; 35] (mkQX 0 false [] [] [] [] [5; 6] false)) (mkLA 6 None 0 false 2 1 (Some 2) 0 [6]) = Ok false /\
  g_match_atom (QAny (mkQX 0 false [] [] [] [] [0] false)) (mkLA 6 None 0 false 2 1 (Some 2) 0 [6]) = Ok false /\
  g_match_atom (QMetal [] []) (mkLA 26 None 2 false 0 1 (Some 0) 0 []) = Ok true /\
  g_match_atom (QAny (mkQX 0 false [] [] [] [] [5] true)) (mkLA 6 None 0 false 2 1 (Some 2) 0 [5]) = Err TypeError.
Proof. exact g_match_atom_example. Qed.
Print Assumptions C08_eq_methods_translated_example.

(* TIE BY TRANSLATION (round 4) of the label loop of MoleculeContainer.calc_labels (molecule.py lines 534-560): the counters
   before the loop and one pass of `for m, bond in m_bond.items()` are regenerated on every run (tools/gen_labels.py ->
   Gen.LabelsBody; the ring mark bond._in_ring is recognised and left to bond_ring_label) and equal the hand-written step the
   labels_spec theorems are stated for, so labels_of IS the fold of the translated step from the translated start value. *)
Theorem C08_label_step_translated : forall st mb, g_label_step st mb = label_step st mb.
Proof. exact g_label_step_eq. Qed.
Print Assumptions C08_label_step_translated.

Theorem C08_labels_of_translated : forall env, labels_of env = fold_left g_label_step env g_label_init.
Proof. exact labels_of_translated. Qed.
Print Assumptions C08_labels_of_translated.

Theorem C08_labels_translated_example :
  fold_left g_label_step [(6, 4); (8, 2); (6, 4)] g_label_init = (3, 1, 4, 0) /\
  fold_left g_label_step [(8, 2); (6, 4); (6, 4)] g_label_init = (3, 1, 4, 0) /\
  fold_left g_label_step [(6, 2); (1, 1); (7, 2); (26, 8)] g_label_init = (3, 1, 3, 1).
Proof. exact g_label_example. Qed.
Print Assumptions C08_labels_translated_example.

(* the same two facts for the query atom smarts('[body]') builds (Query.smarts_atom = _query_parse + class dispatch + setters) *)
Theorem C08_mark_position_atom : forall x g y,
  (clean is_sign x -> clean is_colon x -> In g charge_groups -> sep_tail y ->
   smarts_atom (x ++ ";"%char :: g ++ y)%list = smarts_atom (x ++ g ++ y)%list) /\
  (clean is_at x -> clean is_colon x -> stereo_mark g -> sep_tail y ->
   smarts_atom (x ++ ";"%char :: g ++ y)%list = smarts_atom (x ++ g ++ y)%list).
Proof. intros x g y. split; [apply charge_position_atom | apply stereo_position_atom]. Qed.
Print Assumptions C08_mark_position_atom.

(* ---------------------------------------------------------------------------------------------------------------- *)
(* TIE BY TRANSLATION (round 5): QueryBond.__eq__ (bonds.py, the isinstance dispatch with every branch; tools/gen_qbondeq.py ->
   Gen.QBondEqBody) and QueryElement.from_atom (query.py, every statement; tools/gen_fromatom.py -> Gen.FromAtomBody) are
   regenerated from the source on every run and equal the hand-written qbond_match / from_atom for all inputs. *)
Theorem C08_qbond_eq_translated : forall q b, g_eq_QueryBond q (OBond b) = qbond_match q b.
Proof. exact g_eq_QueryBond_bond. Qed.
Print Assumptions C08_qbond_eq_translated.

Theorem C08_qbond_eq_translated_others : forall q,
  (forall o, g_eq_QueryBond q (OQuery o) = list_eqb Z.eqb (qb_ord q) (qb_ord o) && option_eqb Bool.eqb (qb_ring q) (qb_ring o)) /\
  (forall n, g_eq_QueryBond q (OInt n) = zmem n (qb_ord q)) /\ g_eq_QueryBond q OOther = false.
Proof. exact g_eq_QueryBond_others. Qed.
Print Assumptions C08_qbond_eq_translated_others.

Theorem C08_qbond_eq_translated_example :
  g_eq_QueryBond (mkQB [1; 2] (Some true)) (OBond (mkLB 2 true)) = true /\ g_eq_QueryBond (mkQB [1; 2] (Some true)) (OBond (mkLB 2 false)) = false /\
  g_eq_QueryBond (mkQB [1; 2] None) (OBond (mkLB 3 false)) = false /\ g_eq_QueryBond (mkQB [1; 2] None) (OInt 2) = true /\
  g_eq_QueryBond (mkQB [1; 2] None) (OQuery (mkQB [1; 2] (Some false))) = false.
Proof. exact g_eq_QueryBond_example. Qed.
Print Assumptions C08_qbond_eq_translated_example.

Theorem C08_from_atom_translated : forall a st f_nb f_hyb f_het f_h f_rings f_st,
  exists g, g_from_atom a st f_nb f_hyb f_het f_h f_rings f_st = Ok g /\
            gq_qatom g = from_atom a f_nb f_hyb f_het f_h f_rings /\ gq_stereo g = (if f_st then st else None).
Proof. exact g_from_atom_eq. Qed.
Print Assumptions C08_from_atom_translated.

Theorem C08_from_atom_translated_example :
  let a := mkLA 6 (Some 13) (-1) false 3 2 (Some 0) 1 [6; 5] in
  option_map gq_qatom (match g_from_atom a (Some true) true true true true true true with Ok g => Some g | Err _ => None end) =
    Some (QElem 6 (Some 13) (mkQX (-1) false [3] [2] [0] [1] [5; 6] false)) /\
  option_map gq_stereo (match g_from_atom a (Some true) false false false false false true with Ok g => Some g | Err _ => None end) = Some (Some true) /\
  option_map gq_qatom (match g_from_atom (mkLA 8 None 0 false 1 1 None 0 []) None false false false true true false with Ok g => Some g | Err _ => None end) =
    Some (QElem 8 None (mkQX 0 false [] [] [] [] [0] false)).
Proof. exact g_from_atom_example. Qed.
Print Assumptions C08_from_atom_translated_example.
