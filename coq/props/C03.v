(* C03 -- the SMILES reader builds the molecule the text denotes and rejects everything else.
   Statements only; proofs in Proofs.TokenizeProofs / ParserProofs / ReaderProofs.  The models (Model.Tokenize, Parser,
   Reader) mirror tokenize.py, parser.py, smiles.py:smiles(), _mapping.py and the structural part of _convert.py; the
   dictionaries, character classes and regular-expression texts come from Gen.TokenTables / Gen.Elements, regenerated
   from the source on every run. *)
From Coq Require Import ZArith List String Ascii Bool.
From Model Require Import PyBase Graph Valence Tokenize TokenizePrims MappingPrims RadicalPrims ContractPrims Parser Reader SmilesAst SmilesGraph SmilesOrder SmilesText CxGroups Recheck.
From Gen Require Import TokenTables C03Source TokenizeBody MappingBody RadicalBody ContractBody.
From Proofs Require Import TokenizeProofs ParserProofs ReaderProofs ReaderExt ReaderExt2 DenoteProofs GraphProofs OrderProofs TextProofs CxProofs RecheckProofs RecheckTotal SourcePins TokenizeTranslated ReaderRadicals MappingTranslated RadicalTranslated ContractTranslated TranslatedReader RecheckValid.
Import ListNotations.
Open Scope Z_scope.

(* the hand-written matchers are for exactly these pattern texts *)
Theorem C03_regex_sources_pinned :
  atom_re_src = "([1-9][0-9]{0,2})?([A-IK-PR-Zacnopsbt][a-ik-pr-vy]?)(@@|@)?(H[1-4]?)?([+-][1-4+-]?)?(:[0-9]+)?"%string /\
  cx_fragments_src = "f:(?:[0-9]+(?:\.[0-9]+)+)(?:,(?:[0-9]+(?:\.[0-9]+)+))*"%string /\
  cx_radicals_src = "\^[1-7]:[0-9]+(?:,[0-9]+)*"%string.
Proof. exact regex_sources_pinned. Qed.
Print Assumptions C03_regex_sources_pinned.

(* CENTRE-PIECE.  For EVERY text, smiles(text, ignore=.., remap=..) returns a molecule / reaction or raises a
   ValueError-class exception (ValueError incl. MappingError / EmptyReaction, IncorrectSmiles, IncorrectSmarts):
   never IndexError, KeyError, TypeError, AttributeError.   total r := match r with Ok _ => True | Err e => vee e = true end *)
Theorem C03_reader_total : forall (ignore remap : bool) (s : string), total (read ignore remap s).
Proof. exact reader_total. Qed.
Print Assumptions C03_reader_total.

Theorem C03_reader_total_is_ve : forall (ignore remap : bool) (s : string) (e : pyexn),
  read ignore remap s = Err e -> is_ve e = true.
Proof. exact reader_total_is_ve. Qed.
Print Assumptions C03_reader_total_is_ve.

(* non-vacuity of reader_total: accepted molecules / reactions and one rejected text per failure class *)
Theorem C03_reader_examples :
  (exists m, read true false "C1CC1[13CH3:7] |^1:0|" = Ok (RMol m)) /\
  (exists a b c, read true false "C.[Na+]>O>CC.[Cl-] |f:0.1|" = Ok (RRxn a b c)) /\
  read true false "C(" = Err IncorrectSmiles /\ read true false "C-;@C" = Err IncorrectSmiles /\
  read true false ";" = Err IncorrectSmarts /\ read true false "C!~C" = Err IncorrectSmarts /\
  read true false "C |^1:5|" = Err IncorrectSmiles /\ read true false "C11" = Err ValueError /\
  read true false ">>" = Err ValueError /\ read false false "[CH3:1][CH3:1]" = Err ValueError.
Proof. exact reader_examples. Qed.
Print Assumptions C03_reader_examples.

(* smiles_tokenize: total; atoms carry an atom dictionary, bonds / closures an int, direction marks a bool, no SMARTS
   token survives; a non-empty text never gives an empty token list *)
Theorem C03_tokenize_total : forall s : string,
  match tokenize s with
  | Ok l => forallb swfb l = true /\ (s <> ""%string -> l <> [])
  | Err e => vee e = true
  end.
Proof. exact tokenize_good. Qed.
Print Assumptions C03_tokenize_total.

Theorem C03_tokenize_example :
  exists l, tokenize "[13CH3:7]C(=O)/C=C\c1ccc%10.Cl%10" = Ok l /\ List.length l = 20%nat.
Proof. exact tokenize_example. Qed.
Print Assumptions C03_tokenize_example.

(* parser on any non-empty list of such tokens: a record whose bonds join existing atoms with int values, or IncorrectSmiles *)
Theorem C03_parser_total : forall (ts : list token) (strong : bool),
  forallb swfb ts = true -> ts <> [] -> GoodR parsed_wf (parse ts strong).
Proof. exact parse_good. Qed.
Print Assumptions C03_parser_total.

(* postprocess_parsed_molecule: pairwise distinct numbers, one per atom; the first atom carrying a map keeps it; every
   number is the atom's own map or larger than every map in the molecule *)
Theorem C03_mapping_numbers : forall (ignore : bool) (maps out : list Z),
  pp_molecule false ignore maps = Ok out ->
  NoDup out /\ List.length out = List.length maps /\
  (forall i m, nth_error maps i = Some m -> m <> 0 -> ~ In m (firstn i maps) -> nth_error out i = Some m) /\
  (forall i m x, nth_error maps i = Some m -> nth_error out i = Some x -> x = m \/ forall m', In m' maps -> m' < x).
Proof. exact mapping_numbers. Qed.
Print Assumptions C03_mapping_numbers.

Theorem C03_mapping_numbers_example :
  pp_molecule false true [0; 5; 0; 5; 2] = Ok [6; 5; 7; 8; 2] /\ pp_molecule false false [0; 5; 0; 5; 2] = Err ValueError.
Proof. exact mapping_numbers_example. Qed.
Print Assumptions C03_mapping_numbers_example.

(* ---- one theorem per `raise` of parser(): the guard fires exactly on the stated class of (state, token) *)
Theorem C03_reject_not_atom_started : forall ts,
  guard ts = Ok tt <->
  (exists t v r, ts = (t, v) :: r /\ t <> 2 /\ zmem t [0; 8] = true) \/
  (exists v t2 v2 r, ts = (2, v) :: (t2, v2) :: r /\ zmem t2 [0; 8] = true).
Proof. exact reject_not_atom_started. Qed.
Print Assumptions C03_reject_not_atom_started.

Theorem C03_reject_bond_before_branch : forall strong s v,
  step strong s (2, v) = Err IncorrectSmiles <-> exists pt pv, ps_prev s = Some (pt, pv) /\ pt <> 4.
Proof. exact reject_bond_before_branch. Qed.
Print Assumptions C03_reject_bond_before_branch.

Theorem C03_reject_close_branch : forall strong s v,
  step strong s (3, v) = Err IncorrectSmiles <-> ps_prev s <> None \/ ps_stack s = [].
Proof. exact reject_close_branch. Qed.
Print Assumptions C03_reject_close_branch.

Theorem C03_reject_bond_token : forall strong s ty v, zmem ty [1; 4; 9; 10; 12] = true ->
  (step strong s (ty, v) = Err IncorrectSmiles <-> ps_prev s <> None \/ ps_atoms s = []) /\
  (forall s', step strong s (ty, v) = Ok s' -> ps_prev s' = Some (ty, v) /\ ps_stack s' = ps_stack s /\ ps_cycles s' = ps_cycles s).
Proof. exact reject_bond_token. Qed.
Print Assumptions C03_reject_bond_token.

Theorem C03_reject_dot_closure : forall strong s k pv, ps_prev s = Some (4, pv) -> step strong s (6, PInt k) = Err IncorrectSmiles.
Proof. exact reject_dot_closure. Qed.
Print Assumptions C03_reject_dot_closure.

Theorem C03_reject_closure_bond_strong : forall s a,
  (forall obt obv, ps_prev s = None -> obt <> 9 -> close_bond true s a (Some (obt, obv)) = Err IncorrectSmiles) /\
  (forall bt b, ps_prev s = Some (bt, b) -> bt <> 9 -> close_bond true s a None = Err IncorrectSmiles).
Proof. exact reject_closure_bond_strong_both. Qed.
Print Assumptions C03_reject_closure_bond_strong.

Theorem C03_reject_closure_bond_mismatch : forall strong s a o1 o2,
  ps_prev s = Some (1, PInt o2) -> o1 <> o2 -> close_bond strong s a (Some (1, PInt o1)) = Err IncorrectSmiles.
Proof. exact reject_closure_bond_mismatch. Qed.
Print Assumptions C03_reject_closure_bond_mismatch.

Theorem C03_reject_closure_direction_vs_bond : forall strong s a o b, o <> 1 ->
  (ps_prev s = Some (9, PBool b) -> close_bond strong s a (Some (1, PInt o)) = Err IncorrectSmiles) /\
  (ps_prev s = Some (1, PInt o) -> close_bond strong s a (Some (9, PBool b)) = Err IncorrectSmiles).
Proof. exact reject_closure_direction_vs_bond. Qed.
Print Assumptions C03_reject_closure_direction_vs_bond.

Theorem C03_reject_at_end : forall s,
  finish s = Err IncorrectSmiles <-> ps_stack s <> [] \/ ps_cycles s <> [] \/ ps_prev s <> None.
Proof. exact reject_at_end. Qed.
Print Assumptions C03_reject_at_end.

(* ---- input-level rejection, for ALL token lists: what is accepted is balanced, closes every ring number, has no two
   adjacent bond symbols and does not end with one *)
Theorem C03_reject_unbalanced : forall ts strong p, parse ts strong = Ok p -> depth_run 0 ts = Some 0%nat.
Proof. exact reject_unbalanced. Qed.
Print Assumptions C03_reject_unbalanced.

Theorem C03_reject_open_closure : forall ts strong p, parse ts strong = Ok p -> forall k, closure_parity k ts = false.
Proof. exact reject_open_closure. Qed.
Print Assumptions C03_reject_open_closure.

Theorem C03_reject_dangling_bond : forall ts ty v strong p,
  parse (ts ++ [(ty, v)]) strong = Ok p -> zmem ty [1; 4; 9; 10; 12] = false.
Proof. exact reject_dangling_bond. Qed.
Print Assumptions C03_reject_dangling_bond.

Theorem C03_reject_two_bonds : forall a t1 v1 t2 v2 b strong p,
  parse (a ++ (t1, v1) :: (t2, v2) :: b) strong = Ok p -> zmem t1 [1; 4; 9; 10; 12] && zmem t2 [1; 4; 9; 10; 12] = false.
Proof. exact reject_two_bonds. Qed.
Print Assumptions C03_reject_two_bonds.

Theorem C03_reject_examples :
  (exists p, parse [(0, PAtom (simple_atom "C")); (2, PNone); (1, PInt 2); (0, PAtom (simple_atom "O")); (3, PNone); (0, PAtom (simple_atom "C"))] true = Ok p) /\
  parse [(0, PAtom (simple_atom "C")); (2, PNone); (0, PAtom (simple_atom "O"))] true = Err IncorrectSmiles /\
  parse [(0, PAtom (simple_atom "C")); (3, PNone)] true = Err IncorrectSmiles /\
  parse [(0, PAtom (simple_atom "C")); (1, PInt 2)] true = Err IncorrectSmiles /\
  parse [(0, PAtom (simple_atom "C")); (1, PInt 2); (1, PInt 1); (0, PAtom (simple_atom "C"))] true = Err IncorrectSmiles /\
  parse [(0, PAtom (simple_atom "C")); (6, PInt 1)] true = Err IncorrectSmiles.
Proof. exact reject_examples. Qed.
Print Assumptions C03_reject_examples.

(* ---- implicit bond choice: aromatic (4) iff both atom tokens are aromatic (type 8), else single; explicit symbols as
   written; the dot joins nothing *)
Theorem C03_implicit_bond_chain : forall strong s ty a s',
  ps_atoms s <> [] -> (ps_prev s = None \/ exists b, ps_prev s = Some (9, PBool b)) ->
  In ty [0; 8] -> step strong s (ty, PAtom a) = Ok s' ->
  exists tl, type_at s (ps_last s) = Ok tl /\
             ps_bonds s' = ps_bonds s ++ [(ps_n s, ps_last s, if (ty =? 8) && (tl =? 8) then PInt 4 else PInt 1)].
Proof. exact implicit_bond_chain. Qed.
Print Assumptions C03_implicit_bond_chain.

Theorem C03_implicit_bond_closure : forall strong s a ob r,
  (ps_prev s = None \/ exists b, ps_prev s = Some (9, PBool b)) -> (ob = None \/ exists b, ob = Some (9, PBool b)) ->
  close_bond strong s a ob = Ok r ->
  exists tl ta, type_at s (ps_last s) = Ok tl /\ type_at s a = Ok ta /\
                fst (fst (fst r)) = if (tl =? 8) && (ta =? 8) then PInt 4 else PInt 1.
Proof. exact implicit_bond_closure. Qed.
Print Assumptions C03_implicit_bond_closure.

Theorem C03_explicit_bond_chain : forall strong s ty a o s',
  ps_atoms s <> [] -> ps_prev s = Some (1, PInt o) -> In ty [0; 8] -> step strong s (ty, PAtom a) = Ok s' ->
  ps_bonds s' = ps_bonds s ++ [(ps_n s, ps_last s, PInt o)].
Proof. exact explicit_bond_chain. Qed.
Print Assumptions C03_explicit_bond_chain.

Theorem C03_dot_no_bond : forall strong s ty a pv s',
  ps_atoms s <> [] -> ps_prev s = Some (4, pv) -> In ty [0; 8] -> step strong s (ty, PAtom a) = Ok s' -> ps_bonds s' = ps_bonds s.
Proof. exact dot_no_bond. Qed.
Print Assumptions C03_dot_no_bond.

(* ---- the tables of tokenize.py (regenerated from the source on every run) are the ones of the SMILES language, as sets /
   finite maps: bond symbols and their orders, direction marks, organic-subset and aromatic symbols, every charge spelling *)
Theorem C03_char_classes_pinned : forall c,
  chr_in c bond_chars = chr_in c "-=#:~" /\ chr_in c updown_chars = chr_in c "/\" /\ chr_in c organic_chars = chr_in c "NOPSFI" /\
  chr_in c aromatic_chars = chr_in c "cnopsb" /\ chr_in c cb_chars = chr_in c "CB".
Proof. exact char_classes_pinned. Qed.
Print Assumptions C03_char_classes_pinned.

Theorem C03_dicts_pinned :
  sdict_eqv Z.eqb replace_dict spec_replace = true /\
  sdict_eqv (list_eqb Z.eqb) not_dict spec_not = true /\
  sdict_eqv Z.eqb charge_dict spec_charge = true /\
  forallb (fun x => smem x spec_aromatic) aromatic_elements && forallb (fun x => smem x aromatic_elements) spec_aromatic = true.
Proof. exact dicts_pinned. Qed.
Print Assumptions C03_dicts_pinned.

(* postprocess_parsed_reaction(remap=False), in full: one number per atom; within the reactants, within the products and within
   the reagents all numbers are pairwise distinct; no reagent number occurs among reactants or products (reagent atoms whose map
   collides are re-numbered above everything); on the reactant and on the product side the first atom carrying a map keeps it, so
   mapped atoms of the two sides correspond.   keeps_maps maps out := forall i m, nth_error maps i = Some m -> m <> 0 ->
   ~ In m (firstn i maps) -> nth_error out i = Some m *)
Theorem C03_mapping_numbers_reaction : forall ignore rs ps gs mR mP mG,
  pp_reaction false ignore rs ps gs = Ok (mR, mP, mG) ->
  List.length (List.concat mR) = List.length (List.concat rs) /\ List.length (List.concat mP) = List.length (List.concat ps) /\
  List.length (List.concat mG) = List.length (List.concat gs) /\
  NoDup (List.concat mR) /\ NoDup (List.concat mP) /\ NoDup (List.concat mG) /\
  (forall x, In x (List.concat mG) -> ~ In x (List.concat mR) /\ ~ In x (List.concat mP)) /\
  keeps_maps (List.concat rs) (List.concat mR) /\ keeps_maps (List.concat ps) (List.concat mP).
Proof. exact mapping_numbers_reaction. Qed.
Print Assumptions C03_mapping_numbers_reaction.

(* remap=True = the remap=False numbering followed, number by number, by one function sq that is strictly monotone on the numbers
   in use (so all of the above - distinctness, disjointness, correspondence of mapped atoms between the sides - is preserved),
   keeps them >= 1 and never increases one.  (That sq leaves no gap - the result is exactly 1..N - is C03_squeeze_gap_free below.) *)
Theorem C03_mapping_numbers_reaction_remap : forall ignore rs ps gs mR' mP' mG',
  pp_reaction true ignore rs ps gs = Ok (mR', mP', mG') ->
  exists mR mP mG sq,
    pp_reaction false ignore rs ps gs = Ok (mR, mP, mG) /\
    List.concat mR' = map sq (List.concat mR) /\ List.concat mP' = map sq (List.concat mP) /\ List.concat mG' = map sq (List.concat mG) /\
    (forall x y, In x (List.concat mR ++ List.concat mP ++ List.concat mG) -> In y (List.concat mR ++ List.concat mP ++ List.concat mG) ->
                 x < y -> sq x < sq y) /\
    (forall x, In x (List.concat mR ++ List.concat mP ++ List.concat mG) -> 1 <= x -> 1 <= sq x <= x).
Proof. exact mapping_numbers_reaction_remap. Qed.
Print Assumptions C03_mapping_numbers_reaction_remap.

Theorem C03_mapping_numbers_reaction_example :
  pp_reaction false true [[1; 0]; [7]] [[7; 1]] [[1; 0; 3]] = Ok ([[1; 8]; [7]], [[7; 1]], [[10; 9; 3]]) /\
  pp_reaction true true [[1; 0]; [7]] [[7; 1]] [[1; 0; 3]] = Ok ([[1; 4]; [3]], [[3; 1]], [[6; 5; 2]]).
Proof. exact mapping_numbers_reaction_example. Qed.
Print Assumptions C03_mapping_numbers_reaction_example.

(* ---- read_spell_denote: the token machine (branch stack, last_num, previous) implements the grammar.  For every well-formed
   tree of the SMILES abstract syntax (Model.SmilesAst: atoms with ring-bond lists, branches, chain, dots) the parser returns, on
   the spelling of the tree, exactly the record the tree denotes (atoms, bonds, neighbour order, closure slots, direction-mark
   tables, log) - and raises exactly when the denotation is undefined.  `denote` attaches every atom to its parent IN THE TREE and
   applies ring digits at the atom they follow; it has no stack, no last atom and no pending bond (at_node resets them before
   every local operation); its two local operations are the machine's own atom / ring steps on such a reset state. *)
Theorem C03_read_spell_denote : forall (strong : bool) (t : tree), wf_tree t = true -> parse (spell t) strong = denote strong t.
Proof. exact read_spell_denote. Qed.
Print Assumptions C03_read_spell_denote.

Theorem C03_read_spell_denote_example :
  let C := simple_atom "C" in
  let t := Node 0 C [(None, 1)] [(Some (1, PInt 2), Node 0 (simple_atom "O") [] []);
                                 (None, Node 8 C [] [(None, Node 8 C [(Some (9, PBool true), 1)] [(Some (4, PNone), Node 0 C [] [])])])] in
  wf_tree t = true /\ (exists p, denote true t = Ok p /\ List.length (p_atoms p) = 5%nat /\ List.length (p_bonds p) = 4%nat) /\
  denote true (Node 0 C [(None, 1)] []) = Err IncorrectSmiles.
Proof. exact read_spell_denote_example. Qed.
Print Assumptions C03_read_spell_denote_example.


(* ---- the hydrogen recheck / radical decision tree of create_molecule (Model.Recheck, on top of C04's calc_implicit /
   check_implicit / calc_labels_atom), for any molecule, atom and switches *)
(* it raises by itself only the ValueError of the strict mode; every other failure is one of C04's functions on that atom *)
Theorem C03_recheck_raises : forall fl g n parsed e, recheck_atom fl g n parsed = Err e ->
  (e = ValueError /\ f_ignore fl = false /\ exists h, parsed = Some h) \/
  (e = KeyError /\ atom_of g n = None) \/
  calc_implicit g n = Err e \/ calc_labels_atom g n = Err e \/
  (exists h, parsed = Some h /\ (check_implicit g n h = Err e \/ check_implicit (with_rad g n true) n h = Err e)).
Proof. exact recheck_raises. Qed.
Print Assumptions C03_recheck_raises.

(* organic-subset atoms: the count is calc_implicit's and nothing else changes *)
Theorem C03_recheck_unwritten : forall fl g n a o, atom_of g n = Some a -> recheck_atom fl g n None = Ok o ->
  calc_implicit g n = Ok (o_h o) /\ o_rad o = a_rad a /\ o_radicalized o = false /\ o_mismatch o = None.
Proof. exact recheck_unwritten. Qed.
Print Assumptions C03_recheck_unwritten.

Theorem C03_recheck_keep_implicit : forall fl g n a h, f_keep_implicit fl = true -> atom_of g n = Some a ->
  recheck_atom fl g n (Some h) = Ok (mkOut (Some h) (a_rad a) false None).
Proof. exact recheck_keep_implicit. Qed.
Print Assumptions C03_recheck_keep_implicit.

(* a written hydrogen count is kept, or reported in chython_implicit_mismatch, or (CX radical mark, no valence state) dropped *)
Theorem C03_recheck_written : forall fl g n a h o, atom_of g n = Some a -> recheck_atom fl g n (Some h) = Ok o ->
  o_h o = Some h \/ o_mismatch o = Some h \/ (o_h o = None /\ a_rad a = true /\ o_rad o = true /\ o_radicalized o = false).
Proof. exact recheck_written. Qed.
Print Assumptions C03_recheck_written.

(* radicals are guessed only where the radical state makes the written count valid, or for the lone aromatic atom c[c]c *)
Theorem C03_recheck_radicalized : forall fl g n a h o, atom_of g n = Some a -> recheck_atom fl g n (Some h) = Ok o -> o_radicalized o = true ->
  a_rad a = false /\ o_rad o = true /\ o_h o = Some h /\ o_mismatch o = None /\
  (check_implicit (with_rad g n true) n h = Ok true \/
   (h = 0 /\ a_chg a = 0 /\ is_bcnp (a_num a) = true /\ non8_count g n = 2 /\
    exists lab, calc_labels_atom g n = Ok lab /\ l_hybridization lab = 4)).
Proof. exact recheck_radicalized. Qed.
Print Assumptions C03_recheck_radicalized.

Theorem C03_recheck_examples :
  let fl := mkFlags true false true false in
  show_res (show_fresult true) (read_full fl false "C[CH2]C") = "M 1={C|-|-|0|-|-}[2:1],2={C|-|-|0|2|-}[1:1.3:1],3={C|-|-|0|-|-}[2:1] # 1:3,2:2,3:3"%string /\
  show_res (show_fresult true) (read_full fl false "C[CH]C") = "M 1={C|-|-|0|-|-}[2:1],2={C|-|-|0|1|-}[1:1.3:1],3={C|-|-|0|-|-}[2:1] # 1:3,2:1*r,3:3"%string /\
  show_res (show_fresult true) (read_full fl false "[NH4]") = "M 1={N|-|-|0|4|-}[] # 1:3m4"%string /\
  read_full (mkFlags false false true false) false "[NH4]" = Err ValueError /\
  show_res (show_fresult true) (read_full (mkFlags true false false false) false "c1cc[c]cc1") =
    "M 1={C|-|-|0|-|-}[2:4.6:4],2={C|-|-|0|-|-}[1:4.3:4],3={C|-|-|0|-|-}[2:4.4:4],4={C|-|-|0|0|-}[3:4.5:4],5={C|-|-|0|-|-}[4:4.6:4],6={C|-|-|0|-|-}[5:4.1:4] # 1:1,2:1,3:1,4:0*r,5:1,6:1"%string.
Proof. exact recheck_examples. Qed.
Print Assumptions C03_recheck_examples.

(* ---- read_spell_denote against an INDEPENDENT definition: Model.SmilesGraph reads the graph off the tree without the machine
   (no step, no parser state): preorder layout by tree recursion (every atom knows its parent in the tree, every ring digit its
   atom), parent-child bonds, ring bonds by the separate matching function `opener` (occurrences of a digit pair up 1st-2nd,
   3rd-4th, ...), bond values by `choice` / `ring_val`.  The parser returns on the spelling of a well-formed tree exactly these
   atoms and these bonds (same order), and rejects the spelling exactly when the tree has no graph. *)
Theorem C03_denote_is_graph : forall strong t, wf2 t = true ->
  match denote strong t with
  | Ok p => denote_graph strong t = Some (mkDG (p_atoms p) (p_bonds p))
  | Err _ => denote_graph strong t = None
  end.
Proof. exact denote_is_graph. Qed.
Print Assumptions C03_denote_is_graph.

Theorem C03_read_spell_graph : forall strong t, wf2 t = true ->
  match parse (spell t) strong with
  | Ok p => denote_graph strong t = Some (mkDG (p_atoms p) (p_bonds p))
  | Err _ => denote_graph strong t = None
  end.
Proof. exact read_spell_graph. Qed.
Print Assumptions C03_read_spell_graph.

Theorem C03_denote_graph_example :
  let C := simple_atom "C" in
  let t := Node 0 C [(None, 1)] [(Some (1, PInt 2), Node 0 (simple_atom "O") [] []);
                                 (None, Node 8 C [] [(None, Node 8 C [(Some (9, PBool true), 1)] [(Some (4, PNone), Node 0 C [] [])])])] in
  wf2 t = true /\
  denote_graph true t = Some (mkDG [C; simple_atom "O"; C; C; C] [(1, 0, PInt 2); (2, 0, PInt 1); (3, 2, PInt 4); (3, 0, PInt 1)]) /\
  denote_graph true (Node 0 C [(None, 1)] []) = None /\
  denote_graph true (Node 0 C [(Some (1, PInt 2), 1)] [(None, Node 0 C [(None, 1)] [])]) = None /\
  denote_graph false (Node 0 C [(Some (1, PInt 2), 1)] [(None, Node 0 C [(None, 1)] [])]) = Some (mkDG [C; C] [(1, 0, PInt 1); (1, 0, PInt 2)]).
Proof. exact denote_graph_example. Qed.
Print Assumptions C03_denote_graph_example.

(* ---- gap-freeness of the remap=True squeeze: with atom maps >= 0 (what the reader produces) the numbers returned by
   postprocess_parsed_reaction(remap=True) are exactly 1..N: all >= 1, and every positive number below a number in use is in use *)
Theorem C03_squeeze_gap_free : forall ignore rs ps gs mR' mP' mG',
  (forall m, In m (List.concat rs ++ List.concat ps ++ List.concat gs) -> 0 <= m) ->
  pp_reaction true ignore rs ps gs = Ok (mR', mP', mG') ->
  let F := List.concat mR' ++ List.concat mP' ++ List.concat mG' in
  (forall v, In v F -> 1 <= v) /\ forall v k, In v F -> 1 <= k <= v -> In k F.
Proof. exact squeeze_gap_free. Qed.
Print Assumptions C03_squeeze_gap_free.

(* ---- the character level: smiles_tokenize on the text of a tree (Model.SmilesText: organic / aromatic symbols, bracket atoms
   written from their fields, bond symbols, direction marks, dots, ring numbers 1..99 with %nn) returns the token spelling of the
   tree, for every well-formed tree whose tokens are writable (an atom is writable if it is an organic / aromatic symbol or its
   bracket text is read back by _atom_parse - a decidable check per atom) *)
Theorem C03_tokenize_spell_text : forall t, wf_tree t = true -> tree_writable t -> tokenize (spell_text t) = Ok (spell t).
Proof. exact tokenize_spell_text. Qed.
Print Assumptions C03_tokenize_spell_text.

(* END TO END for molecules: smiles() on the text of a writable syntax tree builds (numbering by atom maps, atoms, bonds with
   loop / duplicate rejection) the molecule of the tree's machine-free graph, and fails when the tree has none *)
Theorem C03_read_spell_text : forall ignore remap t, wf2 t = true -> tree_writable t ->
  match denote_graph (negb ignore) t with
  | Some g => read ignore remap (spell_text t) = build ignore remap g
  | None => exists e, read ignore remap (spell_text t) = Err e
  end.
Proof. exact read_spell_text. Qed.
Print Assumptions C03_read_spell_text.

Theorem C03_read_spell_text_example :
  let t := Node 0 (simple_atom "C") [(None, 1)]
             [(Some (1, PInt 2), Node 0 (simple_atom "O") [] []);
              (None, Node 8 (mkAt "N" None None 0 (Some 1) None) [(Some (9, PBool true), 12)]
                       [(Some (4, PNone), Node 0 (mkAt "C" (Some 13) (Some 7) (-1) (Some 3) (Some false)) [(None, 1); (None, 12)] [])])] in
  spell_text t = "C1(=O)[nH]/%12.[13C@@H3-1:7]1%12"%string /\ wf2 t = true /\ tree_writable t /\
  exists m, read true false (spell_text t) = Ok (RMol m).
Proof. exact read_spell_text_example. Qed.
Print Assumptions C03_read_spell_text_example.

(* ---- the neighbour-order table, machine-free: Model.SmilesOrder reads it off the tree (parent, one place per ring digit holding
   the digit's partner - `opener` if it closes, else the atom of the next occurrence `closer` -, bonded children; keys in order of
   first mention); the parser's record on the spelling of a well-formed tree has exactly this table *)
Theorem C03_denote_order_correct : forall strong t p, wf2 t = true -> denote strong t = Ok p -> p_order p = denote_order t.
Proof. exact denote_order_correct. Qed.
Print Assumptions C03_denote_order_correct.

Theorem C03_read_spell_order : forall strong t p, wf2 t = true -> parse (spell t) strong = Ok p -> p_order p = denote_order t.
Proof. exact read_spell_order. Qed.
Print Assumptions C03_read_spell_order.

Theorem C03_denote_order_example :
  let C := simple_atom "C" in
  let t := Node 0 C [(None, 1)] [(Some (1, PInt 2), Node 0 (simple_atom "O") [] []);
                                 (None, Node 8 C [(None, 1); (None, 2)] [(Some (4, PNone), Node 0 C [(None, 2)] [])])] in
  wf2 t = true /\ denote_order t = [(0, [Some 2; Some 1; Some 2]); (1, [Some 0]); (2, [Some 0; Some 0; Some 3]); (3, [Some 2])] /\
  exists p, parse (spell t) true = Ok p /\ p_order p = denote_order t.
Proof. exact denote_order_example. Qed.
Print Assumptions C03_denote_order_example.

(* ---- CXSMILES fragment grouping: the contraction code of smiles() (new_molecules array, shrinking role sets, negative product
   indices) computes the grouping RULE of Model.CxGroups: molecules numbered in text order (reactants, reagents, products); a
   non-empty group whose indices all name molecules of one role is applicable; its first (smallest) index holds the members joined
   by '.', the other members disappear; groups across roles or beyond the molecule count change nothing.  For every reaction and
   every list of non-empty groups without a repeated index - in particular every contract the CX block parser hands over. *)
Theorem C03_contract_spec_correct : forall R P G contract, Forall (fun c => c <> []) contract -> NoDup (List.concat contract) ->
  contract_roles contract R P G = Ok (contract_spec R P G contract).
Proof. exact contract_spec_correct. Qed.
Print Assumptions C03_contract_spec_correct.

Theorem C03_cx_block_contract_spec : forall cxs rads c R P G, cx_block cxs = Ok (rads, Some c) ->
  contract_roles c R P G = Ok (contract_spec R P G c).
Proof. exact cx_block_contract_spec. Qed.
Print Assumptions C03_cx_block_contract_spec.

Theorem C03_contract_spec_example :
  let ch := to_chars in
  contract_spec (ch ["C"; "O"; "N"]%string) (ch ["S"; "F"]%string) (ch ["Cl"; "Br"; "I"]%string) [[0; 2]; [3; 4]; [6; 7]; [1; 5]] =
    (ch ["C.N"; "O"]%string, ch ["S.F"]%string, ch ["Cl.Br"; "I"]%string) /\
  contract_roles [[0; 2]; [3; 4]; [6; 7]; [1; 5]] (ch ["C"; "O"; "N"]%string) (ch ["S"; "F"]%string) (ch ["Cl"; "Br"; "I"]%string) =
    Ok (ch ["C.N"; "O"]%string, ch ["S.F"]%string, ch ["Cl.Br"; "I"]%string).
Proof. exact contract_spec_example. Qed.
Print Assumptions C03_contract_spec_example.

(* ---- totality of the FULL reader: smiles() including the hydrogen recheck / radical decision tree of create_molecule (C04's
   calc_implicit / check_implicit / calc_labels_atom on the molecule just built; every element table compiles), for every text
   and every setting of ignore / keep_implicit / ignore_aromatic_radicals / ignore_carbon_radicals / remap: a molecule / reaction
   or a ValueError-class exception - never IndexError, KeyError, TypeError, AttributeError, ValenceError *)
Theorem C03_read_full_total : forall fl remap s, total (read_full fl remap s).
Proof. exact read_full_total. Qed.
Print Assumptions C03_read_full_total.

(* ---- the source the models mirror: the normalised text (no comments / layout / doc strings) of _tokenize, _atom_parse,
   smiles_tokenize, parser, smiles, postprocess_parsed_molecule, postprocess_parsed_reaction, create_molecule and create_reaction,
   regenerated from /repo on every run (Gen.C03Source), is line by line the text the hand-written models were written for *)
Theorem C03_source_pinned :
  src_tokenize = pin_tokenize /\ src_atom_parse = pin_atom_parse /\ src_smiles_tokenize = pin_smiles_tokenize /\ src_parser = pin_parser /\
  src_smiles = pin_smiles /\ src_postprocess_parsed_molecule = pin_postprocess_parsed_molecule /\
  src_postprocess_parsed_reaction = pin_postprocess_parsed_reaction /\ src_create_molecule = pin_create_molecule /\
  src_create_reaction = pin_create_reaction.
Proof. exact source_pinned. Qed.
Print Assumptions C03_source_pinned.

(* ---- TIE BY TRANSLATION: the body of _tokenize (initial assignments, the loop body, the statements after the loop) is translated
   statement by statement from /repo's source on every run (tools/gen_c03tok.py -> Gen.TokenizeBody: gen_step, gen_finish,
   gen_tokenize_raw, over the expression primitives of Model.TokenizePrims) and is the hand-written model: on every state the loop
   can reach and every character the translated loop body returns what tok_step returns, the translated end what tok_finish returns,
   and for EVERY string the translated function is tokenize_raw.  An edit of _tokenize that changes its result on some reachable
   state breaks these theorems (not only the text comparison C03_source_pinned). *)
Theorem C03_tokenize_translated : forall s : string, gen_tokenize_raw s = tokenize_raw s.
Proof. exact tokenize_translated. Qed.
Print Assumptions C03_tokenize_translated.

Theorem C03_tokenize_translated_step : forall st c, TI st -> gen_step st c = tok_step st c.
Proof. exact gen_step_eq. Qed.
Print Assumptions C03_tokenize_translated_step.

Theorem C03_tokenize_translated_finish : forall st, TI st -> gen_finish st = tok_finish st.
Proof. exact gen_finish_eq. Qed.
Print Assumptions C03_tokenize_translated_finish.

(* what is proved for the model holds for the translation: total, ValueError-class exceptions only, documented token shapes *)
Theorem C03_tokenize_translated_total : forall s : string,
  match gen_tokenize_raw s with
  | Ok l => forallb rawwfb l = true /\ (s <> ""%string -> l <> [])
  | Err e => vee e = true
  end.
Proof. exact gen_tokenize_raw_good. Qed.
Print Assumptions C03_tokenize_translated_total.

Theorem C03_tokenize_translated_examples :
  gen_tokenize_raw "C(=O)[O-]%12Cl" = tokenize_raw "C(=O)[O-]%12Cl" /\
  (exists ts, gen_tokenize_raw "C(=O)[O-]%12Cl" = Ok ts /\ List.length ts = 8%nat) /\
  gen_tokenize_raw "C%1[CH3]" = Err IncorrectSmiles /\
  gen_tokenize_raw "C%1" = Ok [(0, PStr "C"); (6, PInt 1)] /\
  gen_tokenize_raw "C-;!@C" = tokenize_raw "C-;!@C" /\
  gen_tokenize_raw "C-,=C" = Ok [(0, PStr "C"); (10, PZs [1; 2]); (0, PStr "C")].
Proof. exact tokenize_translated_examples. Qed.
Print Assumptions C03_tokenize_translated_examples.

(* ---- the rest of tokenize.py's SMILES path, translated the same way: _atom_parse after the regular-expression match (the conversions
   of the six groups, the two try / except blocks, the aromatic-symbol test, the dictionary returned; locals are dynamically typed
   values of Model.TokenizePrims.dv) and the loop of smiles_tokenize.  For EVERY bracket text / every string the translated functions
   are the hand-written models (the matcher's optional groups are None or non-empty: atom_re_match_shape), so C03_tokenize_total
   and everything built on `tokenize` speak about the translation of the current source; only the regular expression atom_re itself
   stays a hand-written matcher (pinned to the pattern text, tied exhaustively) *)
Theorem C03_atom_parse_translated : forall tok : string, gen_atom_parse tok = atom_parse tok.
Proof. exact gen_atom_parse_eq. Qed.
Print Assumptions C03_atom_parse_translated.

Theorem C03_smiles_tokenize_translated : forall s : string, gen_tokenize s = tokenize s.
Proof. exact gen_tokenize_eq. Qed.
Print Assumptions C03_smiles_tokenize_translated.

Theorem C03_smiles_tokenize_translated_total : forall s : string,
  match gen_tokenize s with
  | Ok l => forallb swfb l = true /\ (s <> ""%string -> l <> [])
  | Err e => vee e = true
  end.
Proof. exact gen_tokenize_good. Qed.
Print Assumptions C03_smiles_tokenize_translated_total.

Theorem C03_smiles_tokenize_translated_examples :
  gen_tokenize "[13CH3:7]C(=O)/C=C\c1ccc%10.Cl%10" = tokenize "[13CH3:7]C(=O)/C=C\c1ccc%10.Cl%10" /\
  (exists l, gen_tokenize "[13CH3:7]C(=O)/C=C\c1ccc%10.Cl%10" = Ok l /\ List.length l = 20%nat) /\
  gen_atom_parse "13C@@H2+:12" = Ok (0, PAtom (mkAt "C" (Some 13) (Some 12) 1 (Some 2) (Some false))) /\
  gen_atom_parse "se" = Ok (8, PAtom (mkAt "Se" None None 0 (Some 0) None)) /\
  gen_atom_parse "C+-" = Err IncorrectSmiles /\
  gen_tokenize "C-,=C" = Err IncorrectSmiles.
Proof. exact gen_tokenize_examples. Qed.
Print Assumptions C03_smiles_tokenize_translated_examples.

(* ---- atom numbering (_mapping.py), translated from the source on every run (tools/gen_c03map.py -> Gen.MappingBody): the body of the
   numbering loop of postprocess_parsed_molecule and of the loop `for m in tmp:` of postprocess_parsed_reaction (if / elif / else chain,
   raise, append, next(length), used.add), and the whole of postprocess_parsed_molecule.  Folded over the maps of the atoms from ANY
   state the translated loop bodies compute Model.Reader.number_loop (same numbers, same counter, same exception), and the translated
   postprocess_parsed_molecule is pp_molecule for every list of maps >= 0 (a map is written as a digit string).  C03_mapping_numbers*
   are theorems about number_loop / pp_molecule, hence about the translation of the current source. *)
Theorem C03_numbering_loop_translated : forall ignore maps st,
  loop_agrees (nfold (gen_mol_number_step ignore) st maps) st (number_loop ignore maps (n_next st) (n_used st)).
Proof. exact numbering_loop_translated. Qed.
Print Assumptions C03_numbering_loop_translated.

Theorem C03_numbering_rxn_loop_translated : forall ignore maps st,
  loop_agrees (nfold (gen_rxn_number_step ignore) st maps) st (number_loop ignore maps (n_next st) (n_used st)).
Proof. exact numbering_rxn_loop_translated. Qed.
Print Assumptions C03_numbering_rxn_loop_translated.

Theorem C03_numbering_translated : forall remap ignore maps, Forall (fun m => 0 <= m) maps ->
  gen_pp_molecule remap ignore maps = pp_molecule remap ignore maps.
Proof. exact pp_molecule_translated. Qed.
Print Assumptions C03_numbering_translated.

(* the first number given to an unmapped atom of a reaction, translated from `length = count(max(max(maps[..], default=0), ...) + 1)`:
   the start value pp_reaction uses - the maximum over the maps of ALL three roles, plus one (maps >= 0) *)
Theorem C03_numbering_first_number_translated : forall r0 p0 g0,
  Forall (fun m => 0 <= m) r0 -> Forall (fun m => 0 <= m) p0 -> Forall (fun m => 0 <= m) g0 ->
  gen_rxn_first_number r0 p0 g0 = Z.max (Z.max (zmax_list p0 0) (zmax_list r0 0)) (zmax_list g0 0) + 1.
Proof. exact rxn_first_number_translated. Qed.
Print Assumptions C03_numbering_first_number_translated.

Theorem C03_numbering_translated_examples :
  gen_pp_molecule false true [0; 5; 0; 5; 2] = Ok [6; 5; 7; 8; 2] /\
  gen_pp_molecule false false [0; 5; 0; 5; 2] = Err ValueError /\
  gen_pp_molecule true true [0; 5; 0; 5; 2] = Ok [1; 2; 3; 4; 5] /\
  gen_pp_molecule false true [] = Err ValueError /\
  gen_pp_molecule false true [0; 5; 0; 5; 2] = pp_molecule false true [0; 5; 0; 5; 2] /\
  gen_rxn_first_number [1; 0] [2; 1] [7] = 8 /\ gen_rxn_first_number [] [] [] = 1.
Proof. exact pp_molecule_translated_examples. Qed.
Print Assumptions C03_numbering_translated_examples.

(* ---- CXSMILES radical marks |^n:i,j,...|: which atoms get is_radical.  After the marking loop the atom at position i carries the flag
   iff it carried it before or i is one of the indices (atom tokens and their order untouched); the loop succeeds iff every index is a
   position of the atom list and the guarded reader raises IncorrectSmiles otherwise; for a reaction the positions count through the
   molecules in the order handed to the flattening - the reader hands over reactants ++ reagents ++ products, the WRITTEN order - and
   cutting the flat list back gives every molecule its own atoms *)
Theorem C03_radicals_flags : forall rg crash rads (atoms atoms' : list (atomtok * bool)),
  set_radicals rg crash atoms rads = Ok atoms' ->
  List.length atoms' = List.length atoms /\
  forall i a r, nth_error atoms i = Some (a, r) -> nth_error atoms' i = Some (a, r || zmem (Z.of_nat i) rads).
Proof. exact set_radicals_flags. Qed.
Print Assumptions C03_radicals_flags.

Theorem C03_radicals_accepts : forall crash rads (atoms : list (atomtok * bool)),
  (Forall (fun x => 0 <= x < Z.of_nat (List.length atoms)) rads -> exists atoms', set_radicals true crash atoms rads = Ok atoms') /\
  (~ Forall (fun x => 0 <= x < Z.of_nat (List.length atoms)) rads -> set_radicals true crash atoms rads = Err IncorrectSmiles).
Proof. exact set_radicals_accepts. Qed.
Print Assumptions C03_radicals_accepts.

Theorem C03_radicals_written_order : forall (ps : list parsed) (rads : list Z) (flat : list (atomtok * bool)),
  set_radicals true KeyError (List.concat (map (no_rad) ps)) rads = Ok flat ->
  let roles := radicals_roles (map no_rad ps) flat in
  List.concat roles = flat /\
  map (@List.length _) roles = map (fun p => List.length (p_atoms p)) ps /\
  map fst flat = List.concat (map p_atoms ps) /\
  map snd flat = map (fun i => zmem (Z.of_nat i) rads) (seq 0 (List.length flat)).
Proof. exact radicals_written_order. Qed.
Print Assumptions C03_radicals_written_order.

(* whole calls: in reactants>reagents>products the index counts the reagent atoms before the product atoms; out of range is rejected *)
Theorem C03_reaction_radical_examples :
  rad_flags (read true false "CO>N>CC |^1:4|") = Some ([[false; false]], [[false]], [[false; true]]) /\
  rad_flags (read true false "CO>N>CC |^1:2|") = Some ([[false; false]], [[true]], [[false; false]]) /\
  rad_flags (read true false "CBr>CCOCC>C.Br |^1:7,8|") =
    Some ([[false; false]], [[false; false; false; false; false]], [[true]; [true]]) /\
  rad_flags (read true false "CC>>CC |^1:3,^2:0|") = Some ([[true; false]], [], [[false; true]]) /\
  read true false "CO>N>CC |^1:5|" = Err IncorrectSmiles /\
  read true false "C |^1:1|" = Err IncorrectSmiles.
Proof. exact reaction_radical_examples. Qed.
Print Assumptions C03_reaction_radical_examples.

(* ---- the two radical loops of smiles() TRANSLATED from the source on every run (tools/gen_c03rad.py -> Gen.RadicalBody: the guards with
   their comparison operators and operands, the indexing statements with Python's list / dict semantics, the order of the roles in the
   chain(...) that builds the atom table of a reaction): the table is the flattening reactants ++ reagents ++ products the model uses
   (the written order), the translated reaction loop is set_radicals for all inputs, the translated molecule loop for all indices >= 0
   (an index is written as a digit string) *)
Theorem C03_radicals_translated_table : forall pR pG pP : list parsed,
  gen_rxn_atom_table (map no_rad pR) (map no_rad pG) (map no_rad pP) = List.concat (map no_rad (pR ++ pG ++ pP)).
Proof. exact rxn_table_translated. Qed.
Print Assumptions C03_radicals_translated_table.

Theorem C03_radicals_translated_reaction : forall rads atoms,
  rfold gen_rxn_radical_step atoms rads = set_radicals true KeyError atoms rads.
Proof. exact rxn_radicals_translated. Qed.
Print Assumptions C03_radicals_translated_reaction.

Theorem C03_radicals_translated_molecule : forall rads atoms, Forall (fun x => 0 <= x) rads ->
  rfold gen_mol_radical_step atoms rads = set_radicals true IndexError atoms rads.
Proof. exact mol_radicals_translated. Qed.
Print Assumptions C03_radicals_translated_molecule.

Theorem C03_radicals_translated_examples :
  rfold gen_mol_radical_step [(simple_atom "C", false); (simple_atom "O", false)] [1] = Ok [(simple_atom "C", false); (simple_atom "O", true)] /\
  rfold gen_mol_radical_step [(simple_atom "C", false); (simple_atom "O", false)] [2] = Err IncorrectSmiles /\
  rfold gen_rxn_radical_step (gen_rxn_atom_table [[(simple_atom "C", false)]] [[(simple_atom "N", false)]] [[(simple_atom "O", false)]]) [1] =
    Ok [(simple_atom "C", false); (simple_atom "N", true); (simple_atom "O", false)] /\
  rfold gen_rxn_radical_step [(simple_atom "C", false)] [1] = Err IncorrectSmiles.
Proof. exact radicals_translated_examples. Qed.
Print Assumptions C03_radicals_translated_examples.

(* ---- the CXSMILES fragment-contraction block of smiles() (`if contract:`) TRANSLATED from the source on every run (tools/gen_c03cx.py ->
   Gen.ContractBody, every statement in source order: the index sets with their bounds as arithmetic over lr / lp / mol_count, the
   if / elif chain of `for c in contract:` - which set is tested in which order, which role list is read with which index shift, which set
   is reduced -, the three filling loops with their shifts, the three slices that cut new_molecules back into roles with Python's slice
   semantics): the translated loop is cr_go and the translated block is contract_roles, for every reaction and every list of non-empty
   groups (a group of the CX block has at least two members); C03_contract_spec_correct / C03_cx_block_contract_spec are therefore
   statements about the translation of the current source *)
Theorem C03_contract_loop_translated : forall R P G lr lp mc cs st, Forall (fun c => c <> []) cs ->
  cfold (gen_cr_step R P G lr lp mc) st cs = cr_go R P G lr mc cs st.
Proof. exact contract_loop_translated. Qed.
Print Assumptions C03_contract_loop_translated.

Theorem C03_contract_translated : forall contract R P G, Forall (fun c => c <> []) contract ->
  gen_contract_roles contract R P G (Z.of_nat (List.length R) + Z.of_nat (List.length P) + Z.of_nat (List.length G)) =
  contract_roles contract R P G.
Proof. exact contract_translated. Qed.
Print Assumptions C03_contract_translated.

Theorem C03_contract_translated_example :
  gen_contract_roles [[2; 3]; [10; 11]]
    (map list_ascii_of_string ["C"; "O"; "N"; "S"; "C"; "O"; "N"; "S"; "C"; "O"; "[Na+]"; "[Cl-]"]%string) (map list_ascii_of_string ["CC"]%string) [] 13 =
  Ok (map list_ascii_of_string ["C"; "O"; "N.S"; "C"; "O"; "N"; "S"; "C"; "O"; "[Na+].[Cl-]"]%string, map list_ascii_of_string ["CC"]%string, []) /\
  gen_contract_roles [[1; 2]] (map list_ascii_of_string ["C"]%string) (map list_ascii_of_string ["S"]%string) (map list_ascii_of_string ["O"; "N"]%string) 4 =
  Ok (map list_ascii_of_string ["C"]%string, map list_ascii_of_string ["S"]%string, map list_ascii_of_string ["O.N"]%string).
Proof. exact contract_translated_example. Qed.
Print Assumptions C03_contract_translated_example.

(* ---- the side conditions of the translation theorems hold for everything the reader itself produces: the indices of a CXSMILES radical
   block are >= 0 (read with int() from digit strings) and its fragment groups are non-empty, so for EVERY CX block text the translated
   molecule-branch radical loop and the translated contraction block are the model without hypotheses *)
Theorem C03_cx_radicals_nonneg : forall cxs rads c, cx_block cxs = Ok (rads, c) -> Forall (fun x => 0 <= x) rads.
Proof. exact cx_radicals_nonneg. Qed.
Print Assumptions C03_cx_radicals_nonneg.

Theorem C03_radicals_translated_molecule_cx : forall cxs rads c atoms, cx_block cxs = Ok (rads, c) ->
  rfold gen_mol_radical_step atoms rads = set_radicals true IndexError atoms rads.
Proof. exact mol_radicals_translated_cx. Qed.
Print Assumptions C03_radicals_translated_molecule_cx.

Theorem C03_contract_translated_cx : forall cxs rads c R P G, cx_block cxs = Ok (rads, Some c) ->
  gen_contract_roles c R P G (Z.of_nat (List.length R) + Z.of_nat (List.length P) + Z.of_nat (List.length G)) = contract_roles c R P G.
Proof. exact contract_translated_cx. Qed.
Print Assumptions C03_contract_translated_cx.

(* ---- a VALID written hydrogen count of a non-aromatic atom is never replaced: if the valence rules accept it in the atom's own state it
   is kept (radical flag untouched, nothing reported); a count is reported in chython_implicit_mismatch only if the atom has no valence
   state at all or the count is invalid in its own state, and (no radical mark) invalid in the radical state too *)
Theorem C03_recheck_valid_kept : forall fl g n a h o lab c,
  atom_of g n = Some a -> f_keep_implicit fl = false ->
  calc_implicit g n = Ok (Some c) -> calc_labels_atom g n = Ok lab -> l_hybridization lab <> 4 ->
  check_implicit g n h = Ok true ->
  recheck_atom fl g n (Some h) = Ok o ->
  o_h o = Some h /\ o_rad o = a_rad a /\ o_radicalized o = false /\ o_mismatch o = None.
Proof. exact recheck_valid_kept. Qed.
Print Assumptions C03_recheck_valid_kept.

Theorem C03_recheck_mismatch_invalid : forall fl g n a h h' o lab,
  atom_of g n = Some a -> calc_labels_atom g n = Ok lab -> l_hybridization lab <> 4 ->
  recheck_atom fl g n (Some h) = Ok o -> o_mismatch o = Some h' ->
  h' = h /\
  (calc_implicit g n = Ok None \/ check_implicit g n h = Ok false) /\
  (a_rad a = false -> check_implicit (with_rad g n true) n h = Ok false).
Proof. exact recheck_mismatch_invalid. Qed.
Print Assumptions C03_recheck_mismatch_invalid.

Theorem C03_recheck_valid_examples :
  let fl := mkFlags true false true false in
  show_res (show_fresult true) (read_full fl false "[S]") = "M 1={S|-|-|0|0|-}[] # 1:0"%string /\
  show_res (show_fresult true) (read_full fl false "[Pd].[C]") = "M 1={Pd|-|-|0|0|-}[],2={C|-|-|0|0|-}[] # 1:0,2:0"%string /\
  show_res (show_fresult true) (read_full fl false "[AlH3]") = "M 1={Al|-|-|0|3|-}[] # 1:3"%string /\
  show_res (show_fresult true) (read_full fl false "[SH3]") = "M 1={S|-|-|0|3|-}[] # 1:3*r"%string.
Proof. exact recheck_valid_examples. Qed.
Print Assumptions C03_recheck_valid_examples.
