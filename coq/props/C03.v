(* C03 -- placeholder *)
From Coq Require Import ZArith List String Bool.
From Model Require Import PyBase Tokenize Parser Reader.
From Gen Require Import TokenTables.
From Proofs Require Import TokenizeProofs.
Import ListNotations.
Open Scope Z_scope.

Theorem C03_regex_sources_pinned :
  atom_re_src = "([1-9][0-9]{0,2})?([A-IK-PR-Zacnopsbt][a-ik-pr-vy]?)(@@|@)?(H[1-4]?)?([+-][1-4+-]?)?(:[0-9]{1,4})?"%string /\
  cx_fragments_src = "f:(?:[0-9]+(?:\.[0-9]+)+)(?:,(?:[0-9]+(?:\.[0-9]+)+))*"%string /\
  cx_radicals_src = "\^[1-7]:[0-9]+(?:,[0-9]+)*"%string.
Proof. exact regex_sources_pinned. Qed.
Print Assumptions C03_regex_sources_pinned.
