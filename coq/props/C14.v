(* C14 -- normalisation conserves composition.  Statements only; proofs in Proofs.StandardizeProofs.
   The rule tables (Gen.StdRules) are regenerated from the live rule objects of chython/algorithms/standardize on every
   run; the engine (Model.Standardize) is hand-modelled and tied by correspondence (harness/checks/C14.py).
   NOT theorems (search only): idempotence, numbering independence, tautomer enumeration, neutralisation. *)
From Coq Require Import ZArith List String Bool.
From Model Require Import PyBase Graph PeriodicTable Standardize.
From Gen Require Import Elements StdRules.
From Proofs Require Import StandardizeProofs.
Import ListNotations.
Open Scope Z_scope.

(* ---- table obligations (finite, over the regenerated tables) ---- *)

(* (i) the charge deltas of every rule sum to zero, except the rules named here *)
Theorem C14_table_balanced : forall r, In r (double_rules ++ single_rules ++ metal_rules) ->
  delta_sum r = 0 \/
  In (r_name r) ["[P;D4;x0;z1]"; "[B;D4;z1]"; "[N;D4;z1]"; "[N;D2;z3;x2](=[N;D2;z2])#[N;D1;-]";
                 "[P;D6;z1]([F;D1])([F;D1])([F;D1])([F;D1])([F;D1])[F;D1]"]%string.
Proof. exact table_balanced. Qed.
Print Assumptions C14_table_balanced.

(* ... and these are exactly the unbalanced ones, all among the single rules *)
Theorem C14_table_unbalanced_exact :
  map r_name (filter (fun r => negb (balanced r)) double_rules) = [] /\
  map r_name (filter (fun r => negb (balanced r)) single_rules) = unbalanced_names /\
  map r_name (filter (fun r => negb (balanced r)) metal_rules) = [].
Proof. exact unbalanced_exact. Qed.
Print Assumptions C14_table_unbalanced_exact.

(* ... and each of them has a centre atom without any valence state in the generated element tables (it can only fire
   on valence-invalid input, which the property excludes from charge conservation) *)
Theorem C14_table_unbalanced_invalid : forall r, In r (double_rules ++ single_rules ++ metal_rules) ->
  delta_sum r <> 0 -> centre_invalid r = true.
Proof. exact table_unbalanced_invalid. Qed.
Print Assumptions C14_table_unbalanced_invalid.

(* the spec-level fact behind centre_invalid for the `D<d>;z1` centres: an atom with d single bonds that has a valence
   state (common valence or exception rule of the generated tables) passes may_have_state_single *)
Theorem C14_single_bonded_state_sound : forall el chg rad have,
  all_single have -> has_state el chg rad have = true ->
  may_have_state_single el chg rad (Z.of_nat (List.length have)) = true.
Proof. exact may_have_state_single_sound. Qed.
Print Assumptions C14_single_bonded_state_sound.

(* (ii) patched charges stay in [-4, 4]; (iii) the unconstrained-charge (any-metal) patched atom is unique, FIRST in
   atom_fix order, with a non-negative delta, and the other patched atoms of that rule are non-metal elements;
   (iv) atom_fix / bonds_fix / any_atoms only name pattern atoms, bonds_fix only re-orders pattern bonds *)
Theorem C14_table_rule_ok : forall r, In r (double_rules ++ single_rules ++ metal_rules) ->
  range_ok r = true /\ metal_first r = true /\ names_ok r = true /\ bfix_on_bonds r = true.
Proof. exact (fun r Hr => rule_ok_parts r (table_rule_ok r Hr)). Qed.
Print Assumptions C14_table_rule_ok.

(* the unconstrained patched atoms are exactly the 13 any-metal heads of the metal rules *)
Theorem C14_table_unconstrained_only_metal :
  forallb (fun r => negb (has_unc r)) (double_rules ++ single_rules) = true /\
  List.length (filter has_unc metal_rules) = 13%nat.
Proof. exact table_unc_only_metal_b. Qed.
Print Assumptions C14_table_unconstrained_only_metal.

(* every rule applied (in the model) to its own minimal instantiation: accepted by match_ok, the patch completes with a
   `fixed` log entry, the net charge moves by exactly delta_sum, atoms / elements / isotopes / adjacency unchanged *)
Theorem C14_rule_self_test : forallb self_test (double_rules ++ single_rules ++ metal_rules) = true.
Proof. exact table_self_test_b. Qed.
Print Assumptions C14_rule_self_test.

(* standardize_charges: every (pattern, fix) rule discharges an atom the pattern requires to be +1 and charges an atom
   the pattern requires to be neutral *)
Theorem C14_table_charged_balanced :
  forallb crule_balanced_fixed fixed_rules = true /\ forallb crule_balanced_morgan morgan_rules = true.
Proof. exact table_charged_b. Qed.
Print Assumptions C14_table_charged_balanced.

(* ---- the engine, for ANY rule table, ANY matcher, ANY hydrogen calculator ---- *)

(* a pass that returns never changed atom numbers, their order, elements or isotopes *)
Theorem C14_pass_preserves_skeleton : forall matches calc_h stage rules fix_taut g g' log' fixed',
  standardize_pass matches calc_h stage rules fix_taut g = Ok (g', log', fixed') -> skeleton g' = skeleton g.
Proof. exact (fun matches calc_h stage rules fix_taut g => pass_preserves_skeleton matches calc_h stage rules fix_taut 0 g [] []). Qed.
Print Assumptions C14_pass_preserves_skeleton.
