(* C14 -- normalisation conserves composition.  Statements only; proofs in Proofs.StandardizeProofs.
   The rule tables (Gen.StdRules) are regenerated from the live rule objects of chython/algorithms/standardize on every
   run; the engine (Model.Standardize) is hand-modelled and tied by correspondence (harness/checks/C14.py).
   NOT theorems (search only): idempotence, numbering independence, tautomer enumeration, neutralisation. *)
From Coq Require Import ZArith List String Bool.
From Model Require Import PyBase Graph PeriodicTable Standardize StandardizeMatch StandardizeHyd StandardizeNeutral StandardizeChargesBase StandardizeCharges StandardizeChargesPre StandardizeFerrocene.
From Gen Require Import Elements StdRules C14Consts C14Charges.
From Proofs Require Import StandardizeProofs StandardizeExt StandardizeTables StandardizeHydProofs StandardizeHydGen StandardizeNeutralProofs StandardizeMatchProofs C14ConstsProofs StandardizeImplicify StandardizeImplicifyEx StandardizeInverse StandardizeChargesProofs StandardizeChargesNet StandardizeFerroceneProofs.
Import ListNotations.
Open Scope Z_scope.

(* ---- table obligations (finite, over the regenerated tables) ---- *)

(* (i) the charge deltas of every rule sum to zero, except the rules named here *)
Theorem C14_table_balanced : forall r, In r (double_rules ++ single_rules ++ metal_rules) ->
  delta_sum r = 0 \/
  In (r_name r) ["[P;D4;x0;z1]"; "[B;D4;z1]"; "[N;D4;z1]"; "[N;D2;z3;x2](=[N;D2;z2])#[N;D1;-]";
                 "[P;D6;z1]([F;D1])([F;D1])([F;D1])([F;D1])([F;D1])[F;D1]"]%string.
Proof. exact table_balanced. Qed.
Print Assumptions C14_table_balanced.

(* ... and these are exactly the unbalanced ones, all among the single rules *)
Theorem C14_table_unbalanced_exact :
  map r_name (filter (fun r => negb (balanced r)) double_rules) = [] /\
  map r_name (filter (fun r => negb (balanced r)) single_rules) = unbalanced_names /\
  map r_name (filter (fun r => negb (balanced r)) metal_rules) = [].
Proof. exact unbalanced_exact. Qed.
Print Assumptions C14_table_unbalanced_exact.

(* ... and each of them has a centre atom without any valence state in the generated element tables (it can only fire
   on valence-invalid input, which the property excludes from charge conservation) *)
Theorem C14_table_unbalanced_invalid : forall r, In r (double_rules ++ single_rules ++ metal_rules) ->
  delta_sum r <> 0 -> centre_invalid r = true.
Proof. exact table_unbalanced_invalid. Qed.
Print Assumptions C14_table_unbalanced_invalid.

(* the spec-level fact behind centre_invalid for the `D<d>;z1` centres: an atom with d single bonds that has a valence
   state (common valence or exception rule of the generated tables) passes may_have_state_single *)
Theorem C14_single_bonded_state_sound : forall el chg rad have,
  all_single have -> has_state el chg rad have = true ->
  may_have_state_single el chg rad (Z.of_nat (List.length have)) = true.
Proof. exact may_have_state_single_sound. Qed.
Print Assumptions C14_single_bonded_state_sound.

(* (ii) patched charges stay in [-4, 4]; (iii) the unconstrained-charge (any-metal) patched atom is unique, FIRST in
   atom_fix order, with a non-negative delta, and the other patched atoms of that rule are non-metal elements;
   (iv) atom_fix / bonds_fix / any_atoms only name pattern atoms, bonds_fix only re-orders pattern bonds *)
Theorem C14_table_rule_ok : forall r, In r (double_rules ++ single_rules ++ metal_rules) ->
  range_ok r = true /\ metal_first r = true /\ names_ok r = true /\ bfix_on_bonds r = true.
Proof. exact (fun r Hr => rule_ok_parts r (table_rule_ok r Hr)). Qed.
Print Assumptions C14_table_rule_ok.

(* the unconstrained patched atoms are exactly the 13 any-metal heads of the metal rules *)
Theorem C14_table_unconstrained_only_metal :
  forallb (fun r => negb (has_unc r)) (double_rules ++ single_rules) = true /\
  List.length (filter has_unc metal_rules) = 13%nat.
Proof. exact table_unc_only_metal_b. Qed.
Print Assumptions C14_table_unconstrained_only_metal.

(* every rule applied (in the model) to its own minimal instantiation: accepted by match_ok, the patch completes with a
   `fixed` log entry, the net charge moves by exactly delta_sum, atoms / elements / isotopes / adjacency unchanged *)
Theorem C14_rule_self_test : forallb self_test (double_rules ++ single_rules ++ metal_rules) = true.
Proof. exact table_self_test_b. Qed.
Print Assumptions C14_rule_self_test.

(* standardize_charges: every (pattern, fix) rule discharges an atom the pattern requires to be +1 and charges an atom
   the pattern requires to be neutral *)
Theorem C14_table_charged_balanced :
  forallb crule_balanced_fixed fixed_rules = true /\ forallb crule_balanced_morgan morgan_rules = true.
Proof. exact table_charged_b. Qed.
Print Assumptions C14_table_charged_balanced.

(* ---- the engine, for ANY rule table, ANY matcher, ANY hydrogen calculator ---- *)

(* a pass that returns never changed atom numbers, their order, elements or isotopes *)
Theorem C14_pass_preserves_skeleton : forall matches calc_h stage rules fix_taut g g' log' fixed',
  standardize_pass matches calc_h stage rules fix_taut g = Ok (g', log', fixed') -> skeleton g' = skeleton g.
Proof. exact (fun matches calc_h stage rules fix_taut g => pass_preserves_skeleton matches calc_h stage rules fix_taut 0 g [] []). Qed.
Print Assumptions C14_pass_preserves_skeleton.

(* what a pass never changes: atom numbers in order, elements, isotopes; the adjacency (no bond is created or deleted);
   the net charge *)
Theorem C14_conserved_def : forall g g',
  conserved g g' <-> skeleton g' = skeleton g /\ graph_of g' = graph_of g /\ total_charge g' = total_charge g.
Proof. intros g g'. unfold conserved. tauto. Qed.
Print Assumptions C14_conserved_def.

(* pass_conserves: for ANY rule list satisfying the table obligations (ii)-(iv), ANY matcher whose mappings satisfy
   match_ok (distinct atoms; element, metal-ness and constrained charge of every pattern atom; adjacency of pattern
   bonds) and that is silent on unbalanced rules, ANY hydrogen calculator: a private __standardize pass over a
   duplicate-free molecule NEVER FAILS and conserves skeleton, adjacency and net charge.  In particular the non-atomic
   `bad charge formed` rollback (defect 10 of DESIGN section 8) cannot leave a half-applied patch: obligation (iii)
   puts the only atom that can overflow first *)
Theorem C14_pass_conserves : forall matches calc_h stage rules fix_taut g,
  (forall r, In r rules -> rule_ok r = true) ->
  (forall stage ridx r g mp, In r rules -> In mp (matches stage ridx r g) -> match_ok r g mp = true) ->
  (forall stage ridx r g, In r rules -> delta_sum r <> 0 -> matches stage ridx r g = []) ->
  NoDup (ids g) ->
  exists g' log fixed, standardize_pass matches calc_h stage rules fix_taut g = Ok (g', log, fixed) /\ conserved g g'.
Proof. exact (fun matches calc_h stage rules fix_taut g => pass_conserves matches calc_h stage rules fix_taut g). Qed.
Print Assumptions C14_pass_conserves.

(* the pass sequence of standardize() (double, double again when the first shot fixed something, single, metal) with the
   REAL regenerated rule collections: never fails, conserves skeleton, adjacency and net charge, for any sound matcher
   that never matches a pattern whose centre atom has no valence state (valence-valid input) *)
Theorem C14_standardize_real_conserves : forall matches calc_h fix_taut g,
  (forall stage ridx r g mp, In r (double_rules ++ single_rules ++ metal_rules) -> In mp (matches stage ridx r g) -> match_ok r g mp = true) ->
  (forall stage ridx r g, In r (double_rules ++ single_rules ++ metal_rules) -> centre_invalid r = true -> matches stage ridx r g = []) ->
  NoDup (ids g) ->
  exists g' log fixed,
    standardize_passes matches calc_h double_rules single_rules metal_rules fix_taut g = Ok (g', log, fixed) /\ conserved g g'.
Proof. exact standardize_real_conserves. Qed.
Print Assumptions C14_standardize_real_conserves.

(* non-vacuity: the hypotheses are met by a matcher that does match (nitromethane spelled C-N(=O)=O, both embeddings of
   the nitro rule offered; the second is skipped as overlapping; N becomes +1, one O becomes -1, the N-O bond single) *)
Theorem C14_conserves_nonvacuous :
  (forall stage ridx r g mp, In r (double_rules ++ single_rules ++ metal_rules) -> In mp (nitro_matches stage ridx r g) -> match_ok r g mp = true) /\
  (forall stage ridx r g, In r (double_rules ++ single_rules ++ metal_rules) -> centre_invalid r = true -> nitro_matches stage ridx r g = []) /\
  NoDup (ids nitro_mol) /\
  exists g' log fixed,
    standardize_passes nitro_matches (fun _ _ => Some 0) double_rules single_rules metal_rules true nitro_mol = Ok (g', log, fixed) /\
    List.length log = 1%nat /\ charge_of g' 2 = Some 1 /\ charge_of g' 3 = Some (-1) /\ charge_of g' 4 = Some 0 /\
    bond_of g' 2 3 = Some (mkBond 1 None) /\ total_charge g' = total_charge nitro_mol.
Proof. exact conserves_nonvacuous. Qed.
Print Assumptions C14_conserves_nonvacuous.

(* resonance_conserves: applying a found delocalisation path (charged: exit atom -1, entry atom +1, bond orders along the
   path; radical: both ends lose the radical mark) conserves skeleton, adjacency and net charge.  The path SEARCH is not
   modelled. *)
Theorem C14_resonance_conserves : forall g n p g', NoDup (ids g) ->
  (apply_charge_path g n p = Ok g' -> conserved g g') /\ (apply_radical_path g n p = Ok g' -> conserved g g').
Proof. exact (fun g n p g' Hnd => conj (charge_path_conserves g n p g' Hnd) (radical_path_conserves g n p g' Hnd)). Qed.
Print Assumptions C14_resonance_conserves.

(* standardize_charges: one accepted match discharges an atom the pattern requires to be +1 and charges an atom the pattern
   requires to be neutral (table theorem C14_table_charged_balanced): the net charge is conserved *)
Theorem C14_charged_patch_conserves : forall g d u ad au,
  NoDup (ids g) -> d <> u -> atom_of g d = Some ad -> atom_of g u = Some au -> a_chg ad = 1 -> a_chg au = 0 ->
  conserved g (charged_patch g d u).
Proof. exact charged_patch_conserves. Qed.
Print Assumptions C14_charged_patch_conserves.

(* ================= extension round ================= *)

(* ---- hydrogens ---- *)
(* explicify_hydrogens: the non-hydrogen atoms (number, element, isotope, charge, radical state, in order), the net charge
   and the total hydrogen count (implicit + hydrogen atoms) are conserved, and no implicit hydrogen is left.
   Hypothesis forced by the proof: every hydrogen count is known and not negative (None raises ValenceError). *)
Theorem C14_explicify_conserves : forall g g',
  (forall na, In na (m_atoms g) -> exists h, a_h (snd na) = Some h /\ 0 <= h) -> explicify g = Ok g' ->
  heavy_view (m_atoms g') = heavy_view (m_atoms g) /\ total_charge g' = total_charge g /\ total_h g' = total_h g /\
  implicit_sum (m_atoms g') = 0.
Proof. exact explicify_conserves. Qed.
Print Assumptions C14_explicify_conserves.

(* implicify_hydrogens, for ANY valence lookup: no non-hydrogen atom is removed or changed in number, element, isotope,
   charge or radical state *)
Theorem C14_implicify_heavy : forall vlookup g g', NoDup (ids g) -> implicify vlookup g = Ok g' ->
  heavy_view (m_atoms g') = heavy_view (m_atoms g).
Proof. exact implicify_heavy. Qed.
Print Assumptions C14_implicify_heavy.

(* ---- idempotence of the pass sequence ---- *)
(* for ANY rule tables, matcher and hydrogen calculator: the four-pass sequence over a molecule that no left-hand side
   matches is the identity with an empty log; so the sequence is idempotent whenever its output is matched by no left-hand side *)
Theorem C14_passes_fixpoint : forall matches calc_h dbl sgl mtl ft g,
  (forall stage ridx r, In r (dbl ++ sgl ++ mtl) -> matches stage ridx r g = []) ->
  standardize_passes matches calc_h dbl sgl mtl ft g = Ok (g, [], []).
Proof. exact passes_fixpoint. Qed.
Print Assumptions C14_passes_fixpoint.

(* ---- the whole engine inside Coq (brute-force matcher specification Model.StandardizeMatch + Model.Valence), every rule of
        the regenerated tables on its own instantiation, variants 0 1 2 ---- *)
(* (2) hydrogen balance: a rule that matches its valence-valid instantiation leaves the total hydrogen count unchanged through
   standardize()'s pass sequence, except exactly the four listed rules (with the listed amounts); the result is valence-valid
   except after the two listed metal pi-complex rules (the metal cation they form has no valence state) *)
Theorem C14_table_h_balance : forall v r, In v [0; 1; 2]%nat -> In r (double_rules ++ single_rules ++ metal_rules) ->
  let rp := report_of v r in
  fires v r = true -> rp_valid rp = true ->
  rp_ok rp = true /\
  (rp_dh rp = 0 \/ In (r_name r, rp_dh rp)
     [("[N;D1;z2;x1;+]=[N;D2;x1;z2]", -2); ("[C;D2;z2;x2;-]([N;D1,D2;z1;+])=[O;D1]", -2);
      ("[O;D1;z1;x1;-][N;D2;z1;+]", -2); ("[C;D1;x1;z2]=[O;D1] |^1:0|", -1)]%string) /\
  (rp_valid_after rp = true \/ In (r_name r)
     ["[M:1]~1~2~3~4~[C:2]-5-[C:3]~1=[C:4]~2-[C:5]~3=[C:6]~4-5 |^1:1|"; "[M:1]~1~2~[C;z2:2]=[C:3]~1-[C:4]~2 |^1:3|"]%string).
Proof. exact table_h_balance. Qed.
Print Assumptions C14_table_h_balance.

(* (3) a rule that matches its instantiation gives a result that no left-hand side matches -- and a second run of the pass
   sequence is then the identity -- except exactly the two listed tautomer rules, whose result the listed left-hand side
   matches again (hydroxy-azine / enol ping-pong inside one pass) *)
Theorem C14_table_rhs_matches_no_lhs : forall v r, In v [0; 1; 2]%nat -> In r (double_rules ++ single_rules ++ metal_rules) ->
  fires v r = true ->
  (exists g1 log fixed, bf_passes (vinstantiate v r) = Ok (g1, log, fixed) /\ lhs_hits g1 = [] /\ bf_passes g1 = Ok (g1, [], [])) \/
  In (r_name r, rp_lhs_after (report_of v r))
     [("[O,S,N;D1;z2;x0]=[C;D3;r6]1[N;D2;z1][A;z2]-,=[A;z2][A;z2]-,=[A;z2]1", ["[N;z2]=[C;D2,D3;z2]-[O,S;D1]"]);
      ("[O,S,N;D1;z2;x0]=[C;D3;r6]1[N;D2;z2]=[A;z2][A;z2]-,=[A;z2][C;D2,D3;z1]1", ["[O;D1;x0;z1]-[C;D3;z2;x2](-[O,N])=C"])]%string.
Proof. exact table_rhs_matches_no_lhs. Qed.
Print Assumptions C14_table_rhs_matches_no_lhs.

(* the exception lists are exact (every listed rule occurs with the listed amount / left-hand side), the rules changing the
   net charge are exactly the five unbalanced ones, and the sweeps are not vacuous: at least 90 rules match their own
   instantiation, at least 30 of them on a valence-valid one *)
Theorem C14_table_exceptions_exact :
  fst (fst (fst (fst (fst (fst (table_summary 0)))))) = h_exceptions /\
  snd (fst (fst (fst (fst (fst (table_summary 1)))))) = lhs_exceptions /\
  snd (fst (fst (fst (table_summary 0)))) = invalid_after_exceptions /\
  map fst (snd (fst (fst (fst (fst (table_summary 0)))))) = unbalanced_names /\
  (90 <=? List.length (filter (fires 0) table_rules))%nat = true /\
  (30 <=? List.length (filter (fun r => fires 0 r && rp_valid (report_of 0 r)) table_rules))%nat = true.
Proof. exact table_exact. Qed.
Print Assumptions C14_table_exceptions_exact.

(* the hypotheses of the general inverse law (C14_explicify_implicify_inverse below) hold widely: FINITE instance, with the real valence tables as the lookup: on
   every valence-valid, hydrogen-atom-free instantiation of a rule of the regenerated tables (three variants) and on what the
   pass sequence makes of it, implicify (explicify g) = g (dictionaries in the same order) and explicify of that gives the
   explicit form back; at least 40 of the instantiations have hydrogens to move. *)
Theorem C14_inverse_on_rule_instantiations :
  (forall v r, In v [0; 1; 2]%nat -> In r (double_rules ++ single_rules ++ metal_rules) ->
     let g := vinstantiate v r in all_valid g = true -> no_h_atoms g = true -> inverse_b g = true) /\
  forallb (fun v => forallb (fun r => let x := inverse_report v r in snd (fst x) && snd x) table_rules) [0; 1; 2]%nat = true /\
  (40 <=? List.length (filter (fun vr => fst (fst (inverse_report (fst vr) (snd vr))))
                              (flat_map (fun v => map (fun r => (v, r)) table_rules) [0; 1; 2]%nat)))%nat = true.
Proof. exact (conj inverse_on_instantiations inverse_sweep_b). Qed.
Print Assumptions C14_inverse_on_rule_instantiations.

(* explicify_hydrogens is idempotent (for ALL molecules with known, non-negative hydrogen counts): a second application adds
   nothing and returns the same molecule *)
Theorem C14_explicify_idempotent : forall g g',
  (forall na, In na (m_atoms g) -> exists h, a_h (snd na) = Some h /\ 0 <= h) -> explicify g = Ok g' -> explicify g' = Ok g'.
Proof. exact explicify_idempotent. Qed.
Print Assumptions C14_explicify_idempotent.

(* implicify_hydrogens on a molecule without protium atoms is the identity, for ANY valence lookup (so implicify is idempotent
   whenever its first application removed every protium atom) *)
Theorem C14_implicify_no_protium : forall vlookup g,
  (forall na, In na (m_atoms g) -> is_protium (snd na) = false) -> implicify vlookup g = Ok g.
Proof. exact implicify_no_protium. Qed.
Print Assumptions C14_implicify_no_protium.

(* ---- neutralisation (third wave) ---- *)
(* protons moved from the sites `minus` to the disjoint sites `plus` (sites = atoms with a known hydrogen count): atom numbers,
   elements, isotopes and the adjacency are unchanged; net charge and total hydrogen count BOTH change by #plus - #minus
   ("neutralisation changes both by the same number of protons") *)
Theorem C14_move_protons_balance : forall g minus plus,
  NoDup (ids g) -> NoDup minus -> NoDup plus -> (forall n, In n minus -> ~ In n plus) -> sites_ok g minus -> sites_ok g plus ->
  let g' := move_protons g minus plus in
  let d := Z.of_nat (List.length plus) - Z.of_nat (List.length minus) in
  skeleton g' = skeleton g /\ m_adj g' = m_adj g /\ total_charge g' = total_charge g + d /\ total_h g' = total_h g + d.
Proof. exact move_protons_balance. Qed.
Print Assumptions C14_move_protons_balance.

(* neutralize(keep_charge=True) (model of AcidBase._neutralize; donor / acceptor sites and the chosen combination of the larger
   side are inputs): balanced, more donors or more acceptors -- net charge and hydrogen count are conserved *)
Theorem C14_neutralize_keep_conserves : forall g donors acceptors chosen g',
  NoDup (ids g) -> NoDup donors -> NoDup acceptors -> NoDup chosen ->
  (forall n, In n donors -> ~ In n acceptors) ->
  (forall n, In n chosen -> if (List.length acceptors <? List.length donors)%nat then In n donors else In n acceptors) ->
  List.length chosen = Nat.min (List.length donors) (List.length acceptors) ->
  sites_ok g donors -> sites_ok g acceptors ->
  neutralize_model true g donors acceptors chosen = Some g' ->
  skeleton g' = skeleton g /\ m_adj g' = m_adj g /\ total_charge g' = total_charge g /\ total_h g' = total_h g.
Proof. exact neutralize_keep_conserves. Qed.
Print Assumptions C14_neutralize_keep_conserves.

(* ================= round 3: no oracle for the matcher ================= *)

(* the executable matcher specification (brute-force embeddings, Model.StandardizeMatch) satisfies the matcher hypothesis
   match_ok of the conservation theorems for EVERY molecule, rule of the tables and ring-size function *)
Theorem C14_spec_matcher_sound : forall (rings : mol -> Z -> list Z) stage ridx r g mp,
  In r (double_rules ++ single_rules ++ metal_rules) -> In mp (spec_matches rings stage ridx r g) -> match_ok r g mp = true.
Proof. exact spec_matcher_sound. Qed.
Print Assumptions C14_spec_matcher_sound.

(* no hypothesis about the matcher left: for EVERY molecule with distinct atom numbers, every ring-size function and every
   hydrogen calculator, standardize()'s four passes over the regenerated tables with the specified matcher (the five unbalanced
   rules, which cannot match a valence-valid molecule, switched off) never fail and conserve atom numbers, order, elements,
   isotopes, adjacency and net charge *)
Theorem C14_engine_conserves : forall (rings : mol -> Z -> list Z) calc_h fix_taut g, NoDup (ids g) ->
  exists g' log fixed,
    standardize_passes (valid_matches rings) calc_h double_rules single_rules metal_rules fix_taut g = Ok (g', log, fixed) /\
    conserved g g'.
Proof. exact engine_conserves. Qed.
Print Assumptions C14_engine_conserves.

(* non-vacuity: with brute-force ring sizes and the C04 hydrogen model the engine converts nitromethane spelled C-N(=O)=O *)
Theorem C14_engine_example :
  exists g' log fixed,
    standardize_passes (valid_matches rings_bf) calc_h double_rules single_rules metal_rules true (recalc calc_h nitro_mol (ids nitro_mol)) = Ok (g', log, fixed) /\
    List.length log = 1%nat /\ charge_of g' 2 = Some 1 /\ total_charge g' = 0 /\
    (charge_of g' 3 = Some (-1) \/ charge_of g' 4 = Some (-1)).
Proof. exact engine_example. Qed.
Print Assumptions C14_engine_example.

(* ================= round 3: hand-copied constants tied to the source ================= *)
(* Gen.C14Consts is regenerated on every run from the SOURCE (tools/gen_c14consts.py, Python ast, fail closed) *)

(* the charge bound of `if a.charge > 4` is the bound of the model's patch loop (and of table obligation (ii)) *)
Theorem C14_src_bad_charge_bound : forall mp e fx g hs n a,
  zget mp (af_atom e) = Some n -> atom_of g n = Some a ->
  afix_loop mp (e :: fx) g hs =
    if a_chg a + af_delta e >? src_charge_limit then AfBad g (add_set n hs)
    else afix_loop mp fx (upd_atom g n (set_chg_rad (a_chg a + af_delta e) (af_rad e))) (add_set n hs).
Proof. exact src_afix_bad_charge. Qed.
Print Assumptions C14_src_bad_charge_bound.

(* implicify / explicify: the hydrogen atomic number, the protium isotope, max(atoms) + 1, _H(implicit_hydrogens=0), Bond(1) *)
Theorem C14_src_hydrogen_constants :
  (forall a, is_protium a = (a_num a =? src_atomic_number_h) && match a_iso a with None => true | Some i => i =? src_protium_isotope end) /\
  (forall g ns, to_add (m_atoms g) = Ok ns -> ns <> [] -> explicify g = Ok (add_hs g ns (zmax (ids g) + src_new_atom_offset))) /\
  h_atom = mkAtom src_atomic_number_h None 0 false (Some src_new_h_implicit) None /\ single = mkBond src_new_bond_order None /\
  (forall g n m b rest d, b_ord b = src_special_order -> scan_h_bonds g n ((m, b) :: rest) d = scan_h_bonds g n rest d).
Proof. exact (conj src_is_protium (conj src_explicify_shape (conj (proj1 src_new_hydrogen) (conj (proj2 src_new_hydrogen) src_scan_special)))). Qed.
Print Assumptions C14_src_hydrogen_constants.

(* the proton / charge steps of _neutralize, fix_resonance and standardize_charges *)
Theorem C14_src_charge_steps :
  (forall g minus plus, move_protons g minus plus = shift_all src_acceptor_step (shift_all src_donor_step g minus) plus) /\
  (forall g d u, charged_patch g d u = upd_atom (upd_atom g d (set_chg src_discharged_value)) u (set_chg src_charged_value)) /\
  (forall g n p am an, atom_of g (path_end n p) = Some am -> atom_of g n = Some an ->
     apply_charge_path g n p =
       apply_orders (upd_atom (upd_atom g (path_end n p) (fun a => set_chg (a_chg a + src_resonance_exit_step) a)) n
                              (fun a => set_chg (a_chg a + src_resonance_entry_step) a)) p).
Proof. exact (conj src_move_protons (conj src_charged_patch src_charge_path)). Qed.
Print Assumptions C14_src_charge_steps.

(* the attributes the four query-atom __eq__ methods read, in source order = the tests of Model.StandardizeMatch.atom_match *)
Theorem C14_src_query_shapes :
  src_eq_AnyMetal = ["is_forming_single_bonds"; "neighbors"; "hybridization"]%string /\
  src_eq_AnyElement = ["charge"; "is_radical"; "neighbors"; "hybridization"; "ring_sizes"; "implicit_hydrogens"; "heteroatoms"]%string /\
  src_eq_ListElement = ["atomic_number"; "charge"; "is_radical"; "neighbors"; "hybridization"; "ring_sizes"; "implicit_hydrogens"; "heteroatoms"]%string /\
  src_eq_QueryElement = ["atomic_number"; "charge"; "is_radical"; "isotope"; "neighbors"; "hybridization"; "ring_sizes"; "implicit_hydrogens"; "heteroatoms"]%string.
Proof. exact src_query_shapes. Qed.
Print Assumptions C14_src_query_shapes.

(* ================= round 3: hydrogen balance of implicify_hydrogens ================= *)
(* implicify_hydrogens conserves the total hydrogen count (implicit + hydrogen atoms), for ALL molecules with distinct atom
   numbers whose hydrogen atoms carry no implicit hydrogens, under the hypothesis the proof forces on the valence lookup
   (balanced_lookup): for the hydrogens hs the scan recorded for an atom, the rule accepted after taking j of them away gives
   exactly `hydrogens the atom had + j` (true for the common valences: count = valence - explicit bonds; replayed on the real
   code by the search: hydrogen count of implicify on every valence-valid input).  The proof shows on the way that every
   hydrogen is recorded for at most one atom, that only hydrogen atoms are deleted and only non-hydrogen atoms get a new count. *)
Theorem C14_implicify_total_h : forall vlookup g g',
  NoDup (ids g) -> (forall n a, atom_of g n = Some a -> a_num a = 1 -> hval a = 0) ->
  (forall ex, scan_explicit g (m_atoms g) [] = Ok ex -> balanced_lookup vlookup g ex) ->
  implicify vlookup g = Ok g' -> total_h g' = total_h g.
Proof. exact implicify_total_h. Qed.
Print Assumptions C14_implicify_total_h.

(* non-vacuity: the hypothesis holds for the REAL valence tables on explicit methane; implicify gives methane back *)
Theorem C14_implicify_total_h_example :
  (forall ex, scan_explicit methane_explicit (m_atoms methane_explicit) [] = Ok ex -> balanced_lookup real_vlookup methane_explicit ex) /\
  List.length (m_atoms methane_explicit) = 5%nat /\ total_h methane_explicit = 4 /\
  exists g', implicify real_vlookup methane_explicit = Ok g' /\ List.length (m_atoms g') = 1%nat /\ total_h g' = 4 /\ mol_eqb g' methane = true.
Proof. exact implicify_total_h_example. Qed.
Print Assumptions C14_implicify_total_h_example.

(* ================= round 3: explicify_implicify_inverse, general ================= *)
(* for EVERY molecule without hydrogen atoms, with distinct atom numbers, whose adjacency lists exactly its atoms and their
   neighbours, whose hydrogen counts are known, not negative and first-rule counts (the hypothesis the proof forces: for an atom
   with h > 0 hydrogens the first rule of the valence lookup that matches its heavy environment with at least h hydrogens has
   exactly h; replayed on the real code by the search oracle `explicify / implicify are mutually inverse`):
   implicify_hydrogens (explicify_hydrogens g) = g EXACTLY -- atoms, hydrogen counts, both dictionaries in their order *)
Theorem C14_explicify_implicify_inverse : forall vlookup g g',
  NoDup (ids g) -> keys (m_adj g) = ids g ->
  (forall k l x, In (k, l) (m_adj g) -> In x (keys l) -> In x (ids g)) ->
  (forall k a, In (k, a) (m_atoms g) -> a_num a <> 1) ->
  (forall na, In na (m_atoms g) -> exists h, a_h (snd na) = Some h /\ 0 <= h) ->
  (forall n a h, In (n, a) (m_atoms g) -> a_h a = Some h -> 0 < h -> vlookup (set_h (Some 0) a) (env_without g n []) h = VSome h) ->
  explicify g = Ok g' -> implicify vlookup g' = Ok g.
Proof. exact explicify_implicify_inverse. Qed.
Print Assumptions C14_explicify_implicify_inverse.

(* non-vacuity: all hypotheses hold for ethanol with the REAL valence tables; six hydrogens are added and removed again *)
Theorem C14_inverse_example :
  exists g', explicify ethanol = Ok g' /\ List.length (m_atoms g') = 9%nat /\ implicify real_vlookup g' = Ok ethanol.
Proof. exact inverse_example. Qed.
Print Assumptions C14_inverse_example.

(* ================= round 4: standardize_charges, loop bodies TRANSLATED from the source ================= *)
(* tools/gen_c14charges.py translates the bodies of the three loops of Standardize.standardize_charges statement by statement on every
   run (Gen.C14Charges: the loop over fixed_rules, the loop over morgan_rules, the assignment of the recorded pairs by canonical order).
   The translated bodies ARE the hand-written model, and the whole heterocycle part run with them is the model the theorems below are
   about: a behaviour-changing edit of these source lines breaks this theorem *)
Theorem C14_charges_translated :
  (forall fx mp st, g_fixed_step fx mp st = fixed_step fx mp st) /\
  (forall fx mp st, g_morgan_step fx mp st = morgan_step fx mp st) /\
  (forall order p st, g_morgan_assign order p st = morgan_assign order p st) /\
  (forall yf ym order g, charges_with g_fixed_step g_morgan_step g_morgan_assign fixed_rules morgan_rules yf ym order g
                         = standardize_charges_model yf ym order g).
Proof. exact (conj gen_fixed_step_eq (conj gen_morgan_step_eq (conj gen_morgan_assign_eq gen_charges_eq))). Qed.
Print Assumptions C14_charges_translated.

(* for EVERY molecule, EVERY matcher output (any lists of mappings), EVERY canonical order and EVERY pair of rule tables: when the
   heterocycle part of standardize_charges returns, the atoms are the same in the same order, each keeps element / isotope / radical
   state / hydrogen count / stereo label, the bonds are untouched, and an atom outside `touched` keeps its charge too *)
Theorem C14_charges_frame : forall ftable mtable yf ym order g st,
  charges_with fixed_step morgan_step morgan_assign ftable mtable yf ym order g = Ok st ->
  exists touched, frame g (cs_mol st) touched.
Proof. exact charges_frame. Qed.
Print Assumptions C14_charges_frame.

Theorem C14_charges_conserve_atoms_and_bonds : forall yf ym order g st,
  standardize_charges_model yf ym order g = Ok st ->
  skeleton (cs_mol st) = skeleton g /\ graph_of (cs_mol st) = graph_of g /\ m_adj (cs_mol st) = m_adj g.
Proof. exact charges_conserve_atoms_and_bonds. Qed.
Print Assumptions C14_charges_conserve_atoms_and_bonds.

(* the regenerated charge tables name the pattern atoms the loop bodies read (1, 2, and 3 when fix) ... *)
Theorem C14_table_charged_keys : forallb crule_keys_ok fixed_rules = true /\ forallb crule_keys_ok morgan_rules = true.
Proof. exact table_crule_keys_b. Qed.
Print Assumptions C14_table_charged_keys.

(* ... so for EVERY molecule, canonical order and matcher whose mappings are total on the pattern atoms, the heterocycle part of
   standardize_charges over the regenerated tables never fails *)
Theorem C14_charges_never_fail : forall yf ym order g,
  yielded_ok fixed_rules yf -> yielded_ok morgan_rules ym -> exists st, standardize_charges_model yf ym order g = Ok st.
Proof. exact charges_never_fail. Qed.
Print Assumptions C14_charges_never_fail.

(* one accepted match of a fixed rule: if the charges are what the pattern says (C14_table_charged_balanced: the discharged atom +1,
   atom 2 neutral), atoms / elements / isotopes / adjacency / NET CHARGE are conserved; a match that is not accepted changes nothing.
   _partial: the whole-loop net-charge statement needs `the charges are as the pattern says at the moment of every later match`,
   which is a property of the matcher on the intermediate molecules (two matches sharing at most two atoms), not proved *)
Theorem C14_charges_fixed_step_conserves_partial : forall fx mp st st' a1 a2 d ad au,
  fixed_step fx mp st = Ok st' ->
  accept mp st = Ok (mkCS (cs_mol st) (seen_update (cs_seen st) (match_set mp)) (cs_changed st) (cs_pairs st), Some (a1, a2)) ->
  (if fx then zget mp 3 else Some a1) = Some d ->
  NoDup (ids (cs_mol st)) -> d <> a2 -> atom_of (cs_mol st) d = Some ad -> atom_of (cs_mol st) a2 = Some au -> a_chg ad = 1 -> a_chg au = 0 ->
  conserved (cs_mol st) (cs_mol st').
Proof. exact fixed_step_conserves. Qed.
Print Assumptions C14_charges_fixed_step_conserves_partial.

Theorem C14_charges_skipped_match : forall fx mp st st1,
  accept mp st = Ok (st1, None) -> fixed_step fx mp st = Ok st1 /\ cs_mol st1 = cs_mol st /\ cs_changed st1 = cs_changed st.
Proof. exact fixed_step_skip. Qed.
Print Assumptions C14_charges_skipped_match.

(* a morgan rule: the recorded pair loses the +1 of the discharged atom and the assignment gives it to atom 1 or atom 2, whichever the
   canonical order prefers: conserved for EVERY order *)
Theorem C14_charges_morgan_pair_conserves_partial : forall order g a1 a2 d fx ad,
  NoDup (ids g) -> atom_of g d = Some ad -> a_chg ad = 1 ->
  (forall x ax, (x = a1 \/ x = a2) -> atom_of (set_charge g d 0) x = Some ax -> a_chg ax = 0) ->
  (exists x1, atom_of g a1 = Some x1) -> (exists x2, atom_of g a2 = Some x2) ->
  forall st', morgan_assign order (a1, a2, fx) (mkCS (set_charge g d 0) [] [] []) = Ok st' -> conserved g (cs_mol st').
Proof. exact morgan_record_assign_conserves. Qed.
Print Assumptions C14_charges_morgan_pair_conserves_partial.

(* non-vacuity: recorded runs of the real code (a fixed rule with fix = True; the pyrazolium rule under both canonical orders) *)
Theorem C14_charges_example_fixed :
  exists st, standardize_charges_model ex_fixed_yf ex_fixed_ym (fun _ => 0) ex_fixed_g = Ok st /\
             cs_changed st = [3; 2] /\ charge_of (cs_mol st) 3 = Some 0 /\ charge_of (cs_mol st) 2 = Some 1 /\
             total_charge (cs_mol st) = total_charge ex_fixed_g /\ cs_pairs st = [].
Proof. exact charges_example_fixed. Qed.
Print Assumptions C14_charges_example_fixed.

Theorem C14_charges_example_morgan :
  (exists st, standardize_charges_model [] ex_morgan_ym (ex_order false) ex_morgan_g = Ok st /\ cs_pairs st = [(1, 2, false)] /\
              cs_changed st = [] /\ charge_of (cs_mol st) 1 = Some 1 /\ total_charge (cs_mol st) = total_charge ex_morgan_g) /\
  (exists st, standardize_charges_model [] ex_morgan_ym (ex_order true) ex_morgan_g = Ok st /\
              cs_changed st = [2; 1] /\ charge_of (cs_mol st) 1 = Some 0 /\ charge_of (cs_mol st) 2 = Some 1 /\
              total_charge (cs_mol st) = total_charge ex_morgan_g).
Proof. exact charges_example_morgan. Qed.
Print Assumptions C14_charges_example_morgan.

(* WHOLE CALL, net charge (round 4): for EVERY molecule with distinct atom numbers, EVERY matcher output and EVERY canonical order, if at the
   moment of every accepted match the charges are what the pattern says (charges_pre: executable; the discharged atom +1, the receiving
   atom neutral and another atom; the nitrogen chosen by the canonical order neutral) the heterocycle part of standardize_charges conserves
   atoms / elements / isotopes / adjacency AND the net charge.  The hypothesis is about the matcher on the intermediate molecules; the
   correspondence evaluates it on every recorded run of the real code (charges_pre_ok) *)
Theorem C14_charges_conserved : forall yf ym order g st,
  NoDup (ids g) -> charges_pre yf ym order g = true -> standardize_charges_model yf ym order g = Ok st -> conserved g (cs_mol st).
Proof. exact charges_conserved. Qed.
Print Assumptions C14_charges_conserved.

Theorem C14_charges_conserved_example :
  charges_pre ex_fixed_yf ex_fixed_ym (fun _ => 0) ex_fixed_g = true /\ NoDup (ids ex_fixed_g) /\
  charges_pre [] ex_morgan_ym (ex_order true) ex_morgan_g = true /\ NoDup (ids ex_morgan_g).
Proof. exact charges_conserved_example. Qed.
Print Assumptions C14_charges_conserved_example.

(* ---- the ferrocene block of standardize_charges (hand model Model.StandardizeFerrocene; SSSR and canonical order are inputs) ---- *)
(* for EVERY ring list, canonical order and molecule the block changes nothing but charges *)
Theorem C14_ferrocene_frame : forall sssr order g changed, exists touched, frame g (fs_mol (ferrocene_block sssr order g changed)) touched.
Proof. exact ferrocene_frame. Qed.
Print Assumptions C14_ferrocene_frame.

(* ... and conserves the net charge when every carbon that gets a ring's charge back is neutral at that moment (ferrocene_pre, executable,
   evaluated on every recorded run: charges_full_ok) *)
Theorem C14_ferrocene_conserved : forall sssr order g changed,
  NoDup (ids g) -> ferrocene_pre sssr order g changed = true -> conserved g (fs_mol (ferrocene_block sssr order g changed)).
Proof. exact ferrocene_conserved. Qed.
Print Assumptions C14_ferrocene_conserved.

(* the WHOLE of standardize_charges after thiele(): heterocycle loops (bodies translated from the source), then the ferrocene block *)
Theorem C14_charges_full_conserved : forall yf ym order order_f sssr g st,
  NoDup (ids g) -> charges_pre yf ym order g = true -> standardize_charges_model yf ym order g = Ok st ->
  ferrocene_pre sssr order_f (cs_mol st) (cs_changed st) = true ->
  conserved g (fs_mol (ferrocene_block sssr order_f (cs_mol st) (cs_changed st))).
Proof. exact charges_full_conserved. Qed.
Print Assumptions C14_charges_full_conserved.

Theorem C14_ferrocene_example :
  let order := fun n => match zget [(1, 6); (2, 5); (3, 3); (6, 3); (4, 1); (5, 1)] n with Some r => r | None => 0 end in
  let fs := ferrocene_block [[2; 3; 4; 5; 6]] order ex_cp_g [] in
  fs_changed fs = [2; 4] /\ chg_of (fs_mol fs) 2 = 0 /\ chg_of (fs_mol fs) 4 = -1 /\ total_charge (fs_mol fs) = -1 /\
  ferrocene_pre [[2; 3; 4; 5; 6]] order ex_cp_g [] = true.
Proof. exact ferrocene_example. Qed.
Print Assumptions C14_ferrocene_example.
